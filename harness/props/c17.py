"""C17  Cross-document transfer yields a closed, faithful copy (DESIGN.md section 7, C17)."""
from __future__ import annotations

import difflib
import io
import logging
import os
import random
import tempfile

import dxfparse
from leanfmt import cps, lean_list

ID = "C17"
LEAN_MODULES = ["EzdxfVerif.Props.C17"]
DRIVER_DEPS = ["EzdxfVerif.Model.Xref", "EzdxfVerif.Model.XrefOv", "EzdxfVerif.Gen.XrefTables", "EzdxfVerif.Gen.XrefOverrides", "Drivers.Proto"]
RULE = (
    "correspondence (Lean driver C17 vs real code): X1 _Transfer.map_pointers (tags over all pointer-class boundaries 319/320/329/330/.../481/482/1005, "
    "handle maps with hits, misses and '0', owner side effect on real target objects), DXFEntity.map_resources (XDATA 1005/1003, reactors), "
    "map_existing_handle; X2 get_unique_table_name on a real LayerTable and get_unique_dict_key on a real Dictionary with 0..12 occupied candidate slots in "
    "mixed letter case; X3 the decisions and final key order of real Loader runs (layers, linetypes, styles/dimstyles, blocks incl. anonymous, materials, "
    "mline/mleader styles; special names; 3 policies; xref prefixes) vs registerAll; X4 the abstract transfer (surviving copies, redirected handle mapping, "
    "XDATA handle fields of every copy, BLOCK/ENDBLK/content of every copied block record, crash class) of real Loader runs vs Model.transfer with the probed "
    "guards/discards flags. non-trivial = input reaches a non-default branch (pointer code present / clash / renaming policy / redirection); distinct by "
    "hash of the request line. oracle: generated source documents (nested blocks, attribs, shared layers/linetypes/styles/dimstyles, complex linetypes, XDATA 1005 "
    "to loaded / not loaded / in-block entities, extension dictionaries with XRECORD 330/331/340/350/360/320 pointers and nested dictionaries, reactors, groups, "
    "dimensions with anonymous blocks and user arrows, associative hatches, images, underlays, materials, MLINE/MLEADER styles, leaders, tolerances, paperspace "
    "with viewports, case-variant names; source handles >= 0xA000 so that a leak is detectable) into non-empty targets with clashing names (also '$0$name' "
    "occupied) x {load_modelspace, filtered, load_paperspace, Loader mix into a block, load_block_layout(_into), all resources, write_block, detach+embed, "
    "Importer} x 3 policies x version pairs R2000..R2018: source snapshot unchanged; written target passes harness/dxfparse.check_file, audit clean; every "
    "pointer-code tag / XDATA 1005 of every new record resolves or is 0; per transferred record tag-by-tag: pointers = sigma(source pointer) or 0, other tags "
    "equal, names mapped as the policy prescribes; block contents and layout order are the image of the source; referenced resources exist. "
    "Session 3: regenerate() also extracts EVERY register_resources/map_resources override (T-ast, harness/translate/overrides_c17.py) joined with the live "
    "DXFATTRIBS into Gen/XrefOverrides.lean (92 entity types; version gates translated); generator features chain / blk_refs / softdict / sortents / dictdflt / "
    "solid3d / vp_frozen, overlapping handle ranges, DXF R12 sources (DSTYLE override lists compared name-form vs handle-form), a pointer nulled although its "
    "referent was transferred is a failure, fixed minimal cases of the session-3 defects; X4 also compares the owner of restored block content; X5: the real "
    "map_resources of every registered copyable entity type that can be instantiated from attributes (54+ types) on generated values of every declared handle "
    "attribute (absent / '0' / copied / not copied) and name attribute (absent / mapped in another letter case / chained / unknown) with a real _Transfer vs "
    "mapAttrs / mapNames over the extracted events (values taken from target objects and statements under undecided tests match anything). "
    "Follow-up: X6 = the decisions of real Loader runs judged by the proven checker of PolicySpec (case variants of every source name in the targets); "
    "oracle: Importer table-entry closure by name (every handle / name inside a new LTYPE / LAYER / STYLE / DIMSTYLE entry refers to the target entry of the "
    "same name), indirectly used resources, targets saved and reloaded before the transfer, the target's own underlay / image definitions."
)
TRUSTED_BASE = [
    "hand model Model/Xref.lean of xref.py (validated by X1-X4, not proved)",
    "T-ast walker harness/translate/overrides_c17.py: statement-level abstraction of the per-entity register_resources/map_resources overrides "
    "(idioms it does not understand become visible 'opaque' events without semantics); its reading of the handle / name statements and their guards is "
    "validated per entity type by correspondence X5 (real map_resources vs Model/XrefOv.lean), not proved; hand-written, examined exception lists "
    "PTR_EXCEPTIONS / NAME_EXCEPTIONS",
    "ASCII case folding stands for str.lower() in make_table_key",
    "harness/dxfparse.py + the tag-level record comparison of harness/props/c17.py (oracle side)",
    "the handle allocation of CopyMachine/factory.bind: WF is no longer a free hypothesis (copy_machine_wf derives it from the model registerInto / "
    "allocate and from 'the generator hands out distinct handles not below a seed above all target handles'); that assumption and WF itself are "
    "checked on the allocation of every real Loader run of X4 by the proven checkers wfB / allocOkB (stream X7)",
]
ASSUMPTIONS = [
    "target DXF version >= source DXF version (documented precondition of the Loader); DXF R12 sources go into every target version",
    "generated names are ASCII and free of backslashes; source documents pass doc.audit() before the transfer",
]
OPEN = [
    "final round: WF and RegsOk are derived (copy_machine_wf, regs_ok_of_keep / regs_ok_of_renaming, transfer_closed_no_free_hypothesis); what is left as "
    "hypothesis are statements about the inputs (valid target, distinct fresh handles, distinct names in one source table); regsOf is definitional glue "
    "between the decisions of section 4 and the registration list of section 5 (both sides tied separately by X3 and X4)",
    "the override table is a statement-level abstraction: opaque / delegated statements (MLEADER context, ACIS conversion, Dictionary entry recursion, "
    "set_required_attributes) have no semantics in the model; handle data outside DXF attributes (GROUP, HATCH paths, SORTENTSTABLE rows, DICTIONARY entries) "
    "is covered by @field events and the oracle, not by registered_types_closed",
    "block_record_restore_transfer takes as hypothesis that no other registered entry claims the same copies (hne / hdis at the level of sigma-images); "
    "deriving it from a well-formed source (each entity in one block) + injectivity of sigma is not done",
    "observation, not fixed: a layer named only by an XDATA 1003 tag is mapped by name but not registered (name exception '@xdata')",
    "a second-level in-object copy (entry of a hard-owner dictionary inside a hard-owner dictionary) gets no entry in the handle mapping: pointers to it become null",
]

logging.getLogger("ezdxf").setLevel(logging.CRITICAL)

SRC_BASE = 0xA000  # every entity the generator adds to a source document has a handle >= SRC_BASE
VERSIONS = ["R2000", "R2004", "R2007", "R2010", "R2013", "R2018"]
ACADVER = {"R12": "AC1009", "R2000": "AC1015", "R2004": "AC1018", "R2007": "AC1021", "R2010": "AC1024",
           "R2013": "AC1027", "R2018": "AC1032"}
POLICIES = ["KEEP", "XREF_PREFIX", "NUM_PREFIX"]

# ------------------------------------------------------------------ pointer classes (harness-owned, from the DXF reference)
def is_ptr(code: int) -> bool:
    """group codes whose value is a handle that the DXF reference says is translated by INSERT/XREF operations"""
    return 330 <= code <= 369 or 390 <= code <= 399 or code in (480, 481, 1005)


def is_arbitrary(code: int) -> bool:
    return 320 <= code <= 329


def norm(h) -> str:
    return str(h).upper().lstrip("0") or "0"


# ================================================================== regenerate: tables and probes from the current source
def regenerate(ctx):
    srcs = ["src/ezdxf/lldxf/types.py", "src/ezdxf/xref.py", "src/ezdxf/entities/blockrecord.py", "src/ezdxf/lldxf/validator.py"]
    for s in srcs:
        ctx.src(s)
    for s in ["src/ezdxf/entities/dxfentity.py", "src/ezdxf/entities/dictionary.py", "src/ezdxf/entities/dxfobj.py",
              "src/ezdxf/entities/layer.py", "src/ezdxf/entities/leader.py", "src/ezdxf/entities/dimension.py",
              "src/ezdxf/entities/dxfgfx.py", "src/ezdxf/addons/importer.py"]:
        ctx.src(s)
    from ezdxf import xref
    from ezdxf.lldxf import types, validator, const
    from ezdxf.entities import BlockRecord

    N = 1072
    big = [c for c in (types.TRANSLATABLE_POINTER_CODES | types.POINTER_CODES) if c >= N]
    if big:
        raise ValueError(f"pointer group codes beyond the tabulated domain: {big}")
    tag = lambda c: types.DXFTag(c, "0")
    tab = {
        "translatableCodes": [c for c in range(N) if types.is_translatable_pointer(tag(c))],
        "pointerCodes": [c for c in range(N) if types.is_pointer_code(c)],
        "softPointerCodes": [c for c in range(N) if types.is_soft_pointer(tag(c))],
        "hardPointerCodes": [c for c in range(N) if types.is_hard_pointer(tag(c))],
        "softOwnerCodes": [c for c in range(N) if types.is_soft_owner(tag(c))],
        "hardOwnerCodes": [c for c in range(N) if types.is_hard_owner(tag(c))],
        "arbitraryCodes": [c for c in range(N) if types.is_arbitrary_pointer(tag(c))],
    }
    # the set the code really consults must be what the predicate function reports
    if sorted(types.TRANSLATABLE_POINTER_CODES) != tab["translatableCodes"]:
        raise ValueError("is_translatable_pointer() disagrees with TRANSLATABLE_POINTER_CODES")
    # probe: does BlockRecord.destroy() tolerate a copied BLOCK_RECORD whose BLOCK/ENDBLK are not restored yet?
    br = BlockRecord.new(handle="FEFE", dxfattribs={"name": "PROBE"})
    try:
        br.destroy()
        guards = True
    except AttributeError:
        guards = False
    # probe: with KEEP and a clashing block name, are the copied BLOCK / ENDBLK / content of the source block gone
    # after the transfer (and the pointers to them null)?  Only observable when the guard exists.
    x = ctx.src("src/ezdxf/xref.py")
    discards = False
    if guards:
        import ezdxf

        s_, t_ = ezdxf.new(), ezdxf.new()
        s_.blocks.new("INNER").add_line((0, 0), (1, 1))
        s_.modelspace().add_blockref("INNER", (0, 0))
        t_.blocks.new("INNER")
        before_ = set(t_.entitydb.keys())
        xref.load_modelspace(s_, t_)
        new_ = [t_.entitydb[h] for h in t_.entitydb.keys() if h not in before_]
        discards = not any(e.dxftype() in ("BLOCK", "ENDBLK", "LINE") for e in new_)
    # probe: a special ("*...") layer that is missing in the target: added unchanged, or sent through the renaming policy?
    import ezdxf as _ez

    s2, t2 = _ez.new(), _ez.new()
    s2.layers.add("*ADSK_PROBE")
    ld = xref.Loader(s2, t2, conflict_policy=xref.ConflictPolicy.XREF_PREFIX)
    ld.load_layers(["*ADSK_PROBE"])
    try:
        ld.execute(xref_prefix="x")
        special_unchanged = t2.layers.has_entry("*ADSK_PROBE")
    except const.DXFValueError:
        special_unchanged = False
    # probes for the fixes in code that the model does not describe (per-entity overrides, Importer): one tiny transfer
    fx = probe_fixes()
    strs = lambda xs: lean_list(f"[{', '.join(str(ord(ch)) for ch in x)}]" for x in xs)
    sample_special = [n for n in ["0", "DEFPOINTS", "*ADSK_SYSTEM_LIGHTS", "*ADSK_CONSTRAINTS", "*ADSK", "ADSK", "*adsk_x", "L1", ""]
                      if validator.is_adsk_special_layer(n)]
    text = f"""
namespace EzdxfVerif.Gen.XrefTables

/-- group codes c < {N} with `is_translatable_pointer(DXFTag(c, "0"))` (= TRANSLATABLE_POINTER_CODES, checked at generation) -/
def translatableCodes : List Nat := {lean_list(map(str, tab["translatableCodes"]), 20)}
def pointerCodes : List Nat := {lean_list(map(str, tab["pointerCodes"]), 20)}
def softPointerCodes : List Nat := {lean_list(map(str, tab["softPointerCodes"]), 20)}
def hardPointerCodes : List Nat := {lean_list(map(str, tab["hardPointerCodes"]), 20)}
def softOwnerCodes : List Nat := {lean_list(map(str, tab["softOwnerCodes"]), 20)}
def hardOwnerCodes : List Nat := {lean_list(map(str, tab["hardOwnerCodes"]), 20)}
def arbitraryCodes : List Nat := {lean_list(map(str, tab["arbitraryCodes"]), 20)}

/-- xref.DEFAULT_LINETYPES (upper case), sorted -/
def defaultLinetypes : List (List Nat) := {strs(sorted(xref.DEFAULT_LINETYPES))}
/-- xref.DEFAULT_LAYER -/
def defaultLayer : List Nat := {strs([xref.DEFAULT_LAYER])[1:-1]}
/-- the layer names `add_layer_entry` compares with `layer.dxf.name.upper()` -/
def specialLayers : List (List Nat) := {strs(["0", "DEFPOINTS"])}
/-- const.INVALID_LAYER_NAME_CHARACTERS (validator.is_adsk_special_layer: leading '*', length > 1, rest without these;
    names containing a backslash take a decoding detour that is outside the model); accepted samples: {sample_special} -/
def invalidNameChars : List Nat := {lean_list(map(str, sorted(ord(ch) for ch in const.INVALID_LAYER_NAME_CHARACTERS)), 20)}
def materialSystemEntries : List (List Nat) := {strs(["GLOBAL", "BYLAYER", "BYBLOCK"])}
def standardName : List Nat := {strs([xref.STANDARD])[1:-1]}

/-- probe: `BlockRecord.destroy()` returns normally for a BLOCK_RECORD whose BLOCK/ENDBLK are still None -/
def destroyGuardsNone : Bool := {str(guards).lower()}
/-- probe: after KEEP with a clashing block name the copied BLOCK / ENDBLK / content are gone from the target database -/
def discardsContentOfKeptBlock : Bool := {str(discards).lower()}
/-- probe: a special layer ("*NAME") missing in the target is added under its own name (false: it is renamed by the
    policy, and "<xref>$0$*NAME" is rejected by the layer-name validator) -/
def specialLayerAddedUnchanged : Bool := {str(special_unchanged).lower()}

/-- behavioural probes of fixed defects in code outside the model (a tiny XREF_PREFIX transfer / Importer run on the real
    code at generation time; `true` = fixed behaviour) -/
def layerMapWritesClone : Bool := {str(fx["layer"]).lower()}
def nameMapsCaseInsensitive : Bool := {str(fx["case"]).lower()}
def xrecordPointersMapped : Bool := {str(fx["xrecord"]).lower()}
def leaderDimstyleMapped : Bool := {str(fx["leader"]).lower()}
def dimensionLeavesNoOrphanBlock : Bool := {str(fx["dimension"]).lower()}
def importerDuplicatesNewEntry : Bool := {str(fx["importer"]).lower()}

end EzdxfVerif.Gen.XrefTables
"""
    # the constants above that are literals in the code are re-checked against the source text
    for lit in ('("0", "DEFPOINTS")', 'system_entries={"GLOBAL", "BYLAYER", "BYBLOCK"}', 'len(block_name) > 1 and block_name[0] == "*"'):
        if lit not in x:
            raise ValueError(f"xref.py no longer contains {lit!r}: the model of the policy decision must be revisited")
    v = ctx.src("src/ezdxf/lldxf/validator.py")
    if 'if name.startswith("*") and len(name) > 1:' not in v or "return is_valid_table_name(name[1:])" not in v:
        raise ValueError("validator.is_adsk_special_layer changed: revisit Model/Xref.lean isAdskSpecial")
    if "return not bool(INVALID_LAYER_NAME_CHARACTERS.intersection(chars))" not in v:
        raise ValueError("validator.is_valid_table_name changed: revisit Model/Xref.lean isAdskSpecial")
    ctx.write_gen("XrefTables", text, srcs)
    regenerate_overrides(ctx)


# ------------------------------------------------------------------ T-ast: the register_resources / map_resources overrides
# resource-name attributes (harness-owned, from the DXF reference): (attribute name, group code) -> kind; class specific ones below
NAME_ATTRS = {("layer", 8): "layer", ("linetype", 6): "linetype", ("style", 7): "textstyle", ("dimstyle", 3): "dimstyle",
              ("geometry", 2): "block"}
NAME_ATTRS_BY_TYPE = {
    "INSERT": {"name": "block"}, "BLOCK": {"name": "block"},
    "DIMSTYLE": {"dimtxsty": "textstyle", "dimblk": "block", "dimblk1": "block", "dimblk2": "block", "dimldrblk": "block",
                 "dimltype": "linetype", "dimltex1": "linetype", "dimltex2": "linetype"},
    "MLINE": {"style_name": "mlinestyle"},
}
VIA_CODE = {"handle": 0, "existing": 1, "existing_opt": 2, "discard": 3, "layer": 4, "linetype": 5, "textstyle": 6, "dimstyle": 7,
            "block": 8, "copyref": 9, "pointers": 10, "opaque": 11, "mlinestyle": 12, "entity": 13, "appid": 14, "blockdef": 15}
# Declared handle attributes that NO statement of the map_resources chain touches, with the reason why the copy is closed all the
# same.  Every entry was examined on the real code in session 3 (the ones that were NOT closed became fix commits: SORTENTSTABLE,
# ACDBDICTIONARYWDFLT.default, 3DSOLID.history_handle).  A new unhandled attribute is a failing proof, not a silent pass.
PTR_EXCEPTIONS = {
    "DIMSTYLE": ({"dimtxsty_handle", "dimblk_handle", "dimblk1_handle", "dimblk2_handle", "dimldrblk_handle", "dimltype_handle",
                  "dimltex1_handle", "dimltex2_handle"},
                 "load/export-time attributes: export_entity recomputes them from the (mapped) resource NAMES of the copy"),
    "IMAGE": ({"image_def_handle", "image_def_reactor_handle"},
              "derived at export from the object links image_def / _image_def_reactor, which map_resources re-links (@image_def copyref)"),
    "WIPEOUT": ({"image_def_handle", "image_def_reactor_handle"}, "always '0': a WIPEOUT has no image definition"),
    "IMAGEDEF_REACTOR": ({"image_handle"}, "the copy of an IMAGE gets a NEW reactor from the target document (oracle: unified/IMAGEDEF_REACTOR)"),
    "LAYOUT": ({"block_record_handle"}, "assigned by _Transfer.create_empty_paperspace_layout to the new layout block of the target"),
    "BLOCK_RECORD": ({"layout"}, "'0' for block definitions; BLOCK_RECORDs of layouts are never copied (load_paperspace creates a new layout)"),
    "VIEW": ({"ucs_handle", "base_ucs_handle", "background_handle", "live_selection_handle", "visual_style_handle", "sun_handle"},
             "VIEW table entries are reached by no loading command and by no register_resources"),
    "VPORT": ({"ucs_handle", "base_ucs_handle", "background_handle", "shade_plot_handle", "visual_style_handle", "sun_handle"},
              "VPORT table entries are reached by no loading command and by no register_resources"),
}
# name attributes that are mapped but whose registration is not a statement of register_resources, with the reason
NAME_EXCEPTIONS = {
    "*": ({"@xdata"}, "OBSERVATION (not fixed): a layer named only by an XDATA 1003 tag is mapped by name but not registered, so it is "
                      "transferred only if something else uses it"),
    "DIMENSION": ({"geometry"}, "registered under a condition (block_records.has_entry): an unbound DIMENSION has no geometry block"),
    "ARC_DIMENSION": ({"geometry"}, "as DIMENSION"), "LARGE_RADIAL_DIMENSION": ({"geometry"}, "as DIMENSION"),
    "BLOCK": ({"name"}, "the BLOCK entity is registered by its BLOCK_RECORD (add_entity(self.block, block_key)); the name map entry is made "
                        "by add_block_record_entry for that record"),
    "MLINE": ({"style_name"}, "set from the transferred MLINESTYLE object (copyref), registered by handle (style_handle)"),
}


def regenerate_overrides(ctx):
    import ast as _ast
    from translate import overrides_c17 as ov
    from ezdxf.entities import factory
    from ezdxf.lldxf import const
    import glob as _glob

    repo_src = os.path.dirname(os.path.dirname(os.path.dirname(__import__("ezdxf").__file__)))   # .../repo
    files = sorted("src/ezdxf/entities/" + os.path.basename(p) for p in _glob.glob(os.path.join(repo_src, "src/ezdxf/entities/*.py")))
    tab = ov.extract(ctx.src, lambda: files)
    defs = tab["defs"]
    # every override hands over to its base class first (the chains below are in execution order only then)
    for (m, c), d in defs.items():
        for meth, info in d.items():
            if info["calls_super"] and not info["super_first"]:
                raise ValueError(f"{c}.{meth}: super().{meth}() is not the first statement: revisit the chain order of the override table")
    attr_ids: dict[str, int] = {}

    def aid(name: str) -> int:
        return attr_ids.setdefault(name, len(attr_ids))

    rows, notes = [], []
    for typ, cls in sorted(factory.ENTITY_CLASSES.items()):
        attrs = cls.DXFATTRIBS._attribs
        try:
            cls.new(handle="ABC", dxfattribs={}).copy()
            copyable = True
        except const.DXFError:
            copyable = False          # DXFTagStorage and friends: CopyMachine records a copy error, nothing is transferred
        except Exception:  # noqa: needs more attributes than the probe supplies
            copyable = True
        ptr = sorted(n for n, a in attrs.items() if n not in ("handle", "owner") and (is_ptr(a.code) or is_arbitrary(a.code)))
        names = {}
        for n, a in attrs.items():
            k = NAME_ATTRS.get((n, a.code)) or NAME_ATTRS_BY_TYPE.get(typ, {}).get(n)
            if k:
                names[n] = k
        mchain = ov.chain(cls, defs, "map_resources")
        rchain = ov.chain(cls, defs, "register_resources")
        maps, regs = [], []
        writes_source = second = False
        for k, d in mchain:
            for e in d["events"]:
                if e["kind"] == "map":
                    maps.append((e["attr"], e["via"], e["reads"] != "clone", e.get("cond", (0, 0))))
                elif e["kind"] == "write_self":
                    writes_source = True
                    notes.append(f"{k}.map_resources writes to self: {e['text']}")
                elif e["kind"] == "second_mapping":
                    second = True
        for k, d in rchain:
            for e in d["events"]:
                if e["kind"] == "reg":
                    regs.append((e["attr"], e["via"]))
        pex = sorted(PTR_EXCEPTIONS.get(typ, (set(), ""))[0] & set(ptr))
        nex = sorted((NAME_EXCEPTIONS.get(typ, (set(), ""))[0] | NAME_EXCEPTIONS["*"][0]))
        rows.append((typ, cls.__name__, copyable, ptr, names, maps, regs, writes_source, second, pex, nex, [k for k, _ in mchain]))
    # helper classes that are mapped through delegation (not registered entity types): in-place maps of MLEADER context data, embedded MTEXT
    helpers = []
    for (m, c), d in sorted(defs.items()):
        if any(c == r[1] or c in r[11] for r in rows):
            continue
        mev = [(e["attr"], e["via"], e["reads"] != "clone", e.get("cond", (0, 0))) for e in d.get("map_resources", {}).get("events", []) + d.get("map_resources_r12", {}).get("events", [])
               if e["kind"] == "map"]
        rev = [(e["attr"], e["via"]) for e in d.get("register_resources", {}).get("events", []) + d.get("register_resources_r12", {}).get("events", [])
               if e["kind"] == "reg"]
        ws = any(e["kind"] == "write_self" for mm in d.values() for e in mm["events"])
        helpers.append((c, mev, rev, ws))

    def lean_row(r):
        typ, cname, copyable, ptr, names, maps, regs, ws, second, pex, nex, mro = r
        return ("(" + ", ".join([
            f'"{typ}"', str(copyable).lower(),
            "[" + ", ".join(str(aid(a)) for a in ptr) + "]",
            "[" + ", ".join(f"({aid(a)}, {VIA_CODE[k]})" for a, k in sorted(names.items())) + "]",
            "[" + ", ".join(f"({aid(a)}, {VIA_CODE[v]}, {str(rs).lower()}, {c[0]}, {c[1]})" for a, v, rs, c in maps) + "]",
            "[" + ", ".join(f"({aid(a)}, {VIA_CODE[k]})" for a, k in regs) + "]",
            str(ws).lower(), str(second).lower(),
            "[" + ", ".join(str(aid(a)) for a in pex) + "]",
            "[" + ", ".join(str(aid(a)) for a in nex) + "]"]) + ")")

    body = ",\n  ".join(lean_row(r) for r in rows)
    hbody = ",\n  ".join(f'("{c}", [' + ", ".join(f"({aid(a)}, {VIA_CODE[v]}, {str(rs).lower()}, {cc[0]}, {cc[1]})" for a, v, rs, cc in mev) + "], ["
                         + ", ".join(f"({aid(a)}, {VIA_CODE[k]})" for a, k in rev) + f"], {str(ws).lower()})" for c, mev, rev, ws in helpers)
    gates = tab["gates"]

    def gate(cname, meth):
        g = gates.get((cname, meth))
        if g is None:
            raise ValueError(f"{cname}.{meth}: the call of the R12 (name based) override branch was not found: revisit the gate theorems")
        return g["lean"]

    # Underlay.map_underlay_def: is the generated dictionary key tested against the dictionary it is stored in?
    # key = doc.objects.next_underlay_key(lambda k: k not in D) ... D.take_ownership(key, copy)
    ut = _ast.parse(ctx.src("src/ezdxf/entities/underlay.py"))
    fn = next((n for n in _ast.walk(ut) if isinstance(n, _ast.FunctionDef) and n.name == "map_underlay_def"), None)
    if fn is None:
        raise ValueError("Underlay.map_underlay_def not found: revisit the generated-key model (nextKey)")
    calls = [n for n in _ast.walk(fn) if isinstance(n, _ast.Call) and isinstance(n.func, _ast.Attribute)]
    nk = [c for c in calls if c.func.attr == "next_underlay_key"]
    own = [c for c in calls if c.func.attr == "take_ownership" and isinstance(c.func.value, _ast.Name)]
    if len(nk) != 1 or len(own) != 1:
        raise ValueError("Underlay.map_underlay_def: expected one next_underlay_key() and one <dict>.take_ownership(): revisit the model")
    dname = own[0].func.value.id
    key_checked = any(isinstance(a, _ast.Lambda) and isinstance(a.body, _ast.Compare) and len(a.body.ops) == 1
                      and isinstance(a.body.ops[0], _ast.NotIn) and isinstance(a.body.comparators[0], _ast.Name)
                      and a.body.comparators[0].id == dname for a in list(nk[0].args) + [k.value for k in nk[0].keywords])
    osrc = ctx.src("src/ezdxf/sections/objects.py")
    if "def next_underlay_key(self, checkfunc=lambda k: True)" not in osrc or "if checkfunc(key):" not in osrc:
        raise ValueError("ObjectsSection.next_underlay_key changed: revisit Model/Xref.lean nextKeyIndex")
    # Importer add-on: the order in which finalize() imports the tables, and which tables the import of a table entry adds
    # requirements to (import_table: `self.used_X.add(...)` directly or in the helper it calls for that table)
    TBL = {"dimstyles": 0, "layers": 1, "linetypes": 2, "styles": 3, "shape_files": 4, "arrows": 5}
    it = _ast.parse(ctx.src("src/ezdxf/addons/importer.py"))
    icls = next(n for n in it.body if isinstance(n, _ast.ClassDef) and n.name == "Importer")
    meth = {n.name: n for n in icls.body if isinstance(n, _ast.FunctionDef)}

    def used_adds(fn, depth=0):
        out = []
        for n in _ast.walk(fn):
            if isinstance(n, _ast.Call) and isinstance(n.func, _ast.Attribute):
                f = n.func
                if f.attr == "add" and isinstance(f.value, _ast.Attribute) and f.value.attr.startswith("used_") and isinstance(f.value.value, _ast.Name):
                    out.append(f.value.attr[len("used_"):])
                elif isinstance(f.value, _ast.Name) and f.value.id == "self" and f.attr in meth and f.attr.startswith("_add_") and depth < 2:
                    out += used_adds(meth[f.attr], depth + 1)
        return out

    order = []
    for st in meth["_import_required_table_entries"].body:
        for n in _ast.walk(st):
            if isinstance(n, _ast.Call) and isinstance(n.func, _ast.Attribute) and isinstance(n.func.value, _ast.Name) and n.func.value.id == "self":
                if n.func.attr == "import_table" and n.args and isinstance(n.args[0], _ast.Constant):
                    order.append(n.args[0].value)
                elif n.func.attr == "import_shape_files":
                    order.append("shape_files")
    adds = []
    for n in _ast.walk(meth["import_table"]):
        if isinstance(n, _ast.If):
            cur = n
            while isinstance(cur, _ast.If):
                t = cur.test
                if (isinstance(t, _ast.Compare) and isinstance(t.left, _ast.Name) and t.left.id == "name" and len(t.ops) == 1
                        and isinstance(t.ops[0], _ast.Eq) and isinstance(t.comparators[0], _ast.Constant)):
                    tab = t.comparators[0].value
                    for b in cur.body:
                        for tgt_tab in used_adds(b):
                            if (tab, tgt_tab) not in adds:
                                adds.append((tab, tgt_tab))
                cur = cur.orelse[0] if len(cur.orelse) == 1 and isinstance(cur.orelse[0], _ast.If) else None
    if not order or not adds or any(x not in TBL for x in order) or any(a not in TBL or b not in TBL for a, b in adds):
        raise ValueError(f"Importer table import: order {order} / requirement edges {adds} not understood: revisit importer_order_closed")
    # the branch `register_override_handles` / `register_resources_r12` is an if/else: gate of the r12 branch only
    names_tbl = ", ".join(f'"{n}"' for n, _ in sorted(attr_ids.items(), key=lambda kv: kv[1]))
    doc_ex = "\n".join(f"    {t}: {sorted(v[0])} -- {v[1]}" for t, v in sorted(PTR_EXCEPTIONS.items()))
    doc_nex = "\n".join(f"    {t}: {sorted(v[0])} -- {v[1]}" for t, v in sorted(NAME_EXCEPTIONS.items()))
    text = f"""
namespace EzdxfVerif.Gen.XrefOverrides

/-- names of the attribute ids used below (index = id); names starting with '@' are fields of the entity that are not DXF attributes -/
def attrNames : List String := [{names_tbl}]

/-- via codes: {", ".join(f"{v}={k}" for k, v in VIA_CODE.items())};
    condition codes (guards of the statement, classified by the walker): 0 always, 1 the SOURCE entity has the attribute,
    2 it has not, 3 the attribute is set (present and not null), 4 it is not set, 5 / 6 the condition with the given id (a test the
    walker cannot decide from the source attributes) holds / does not hold, 7 the CLONE does not have the attribute (any more) -/
def viaNames : List String := [{", ".join(f'"{k}"' for k, _ in sorted(VIA_CODE.items(), key=lambda kv: kv[1]))}]

/-- one row per entity type registered in ezdxf.entities.factory.ENTITY_CLASSES ({len(rows)} types), extracted from the AST of every
    `register_resources` / `map_resources` override along the MRO of the live class (base first) and from the live DXFATTRIBS:
    (dxftype, copyable, declared handle attributes, declared resource-name attributes (attr, kind),
     map events (attr written on the clone, via, value read from the SOURCE entity, condition code, condition id), register events (attr, kind),
     a map_resources of the chain assigns to `self`, the chain calls mapping.map_resources_of_copy,
     documented exceptions for handle attributes, documented exceptions for name attributes)

    exceptions for handle attributes (reason):
{doc_ex}
    exceptions for name attributes (reason):
{doc_nex} -/
def rows : List (String × Bool × List Nat × List (Nat × Nat) × List (Nat × Nat × Bool × Nat × Nat) × List (Nat × Nat) × Bool × Bool × List Nat × List Nat) := [
  {body}]

/-- classes that are mapped by delegation (data objects of MULTILEADER, embedded MTEXT of ATTRIB/ATTDEF, DIMSTYLE overrides of R12):
    (class, map events, register events, assigns to a SOURCE object) -/
def helpers : List (String × List (Nat × Nat × Bool × Nat × Nat) × List (Nat × Nat) × Bool) := [
  {hbody}]

/-- DXF versions as ordinals: {", ".join(f"{k}={v}" for k, v in ov.VERSION_ORD.items())}.
    `true` = the name based (R12) mapping / registration of the DIMSTYLE-override resources is performed; translated from the
    `if` tests in front of `map_resources_r12` / `register_resources_r12` (data conditions such as "has no overrides" left out) -/
def dimensionMapsOverrideNames (sver tver : Nat) : Bool := {gate("Dimension", "map_resources")}
def dimensionRegistersOverrideNames (sver tver : Nat) : Bool := {gate("Dimension", "register_resources")}
def leaderMapsOverrideNames (sver tver : Nat) : Bool := {gate("Leader", "map_resources")}
def leaderRegistersOverrideNames (sver tver : Nat) : Bool := {gate("Leader", "register_resources")}

/-- Importer add-on (table ids: {", ".join(f"{v}={k}" for k, v in TBL.items())}): the order in which
    `_import_required_table_entries` imports the tables, and the edges (a, b) "importing an entry of table a adds required entries
    to table b" found in `import_table` (`self.used_b.add(..)` directly or through the `_add_*_resources` helper of that branch) -/
def importerOrder : List Nat := [{", ".join(str(TBL[x]) for x in order)}]
def importerAdds : List (Nat × Nat) := [{", ".join(f"({TBL[a]}, {TBL[b]})" for a, b in adds)}]

/-- `Underlay.map_underlay_def` hands `next_underlay_key` a check function `lambda k: k not in <the dictionary the key is stored in>`
    (extracted from the AST; `false` = the key comes unchecked from the per-document counter) -/
def underlayKeyChecked : Bool := {str(key_checked).lower()}

end EzdxfVerif.Gen.XrefOverrides
"""
    ctx.write_gen("XrefOverrides", text, files)
    for n in notes:
        ctx.note("override table: " + n)
    reads_clone = sorted({f"{k}.{e['attr']}" for (m, k), dd in defs.items() for meth, info in dd.items() if meth.startswith("map_resources")
                          for e in info["events"] if e["kind"] == "map" and e["reads"] == "clone" and e["via"] in ("layer", "linetype", "textstyle", "dimstyle", "block")})
    ctx.note("override table: name attributes mapped from the CLONE's value (correct only because every copy is visited once): " + ", ".join(reads_clone))


def probe_fixes():
    import ezdxf
    from ezdxf import xref
    from ezdxf.addons.importer import Importer

    src = ezdxf.new()
    src.entitydb.handles.reset("%X" % SRC_BASE)
    msp = src.modelspace()
    src.linetypes.add("DASHX", pattern=[0.5, 0.25, -0.25])
    src.layers.add("L1", linetype="DASHX")
    src.dimstyles.new("DS1")
    line = msp.add_line((0, 0), (1, 1), dxfattribs={"layer": "l1"})
    circle = msp.add_circle((0, 0), 1)
    line.new_extension_dict().add_xrecord("R").reset([(330, circle.dxf.handle)])
    msp.add_leader([(0, 0), (1, 1), (2, 1)], dimstyle="DS1")
    msp.add_linear_dim(base=(0, 2), p1=(0, 0), p2=(3, 0)).render()
    nd = sum(1 for b in src.blocks if b.name.startswith("*D"))
    tgt = ezdxf.new()
    ld = xref.Loader(src, tgt, conflict_policy=xref.ConflictPolicy.XREF_PREFIX)
    ld.load_modelspace()
    out = {k: False for k in ("layer", "case", "xrecord", "leader", "dimension", "importer")}
    try:
        ld.execute(xref_prefix="x")
        tm = list(tgt.modelspace())
        out["layer"] = src.layers.get("L1").dxf.linetype == "DASHX" and tgt.layers.get("x$0$L1").dxf.linetype == "x$0$DASHX"
        out["case"] = tm[0].dxf.layer == "x$0$L1"
        xr = tm[0].get_extension_dict().dictionary.get("R")
        out["xrecord"] = all(t.value == "0" or (t.value in tgt.entitydb and int(t.value, 16) < SRC_BASE) for t in xr.tags if t.code == 330)
        out["leader"] = next(e for e in tm if e.dxftype() == "LEADER").dxf.dimstyle == "x$0$DS1"
        out["dimension"] = sum(1 for b in tgt.blocks if b.name.startswith("*D")) == nd
    except Exception:  # noqa: a crash means "not the fixed behaviour"
        pass
    s2, t2 = ezdxf.new(), ezdxf.new()
    lay = s2.layers.add("IMP")
    Importer(s2, t2).import_table("layers", "IMP")
    out["importer"] = lay.doc is s2
    return out


# ================================================================== generators
FEATURES = ["layers", "blocks", "nested", "attribs", "xdata", "xdict", "reactors", "group", "dim", "hatch", "image",
            "underlay", "material", "mline", "mleader", "leader", "polyline", "text", "complex_ltype", "paperspace",
            "case_variant", "dimblk", "layer_material", "insert_in_xdata", "tolerance", "shape", "xdata_into_block", "adsk_layer",
            # session 3: name chains (a source that already holds "$0$NAME" / "<xref>$0$NAME" twins), handles / xdict / reactors /
            # draw order inside block content, soft-owner dictionaries, dictionary with default, 3DSOLID history, viewport frozen layers
            "chain", "blk_refs", "softdict", "sortents", "dictdflt", "solid3d", "vp_frozen",
            # follow-up: resources that are used only INDIRECTLY (text style of a complex linetype that only a LAYER uses, text style
            # that only a DIMSTYLE uses): the closure of the table entries, not of the entities, brings them along
            "indirect"]
# features that a DXF R12 source document supports
R12_FEATURES = ["layers", "blocks", "nested", "attribs", "xdata", "dim", "dimblk", "case_variant", "paperspace", "insert_in_xdata",
                "xdata_into_block", "adsk_layer", "reactors", "chain", "blk_refs"]


def pick_features(rng, k=None):
    k = rng.randint(2, 9) if k is None else k
    return sorted(rng.sample(FEATURES, k))


def build_source(version: str, feats, rng, filename: str | None = None, overlap: bool = False):
    """a source document; every user entity has a handle >= SRC_BASE (overlap=True: the handles continue where ezdxf.new()
    stopped, so that source and target handles come from the same range and a handle that is translated twice, or not at
    all, resolves to an unrelated object instead of to nothing)"""
    import ezdxf
    from ezdxf.math import Vec2

    doc = ezdxf.new(version)
    if not overlap:
        doc.entitydb.handles.reset("%X" % SRC_BASE)
    if filename:
        doc.filename = filename
    msp = doc.modelspace()
    f = set(feats)
    doc.linetypes.add("DASHX", pattern=[0.5, 0.25, -0.25])
    doc.linetypes.add("DOTX", pattern=[0.2, 0.0, -0.2])
    doc.styles.add("TS1", font="arial.ttf")
    doc.styles.add("TS2", font="txt.shx")
    # name chains: the source already holds names of the form the renaming policies produce (it is itself the result of an
    # earlier transfer); "A" -> "$0$A" and "$0$A" -> "$0$$0$A" must both be applied exactly once
    chain_pre = []
    if "chain" in f:
        chain_pre = ["$0$"] + (["xr$0$"] if filename else [])
        for pre in chain_pre:
            doc.linetypes.add(pre + "DASHX", pattern=[0.3, 0.2, -0.1])
            doc.styles.add(pre + "TS1", font="isocp.shx")
    if "complex_ltype" in f:
        doc.linetypes.add("GASX", pattern='A,.5,-.2,["GAS",TS2,S=.1,U=0.0,X=-0.1,Y=-.05],-.25', length=0.95)
    if "shape" in f:
        doc.styles.add_shx("ltypeshp.shx")
        doc.linetypes.add("SHPX", pattern="A,.25,-.1,[132,ltypeshp.shx,x=-.1,s=.1],-.1,1", length=1.45)
    mat = None
    if "material" in f or "layer_material" in f:
        mat = doc.materials.new("M1")
    if "layers" in f or True:
        doc.layers.add("L1", linetype="DASHX", color=3)
        l2 = doc.layers.add("L2", linetype="Continuous", color=4)
        doc.layers.add("L3", linetype="DOTX" if "complex_ltype" not in f else "GASX", color=5)
        for pre in chain_pre:
            doc.layers.add(pre + "L1", linetype=pre + "DASHX", color=6)
        if "layer_material" in f and mat is not None:
            l2.dxf.material_handle = mat.dxf.handle
    lay = lambda: rng.choice(["0", "L1", "L2", "L3"] + [pre + "L1" for pre in chain_pre])
    ltp = lambda: rng.choice(["BYLAYER", "DASHX", "DOTX", "Continuous", "ByBlock"] + [pre + "DASHX" for pre in chain_pre])
    if "case_variant" in f:
        lay = lambda: rng.choice(["0", "l1", "L2", "l3"])
        ltp = lambda: rng.choice(["ByLayer", "dashx", "DOTX", "CONTINUOUS"])

    def gfx():
        return {"layer": lay(), "linetype": ltp(), "color": rng.randint(1, 7)}

    ents = []
    line = msp.add_line((0, 0), (rng.randint(1, 9), 1), dxfattribs=gfx())
    circle = msp.add_circle((1, 2), 1.5, dxfattribs=gfx())
    ents += [line, circle]
    msp.add_arc((0, 0), 2.0, 10, 80, dxfattribs=gfx())
    msp.add_point((3, 4, 5), dxfattribs=gfx())
    if mat is not None and "material" in f:
        line.dxf.material_handle = mat.dxf.handle
    if "solid3d" in f and version in ("R2007", "R2010"):   # text (SAT) ACIS data; R2013+ stores binary data
        sol = msp.add_3dsolid(dxfattribs=gfx())
        sol.sat = ["400 0 1 0", "End-of-ACIS-data"]
        hist = doc.objects.add_placeholder(owner=doc.rootdict.dxf.handle)   # stands for the history object; never loaded
        doc.rootdict.add("VHISTORY", hist)
        sol.dxf.history_handle = hist.dxf.handle
    if "indirect" in f:
        doc.styles.add("TSI", font="arial.ttf")
        doc.linetypes.add("GASI", pattern='A,.5,-.2,["GAS",TSI,S=.1,U=0.0,X=-0.1,Y=-.05],-.25', length=0.95)
        doc.layers.add("LI", linetype="GASI", color=2)
        msp.add_line((0, 0), (2, 2), dxfattribs={"layer": "LI"})            # linetype BYLAYER
        doc.styles.add("TSD", font="isocp.shx")
        dsi = doc.dimstyles.new("DSI")
        dsi.dxf.dimtxsty = "TSD"
        msp.add_linear_dim(base=(0, 3), p1=(0, 1), p2=(3, 1), dimstyle="DSI").render()
    if "adsk_layer" in f:
        doc.layers.add("*ADSK_VERIF")   # Autodesk special layer (leading asterisk)
        msp.add_circle((7, 7), 0.5, dxfattribs={"layer": "*ADSK_VERIF"})
    if "text" in f:
        msp.add_text("abc", dxfattribs={**gfx(), "style": "TS1" if "case_variant" not in f else "ts1"})
        msp.add_mtext("x\\Py", dxfattribs={**gfx(), "style": "TS2"})
        for pre in chain_pre:
            msp.add_text("chained", dxfattribs={**gfx(), "style": pre + "TS1"})
    if "polyline" in f:
        msp.add_polyline3d([(0, 0, 0), (1, 0, 1), (1, 1, 2)], dxfattribs=gfx())
        msp.add_lwpolyline([(0, 0), (2, 0), (2, 2)], dxfattribs=gfx())
        msp.add_spline([(0, 0, 0), (1, 1, 0), (2, 0, 0), (3, 1, 0)], dxfattribs=gfx())
    if "blocks" in f or "nested" in f or "attribs" in f:
        ba = doc.blocks.new("B_A")
        ba.add_line((0, 0), (1, 0), dxfattribs=gfx())
        ba.add_text("t", dxfattribs={"style": "TS1", "layer": "L2"})
        if rng.random() < 0.5:      # the BLOCK / ENDBLK entities have a layer of their own
            ba.block.dxf.layer = lay()
            ba.endblk.dxf.layer = lay()
        if "attribs" in f:
            ba.add_attdef("TAG1", (0, 1), dxfattribs={"style": "TS2", "layer": "L1"})
        if "blk_refs" in f:
            # references between the entities of ONE block definition and out of it: XDATA handles, XRECORD pointers in an
            # extension dictionary, reactors (block content is reached through the BLOCK_RECORD copy and through its own block of copies)
            if "VAPPB" not in doc.appids:
                doc.appids.add("VAPPB")
            bl, bc = ba[0], ba.add_circle((1, 1), 0.5, dxfattribs=gfx())
            bl.set_xdata("VAPPB", [(1005, bc.dxf.handle), (1005, circle.dxf.handle), (1003, "L1"), (1005, bl.dxf.handle)])
            if version != "R12":
                bxd = bl.new_extension_dict()
                bxd.add_xrecord("BREC").reset([(330, bc.dxf.handle), (340, bl.dxf.handle), (331, line.dxf.handle)])
            bc.append_reactor_handle(bl.dxf.handle)
        if "sortents" in f and version != "R12":
            hs = [e.dxf.handle for e in ba]
            order = hs[:]
            rng.shuffle(order)
            ba.set_redraw_order(zip(order, sorted(hs, key=lambda h: int(h, 16))))
        for pre in chain_pre:
            bch = doc.blocks.new(pre + "B_A")
            bch.add_circle((0, 0), 2, dxfattribs=gfx())
            bch.add_text("c", dxfattribs={"style": pre + "TS1", "layer": pre + "L1"})
            msp.add_blockref(pre + "B_A", (6, 6), dxfattribs=gfx())
        ins = msp.add_blockref("B_A" if "case_variant" not in f else "b_a", (5, 5), dxfattribs=gfx())
        if "attribs" in f:
            ins.add_attrib("TAG1", "v1", (0, 1), dxfattribs={"style": "TS2", "layer": "L3"})
            ins.add_attrib("TAG2", "v2", (0, 2), dxfattribs={"layer": "L1"})
        ents.append(ins)
        if "nested" in f:
            bb = doc.blocks.new("B_B")
            bb.add_blockref("B_A", (1, 1), dxfattribs=gfx())
            bb.add_circle((0, 0), 1, dxfattribs=gfx())
            bc = doc.blocks.new("B_C")
            bc.add_blockref("B_B", (2, 2))
            bc.add_blockref("B_A", (3, 3))
            for pre in chain_pre:
                bc.add_blockref(pre + "B_A", (4, 4))
                bb.add_text("n", dxfattribs={"style": pre + "TS1", "layer": pre + "L1", "linetype": pre + "DASHX"})
            msp.add_blockref("B_C", (7, 7), dxfattribs=gfx())
            doc.blocks.new("B_UNUSED").add_line((0, 0), (1, 1))
    if "dim" in f:
        ds = doc.dimstyles.new("DS1")
        ds.dxf.dimtxsty = "TS1"
        ds.dxf.dimasz = 0.5
        if "dimblk" in f:
            arrow = doc.blocks.new("MYARROW")
            arrow.add_line((0, 0), (-1, 0))
            ds.dxf.dimblk = "MYARROW"
            if version != "R2000" and version != "R2004":
                ds.dxf.dimltype = "DASHX"
        # DIMSTYLE overrides in the XDATA of the DIMENSION: by handle (R2000+) or by name (R12)
        ovr = rng.choice([None, {"dimtxsty": "TS2", "dimclrd": 2}, {"dimblk": "DOT"}, {"dimblk1": "OPEN", "dimblk2": "DOT", "dimsah": 1}])
        if "dimblk" in f:
            ovr = rng.choice([ovr, {"dimblk": "MYARROW"}, {"dimblk1": "MYARROW", "dimblk2": "DOT", "dimsah": 1},
                              {"dimblk": "MYARROW", "dimtxsty": "TS2"}])
        d = msp.add_linear_dim(base=(0, 2), p1=(0, 0), p2=(3, 0), dimstyle="DS1", dxfattribs=gfx(), override=ovr)
        d.render()
        ents.append(d.dimension)
        if rng.random() < 0.5:
            msp.add_radius_dim(center=(0, 0), radius=2, angle=30, dimstyle="DS1").render()
    if "leader" in f:
        if "DS1" not in doc.dimstyles:
            doc.dimstyles.new("DS1").dxf.dimtxsty = "TS1"
        msp.add_leader([(0, 0), (1, 1), (2, 1)], dimstyle="DS1", dxfattribs=gfx())
    if "tolerance" in f:
        if "DS1" not in doc.dimstyles:
            doc.dimstyles.new("DS1").dxf.dimtxsty = "TS1"
        tol = msp.new_entity("TOLERANCE", dxfattribs={**gfx(), "dimstyle": "DS1", "insert": (1, 1), "content": "{\\Fgdt;j}%%v0.1"})
    if "hatch" in f:
        pl = msp.add_lwpolyline([(0, 0), (4, 0), (4, 4), (0, 4)], close=True, dxfattribs=gfx())
        h = msp.add_hatch(color=2, dxfattribs=gfx())
        p = h.paths.add_polyline_path([(0, 0), (4, 0), (4, 4), (0, 4)], is_closed=True)
        h.associate(p, [pl])
        if rng.random() < 0.5:
            h.set_pattern_fill("ANSI31", scale=0.5)
    if "image" in f:
        idef = doc.add_image_def("pic.png", (640, 360))
        msp.add_image(idef, (0, 0), (4, 3), dxfattribs=gfx())
        if rng.random() < 0.5:
            msp.add_image(idef, (5, 0), (4, 3))
    if "underlay" in f:
        udef = doc.add_underlay_def("sheet.pdf", "pdf", "1")
        msp.add_underlay(udef, (0, 0), dxfattribs=gfx())
    if "mline" in f:
        ms = doc.mline_styles.new("MLS1")
        ms.elements.append(0.5, 1, rng.choice(["BYLAYER", "DASHX", "DOTX"]))
        ms.elements.append(-0.5, 2, rng.choice(["BYLAYER", "DASHX"]))
        msp.add_mline([(0, 0), (3, 0), (3, 3)], dxfattribs={**gfx(), "style_name": "MLS1"})
        msp.add_mline([(0, 1), (3, 1)])
    if "mleader" in f:
        from ezdxf.render import mleader

        doc.mleader_styles.duplicate_entry("Standard", "MLD1")
        b = msp.add_multileader_mtext("MLD1")
        b.set_content("note", style="TS1")
        b.add_leader_line(mleader.ConnectionSide.left, [Vec2(-5, -5)])
        b.build(insert=Vec2(3, 3))
        if "blocks" in f:
            bb2 = msp.add_multileader_block("Standard")
            bb2.set_content("B_A")
            bb2.add_leader_line(mleader.ConnectionSide.right, [Vec2(9, 9)])
            bb2.build(insert=Vec2(4, 4))
    if "xdata" in f:
        doc.appids.add("VAPP")
        line.set_xdata("VAPP", [(1000, "s"), (1005, circle.dxf.handle), (1003, "L1"), (1005, "0"), (1070, 7)])
        circle.set_xdata("VAPP", [(1005, doc.layers.get("L2").dxf.handle), (1002, "{"), (1005, line.dxf.handle), (1002, "}")])
        circle.set_xdata("ACAD", [(1000, "plain")])
    not_loaded = doc.blocks.new("B_HIDDEN").add_line((0, 0), (1, 1))  # never loaded with the modelspace
    if "insert_in_xdata" in f:
        doc.appids.add("VAPP2")
        line.set_xdata("VAPP2", [(1005, not_loaded.dxf.handle)])
    if "xdata_into_block" in f and "B_A" in doc.blocks:
        doc.appids.add("VAPP3")
        circle.set_xdata("VAPP3", [(1005, doc.blocks.get("B_A")[0].dxf.handle)])
    if "xdict" in f:
        xd = line.new_extension_dict()
        xr = xd.add_xrecord("VREC")
        xr.reset([(1, "txt"), (330, circle.dxf.handle), (340, line.dxf.handle), (350, circle.dxf.handle), (360, "0"),
                  (320, circle.dxf.handle), (90, 5), (331, not_loaded.dxf.handle)])
        xd.add_dictionary_var("VVAR", "value")
        sub = xd.add_dictionary("VSUB", hard_owned=True)
        sub.add_xrecord("DEEP").reset([(330, line.dxf.handle)])
        if "softdict" in f:
            # a soft-owner dictionary; its entries are owned by it (what doc.audit() accepts); entries that refer to objects of
            # OTHER owners are covered by the fixed case "softdict"
            soft = xd.add_dictionary("VSOFT", hard_owned=False)
            soft.add_xrecord("SX").reset([(330, circle.dxf.handle), (1, "soft")])
        if "dictdflt" in f:
            dd = doc.objects.add_dictionary_with_default(owner=xd.dictionary.dxf.handle, default="0", hard_owned=True)
            xd.dictionary.add("VDFLT", dd)
            dflt = doc.objects.add_placeholder(owner=dd.dxf.handle)
            dd.add("Normal", dflt)
            dd.set_default(dflt)
    if "reactors" in f:
        line.append_reactor_handle(circle.dxf.handle)
        circle.append_reactor_handle(not_loaded.dxf.handle)
    if "group" in f:
        g = doc.groups.new("G1")
        g.extend([line, circle])
    psp = None
    if "paperspace" in f:
        psp = doc.layouts.new("Sheet A")
        psp.add_line((0, 0), (5, 5), dxfattribs=gfx())
        vp = psp.add_viewport(center=(5, 5), size=(4, 4), view_center_point=(0, 0), view_height=10)
        if "vp_frozen" in f and version != "R12":
            vp.frozen_layers = ["L2", "L3"]     # L2/L3 are not necessarily used by any loaded entity
        if "blocks" in f:
            psp.add_blockref("B_A", (1, 1))
        psp.add_text("sheet", dxfattribs={"style": "TS2", "layer": "L3"})
    return doc


CLASH = ["layer", "ltype", "style", "dimstyle", "block", "material", "mlinestyle", "mleaderstyle", "num0", "nested_block",
         "appid", "layout", "arrow", "imagedef", "dimblock", "upper", "xrefnum0", "underlaydef"]


def build_target(version: str, clash, rng, xref_name: str = ""):
    import ezdxf

    doc = ezdxf.new(version)
    c = set(clash)
    msp = doc.modelspace()
    msp.add_line((9, 9), (8, 8))
    up = (lambda s: s.lower()) if "upper" in c else (lambda s: s)
    if "ltype" in c:
        doc.linetypes.add(up("DASHX"), pattern=[1.0, 0.5, -0.5])
    if "layer" in c:
        doc.layers.add(up("L1"), color=1)
        doc.layers.add("L3", color=2)
    if "style" in c:
        doc.styles.add(up("TS1"), font="isocp.shx")
    if "dimstyle" in c:
        doc.dimstyles.new(up("DS1"))
    if "block" in c:
        b = doc.blocks.new(up("B_A"))
        b.add_circle((0, 0), 9)
        msp.add_blockref(up("B_A"), (0, 0))
    if "nested_block" in c:
        doc.blocks.new("B_B").add_circle((0, 0), 8)
    if "arrow" in c:
        doc.blocks.new("MYARROW").add_circle((0, 0), 7)
    if "underlaydef" in c and version != "R12":
        # the target's own underlay definitions (auto-generated dictionary keys Underlay00001, ...)
        for kind, fn in (("pdf", "own.pdf"), ("dwf", "own.dwf")):
            udef = doc.add_underlay_def(fn, kind, "1")
            msp.add_underlay(udef, (1, 1))
    if "material" in c:
        doc.materials.new(up("M1"))
    if "mlinestyle" in c:
        ms = doc.mline_styles.new(up("MLS1"))
        ms.elements.append(1.0, 3)
        ms.elements.append(-1.0, 3)
    if "mleaderstyle" in c:
        doc.mleader_styles.duplicate_entry("Standard", up("MLD1"))
    if "appid" in c:
        doc.appids.add("VAPP")
    if "layout" in c:
        doc.layouts.new("Sheet A")
    if "imagedef" in c and version != "R12":
        idef = doc.add_image_def("other.png", (10, 10))
        msp.add_image(idef, (0, 0), (1, 1))
    if "dimblock" in c:
        msp.add_linear_dim(base=(0, 2), p1=(0, 0), p2=(3, 0)).render()
    for tab, names in (("layers", ["L1", "L3"]), ("linetypes", ["DASHX"]), ("styles", ["TS1"])):
        for pre in ((["$0$"] if "num0" in c else []) + ([xref_name + "$0$"] if "xrefnum0" in c and xref_name else [])):
            for n in names:
                t = getattr(doc, tab)
                if not t.has_entry(pre + n):
                    if tab == "linetypes":
                        t.add(pre + n, pattern=[0.3, 0.2, -0.1])
                    elif tab == "styles":
                        t.add(pre + n, font="txt.shx")
                    else:
                        t.add(pre + n)
    if "num0" in c and "block" in c:
        doc.blocks.new("$0$B_A")
        if xref_name and "xrefnum0" in c:
            doc.blocks.new(xref_name + "$0$B_A")
    return doc


# ================================================================== snapshots (through the harness-owned parser)
COLLECTIONS = {"MATERIAL": 1, "MLINESTYLE": 2, "MLEADERSTYLE": 3}   # object type -> group code of the name
_STAMP = __import__("re").compile(r" @ \d{4}-\d\d-\d\dT\d\d:")
VOLATILE_HEADER = {"$VERSIONGUID", "$FINGERPRINTGUID", "$TDUPDATE", "$TDUUPDATE", "$TDCREATE", "$TDUCREATE", "$HANDSEED"}


class Snap:
    """records of a written document, by handle"""

    def __init__(self, doc, as_version=None):
        s = io.StringIO()
        if as_version is not None and as_version != doc.dxfversion:
            # export the same in-memory state with the attribute set of another DXF version (for tag comparison only)
            keep = doc._dxfversion
            doc._dxfversion = as_version
            try:
                doc.write(s)
            finally:
                doc._dxfversion = keep
        else:
            doc.write(s)
        text = s.getvalue()
        self.version = as_version or doc.dxfversion
        self.tags = dxfparse.parse_ascii(text)
        sections, self.problems = dxfparse.split_file(self.tags)
        self.sec = dict(sections)
        self.recs: dict[str, list] = {}      # handle -> record
        self.where: dict[str, str] = {}
        self.order: list[str] = []
        self.table_of: dict[str, str] = {}   # handle of a table entry -> table name
        self.table_head: dict[str, str] = {}
        self.children: dict[str, list[str]] = {}   # linked sub-entities by parent handle
        self.block_content: dict[str, list[str]] = {}
        self.entities: list[str] = []
        for name, body in sections:
            tname = None
            parent = None
            bname = None
            if name in ("HEADER", "CLASSES", "THUMBNAILIMAGE", "ACDSDATA"):
                continue
            for r in body:
                t = dxfparse.rec_type(r)
                if t.startswith("<"):
                    continue
                if name == "TABLES":
                    if t == "TABLE":
                        tname = r[1][1]
                        h = dxfparse.rec_handle(r)
                        if h:
                            self.table_head[tname] = h
                    elif t == "ENDTAB":
                        tname = None
                        continue
                h = dxfparse.rec_handle(r)
                if h is None:
                    continue
                if t == "BLOCK":
                    # DXF R12: ezdxf stores its meta data (version @ time stamp) in the XDATA of the *Model_Space BLOCK
                    r = [tg for tg in r if not (tg[0] == 1000 and _STAMP.search(str(tg[1])))]
                self.recs[h] = r
                self.where[h] = name if name != "TABLES" else f"TABLES/{tname}"
                self.order.append(h)
                if name == "TABLES" and t != "TABLE":
                    self.table_of[h] = tname
                if name in ("ENTITIES", "BLOCKS"):
                    if t == "BLOCK":
                        bname = h
                        self.block_content[h] = []
                    elif t == "ENDBLK":
                        bname = None
                    if t in ("VERTEX", "ATTRIB", "SEQEND"):
                        if parent is not None:
                            self.children.setdefault(parent, []).append(h)
                        if t == "SEQEND":
                            parent = None
                    else:
                        parent = h if t in ("POLYLINE", "INSERT") else None
                        if name == "ENTITIES":
                            self.entities.append(h)
                        elif bname is not None and t != "BLOCK":
                            self.block_content[bname].append(h)
        hv = dxfparse.header_vars(self.sec.get("HEADER", []))
        self.header = {k: v for k, v in hv.items() if k not in VOLATILE_HEADER}

    def names(self, table: str) -> dict[str, str]:
        """lower-case name -> handle of the entries of a table or of an object collection"""
        out = {}
        if table in COLLECTIONS:
            code = COLLECTIONS[table]
            for h, r in self.recs.items():
                if dxfparse.rec_type(r) == table:
                    out[str(next((v for c, v in r if c == code), "")).lower()] = h
            return out
        for h, t in self.table_of.items():
            if t == table:
                out[next((v for c, v in self.recs[h] if c == 2), "").lower()] = h
        return out

    def name_of(self, h: str) -> str:
        r = self.recs[h]
        code = COLLECTIONS.get(dxfparse.rec_type(r), 2)
        return str(next((v for c, v in r if c == code), ""))

    def fingerprint(self):
        """everything except volatile header variables and the ezdxf time stamp"""
        body = {}
        for h, r in self.recs.items():
            if dxfparse.rec_type(r) == "DICTIONARYVAR" and any(c == 1 and "@" in str(v) and "T" in str(v) for c, v in r):
                continue  # EZDXF_META WRITTEN_BY_EZDXF time stamp
            body[h] = tuple(r)
        return body, tuple(self.order), self.header


# ================================================================== running one transfer on the real code
class Capture:
    """wraps xref._Transfer.finalize to observe the handle mapping and name maps the real code built"""

    def __init__(self):
        self.transfers = []

    def __enter__(self):
        from ezdxf import xref

        self._orig = xref._Transfer.finalize
        self._orig_init = xref._Transfer.__init__
        cap = self

        def finalize(t):
            cap.transfers.append(t)
            return cap._orig(t)

        def init(t, *a, **kw):
            cap._orig_init(t, *a, **kw)
            t._alloc = dict(t.handle_mapping)   # CopyMachine's allocation before any redirection
            cap.started.append(t)

        self.started = []
        xref._Transfer.finalize = finalize
        xref._Transfer.__init__ = init
        return self

    def __exit__(self, *a):
        from ezdxf import xref

        xref._Transfer.finalize = self._orig
        xref._Transfer.__init__ = self._orig_init


OPS = ["msp", "msp_filter", "psp", "loader_mix", "block_into", "resources", "write_block", "detach_embed", "importer"]
IMPORTER_FEATURES = ["indirect", "adsk_layer", "layers", "blocks", "nested", "attribs", "xdata", "xdict", "reactors", "group", "dim", "hatch", "leader",
                     "polyline", "text", "complex_ltype", "case_variant", "dimblk", "layer_material", "material", "shape", "paperspace"]


def run_transfer(op: str, src, tgt, policy: str, rng, tmpdir: str):
    """-> dict(result doc(s), loaded source handles in order, anchors)"""
    from ezdxf import xref
    from ezdxf.xref import ConflictPolicy, Loader

    pol = getattr(ConflictPolicy, policy)
    info = {"op": op, "anchors": {}, "loaded": None, "tgt": tgt, "target_layout": None}
    smsp, tmsp = src.modelspace(), (tgt.modelspace() if tgt is not None else None)
    if op == "msp":
        info["loaded"] = [e.dxf.handle for e in smsp]
        info["anchors"][smsp.block_record_handle] = tmsp.block_record_handle
        info["target_layout"] = tmsp
        xref.load_modelspace(src, tgt, conflict_policy=pol)
    elif op == "msp_filter":
        keep = {e.dxf.handle for e in smsp if rng.random() < 0.6}
        info["loaded"] = [e.dxf.handle for e in smsp if e.dxf.handle in keep]
        info["anchors"][smsp.block_record_handle] = tmsp.block_record_handle
        info["target_layout"] = tmsp
        xref.load_modelspace(src, tgt, filter_fn=lambda e: e.dxf.handle in keep, conflict_policy=pol)
    elif op == "psp":
        psp = next((l for l in src.layouts if l.name not in ("Model",) and l.name != "Layout1"), None) or src.layouts.get("Layout1")
        info["loaded"] = [e.dxf.handle for e in psp]
        info["psp"] = psp.name
        xref.load_paperspace(psp, tgt, conflict_policy=pol)
    elif op == "loader_mix":
        loader = Loader(src, tgt, conflict_policy=pol)
        blk = tgt.blocks.new("VTARGETBLK")
        info["loaded"] = [e.dxf.handle for e in smsp]
        info["anchors"][smsp.block_record_handle] = blk.block_record_handle
        info["target_layout"] = blk
        loader.load_modelspace(blk)
        loader.load_layers(["L2", "L3", "NOPE"])
        loader.load_linetypes(["DOTX"])
        loader.load_text_styles(["TS2"])
        if "DS1" in src.dimstyles:
            loader.load_dim_styles(["DS1"])
        loader.execute(xref_prefix="xp" if rng.random() < 0.5 else "")
        info["xref_prefix_arg"] = True
    elif op == "block_into":
        name = rng.choice([b.name for b in src.blocks if not b.name.startswith("*")])
        sb = src.blocks.get(name)
        loader = Loader(src, tgt, conflict_policy=pol)
        info["loaded"] = [e.dxf.handle for e in sb]
        info["anchors"][sb.block_record_handle] = tmsp.block_record_handle
        info["target_layout"] = tmsp
        loader.load_block_layout_into(sb, tmsp)
        other = rng.choice([b.name for b in src.blocks if not b.name.startswith("*")])
        loader.load_block_layout(src.blocks.get(other))
        info["block_loaded"] = other
        loader.execute()
    elif op == "resources":
        loader = Loader(src, tgt, conflict_policy=pol)
        loader.load_layers([l.dxf.name for l in src.layers])
        loader.load_linetypes([l.dxf.name for l in src.linetypes])
        loader.load_text_styles([l.dxf.name for l in src.styles if l.dxf.name])
        loader.load_dim_styles([l.dxf.name for l in src.dimstyles])
        loader.load_mline_styles([k for k, _ in src.mline_styles])
        loader.load_mleader_styles([k for k, _ in src.mleader_styles])
        loader.load_materials([k for k, _ in src.materials])
        info["loaded"] = []
        loader.execute()
    elif op == "write_block":
        ents = [e for e in smsp if rng.random() < 0.7] or list(smsp)[:1]
        info["loaded"] = [e.dxf.handle for e in ents]
        new = xref.write_block(ents, origin=(1, 2, 3))
        info["tgt"] = new
        info["anchors"][smsp.block_record_handle] = new.modelspace().block_record_handle
        info["target_layout"] = new.modelspace()
    elif op == "detach_embed":
        name = rng.choice([b.name for b in src.blocks if not b.name.startswith("*")])
        sb = src.blocks.get(name)
        info["loaded"] = [e.dxf.handle for e in sb]
        info["block"] = name
        path = os.path.join(tmpdir, "detached.dxf")
        new = xref.detach(sb, xref_filename=path)
        info["tgt"] = new
        info["anchors"][sb.block_record_handle] = new.modelspace().block_record_handle
        info["target_layout"] = new.modelspace()
        info["source_changes_expected"] = {sb.block_record_handle}
    else:
        raise ValueError(op)
    return info


# ================================================================== analysis of one transfer (harness-owned predicate)
import re

_NUM = re.compile(r"#?[0-9A-F]{2,}\b|\d+")
NAME_CODES = {1, 2, 3, 4, 6, 7, 8, 340, 1001, 1003}
SPECIAL_LAYERS = ("0", "defpoints")
SPECIAL_LTYPES = ("continuous", "bylayer", "byblock")
TABLE_ATTR = {"LAYER": "layers", "LTYPE": "linetypes", "STYLE": "styles", "DIMSTYLE": "dimstyles",
              "BLOCK_RECORD": "block_records", "UCS": "ucs", "APPID": "appids"}


TARGET_DEFAULT_POINTERS = {("LAYER", 390)}    # plot style: replaced by the target's plot style "Normal"
DERIVED_COUNTS = {("HATCH", 97), ("LAYOUT", 71)}   # counts / tab order recomputed from what was really transferred


def squash(msg: str) -> str:
    return _NUM.sub("#", msg)[:90]


def xdata_start(rec) -> int:
    for i, (c, v) in enumerate(rec):
        if c == 1001:
            return i
    return len(rec)


class Analysis:
    def __init__(self, report):
        self.report = report  # report(kind_key, what)
        self.stats = {}
        self.orphan_handles, self.orphan_names, self.case_names, self.orphan_or_case_handles = set(), set(), set(), set()

    def stat(self, k, n=1):
        self.stats[k] = self.stats.get(k, 0) + n

    # ---- A
    def source_unchanged(self, before: Snap, after: Snap, expected=()):
        expected = expected or ()
        b, bo, bh = before.fingerprint()
        a, ao, ah = after.fingerprint()
        for h in sorted(set(b) | set(a), key=lambda x: int(x, 16)):
            if h in expected:
                continue
            rb, ra = b.get(h), a.get(h)
            if rb == ra:
                continue
            typ = dxfparse.rec_type(rb or ra)
            if rb is None or ra is None:
                self.report(f"source-changed/{typ}/{'added' if rb is None else 'removed'}", f"source {typ} #{h} {'appeared' if rb is None else 'vanished'}")
                continue
            codes = sorted({c for (c, v) in set(rb) ^ set(ra)})
            diff = [t for t in ra if t not in rb][:3]
            self.report(f"source-changed/{typ}/{','.join(map(str, codes))}", f"source {typ} #{h} changed: now has {diff}, had {[t for t in rb if t not in ra][:3]}")
        if bh != ah:
            ks = sorted(k for k in set(bh) | set(ah) if bh.get(k) != ah.get(k))
            self.report(f"source-changed/HEADER/{','.join(ks)[:60]}", f"source header variables changed: {ks}")
        if not expected and bo != ao and set(bo) == set(ao):
            self.report("source-changed/order", "order of source records changed")

    # ---- B C D E
    def target_valid(self, tgt_doc, before: Snap | None, after: Snap, src_before: Snap, may_change=()):
        pb = set(squash(p) for p in (dxfparse.check_file(before.tags, before.version) if before else []))
        for p in dxfparse.check_file(after.tags, after.version):
            if squash(p) not in pb:
                self.report(f"target-invalid/{squash(p)}", f"written target file: {p}")
        old = before.recs if before else {}
        for h, r in after.recs.items():
            if h in old:
                continue
            typ = dxfparse.rec_type(r)
            xs = xdata_start(r)
            for i, (c, v) in enumerate(r):
                if i >= xs and c != 1005:
                    continue
                if i < xs and not (is_ptr(c) or is_arbitrary(c)) or (i < xs and c == 1005):
                    continue
                v = norm(v)
                if v == "0" or v in after.recs:
                    continue
                cls = "leak" if (v in src_before.recs and int(v, 16) >= SRC_BASE) else "dangling"
                if is_arbitrary(c):
                    self.stat(f"arbitrary-pointer-{cls}")
                    continue
                self.report(f"{cls}/{typ}/{c}", f"new target {typ} #{h}: tag ({c}, {v}) "
                            + ("is a handle of the SOURCE document" if cls == "leak" else "does not resolve in the target"))
        for h, rb in old.items():
            ra = after.recs.get(h)
            if ra == rb or h in may_change:
                continue
            typ = dxfparse.rec_type(rb)
            if typ == "DICTIONARYVAR" and any(c == 1 and "@" in str(v) for c, v in rb):
                continue  # EZDXF_META time stamp
            if ra is None:
                self.report(f"target-entity-removed/{typ}", f"pre-existing target {typ} #{h} vanished")
                continue
            if typ in ("TABLE", "BLOCK"):
                # entry count of a table head; block flags (e.g. "has attribute definitions") are recomputed at export
                if [t for t in rb if t[0] != 70] == [t for t in ra if t[0] != 70]:
                    continue
            if typ in ("DICTIONARY", "ACDBDICTIONARYWDFLT", "IMAGEDEF", "PDFDEFINITION", "DWFDEFINITION", "DGNDEFINITION"):
                it = iter(ra)
                if all(any(t == u for u in it) for t in rb):   # old tags are a subsequence: entries / reactors only added
                    added = [t for t in ra if t not in rb]
                    bad = [t for t in added if (is_ptr(t[0])) and norm(t[1]) not in after.recs]
                    if not bad:
                        continue
            codes = sorted({c for (c, v) in set(rb) ^ set(ra)})
            self.report(f"target-entity-changed/{typ}/{','.join(map(str, codes))}",
                        f"pre-existing target {typ} #{h} changed: {[t for t in ra if t not in rb][:3]} vs {[t for t in rb if t not in ra][:3]}")
        aud = tgt_doc.audit()
        for e in list(aud.errors) + list(aud.fixes):
            self.report(f"audit/{squash(e.message)}", f"target audit: {e.message}")

    # ---- F G
    def pairs(self, sigma: dict, info, policy: str, xref: str, sb: Snap, tb: Snap | None, ta: Snap):
        old = tb.recs if tb else {}
        sig = dict(sigma)
        for a, b in info["anchors"].items():
            sig.setdefault(norm(a), norm(b))
        for tname, h in sb.table_head.items():
            if tname in ta.table_head:
                sig.setdefault(h, ta.table_head[tname])
        # root dictionary and the collections below it correspond by key
        def dict_entries(rec):
            out, key = {}, None
            for c, v in rec:
                if c == 3:
                    key = v
                elif c in (350, 360) and key is not None:
                    out[key] = norm(v)
                    key = None
            return out

        def root(snap):
            objs = snap.sec.get("OBJECTS", [])
            return dxfparse.rec_handle(objs[0]) if objs else None

        rs, rt = root(sb), root(ta)
        if rs and rt:
            sig.setdefault(rs, rt)
            es, et = dict_entries(sb.recs[rs]), dict_entries(ta.recs[rt])
            for k, h in es.items():
                if k in et and h in sb.recs and dxfparse.rec_type(sb.recs[h]) in ("DICTIONARY", "ACDBDICTIONARYWDFLT"):
                    sig.setdefault(h, et[k])
        anchors_s = {norm(a) for a in info["anchors"]}
        self.anchor_map = {norm(a): norm(b) for a, b in info["anchors"].items()}
        work = [(s, t) for s, t in sigma.items()]
        self.work, self.old, self.image = work, old, set(sig.values())
        self.deferred = []
        seen = set()
        kinds = list(TABLE_ATTR) + list(COLLECTIONS)
        src_names = {T: sb.names(T) for T in kinds}
        tgt_names_after = {T: ta.names(T) for T in kinds}
        tgt_names_before = {T: (tb.names(T) if tb else {}) for T in kinds}
        tname_of = {}
        for T, d in tgt_names_after.items():
            for n, h in d.items():
                tname_of[h] = n

        def name_ok(sv: str, tv: str) -> bool:
            if sv.lower() == tv.lower():
                return True
            for T, names in src_names.items():
                sh = names.get(sv.lower())
                if sh is not None and sh in sig:
                    th = sig[sh]
                    if tname_of.get(th) == tv.lower():
                        return True
            return False

        self.src_names = src_names
        self.copy_names = {}
        for T, names in src_names.items():
            for _n, sh in names.items():
                th = sig.get(sh)
                if th is not None and th in ta.recs and th not in old:
                    self.copy_names.setdefault(T, {})[sh] = ta.name_of(th).lower()
        self.layout_names_before = {str(v).lower() for r in (tb.recs.values() if tb else []) if dxfparse.rec_type(r) == "LAYOUT" for c, v in r if c == 1}

        while work:
            s, t = work.pop()
            if (s, t) in seen:
                continue
            seen.add((s, t))
            rs_ = sb.recs.get(s)
            if rs_ is None:
                self.stat("sigma-source-not-in-file")
                continue
            typ = dxfparse.rec_type(rs_)
            rt_ = ta.recs.get(t)
            if rt_ is None:
                own = dxfparse.base_refs(rs_)[0]
                par = next((p for p, cs in sb.children.items() if s in cs), None)
                if par is not None:
                    own = dxfparse.base_refs(sb.recs[par])[0]
                if own in sig and sig[own] in old and dxfparse.rec_type(sb.recs.get(own, [(0, "")])) == "BLOCK_RECORD" and own not in anchors_s:
                    self.stat("discarded-content-of-kept-block")
                    continue  # the target's block definition was kept: the copied content is discarded
                self.report(f"copy-not-in-file/{typ}", f"copy #{t} of source {typ} #{s} is not in the written target")
                continue
            if dxfparse.rec_type(rt_) != typ:
                self.report(f"type-mismatch/{typ}/{dxfparse.rec_type(rt_)}", f"source {typ} #{s} mapped to {dxfparse.rec_type(rt_)} #{t}")
                continue
            if s in sb.table_of or typ in COLLECTIONS:
                self.policy(s, t, typ, policy, xref, sb, tb, ta, tgt_names_before, tgt_names_after)
            if t in old:
                self.stat("mapped-to-existing/" + typ)
                continue
            self.stat("pair/" + typ)
            # induced pairs: linked sub-entities, extension dictionary, hard-owned dictionary entries
            cs, ct = sb.children.get(s, []), ta.children.get(t, [])
            if len(cs) != len(ct):
                self.report(f"sub-entities/{typ}", f"{typ} #{s}->{t}: {len(cs)} sub-entities in source, {len(ct)} in target")
            for a, b in zip(cs, ct):
                sig.setdefault(a, b)
                work.append((a, b))
            xs_, xt_ = dxfparse.base_refs(rs_)[2], dxfparse.base_refs(rt_)[2]
            if xs_ and xt_:
                sig.setdefault(xs_, xt_)
                work.append((xs_, xt_))
            elif xs_ and not xt_:
                self.report(f"xdict-lost/{typ}", f"{typ} #{s}->{t}: extension dictionary not transferred")
            if typ in ("DICTIONARY", "ACDBDICTIONARYWDFLT"):
                hard = any(c == 280 and str(v).strip() == "1" for c, v in rs_)
                es, et = dict_entries(rs_), dict_entries(rt_)
                for k, h in es.items():
                    if k in et:
                        if hard or (et[k] not in old and h not in sig):
                            sig.setdefault(h, et[k])
                            work.append((h, et[k]))
                    elif hard:
                        self.report(f"dict-entry-lost/{k[:12]}", f"DICTIONARY #{s}->{t}: hard-owned entry {k} missing in the copy")
            if typ == "BLOCK_RECORD":
                pass
            self.compare(s, t, typ, rs_, rt_, sig, sb, ta, name_ok)
        self.finish_deferred(sig, sb, ta)
        return sig

    def importer_tables(self, sb: Snap, tb: Snap | None, ta: Snap):
        """resource closure of the table entries the Importer add-on brought along (it keeps names, an existing target entry wins):
        every handle and every name inside a NEW table entry refers to the target's entry of the SAME name as the source's referent
        (linetype pattern -> text style / shape file, dimstyle -> text style / arrow blocks / linetypes, layer -> linetype)"""
        old = tb.recs if tb else {}
        sig = {}
        for T in TABLE_ATTR:
            tn = ta.names(T)
            for name, sh in sb.names(T).items():
                if name and name in tn:
                    sig[sh] = tn[name]
        # shape-file entries (STYLE without name) correspond by font file
        def shx(snap):
            return {str(next((v for c, v in snap.recs[h] if c == 3), "")).lower(): h for h, t in snap.table_of.items()
                    if t == "STYLE" and snap.name_of(h) == ""}
        ts = shx(ta)
        for font, sh in shx(sb).items():
            if font in ts:
                sig[sh] = ts[font]
        for tname, h in sb.table_head.items():
            if tname in ta.table_head:
                sig[h] = ta.table_head[tname]
        self.anchor_map, self.old, self.image, self.work, self.deferred = {}, old, set(sig.values()), [], []
        self.layout_names_before = set()
        # documented: an imported table entry gets the plot style "Normal" and the material "Global" of the TARGET
        self.target_defaults = TARGET_DEFAULT_POINTERS | {("LAYER", 347)}
        name_ok = lambda sv, tv: sv.lower() == tv.lower()
        for T in ("LTYPE", "LAYER", "STYLE", "DIMSTYLE"):
            for name, sh in sorted(sb.names(T).items()):
                th = sig.get(sh)
                if th is None or th in old or th not in ta.recs:
                    continue
                self.stat("importer-table-entry/" + T)
                self.compare(sh, th, T, sb.recs[sh], ta.recs[th], sig, sb, ta, name_ok)
        self.finish_deferred(sig, sb, ta)

    @staticmethod
    def collapse(rec):
        """runs of >= 2 consecutive pointer tags with the same code (reactors, boundary handles, group members) are
        unordered sets: they become one pseudo tag (code, tuple of values)"""
        out = []
        xs = xdata_start(rec)
        i = 0
        while i < len(rec):
            c, v = rec[i]
            if i < xs and is_ptr(c) and c != 1005:
                j = i
                while j + 1 < xs and rec[j + 1][0] == c:
                    j += 1
                if j > i:
                    out.append((c, tuple(norm(x[1]) for x in rec[i:j + 1])))
                    i = j + 1
                    continue
            out.append((c, v))
            i += 1
        return out

    def finish_deferred(self, sig, sb, ta):
        for typ, s, t, c, svs, tvs in self.deferred:
            want = {sig.get(x) for x in svs}
            for tv in tvs:
                if tv == "0" or tv in want:
                    continue
                cand = [x for x in svs if x not in sig and x in sb.recs and tv in ta.recs and dxfparse.rec_type(sb.recs[x]) == dxfparse.rec_type(ta.recs[tv])]
                if cand and tv not in self.old and tv not in self.image:
                    self.stat("unified-late/" + dxfparse.rec_type(ta.recs[tv]))
                    continue
                if tv in sb.recs and int(tv, 16) >= SRC_BASE:
                    continue  # leak, reported by the whole-file scan
                self.report(f"wrong-pointer/{typ}/{c}", f"{typ} #{s}->{t}: pointer set ({c}, {list(svs)}) became {list(tvs)}; {tv} is not the copy of any of them")

    # DIMSTYLE overrides in the XDATA (ACAD / DSTYLE) of DIMENSION, LEADER, TOLERANCE: a resource is named (DXF R12: group
    # codes 5 6 7 + (1000, arrow name)) or referenced by handle (R2000+: 340..347 + (1005, handle)).  Both forms are brought to
    # (1070, handle-form code) (-1000, name of the table entry) so that an R12 source can be compared with any target.
    DSTYLE_NAME_CODES = {5: 342, 6: 343, 7: 344}
    DSTYLE_HANDLE_CODES = {340: "STYLE", 341: "BLOCK_RECORD", 342: "BLOCK_RECORD", 343: "BLOCK_RECORD", 344: "BLOCK_RECORD",
                           345: "LTYPE", 346: "LTYPE", 347: "LTYPE"}

    @classmethod
    def canon_dstyle(cls, rec, snap):
        """-> (record without the entries of the DSTYLE list, {canonical DIMSTYLE code: (value code, value)})"""
        xs = xdata_start(rec)
        out = list(rec[:xs])
        entries = {}
        i, n = xs, len(rec)
        blocks = None
        in_acad = in_ds = False
        while i < n:
            c, v = rec[i]
            if c == 1001:
                in_acad, in_ds = (str(v).upper() == "ACAD"), False
            elif in_acad and c == 1000 and str(v) == "DSTYLE" and i + 1 < n and rec[i + 1] == (1002, "{"):
                in_ds = True
                out += [rec[i], rec[i + 1]]
                i += 2
                continue
            elif in_ds and c == 1002 and v == "}":
                in_ds = False
            elif in_ds and c == 1070 and i + 1 < n:
                try:
                    code = int(v)
                except (TypeError, ValueError):
                    code = -1
                vc, vv = rec[i + 1]
                if code in cls.DSTYLE_NAME_CODES and vc == 1000:
                    if blocks is None:
                        blocks = snap.names("BLOCK_RECORD")
                    name = str(vv)
                    # arrow name -> block name: AutoCAD's own arrows are stored without the leading underscore
                    if name.lower() not in blocks and ("_" + name).lower() in blocks:
                        name = "_" + name
                    entries[cls.DSTYLE_NAME_CODES[code]] = (-1000, name)
                elif code in cls.DSTYLE_HANDLE_CODES and vc == 1005:
                    h = norm(vv)
                    entries[code] = (-1000, snap.name_of(h) if h in snap.recs else ("" if h == "0" else f"<unresolved #{h}>"))
                else:
                    entries[code] = (vc, vv)
                i += 2
                continue
            out.append((c, v))
            i += 1
        return out, entries

    def compare_dstyle(self, s, t, typ, es, et, name_ok, ta):
        """the DIMSTYLE overrides of a transferred DIMENSION / LEADER: every override of the source is an override of the copy;
        a resource override names the transferred copy of the source's resource.  The copy may carry MORE overrides (the code
        writes the mapped value of the DIMSTYLE itself as an override): such an entry must name an existing target resource."""
        for code, (vc, sv) in es.items():
            if code not in et:
                self.report(f"override-dropped/{typ}/{code}", f"{typ} #{s}->{t}: DIMSTYLE override {code} = {sv!r} is missing in the copy")
                continue
            tvc, tv = et[code]
            if vc == -1000:
                if tvc != -1000 or not name_ok(str(sv), str(tv)):
                    self.report(f"override-resource/{typ}", f"{typ} #{s}->{t}: the resource {sv!r} of DIMSTYLE override {code} became {tv!r}, "
                                f"which is not the transferred copy of {sv!r}")
            elif sv != tv:
                self.report(f"override-changed/{typ}/{code}", f"{typ} #{s}->{t}: DIMSTYLE override {code} = {sv!r} became {tv!r}")
        for code, (tvc, tv) in et.items():
            if code in es:
                continue
            T = self.DSTYLE_HANDLE_CODES.get(code)
            if tvc == -1000 and T is not None and (tv == "" or str(tv).lower() in ta.names(T)):
                self.stat(f"override-added/{typ}/{code}")
                continue
            self.report(f"override-added/{typ}/{code}", f"{typ} #{s}->{t}: the copy has the additional DIMSTYLE override {code} = {tv!r}")

    def compare(self, s, t, typ, rs_, rt_, sig, sb, ta, name_ok):
        if typ in ("DIMENSION", "LEADER", "TOLERANCE", "ARC_DIMENSION", "LARGE_RADIAL_DIMENSION"):
            (rs_, es), (rt_, et) = self.canon_dstyle(rs_, sb), self.canon_dstyle(rt_, ta)
            self.compare_dstyle(s, t, typ, es, et, name_ok, ta)
        rs_, rt_ = self.collapse(rs_), self.collapse(rt_)
        sc, tc = [c for c, v in rs_], [c for c, v in rt_]
        xs, xt = xdata_start(rs_), xdata_start(rt_)
        sm = difflib.SequenceMatcher(None, sc, tc, autojunk=False)
        for tag, i1, i2, j1, j2 in sm.get_opcodes():
            if tag == "equal":
                for i, j in zip(range(i1, i2), range(j1, j2)):
                    c, sv = rs_[i]
                    tv = rt_[j][1]
                    inx = i >= xs
                    if c in (5, 105) and not inx:
                        continue
                    if isinstance(sv, tuple) or isinstance(tv, tuple):
                        svs = sv if isinstance(sv, tuple) else (norm(sv),)
                        tvs = tv if isinstance(tv, tuple) else (norm(tv),)
                        self.deferred.append((typ, s, t, c, svs, tvs))
                        continue
                    if (not inx and (is_ptr(c) and c != 1005)) or (inx and c == 1005):
                        svn, tvn = norm(sv), norm(tv)
                        if tvn == "0":
                            if svn != "0" and svn in sig and sig[svn] in ta.recs and sig[svn] not in self.old:
                                own = dxfparse.base_refs(sb.recs[svn])[0] if svn in sb.recs else None
                                par = next((p for p, cs in sb.children.items() if svn in cs), None)
                                if par is not None:
                                    own = dxfparse.base_refs(sb.recs[par])[0]
                                if (own in sig and sig[own] in self.old and own in sb.recs and dxfparse.rec_type(sb.recs[own]) == "BLOCK_RECORD"):
                                    # documented design of add_block_record_entry: the target's block definition is kept, pointers
                                    # to the copied content are null even when a loading command placed that content into a layout
                                    self.stat(f"nulled-pointer-to-content-of-kept-block/{typ}/{c}")
                                    continue
                                # the referent WAS copied and its copy is in the target file, yet the pointer is null
                                self.report(f"nulled-although-copied/{typ}/{c}", f"{typ} #{s}->{t}: pointer ({c}, {sv}) became 0 although its "
                                            f"referent was transferred as #{sig[svn]}")
                            continue
                        if svn in sig and sig[svn] == tvn:
                            continue
                        if self.anchor_map.get(svn) == tvn:
                            continue  # owner of a loaded entity: the layout it was loaded into
                        if typ in ("VERTEX", "ATTRIB", "SEQEND") and c == 330 and t in ta.children.get(tvn, ()):
                            continue  # sub-entity owned by its parent (ezdxf writes either the parent or the parent's owner)
                        if (typ, c) in getattr(self, "target_defaults", TARGET_DEFAULT_POINTERS):
                            continue  # deliberately reset to the target's own default object by the code
                        if svn in sb.recs and int(svn, 16) >= SRC_BASE and tvn == svn:
                            continue  # reported as leak by the whole-file scan
                        if (tvn == svn and svn in sb.recs and tvn in ta.recs and dxfparse.rec_type(sb.recs[svn]) == dxfparse.rec_type(ta.recs[tvn])
                                and not getattr(self, "overlap", False)):
                            self.report(f"untranslated/{typ}/{c}", f"{typ} #{s}->{t}: pointer ({c}, {sv}) copied verbatim; it resolves in the target only "
                                        f"because both documents use the same handle for a {dxfparse.rec_type(sb.recs[svn])}")
                            continue
                        if (svn not in sig and svn in sb.recs and tvn in ta.recs and tvn not in self.old and tvn not in self.image
                                and dxfparse.rec_type(sb.recs[svn]) == dxfparse.rec_type(ta.recs[tvn])):
                            # an object the target created on its own for the copy (e.g. IMAGEDEF_REACTOR): unify and compare it too
                            sig[svn] = tvn
                            self.image.add(tvn)
                            self.work.append((svn, tvn))
                            self.stat("unified/" + dxfparse.rec_type(sb.recs[svn]))
                            continue
                        exp = sig.get(svn)
                        self.report(f"wrong-pointer/{typ}/{c}", f"{typ} #{s}->{t}: pointer ({c}, {sv}) became {tv}, expected {exp or '0'}"
                                    f" (target #{tvn} is {dxfparse.rec_type(ta.recs[tvn]) if tvn in ta.recs else 'missing'})")
                        continue
                    if sv == tv:
                        continue
                    if c in NAME_CODES and name_ok(str(sv), str(tv)):
                        continue
                    if inx and c == 1003 and name_ok(str(sv), str(tv)):
                        continue
                    if (typ, c) in DERIVED_COUNTS:
                        continue
                    if typ == "LAYOUT" and c == 1 and re.fullmatch(re.escape(str(sv)) + r" \(\d+\)", str(tv)) and str(sv).lower() in self.layout_names_before:
                        continue  # documented: a clashing layout name gets " (n)" appended
                    self.report(f"attr-changed/{typ}/{c}", f"{typ} #{s}->{t}: tag ({c}, {sv!r}) became {tv!r}")
            else:
                for i in range(i1, i2):
                    c, sv = rs_[i]
                    if is_ptr(c) or is_arbitrary(c) or c == 102:
                        self.stat(f"dropped-pointer/{typ}/{c}")
                        continue
                    if typ == "DICTIONARY" and c == 3 and not any(cc == 280 and str(vv).strip() == "1" for cc, vv in rs_):
                        self.stat("dropped-entry-of-soft-owner-dictionary")   # the entry (not owned => not registered) became nothing
                        continue
                    self.report(f"attr-dropped/{typ}/{c}", f"{typ} #{s}->{t}: source tag ({c}, {sv!r}) has no counterpart")
                ss = [rs_[i] for i in range(i1, i2) if is_ptr(rs_[i][0])]
                for j in range(j1, j2):
                    c, tv = rt_[j]
                    if is_ptr(c) and any(x[0] == c for x in ss):
                        sv = next(x[1] for x in ss if x[0] == c)
                        self.deferred.append((typ, s, t, c, sv if isinstance(sv, tuple) else (norm(sv),), tv if isinstance(tv, tuple) else (norm(tv),)))
                        continue
                    if is_ptr(c) or c == 102:
                        continue  # resolved / leak checked by the whole-file scan
                    self.report(f"attr-added/{typ}/{c}", f"{typ} #{s}->{t}: target tag ({c}, {tv!r}) has no counterpart in the source")

    def policy(self, s, t, typ, policy, xref, sb, tb, ta, names_before, names_after):
        T = sb.table_of.get(s, typ)
        if (T not in TABLE_ATTR and T not in COLLECTIONS) or T == "APPID":
            return
        name = sb.name_of(s)
        low = name.lower()
        before = names_before.get(T, {})
        tname = ta.name_of(t)
        existing = before.get(low)
        # a name taken by the copy of ANOTHER source entry of this transfer is a conflict as well ("A" -> "$0$A" makes the
        # source's own "$0$A" clash)
        taken_by_other = any(n == low for sh, n in self.copy_names.get(T, {}).items() if sh != s)
        special = ((T == "LAYER" and (low in SPECIAL_LAYERS or low.startswith("*adsk"))) or (T == "LTYPE" and low in SPECIAL_LTYPES)
                   or (T == "MATERIAL" and low in ("global", "bylayer", "byblock")) or (T in ("MLINESTYLE", "MLEADERSTYLE") and low == "standard"))
        key = f"policy/{policy}/{T}"
        if T == "STYLE" and name == "":
            return  # shape file entries are matched by font
        if special:
            if existing is not None and t != existing:
                self.report(key + "/special-not-kept", f"{T} '{name}' is a special entry but was mapped to #{t} '{tname}' instead of the target's #{existing}")
            return
        if T == "BLOCK_RECORD" and len(name) > 1 and name.startswith("*"):
            if t in (tb.recs if tb else {}) or not tname.upper().startswith(name[:2].upper()):
                self.report(key + "/anonymous", f"anonymous block '{name}' mapped to #{t} '{tname}'")
            return
        is_new = t not in (tb.recs if tb else {})
        if policy == "KEEP":
            if existing is not None:
                if t != existing:
                    self.report(key + "/existing-not-used", f"{T} '{name}' exists in the target (#{existing}) but the source entry was mapped to #{t} '{tname}'")
            elif not is_new or tname != name:
                self.report(key + "/not-added", f"{T} '{name}' (no clash) became #{t} '{tname}'")
            return
        rename = policy == "XREF_PREFIX" or existing is not None or (taken_by_other and tname != name)
        pre = xref if policy == "XREF_PREFIX" else ""
        if not rename:
            if not is_new or tname != name:
                self.report(key + "/renamed-without-clash", f"{T} '{name}' (no clash) became #{t} '{tname}'")
            return
        m = re.fullmatch(re.escape(pre) + r"\$(\d+)\$" + re.escape(name), tname)
        if not is_new or m is None:
            self.report(key + "/name-form", f"{T} '{name}' became '{tname}' (#{t}, new={is_new}); expected '{pre}$<n>${name}'")
            return
        idx = int(m.group(1))
        if tname.lower() in before:
            self.report(key + "/not-fresh", f"{T} '{name}' renamed to '{tname}' which already existed")
        after = names_after.get(T, {})
        for j in range(idx):
            if f"{pre}${j}${name}".lower() not in after:
                self.report(key + "/index-not-minimal", f"{T} '{name}' renamed to '{tname}' although '{pre}${j}${name}' was free")

    # ---- H I
    def order_and_resources(self, info, sig, sb: Snap, tb: Snap | None, ta: Snap, copy_errors=()):
        old = tb.recs if tb else {}
        lay = info.get("target_layout")
        if lay is not None and info.get("loaded") is not None:
            brh = norm(lay.block_record_handle)
            if lay.is_any_layout and (lay.is_modelspace or lay.is_active_paperspace):
                got = [h for h in ta.entities if h not in old and dxfparse.base_refs(ta.recs[h])[0] == brh]
            else:
                blk = next((b for b in ta.block_content if dxfparse.base_refs(ta.recs[b])[0] == brh), None)
                got = [h for h in ta.block_content.get(blk, []) if h not in old]
            image = set(sig.values())
            want = [sig.get(norm(h)) for h in info["loaded"] if norm(h) not in copy_errors]
            for hs, w in zip(info["loaded"], want):
                if w is None or w not in ta.recs:
                    r = sb.recs.get(norm(hs))
                    typ = dxfparse.rec_type(r) if r else "?"
                    if typ == "VIEWPORT" and any(c == 69 and str(v).strip() == "1" for c, v in r):
                        continue  # documented: a loaded main viewport is replaced by the target's own
                    self.report(f"not-loaded/{typ}", f"source {typ} #{hs} was to be loaded but has no copy in the target layout")
            want = [w for w in want if w in ta.recs]
            got_image = [h for h in got if h in image]
            if got_image != want:
                # a copy that is already the content of a transferred block definition (or of another layout) is loaded as a
                # DUPLICATE with a new handle (fix of the shared-copy defect): same type, same tags apart from handles
                def plain(h):
                    return [(c, v) for c, v in ta.recs[h] if not (c in (5, 105, 102) or is_ptr(c) or is_arbitrary(c))]

                ok = len(got) == len(want) and all(
                    g == w or (g not in image and ta.where.get(w) == "BLOCKS" and plain(g) == plain(w)) for g, w in zip(got, want))
                if ok:
                    self.stat("loaded-as-duplicate", sum(1 for g, w in zip(got, want) if g != w))
                else:
                    self.report("order/target-layout", f"target layout content {got[:8]}... is not the image of the loaded entities {want[:8]}...")
        # every transferred block definition holds the image of the source content, in order
        brs = {dxfparse.base_refs(sb.recs[b])[0]: b for b in sb.block_content}
        brt = {dxfparse.base_refs(ta.recs[b])[0]: b for b in ta.block_content}
        for s, t in list(sig.items()):
            if s in sb.recs and dxfparse.rec_type(sb.recs[s]) == "BLOCK_RECORD" and t in ta.recs and t not in old and s in brs:
                if s in {norm(a) for a in info["anchors"]}:
                    continue
                name = next((v for c, v in sb.recs[s] if c == 2), "")
                if name.lower() in ("*model_space", "*paper_space"):
                    continue
                if t not in brt:
                    self.report("block/no-definition", f"copied BLOCK_RECORD #{t} of '{name}' has no BLOCK definition in the target")
                    continue
                want = [sig.get(h) for h in sb.block_content[brs[s]]]
                got = ta.block_content[brt[t]]
                if want != got:
                    self.report("block/content", f"block '{name}' #{s}->{t}: content {got[:8]} is not the image {want[:8]} of the source content")
        names = {T: ta.names(T) for T in ("LAYER", "LTYPE", "STYLE", "DIMSTYLE", "BLOCK_RECORD")}
        image = set(sig.values())
        # block definitions that appeared in the target without being the copy of a source block
        layout_brs = {norm(v) for r in ta.recs.values() if dxfparse.rec_type(r) == "LAYOUT" for c, v in r if c == 330}
        self.orphan_handles, self.orphan_names = set(), set()
        for brh, b in brt.items():
            if brh in old or brh in image or brh in layout_brs or brh is None:
                continue
            name = ta.name_of(brh) if brh in ta.recs else "?"
            self.orphan_names.add(name)
            self.orphan_handles.update([brh, b] + ta.block_content[b])
            for h in ta.block_content[b]:
                self.orphan_handles.update(ta.children.get(h, []))
            self.report(f"orphan-block/{name[:2]}", f"the target got a block '{name}' (#{brh}) that is not the copy of any source block "
                        f"({len(ta.block_content[b])} entities, not mapped)")
        for h, r in ta.recs.items():
            if h in old or h not in image or ta.where.get(h) not in ("ENTITIES", "BLOCKS"):
                continue
            typ = dxfparse.rec_type(r)
            xs = xdata_start(r)
            sub = ""
            for c, v in r[:xs]:
                if c == 100:
                    sub = v
                T = None
                if c == 8:
                    T = "LAYER"
                elif c == 6:
                    T = "LTYPE"
                elif c == 7 and typ in ("TEXT", "ATTRIB", "ATTDEF", "MTEXT"):
                    T = "STYLE"
                elif c == 3 and typ in ("DIMENSION", "LEADER", "TOLERANCE") and sub in ("AcDbDimension", "AcDbLeader", "AcDbFcf"):
                    T = "DIMSTYLE"
                elif c == 2 and ((typ == "DIMENSION" and sub == "AcDbDimension") or (typ == "INSERT" and sub == "AcDbBlockReference")):
                    T = "BLOCK_RECORD"
                if T is None or v.lower() in names[T]:
                    continue
                exact = any(sb.name_of(x) == v for x in sb.names(T).values())
                kind = typ if exact else "case-variant"
                if not exact:
                    self.case_names.add(v)
                    self.orphan_or_case_handles.add(h)
                # a name without table entry in the source as well is not a transfer problem
                if not exact and v.lower() not in {k for k in sb.names(T)} and not any(v.lower().endswith(k) for k in sb.names(T)):
                    continue
                self.report(f"resource-missing/{T}/{kind}", f"transferred {typ} #{h} refers to {T} '{v}' which is not in the target")


def snap_of(doc):
    """records of a document; a DXF R12 document is looked at through its R2000 export (owner handles, BLOCK_RECORD table)"""
    return Snap(doc, as_version=ACADVER["R2000"]) if doc.dxfversion == ACADVER["R12"] else Snap(doc)


# ================================================================== one oracle case
def gen_case(rng, i: int):
    sver = rng.choice(VERSIONS)
    # the target must not be older than the source (documented precondition of the Loader)
    tver = rng.choice([v for v in VERSIONS if VERSIONS.index(v) >= VERSIONS.index(sver)])
    op = OPS[i % len(OPS)] if i < 4 * len(OPS) else rng.choice(OPS)
    feats = pick_features(rng)
    if op == "psp" and "paperspace" not in feats:
        feats = sorted(feats + ["paperspace"])
    if op in ("block_into", "detach_embed") and not ({"blocks", "nested", "attribs"} & set(feats)):
        feats = sorted(feats + ["blocks"])
    if op == "importer":
        feats = sorted(set(feats) & set(IMPORTER_FEATURES)) or ["blocks"]
    spec = {
        "seed": rng.randrange(1 << 30), "sver": sver, "tver": tver, "op": op, "policy": POLICIES[i % 3] if i < 30 else rng.choice(POLICIES),
        "feats": feats, "clash": sorted(rng.sample(CLASH, rng.randint(0, 7))), "named": rng.random() < 0.5,
    }
    # session 3 (drawn last so that the cases of earlier sessions keep their inputs):
    r12 = rng.random() < 0.12
    spec["overlap"] = rng.random() < 0.3
    extra = [x for x in ("chain", "blk_refs") if rng.random() < 0.35]
    if extra and op != "importer":
        spec["feats"] = sorted(set(feats) | set(extra) | {"blocks"})
    # follow-up (drawn after everything else): indirectly used resources; a target that was saved and loaded again before the
    # transfer (counters of a loaded document start again: underlay keys, anonymous block names, handles)
    if (op == "importer" or rng.random() < 0.25) and spec["sver"] != "R12":
        spec["feats"] = sorted(set(spec["feats"]) | {"indirect"})
    spec["reload_target"] = rng.random() < 0.35
    if {"underlay", "image"} & set(spec["feats"]) and rng.random() < 0.6:
        # definition dictionaries with generated keys: the target already holds definitions of its own and was loaded from a file
        spec["clash"] = sorted(set(spec["clash"]) | {"underlaydef", "imagedef"})
        spec["reload_target"] = True
    if "solid3d" in spec["feats"] and not (sver in ("R2007", "R2010") and tver in ("R2007", "R2010")):
        spec["feats"] = [x for x in spec["feats"] if x != "solid3d"]   # SAT data is exported for R2007 / R2010 only
    if r12 and op in R12_OPS:
        # a DXF R12 source (resources of DIMSTYLE overrides are stored by NAME) into any target version
        spec["sver"] = "R12"
        spec["tver"] = rng.choice(["R12"] + VERSIONS)
        fs = (set(spec["feats"]) & set(R12_FEATURES)) | {"dim"}
        if rng.random() < 0.7:
            fs |= {"dimblk"}
        if op == "psp":
            fs.add("paperspace")
        if op == "block_into":
            fs.add("blocks")
        spec["feats"] = sorted(fs)
    return spec


# operations whose target is a document of the harness (write_block / detach create the target with the version of the source;
# the record analysis needs the owner handles that only DXF R2000+ files carry)
R12_OPS = ["msp", "msp_filter", "loader_mix", "block_into", "resources"]


def crash_site(e):
    import traceback

    fr = [f for f in traceback.extract_tb(e.__traceback__) if "/ezdxf/" in f.filename]
    return f"{os.path.basename(fr[-1].filename)[:-3]}.{fr[-1].name}" if fr else None


def attribute(fails, an):
    """derived symptoms are re-keyed under their cause so that a known-finding entry matches one defect only"""
    out = []
    if any(k.startswith("target-invalid/duplicate handle") for k, _ in fails):
        w = next(w for k, w in fails if k.startswith("target-invalid/duplicate handle"))
        keep = [(k, w_) for k, w_ in fails if k.split("/")[0] in ("source-changed", "leak", "crash")]
        return keep + [("shared-copy/entity-in-two-layouts", "one copy was added to two layouts of the target (content of a block loaded into a layout "
                        "while the same block is also transferred as block definition): " + w)]
    for k, w in fails:
        if not k.startswith("orphan-block/") and (any(f"#{h}" in w.replace("(#", " #").replace(")", " ") + " " and (f"#{h} " in w.replace(")", " ") + " " or f"#{h})" in w) for h in an.orphan_handles)
                                                or any(f"block {n}" in w for n in an.orphan_names)):
            k = "orphan-block/derived/" + k
        elif not k.startswith("resource-missing/") and (any(f"'{n}'" in w or f" {n} " in w for n in an.case_names)
                                                        or any(f"(#{h})" in w or f"#{h} " in w for h in an.orphan_or_case_handles)):
            k = "case-variant/derived/" + k
        out.append((k, w))
    return out


def embed_back(host, detached, info, spec, rng, tmpdir):
    """second half of detach_embed: save the detached document, embed it back into the host block"""
    import ezdxf
    from ezdxf import xref
    from ezdxf.xref import ConflictPolicy

    fails, seen = [], set()

    def report(key, what):
        if key not in seen:
            seen.add(key)
            fails.append((key, "embed(): " + what))

    an = Analysis(report)
    path = os.path.join(tmpdir, "detached.dxf")
    detached.saveas(path)
    loaded = []

    def load(fn):
        d = ezdxf.readfile(fn)
        loaded.append(d)
        return d

    blk = host.blocks.get(info["block"])
    tb = Snap(host)
    policy = spec["policy"]
    with Capture() as cap:
        try:
            xref.embed(blk, load_fn=load, conflict_policy=getattr(ConflictPolicy, policy))
        except Exception as e:  # noqa
            site = crash_site(e)
            if site is None:
                raise
            report(f"crash/{type(e).__name__}/{site}/{policy}", f"embed with {policy} raised {type(e).__name__}: {e} at {site}")
            return fails
    if not cap.transfers or not loaded:
        return fails
    tr = cap.transfers[-1]
    sdoc = loaded[0]
    sp = Snap(sdoc, as_version=host.dxfversion)
    ta = Snap(host)
    sigma = {norm(k): norm(v) for k, v in tr.handle_mapping.items()}
    # embed() resets the XREF flags / path and sets the base point of the host BLOCK entity by design
    an.target_valid(host, tb, ta, sp, may_change={norm(blk.block.dxf.handle)})
    info2 = {"anchors": {sdoc.modelspace().block_record_handle: blk.block_record_handle}, "target_layout": blk,
             "loaded": [e.dxf.handle for e in sdoc.modelspace()]}
    sig = an.pairs(sigma, info2, policy, tr.xref_prefix, sp, tb, ta)
    an.order_and_resources(info2, sig, sp, tb, ta, copy_errors={norm(h) for h in tr.copy_errors})
    return attribute(fails, an)


def run_case(spec, tmpdir=None):
    """-> (failures: list[(key, what)], stats, error or None)"""
    rng = random.Random(spec["seed"])
    own_tmp = None
    if tmpdir is None:
        own_tmp = tempfile.TemporaryDirectory(dir=os.environ.get("VERIF_SCRATCH"))
        tmpdir = own_tmp.name
    fails = []
    seen = set()

    def report(key, what):
        if key not in seen:
            seen.add(key)
            fails.append((key, what))

    an = Analysis(report)
    an.overlap = bool(spec.get("overlap"))
    try:
        xname = "xr" if spec["named"] else ""
        src = build_source(spec["sver"], spec["feats"], rng, filename=os.path.join(tmpdir, "xr.dxf") if spec["named"] else None,
                           overlap=spec.get("overlap", False))
        op, policy = spec["op"], spec["policy"]
        tgt = None
        if op not in ("write_block", "detach_embed"):
            tgt = build_target(spec["tver"], spec["clash"], rng, xname)
            if spec.get("reload_target") and spec["tver"] != "R12":
                # the target as an application meets it: saved and loaded again before the transfer (not DXF R12: a file of that
                # version cannot hold the additional layouts of the generated target, the reloaded document fails its own audit)
                buf = io.StringIO()
                tgt.write(buf)
                tgt = __import__("ezdxf").read(io.StringIO(buf.getvalue()))
        Snap(src)  # warm-up export: export itself may normalise attributes of the source
        sb = Snap(src)
        tb = snap_of(tgt) if tgt is not None else None
        if op == "importer":
            from ezdxf.addons.importer import Importer

            try:
                imp = Importer(src, tgt)
                imp.import_modelspace()
                if rng.random() < 0.5:
                    imp.import_tables("*")
                if "paperspace" in spec["feats"] and rng.random() < 0.5:
                    imp.import_paperspace_layout("Sheet A")
                imp.finalize()
            except Exception as e:  # noqa
                site = crash_site(e)
                if site is None:
                    raise
                report(f"crash/{type(e).__name__}/{site}/importer", f"Importer raised {type(e).__name__}: {e} at {site}")
                return fails, an.stats, None
            sa, ta = Snap(src), snap_of(tgt)
            an.source_unchanged(sb, sa)
            an.target_valid(tgt, tb, ta, sb)
            an.importer_tables(Snap(src, as_version=ta.version) if ta.version != src.dxfversion else sa, tb, ta)
            fails[:] = [("importer/" + k, w) for k, w in fails]
            return fails, an.stats, None
        with Capture() as cap:
            try:
                info = run_transfer(op, src, tgt, policy, rng, tmpdir)
            except Exception as e:  # noqa
                site = crash_site(e)
                if site is None:
                    raise
                report(f"crash/{type(e).__name__}/{site}/{policy}", f"{op} with {policy} raised {type(e).__name__}: {e} at {site}")
                return fails, an.stats, None
        if not cap.transfers:
            return fails, an.stats, "no transfer captured"
        tr = cap.transfers[-1]
        sigma = {norm(k): norm(v) for k, v in tr.handle_mapping.items()}
        tdoc = info["tgt"]
        for k, v in tr._alloc.items():   # copies that were placed although their block definition was not taken over
            e_ = tdoc.entitydb.get(v)
            if norm(k) not in sigma and e_ is not None and e_.is_alive and e_.dxf.owner is not None:
                sigma[norm(k)] = norm(v)
        sa = Snap(src)
        ta = snap_of(tdoc)
        if op in ("write_block", "detach_embed"):
            policy = "KEEP"  # detach() uses KEEP, write_block the default policy of Loader (KEEP)
        xref_used = tr.xref_prefix
        if op != "detach_embed":   # detach() converts the block of the source into an XREF by design
            an.source_unchanged(sb, sa)
        an.target_valid(tdoc, tb, ta, sb)
        if op == "psp":
            sl = src.layouts.get(info["psp"])
            tl = tr.get_reference_of_copy(sl.dxf_layout.dxf.handle)
            if tl is not None and tl.is_alive:
                tlay = tdoc.paperspace(tl.dxf.name)
                info["anchors"][sl.block_record_handle] = tlay.block_record_handle
                info["target_layout"] = tlay
        sp = Snap(src, as_version=ta.version) if ta.version != src.dxfversion else sa
        sig = an.pairs(sigma, info, policy, xref_used, sp, tb, ta)
        an.order_and_resources(info, sig, sp, tb, ta, copy_errors={norm(h) for h in tr.copy_errors})
        if tr.copy_errors:
            an.stat("copy-errors", len(tr.copy_errors))
        an.stat("sigma", len(sigma))
        fails[:] = attribute(fails, an)
        if op == "detach_embed":
            fails += embed_back(src, tdoc, info, spec, rng, tmpdir)
    finally:
        if own_tmp:
            own_tmp.cleanup()
    return fails, an.stats, None


# ================================================================== correspondence: model (Lean driver) vs real functions
PTR_CODES = [0, 1, 5, 105, 319, 320, 325, 329, 330, 331, 339, 340, 345, 349, 350, 355, 359, 360, 365, 369, 370, 389, 390,
             395, 399, 400, 479, 480, 481, 482, 1000, 1003, 1004, 1005, 1006, 1071]


def scps(s: str) -> str:
    return cps(s)


def enc_sigma(d: dict) -> str:
    return ";".join(f"{cps(k)}>{cps(v)}" for k, v in d.items())


def enc_tags(tags) -> str:
    return ";".join(f"{c}:{cps(str(v))}" for c, v in tags)


def gen_handles(rng, n, base=0x100):
    return ["%X" % (base + i * rng.randint(1, 3)) for i in range(n)]


def corr_pointers(ctx, cases):
    """X1: _Transfer.map_pointers / DXFEntity.map_resources (XDATA, reactors) / map_existing_handle"""
    import ezdxf
    from ezdxf import xref
    from ezdxf.lldxf.tags import Tags
    from ezdxf.lldxf.types import DXFTag
    from ezdxf.entities import DXFEntity, Line, Layer

    rng = ctx.rng("x1")
    sdoc, tdoc = ezdxf.new(), ezdxf.new()
    objs = [tdoc.rootdict.add_xrecord(f"VX{i}") for i in range(5)]
    dbh = [o.dxf.handle for o in objs]
    reg = xref._Registry(sdoc, tdoc)
    n = ctx.n(1500, 20000)
    codes_all = list(range(0, 1072))
    for i in range(n):
        src_handles = gen_handles(rng, rng.randint(0, 6), 0xA000)
        pool = dbh + ["0", "FFF0", "FFF1", ""]
        sigma = {h: rng.choice(pool[:7]) for h in src_handles if rng.random() < 0.8}
        tr = xref._Transfer(registry=reg, copies={}, objects={}, handle_mapping=dict(sigma), copy_errors=set())
        vals = src_handles + ["0", "BEEF", "", "A000"] + dbh[:2]
        k = rng.randint(0, 10)
        tags = [(rng.choice(PTR_CODES) if rng.random() < 0.8 else rng.choice(codes_all), rng.choice(vals)) for _ in range(k)]
        kind = i % 4
        if kind == 0 or kind == 1:
            owner = rng.choice(["", "", "1F", dbh[0]])
            for o in objs:
                o.dxf.owner = "C"
            real = Tags([DXFTag(c, v) for c, v in tags])
            tr.map_pointers(real, new_owner_handle=owner)
            changed = sorted((o.dxf.handle for o in objs if o.dxf.owner != "C"), key=lambda h: [ord(ch) for ch in h])
            if owner == "C":
                changed = []
            impl = enc_tags([(t.code, t.value) for t in real]) + "|" + ";".join(cps(h) for h in changed)
            req = f"mp|{cps(owner)}|{';'.join(cps(h) for h in dbh)}|{enc_sigma(sigma)}|{enc_tags(tags)}"
            nontriv = any(is_ptr(c) or is_arbitrary(c) for c, _ in tags)
            ctx.hist("X1 pointers", "map_pointers")
        elif kind == 2:
            xt = [(rng.choice([1000, 1003, 1005, 1005, 1070, 1002, 1004]), rng.choice(vals + ["L1", "L2"])) for _ in range(k)]
            xt = [(c, v if c not in (1070,) else 7) for c, v in xt]
            lay = {"L1": "x$0$L1"} if rng.random() < 0.6 else {}
            tr.layer_mapping.update(lay)
            tr.layer_mapping.update({k.lower(): v for k, v in lay.items()})   # key form of either revision of the code
            e = Line.new(handle="A0FF", dxfattribs={"layer": "0"})
            e.set_xdata("VAPP", xt)
            rs = [rng.choice(vals[:-3] or ["0"]) for _ in range(rng.randint(0, 4))]
            rs = [r for r in rs if r]
            if rs:
                e.set_reactors(rs)
            clone = e.copy()
            DXFEntity.map_resources(e, clone, tr)
            got = [(t.code, t.value) for t in clone.xdata.get("VAPP")][1:]
            impl = enc_tags(got)
            req = f"mx|{enc_sigma(sigma)}|{enc_sigma(lay)}|{enc_tags(xt)}"
            cases.append((req, impl, any(c in (1005, 1003) for c, _ in xt)))
            rr = clone.reactors.reactors if clone.reactors else None
            impl = "none" if rr is None else "set " + ";".join(cps(h) for h in sorted(set(rr), key=lambda h: [ord(ch) for ch in h]))
            req = f"mr|{enc_sigma(sigma)}|{';'.join(cps(h) for h in rs)}"
            nontriv = bool(rs)
            ctx.hist("X1 pointers", "xdata+reactors")
        else:
            present = rng.random() < 0.8
            h = rng.choice(vals)
            opt = rng.random() < 0.5
            s_ = Layer.new(handle="A0FE", dxfattribs={"name": "S", **({"material_handle": h} if present else {})})
            c_ = Layer.new(handle="20FE", dxfattribs={"name": "S", "material_handle": "SENTINEL"})
            tr.map_existing_handle(s_, c_, "material_handle", optional=opt)
            v = c_.dxf.get("material_handle")
            impl = "discarded" if v is None else ("untouched" if v == "SENTINEL" else "set " + cps(v))
            req = f"me|{enc_sigma(sigma)}|{int(present)}|{cps(h)}|{int(opt)}"
            nontriv = present and h != ""
            ctx.hist("X1 pointers", "map_existing_handle")
        cases.append((req, impl, nontriv))


NAME_ALPHA = "ABab019_$-"


def gen_name(rng):
    base = rng.choice(["L1", "l1", "A", "a", "Ab", "$0$A", "X", "0", "Defpoints", "DEFPOINTS", "STANDARD", "Standard", "B_A"])
    if rng.random() < 0.3:
        base = "".join(rng.choice(NAME_ALPHA) for _ in range(rng.randint(1, 4)))
    return base


def corr_unique(ctx, cases):
    """X2: get_unique_table_name on a real LayerTable, get_unique_dict_key on a real Dictionary"""
    import ezdxf
    from ezdxf import xref

    rng = ctx.rng("x2")
    doc = ezdxf.new()
    d = doc.rootdict.add_new_dict("VTEST")
    ph = doc.objects.add_placeholder(owner=d.dxf.handle)
    for i in range(ctx.n(1200, 15000)):
        name = gen_name(rng)
        xr = rng.choice(["", "", "x", "X", "ref", "$0"])
        k = rng.choice([0, 1, 2, 3, 5, 8, 12])
        # occupy a prefix of the candidate sequence (both letter cases) plus unrelated names
        occ = []
        for j in range(k):
            cand = f"{xr}${j}${name}"
            if rng.random() < 0.9:
                occ.append(cand.upper() if rng.random() < 0.4 else cand.lower() if rng.random() < 0.5 else cand)
        occ += [gen_name(rng) for _ in range(rng.randint(0, 3))]
        if i % 2 == 0:
            added = []
            for o in occ:
                if not doc.layers.has_entry(o):
                    doc.layers.add(o)
                    added.append(o)
            keys = [l.dxf.name.lower() for l in doc.layers]
            impl = cps(xref.get_unique_table_name(name, xr, doc.layers))
            for o in added:
                doc.layers.remove(o)
            cases.append((f"un|{cps(name)}|{cps(xr)}|{';'.join(cps(x) for x in keys)}", impl, k > 0))
            ctx.hist("X2 unique names", f"table/{min(k, 9)}")
        else:
            for o in occ:
                d.add(o, ph)
            keys = list(d.keys())
            impl = cps(xref.get_unique_dict_key(name, xr, d))
            for o in set(occ):
                d.discard(o)
            cases.append((f"ud|{cps(name)}|{cps(xr)}|{';'.join(cps(x) for x in keys)}", impl, k > 0))
            ctx.hist("X2 unique names", f"dict/{min(k, 9)}")


SPEC_CASES: list = []


def corr_policy(ctx, cases):
    """X3: the conflict-policy decisions of a real Loader run over generated name sets"""
    del SPEC_CASES[:]
    import ezdxf
    from ezdxf import xref
    from ezdxf.xref import ConflictPolicy, Loader
    from ezdxf.lldxf import const

    rng = ctx.rng("x3")
    kinds = ["layer", "ltype", "table", "table", "block", "material", "standard"]
    skipped = 0
    for i in range(ctx.n(260, 3000)):
        kind = kinds[i % len(kinds)]
        policy = POLICIES[(i // len(kinds)) % 3]
        xr = rng.choice(["", "x", "Ref"])
        sdoc, tdoc = ezdxf.new(), ezdxf.new()
        sub = None
        specials = {"layer": ["0", "Defpoints", "DEFPOINTS", "*ADSK_X"], "ltype": ["Continuous", "BYLAYER", "ByBlock", "CONTINUOUS"],
                    "table": ["Standard", "STANDARD"], "block": ["*U1", "*D7", "*", "_ARROW"], "material": ["Global", "ByLayer", "GLOBAL"],
                    "standard": ["Standard", "STANDARD"]}[kind]

        def names(n):
            out = []
            for _ in range(n):
                nm = rng.choice(specials) if rng.random() < 0.3 else gen_name(rng)
                if kind == "block":
                    nm = nm.replace("$", "S") if False else nm
                out.append(nm)
            return out

        if kind == "layer":
            st, tt, load = sdoc.layers, tdoc.layers, "load_layers"
            add = lambda t, n: t.add(n)
        elif kind == "ltype":
            st, tt, load = sdoc.linetypes, tdoc.linetypes, "load_linetypes"
            add = lambda t, n: t.add(n, pattern=[0.2, 0.1, -0.1])
        elif kind == "table":
            which = rng.choice(["styles", "dimstyles"])
            st, tt = getattr(sdoc, which), getattr(tdoc, which)
            load = "load_text_styles" if which == "styles" else "load_dim_styles"
            add = (lambda t, n: t.add(n, font="txt.shx")) if which == "styles" else (lambda t, n: t.new(n))
        elif kind == "block":
            st, tt, load = sdoc.block_records, tdoc.block_records, None
            add = None
        elif kind == "material":
            st, tt, load = sdoc.materials, tdoc.materials, "load_materials"
            add = lambda t, n: t.new(n)
        else:
            which = rng.choice(["mline_styles", "mleader_styles"])
            st, tt = getattr(sdoc, which), getattr(tdoc, which)
            load = "load_" + which
            add = (lambda t, n: t.new(n)) if which == "mline_styles" else (lambda t, n: t.duplicate_entry("Standard", n))
        has = (lambda t, n: t.has_entry(n))
        tnames, snames = names(rng.randint(0, 5)), names(rng.randint(1, 5))
        # prefixed variants occupy the first candidate slots now and then
        for nm in list(snames):
            if rng.random() < 0.3:
                tnames.append(f"{xr if policy == 'XREF_PREFIX' else ''}$0${nm}")
        # the target holds the same name in ANOTHER letter case (names are case-insensitive in every kind of container)
        for nm in list(snames):
            if rng.random() < 0.3 and nm.swapcase() != nm:
                tnames.append(nm.swapcase())
        try:
            for nm in tnames:
                if kind == "block":
                    if not nm.startswith("*") and nm not in tdoc.blocks:
                        tdoc.blocks.new(nm)
                elif not has(tt, nm):
                    add(tt, nm)
            used = []
            for nm in snames:
                if kind == "block":
                    if nm in sdoc.blocks or nm == "*":
                        continue
                    if nm.startswith("*"):
                        b = sdoc.blocks.new_anonymous_block(nm[1])
                        nm = b.name
                    else:
                        sdoc.blocks.new(nm).add_line((0, 0), (1, 1))
                    used.append(nm)
                else:
                    if not has(st, nm):
                        add(st, nm)
                        used.append(nm)
                    elif nm.lower() in [s.lower() for s in specials] and nm not in used and st.get(nm) is not None:
                        used.append(nm)
        except Exception:  # invalid generated name for this table type
            skipped += 1
            continue
        if not used:
            continue
        if kind in ("material", "standard"):
            before = [(k, int(e.dxf.handle, 16)) for k, e in tt]
        else:
            before = [(e.dxf.name.lower(), int(e.dxf.handle, 16)) for e in tt]
        before_handles = {h for _, h in before}
        src_entries = []
        for nm in used:
            e = st.get(nm)
            src_entries.append((e.dxf.name, e.dxf.handle))
        loader = Loader(sdoc, tdoc, conflict_policy=getattr(ConflictPolicy, policy))
        if kind == "block":
            for nm in used:
                loader.load_block_layout(sdoc.blocks.get(nm))
        else:
            getattr(loader, load)(used)
        with Capture() as cap:
            try:
                loader.execute(xref_prefix=xr)
            except AttributeError as e:
                if "destroy" in str(e):
                    ctx.hist("X3 policy", "skipped: known crash (KEEP + block clash)")
                    continue
                raise
            except const.DXFValueError as e:
                if "Invalid value" not in str(e):
                    raise
                req = (f"pol|{kind}|{policy}|{cps(xr)}|{';'.join(f'{cps(k)}:{h}' for k, h in before)}|"
                       f"{';'.join(f'{cps(n)}:{int(h, 16) + 0x100000}' for n, h in src_entries)}")
                cases.append((req, "RAISE DXFValueError", True))
                ctx.hist("X3 policy", f"{kind}/{policy}/invalid-name")
                continue
        tr = cap.transfers[-1]
        decs = []
        order = [h for h in tr.copied_blocks["0"] if any(h == sh for _, sh in src_entries)] if kind not in ("material", "standard") else \
            [h for h in tr.copied_objects if any(h == sh for _, sh in src_entries)]
        by_handle = {sh: nm for nm, sh in src_entries}
        seq = []
        for sh in order:
            nm = by_handle[sh]
            th = tr.handle_mapping.get(sh)
            ent = tdoc.entitydb.get(th) if th else None
            hnum = int(th, 16) if th else 0
            seq.append((nm, int(sh, 16) + 0x100000))
            if ent is None:
                decs.append("E")
            elif hnum in before_handles:
                decs.append(f"U{hnum}")
            else:
                newname = ent.dxf.name
                if kind == "block" and nm.startswith("*") and len(nm) > 1:
                    newname = "*" + newname[1] + "?" if newname.upper().startswith("*" + nm[1].upper()) and newname not in [b for b, _ in before] else newname
                decs.append("A" + cps(newname))
        if kind in ("material", "standard"):
            after = [k for k, e in tt]
        else:
            after = [e.dxf.name.lower() for e in tt]
        if kind == "block":
            # anonymous names are chosen by the target's counter: compare the form only
            after = [("*" + a[1] + "?") if (a.startswith("*") and a not in [b for b, _ in before] and len(a) > 1) else a for a in after]
        impl = ";".join(decs) + "|" + ";".join(cps(a) for a in after)
        req = (f"pol|{kind}|{policy}|{cps(xr)}|{';'.join(f'{cps(k)}:{h}' for k, h in before)}|"
               f"{';'.join(f'{cps(n)}:{h}' for n, h in seq)}")
        clash = any(n.lower() in [b.lower() for b, _ in before] for n, _ in seq)
        cases.append((req, impl, clash or policy == "XREF_PREFIX"))
        ctx.hist("X3 policy", f"{kind}/{policy}")
        # X6: the same real decisions handed to the proven checker of the abstract PolicySpec (no hand model in between); names the
        # special-case front ends treat differently (special layers, default linetypes, anonymous blocks, system entries) are left out
        low = [n.lower() for n, _ in seq]
        special = {"layer": lambda n: n in ("0", "defpoints") or n.startswith("*"), "ltype": lambda n: n in ("continuous", "bylayer", "byblock"),
                   "table": lambda n: False, "block": lambda n: n.startswith("*"), "material": lambda n: n in ("global", "bylayer", "byblock"),
                   "standard": lambda n: n == "standard"}[kind]
        if not any(special(n) for n in low) and "E" not in decs:
            keys6 = ";".join(cps(k.lower()) for k, _ in before)
            SPEC_CASES.append((f"sr|{policy}|{cps(xr)}|{keys6}|{';'.join(f'{cps(n)}:{d}' for (n, _), d in zip(seq, decs))}", "ok",
                               clash or policy == "XREF_PREFIX"))
            ctx.hist("X6 policy spec on real decisions", f"{kind}/{policy}" + ("/case-variant" if any(
                n in [b.lower() for b, _ in before] and nn not in [b for b, _ in before] for n, (nn, _) in zip(low, seq)) else ""))
    if skipped:
        ctx.hist("X3 policy", "skipped: name rejected by the table", skipped)


def abstract_node(e, db):
    """(kind letter, owner, xdata-1005 pointers, block, endblk, content) of a real entity"""
    from ezdxf.entities import BlockRecord, Block, EndBlk, is_graphic_entity, is_dxf_object

    def hx(v):
        try:
            return int(str(v), 16)
        except (TypeError, ValueError):
            return 0

    if isinstance(e, BlockRecord):
        k = "r"
    elif isinstance(e, Block):
        k = "b"
    elif isinstance(e, EndBlk):
        k = "e"
    elif is_graphic_entity(e):
        k = "g"
    elif is_dxf_object(e):
        k = "o"
    else:
        k = "t"
    ptrs = []
    if e.xdata:
        for tags in e.xdata.data.values():
            ptrs += [hx(t.value) for t in tags if t.code == 1005]
    b = en = 0
    content = []
    if k == "r":
        b = hx(e.block.dxf.handle) if e.block is not None else 0
        en = hx(e.endblk.dxf.handle) if e.endblk is not None else 0
        content = [hx(x.dxf.handle) for x in e.entity_space]
    return k, hx(e.dxf.owner) if e.dxf.owner else 0, ptrs, b, en, content


WF_CASES: list = []


def corr_transfer(ctx, cases):
    """X4: the abstract transfer of Model/Xref.lean §5 against real Loader runs: which copies survive, the redirected
    handle mapping, the XDATA handle fields of every copy, BLOCK/ENDBLK/content of every copied block record"""
    from ezdxf.entities import (Layer, Linetype, Textstyle, DimStyle, BlockRecord, UCSTableEntry, Material, MLineStyle,
                                MLeaderStyle, VisualStyle)

    rng = ctx.rng("x4")
    del WF_CASES[:]
    tmp = tempfile.TemporaryDirectory(dir=str(ctx.scratch))
    n = ctx.n(70, 700)
    ops = ["msp", "msp_filter", "loader_mix", "block_into", "resources", "psp"]
    for i in range(n):
        spec = gen_case(rng, i)
        spec["op"] = ops[i % len(ops)]
        feats = (set(spec["feats"]) | {"xdata"}) - {"adsk_layer"}   # the layer-name validator is X3's subject
        if spec["sver"] == "R12":
            # R12 -> R2000+ converts the name based DIMSTYLE overrides into handle based ones (new XDATA 1005 tags that have no
            # counterpart in the source): outside the abstract pointer model, subject of the oracle
            spec["sver"] = "R2000"
            spec["tver"] = "R2000" if spec["tver"] == "R12" else spec["tver"]
        if spec["op"] == "psp":
            feats.add("paperspace")
        if spec["op"] == "block_into":
            feats.add("blocks")
        if i % 3 == 0:
            feats |= {"blocks", "nested"}
            spec["clash"] = sorted(set(spec["clash"]) | {"block"})
        crng = random.Random(spec["seed"])
        src = build_source(spec["sver"], sorted(feats), crng)
        tgt = build_target(spec["tver"], spec["clash"], crng, "")
        tgt_before = [int(h, 16) for h in tgt.entitydb.keys()]
        tgt_br = {int(b.dxf.handle, 16) for b in tgt.block_records}
        err = None
        loaded = {}
        with Capture() as cap:
            try:
                loaded = run_transfer(spec["op"], src, tgt, spec["policy"], crng, tmp.name)
            except AttributeError as e:
                if "destroy" not in str(e):
                    raise
                err = "err AttributeError"
        tr = (cap.transfers or cap.started)[-1]
        alloc = {s: c for s, c in tr._alloc.items() if src.entitydb.get(s) is not None}
        snodes = []
        for s in alloc:
            k, o, ptrs, b, en, content = abstract_node(src.entitydb.get(s), src.entitydb)
            snodes.append(f"{int(s, 16)},{k},{o},{' '.join(map(str, ptrs))},{b},{en},{' '.join(map(str, content))}")
        tnodes = [f"{h},{'r' if h in tgt_br else 'o'},0,,0,0," for h in tgt_before]
        sig = ";".join(f"{int(s, 16)}>{int(c, 16)}" for s, c in alloc.items())
        regs = []
        shape = set()
        for s, c in alloc.items():
            e = src.entitydb.get(s)
            if isinstance(e, (Layer, Linetype, Textstyle, DimStyle, BlockRecord, UCSTableEntry, Material, MLineStyle, MLeaderStyle, VisualStyle)):
                if c in tr._replace_handles:
                    regs.append(f"{int(s, 16)}:K{int(tr._replace_handles[c], 16)}")
                    if isinstance(e, Textstyle) and e.is_shape_file:
                        shape.add(c)
                else:
                    regs.append(f"{int(s, 16)}:A")
        # the copies the loading commands put into a layout: the entities the harness asked to load
        placed = [int(alloc[h], 16) for h in (loaded.get("loaded") or []) if h in alloc]
        req = f"tr|{';'.join(snodes)}|{';'.join(tnodes)}|{sig}|{';'.join(regs)}|{' '.join(map(str, placed))}"
        # X7: the allocation the REAL CopyMachine made, judged by the proven checkers of WF and of the assumptions of copy_machine_wf
        WF_CASES.append((f"wf|{';'.join(snodes)}|{';'.join(tnodes)}|{sig}", "wf alloc-ok", len(alloc) > 1))
        if err:
            impl = err
        else:
            out = []
            copy_handles = {int(c, 16) for c in alloc.values()}
            for s, c in alloc.items():
                ce = tgt.entitydb.get(c)
                if ce is None or not ce.is_alive or c in shape:
                    continue
                k, o, ptrs, b, en, content = abstract_node(ce, tgt.entitydb)
                # owner, when it is the copy of a block record and no loading command placed this copy into a layout
                own = o if (o in copy_handles and int(c, 16) not in placed) else 0
                out.append(f"{int(c, 16)},{' '.join(map(str, ptrs))},{b},{en},{' '.join(map(str, content))},{own}")
            sig2 = ";".join(f"{int(s, 16)}>{int(tr.handle_mapping.get(s, '0'), 16)}" for s in alloc)
            same = all(abstract_node(src.entitydb.get(s), src.entitydb) == tuple(x) for s, x in
                       ((s, abstract_node(src.entitydb.get(s), src.entitydb)) for s in alloc))
            impl = "ok " + ";".join(out) + "|" + sig2 + "|src-same"
        cases.append((req, impl, bool(tr._replace_handles) or any("," in x and x.split(",")[3] for x in snodes)))
        ctx.hist("X4 abstract transfer", f"{spec['op']}/{spec['policy']}" + ("/crash" if err else ""))
    tmp.cleanup()


def corr_overrides(ctx, cases):
    """X5: the MEANING of the regenerated override table (Model/XrefOv.lean mapAttrs / mapNames over the events the T-ast walker
    extracted) against the real `map_resources` of every registered, copyable entity type: one entity per case with generated
    values for every declared handle attribute (absent / "0" / handle of a copied entity / handle that was not copied) and every
    declared resource-name attribute (absent / name with a map entry, in another letter case / unknown name), a real
    xref._Transfer with a generated handle mapping and name maps, `entity.map_resources(clone, transfer)`, then the attributes of
    the clone.  A statement the walker misreads or misses shows up here as a disagreement."""
    import ezdxf
    from ezdxf import xref
    from ezdxf.entities import factory
    from ezdxf.lldxf import const

    rng = ctx.rng("x5")
    sdoc, tdoc = ezdxf.new("R2018"), ezdxf.new("R2018")
    sdoc.entitydb.handles.reset("%X" % SRC_BASE)
    for n in ("RESL", "$0$A", "Unknown"):     # DXFGraphic.new() insists on a defined linetype
        sdoc.linetypes.add(n, pattern=[0.2, 0.1, -0.1])
    for n in ("REST", "$0$A", "Unknown"):     # resources that register_resources looks up by name
        sdoc.styles.add(n, font="txt.shx")
    for n in ("RESB", "$0$A", "Unknown"):
        sdoc.blocks.new(n)
    targets = [tdoc.rootdict.add_xrecord(f"VT{i}").dxf.handle for i in range(6)]
    reg = xref._Registry(sdoc, tdoc)
    kinds = {"layer": ("layer_mapping", 4), "linetype": ("linetype_mapping", 5), "textstyle": ("text_style_mapping", 6),
             "dimstyle": ("dim_style_mapping", 7), "block": ("block_name_mapping", 8)}
    types = []
    for typ, cls in sorted(factory.ENTITY_CLASSES.items()):
        attrs = cls.DXFATTRIBS._attribs
        ptr = sorted(n for n, a in attrs.items() if n not in ("handle", "owner") and (is_ptr(a.code) or is_arbitrary(a.code)))
        names = {}
        for n, a in attrs.items():
            k = NAME_ATTRS.get((n, a.code)) or NAME_ATTRS_BY_TYPE.get(typ, {}).get(n)
            if k:
                names[n] = k      # all declared name attributes (the model prints them in the order of their names)
        if ptr or names:
            types.append((typ, cls, ptr, names))
    reps = ctx.n(6, 60)
    for typ, cls, ptr, names in types:
        for rep in range(reps):
            src_handles = ["%X" % (SRC_BASE + 0x800 + i) for i in range(5)]
            sigma = {h: rng.choice(targets) for h in src_handles[:3]}
            tr = xref._Transfer(registry=reg, copies={}, objects={}, handle_mapping=dict(sigma), copy_errors=set())
            nmaps = {}
            for kname, (field, code) in kinds.items():
                m = {"res" + kname[0]: "x$0$RES" + kname[0].upper(), "$0$a": "$0$$0$A"} if rng.random() < 0.8 else {}
                getattr(tr, field).update(m)
                nmaps[code] = m
            dxfattribs, want_ptr, want_names = {}, {}, {}
            for a in ptr:
                v = rng.choice([None, "0"] + src_handles)
                if v is not None:
                    dxfattribs[a] = v
            for a, k in names.items():
                v = rng.choice([None, "RES" + k[0].upper(), "Res" + k[0], "$0$A", "Unknown"]) if k in kinds else None
                if v is not None:
                    dxfattribs[a] = v
            try:
                try:
                    e = cls.new(handle="%X" % (SRC_BASE + 0x7FF), dxfattribs=dxfattribs, doc=sdoc)
                    clone = e.copy()
                except AttributeError:
                    # DIMENSION family: copy() reads the definition points
                    from ezdxf.lldxf.attributes import XType
                    pts = {n: (0, 0, 0) for n, a in cls.DXFATTRIBS._attribs.items() if a.xtype in (XType.point3d, XType.any_point, XType.point2d)}
                    e = cls.new(handle="%X" % (SRC_BASE + 0x7FF), dxfattribs={**pts, **dxfattribs}, doc=sdoc)
                    clone = e.copy()
                factory.bind(clone, tdoc)
            except Exception as ex:  # noqa: the type needs more than attributes to exist / be copied (DIMENSION geometry, ACIS data, ...)
                ctx.hist("X5 overrides", f"skipped {typ}: cannot build/copy ({type(ex).__name__})")
                continue
            # attributes with a default value read as present: the request carries what the SOURCE entity really holds
            held = {a: e.dxf.get(a) for a in ptr if e.dxf.hasattr(a)}
            heldn = {a: e.dxf.get(a) for a in names if e.dxf.hasattr(a)}
            try:
                e.map_resources(clone, tr)
            except Exception as ex:  # noqa: needs real definition objects (IMAGE, UNDERLAY), covered by the oracle
                ctx.hist("X5 overrides", f"skipped {typ}: map_resources needs a complete entity ({type(ex).__name__})")
                tdoc.entitydb.discard(clone)
                break

            def hnum(v):
                try:
                    return int(str(v), 16)
                except (TypeError, ValueError):
                    return 0

            got = []
            for a in ptr:
                v = clone.dxf.get(a) if clone.dxf.hasattr(a) else None
                got.append(f"{a}={hnum(v) if v is not None else 0}")
            req = (f"ov|{typ}|{';'.join(f'{hnum(k)}>{hnum(v)}' for k, v in sigma.items())}|"
                   f"{';'.join(f'{a}={hnum(v)}' for a, v in held.items())}")
            cases.append((req, ";".join(got), bool(held), "T"))
            if names:
                # an unguarded statement reads the DXF default of an absent attribute and stores its image: absent == default
                dflt = {a: cls.DXFATTRIBS._attribs[a].default for a in names}
                gotn = [f"{a}={cps(clone.dxf.get(a)) if (clone.dxf.hasattr(a) and not (a not in heldn and clone.dxf.get(a) == dflt[a])) else '-'}"
                        for a in sorted(names)]
                reqn = (f"on|{typ}|{';'.join(f'{code}:{cps(o)}>{cps(n)}' for code, m in nmaps.items() for o, n in m.items())}|"
                        f"{';'.join(f'{a}={cps(v)}' for a, v in heldn.items())}")
                cases.append((reqn, ";".join(gotn), bool(heldn), "84"))     # 84 = "T": a name taken from a transferred object
            ctx.hist("X5 overrides", typ)
            try:
                tdoc.entitydb.discard(clone)
            except Exception:  # noqa
                pass
        # registrations: what `register_resources` hands to the registry for an entity that HAS every declared handle and name attribute
        for rep in range(max(2, reps // 3)):
            dxfattribs = {a: rng.choice(["0", "%X" % (SRC_BASE + 0x900 + rng.randint(0, 9))]) for a in ptr}
            for a, k in names.items():
                if k in kinds:
                    dxfattribs[a] = rng.choice(["RES" + k[0].upper(), "Res" + k[0], "$0$A", "Unknown"])
            try:
                try:
                    e = cls.new(handle="%X" % (SRC_BASE + 0x7FE), dxfattribs=dxfattribs, doc=sdoc)
                except AttributeError:
                    continue
                rec = RecordingRegistry(sdoc)
                e.register_resources(rec)
            except Exception as ex:  # noqa
                ctx.hist("X5 overrides", f"skipped {typ}: register_resources needs a complete entity ({type(ex).__name__})")
                break
            hv = {a: hnum16(e.dxf.get(a)) for a in ptr if e.dxf.hasattr(a)}
            nv = {a: e.dxf.get(a) for a in names if e.dxf.hasattr(a) and names[a] in kinds}
            req = f"or|{typ}|{';'.join(f'{a}={v}' for a, v in hv.items())}|{';'.join(f'{a}={cps(v)}' for a, v in nv.items())}"
            cases.append((req, ";".join(sorted(rec.items)), True, None))
            ctx.hist("X5 overrides", "registrations " + typ)


def hnum16(v) -> int:
    try:
        return int(str(v), 16)
    except (TypeError, ValueError):
        return 0


class RecordingRegistry:
    """xref.Registry that records what an entity registers about its DXF attributes: "<kind>:<value>" """

    KIND_OF_TYPE = {"LAYER": 4, "LTYPE": 5, "STYLE": 6, "DIMSTYLE": 7, "BLOCK_RECORD": 8}

    def __init__(self, doc):
        self.source_doc = doc
        self.items: list[str] = []

    def _name(self, kind, name):
        if name is not None:
            self.items.append(f"{kind}:{cps(str(name).lower())}")

    def add_layer(self, name): self._name(4, name)
    def add_linetype(self, name): self._name(5, name)
    def add_text_style(self, name): self._name(6, name)
    def add_dim_style(self, name): self._name(7, name)
    def add_block_name(self, name): self._name(8, name)
    def add_appid(self, name): pass
    def add_block(self, block_record): pass

    def add_handle(self, handle):
        if handle is not None and hnum16(handle) != 0:
            self.items.append(f"0:{hnum16(handle)}")

    def add_entity(self, entity, block_key="0"):
        k = self.KIND_OF_TYPE.get(entity.dxftype())
        if k is not None:
            # registered as an entity that was looked up by the name the attribute holds: report the attribute's spelling is not
            # possible here, the table key is what both sides can agree on
            self.items.append(f"{k}:{cps(entity.dxf.name.lower())}")


def correspond(ctx):
    # X5 first: it needs its own comparison (a value the model marks "T" = "taken from a target object" matches anything)
    cases5 = []
    corr_overrides(ctx, cases5)
    model5 = ctx.driver("C17", [c[0] for c in cases5], build=DRIVER_DEPS)
    plain = []
    for (req, impl, nontriv, wild), model in zip(cases5, model5):
        if wild:
            mf, imf = model.split(";"), impl.split(";")
            if len(mf) == len(imf):
                impl = ";".join(m if m.endswith("=" + wild) and m.split("=")[0] == i.split("=")[0] else i for m, i in zip(mf, imf))
        plain.append((req, impl, nontriv))
    ctx.correspond("X5 overrides", "C17", plain)
    for name, fn in (("X1 pointers", corr_pointers), ("X2 unique names", corr_unique), ("X3 policy", corr_policy),
                     ("X4 abstract transfer", corr_transfer)):
        cases = []
        fn(ctx, cases)
        ctx.correspond(name, "C17", cases, build=DRIVER_DEPS)
        if fn is corr_policy:
            ctx.correspond("X6 policy spec on real decisions", "C17", list(SPEC_CASES))
        if fn is corr_transfer:
            ctx.correspond("X7 WF of the real CopyMachine allocation", "C17", list(WF_CASES))


# ================================================================== oracle
FIXED_CASES = [
    # F14, minimal: block INNER + INSERT in the source, block INNER in the target, default policy
    {"fixed": "f14"},
    # session 3, minimal inputs of the defects fixed by 1a82fa447 5066701a1 51cedc321 54dafdef4 (two plain ezdxf.new() documents)
    {"fixed": "block-content-once"}, {"fixed": "mlinestyle"}, {"fixed": "softdict"}, {"fixed": "vp-frozen"},
    # follow-up: minimal inputs of the classes the seeded changes C17-m4 .. m6 belong to
    {"fixed": "importer-indirect-style"}, {"fixed": "collection-case-variant"}, {"fixed": "reloaded-target-keys"},
]


def run_fixed(name):
    import ezdxf
    from ezdxf import xref

    fails = []
    if name == "f14":
        for pol in POLICIES:
            src = ezdxf.new()
            src.blocks.new("INNER").add_line((0, 0), (1, 1))
            src.modelspace().add_blockref("INNER", (0, 0))
            tgt = ezdxf.new()
            tgt.blocks.new("INNER").add_circle((0, 0), 1)
            try:
                xref.load_modelspace(src, tgt, conflict_policy=getattr(xref.ConflictPolicy, pol))
                ins = tgt.modelspace()[0]
                want = {"KEEP": "INNER", "XREF_PREFIX": "$0$INNER", "NUM_PREFIX": "$0$INNER"}[pol]
                kinds = [e.dxftype() for e in tgt.blocks.get(ins.dxf.name)]
                if ins.dxf.name != want or kinds != (["CIRCLE"] if pol == "KEEP" else ["LINE"]):
                    fails.append((f"policy/{pol}/BLOCK_RECORD/minimal", f"INSERT refers to {ins.dxf.name} holding {kinds}"))
                aud = tgt.audit()
                for e in list(aud.errors) + list(aud.fixes):
                    fails.append((f"audit/{squash(e.message)}", f"minimal block clash, {pol}: {e.message}"))
            except Exception as e:  # noqa
                site = crash_site(e)
                if site is None:
                    raise
                fails.append((f"crash/{type(e).__name__}/{site}/{pol}", f"load_modelspace with {pol}, block name clash: {type(e).__name__}: {e}"))
    if name == "block-content-once":
        # handles of source and target come from the same range: a handle that is translated twice resolves to an unrelated entity
        src, tgt = ezdxf.new(), ezdxf.new()
        src.appids.add("VAPP")
        src.styles.add("A", font="arial.ttf")
        src.styles.add("$0$A", font="txt.shx")
        tgt.styles.add("A", font="isocp.shx")
        b = src.blocks.new("B")
        l1, c1 = b.add_line((0, 0), (1, 1)), b.add_circle((0, 0), 1)
        l1.set_xdata("VAPP", [(1005, c1.dxf.handle)])
        b.add_text("x", dxfattribs={"style": "A"})
        src.modelspace().add_blockref("B", (0, 0))
        for i in range(60):
            src.modelspace().add_point((i, 0))
        xref.load_modelspace(src, tgt, conflict_policy=xref.ConflictPolicy.NUM_PREFIX)
        tb = tgt.blocks.get("B")
        ref = tgt.entitydb.get(tb[0].get_xdata("VAPP")[0].value)
        if ref is not tb[1]:
            fails.append(("wrong-pointer/LINE/1005/block-content", f"XDATA handle of a LINE inside a transferred block refers to {ref}, expected its sibling {tb[1]}"))
        st = tb[2].dxf.style
        if tgt.styles.get(st).dxf.font != "arial.ttf":
            fails.append(("attr-changed/TEXT/7/block-content", f"TEXT inside a transferred block: style 'A' (arial.ttf) became {st!r} ({tgt.styles.get(st).dxf.font})"))
    if name == "mlinestyle":
        src, tgt = ezdxf.new(), ezdxf.new()
        src.linetypes.add("DASHX", pattern=[0.5, 0.25, -0.25])
        ms = src.mline_styles.new("MLS1")
        ms.elements.append(0.5, 1, "DASHX")
        src.modelspace().add_mline([(0, 0), (3, 0)], dxfattribs={"style_name": "MLS1"})
        xref.load_modelspace(src, tgt, conflict_policy=xref.ConflictPolicy.XREF_PREFIX)
        if [e.linetype for e in src.mline_styles.get("MLS1").elements] != ["DASHX"]:
            fails.append(("source-changed/MLINESTYLE/6", "element linetype of the SOURCE MLINESTYLE was renamed"))
        got = [e.linetype for e in tgt.mline_styles.get("$0$MLS1").elements]
        if got != ["$0$DASHX"]:
            fails.append(("attr-changed/MLINESTYLE/6", f"element linetype of the copied MLINESTYLE is {got}, the transferred linetype is '$0$DASHX'"))
    if name == "softdict":
        src, tgt = ezdxf.new(), ezdxf.new()
        src.entitydb.handles.reset("A000")
        mat = src.materials.new("M1")
        line = src.modelspace().add_line((0, 0), (1, 1))
        line.dxf.material_handle = mat.dxf.handle
        line.new_extension_dict().add_dictionary("VSOFT", hard_owned=False).add("MAT", mat)
        xref.load_modelspace(src, tgt)
        soft = tgt.modelspace()[0].get_extension_dict().dictionary.get("VSOFT")
        for k, v in soft.items():
            if getattr(v, "doc", None) is not tgt:
                fails.append(("leak/DICTIONARY/350/soft-owner", f"entry {k!r} of the copied soft-owner DICTIONARY is {v} of the SOURCE document"))
    if name == "importer-indirect-style":
        # the text style of a complex linetype that only a LAYER uses (entities BYLAYER) must arrive with the linetype
        from ezdxf.addons.importer import Importer

        src, tgt = ezdxf.new(), ezdxf.new()
        src.styles.add("TSI", font="arial.ttf")
        src.linetypes.add("GASI", pattern='A,.5,-.2,["GAS",TSI,S=.1,U=0.0,X=-0.1,Y=-.05],-.25', length=0.95)
        src.layers.add("LI", linetype="GASI")
        src.modelspace().add_line((0, 0), (1, 1), dxfattribs={"layer": "LI"})
        imp = Importer(src, tgt)
        imp.import_modelspace()
        imp.finalize()
        lt = tgt.linetypes.get("GASI")
        st = tgt.styles.get_entry_by_handle(lt.pattern_tags.get_style_handle())
        if st is None or st.dxf.name != "TSI":
            fails.append(("importer/wrong-pointer/LTYPE/340/indirect", f"imported complex linetype GASI: its text style handle refers to "
                          f"{st.dxf.name if st is not None else 'nothing'!r}, the source uses 'TSI' (in target: {tgt.styles.has_entry('TSI')})"))
    if name == "collection-case-variant":
        # MATERIAL / MLINESTYLE / MLEADERSTYLE names are case-insensitive: one entry per name whatever the spelling
        for pol in ("KEEP", "NUM_PREFIX"):
            src, tgt = ezdxf.new(), ezdxf.new()
            mat = src.materials.new("Steel")
            src.modelspace().add_line((0, 0), (1, 1)).dxf.material_handle = mat.dxf.handle
            wall = src.mline_styles.new("Wall")
            wall.elements.append(0.5, 1)
            wall.elements.append(-0.5, 1)
            src.modelspace().add_mline([(0, 0), (1, 0)], dxfattribs={"style_name": "Wall"})
            own = tgt.materials.new("steel")
            tgt.mline_styles.new("WALL")
            xref.load_modelspace(src, tgt, conflict_policy=getattr(xref.ConflictPolicy, pol))
            for coll, nm in ((tgt.materials, "steel"), (tgt.mline_styles, "wall")):
                same = [k for k, _ in coll if k.lower() == nm]
                if len(same) != 1:
                    fails.append((f"policy/{pol}/{coll.object_dict_name if hasattr(coll, 'object_dict_name') else nm}/case-variant-duplicate",
                                  f"{pol}: the target holds {same} for the one case-insensitive name {nm!r}"))
            ref = tgt.entitydb.get(tgt.modelspace()[0].dxf.material_handle)
            if pol == "KEEP" and ref is not own:
                fails.append(("policy/KEEP/MATERIAL/existing-not-used/case-variant", f"KEEP: the loaded LINE uses {ref}, the target's own 'steel' is {own}"))
            if pol == "NUM_PREFIX" and (ref is own or ref.dxf.name != "$0$Steel"):
                fails.append(("policy/NUM_PREFIX/MATERIAL/name-form/case-variant", f"NUM_PREFIX: the loaded LINE uses material {ref.dxf.name!r}"))
    if name == "reloaded-target-keys":
        # a target that was loaded from a file: counters start again, the dictionaries are filled
        src, tgt0 = ezdxf.new("R2010"), ezdxf.new("R2010")
        for d, fn in ((src, "sheet.pdf"), (tgt0, "own.pdf")):
            d.modelspace().add_underlay(d.add_underlay_def(fn, "pdf", "1"), (0, 0))
        buf = io.StringIO()
        tgt0.write(buf)
        tgt = ezdxf.read(io.StringIO(buf.getvalue()))
        xref.load_modelspace(src, tgt)
        defs = tgt.rootdict.get("ACAD_PDFDEFINITIONS")
        files = sorted(v.dxf.filename for _, v in defs.items())
        if files != ["own.pdf", "sheet.pdf"]:
            fails.append(("target-entity-changed/DICTIONARY/350/underlay-key", f"ACAD_PDFDEFINITIONS of the reloaded target holds {files} after the transfer, "
                                                                             f"expected its own definition and the copy"))
        for u in tgt.modelspace():
            ud = u.get_underlay_def()
            if ud is None or defs.find_key(ud) == "":
                fails.append(("dangling/PDFUNDERLAY/340/underlay-key", f"{u}: its definition {ud} is not an entry of ACAD_PDFDEFINITIONS"))
    if name == "vp-frozen":
        for pol, want in (("KEEP", ["L1", "L2"]), ("XREF_PREFIX", ["$0$L1", "$0$L2"])):
            src, tgt = ezdxf.new("R2010"), ezdxf.new("R2010")
            src.layers.add("L1")
            src.layers.add("L2")
            psp = src.layouts.new("Sheet A")
            psp.add_line((0, 0), (1, 1), dxfattribs={"layer": "L1"})
            psp.add_viewport(center=(5, 5), size=(4, 4), view_center_point=(0, 0), view_height=10).frozen_layers = ["L1", "L2"]
            xref.load_paperspace(psp, tgt, conflict_policy=getattr(xref.ConflictPolicy, pol))
            for lay in tgt.layouts:
                for e in lay:
                    if e.dxftype() == "VIEWPORT" and e.frozen_layers:
                        missing = [n for n in e.frozen_layers if not tgt.layers.has_entry(n)]
                        if missing or list(e.frozen_layers) != want:
                            fails.append((f"resource-missing/LAYER/VIEWPORT-frozen/{pol}", f"copied VIEWPORT freezes {list(e.frozen_layers)}, expected {want}; "
                                                                                         f"not in the target: {missing}"))
    return fails


def oracle(ctx):
    os.environ["VERIF_SCRATCH"] = str(ctx.scratch)
    for fc in FIXED_CASES:
        for k, w in run_fixed(fc["fixed"]):
            ctx.fail(k, w, {"fixed": fc["fixed"]})
        ctx.count("O1 transfer oracle", repr(fc), True)
    rng = ctx.rng("oracle")
    n = ctx.n(330, 6000)
    stats = {}
    for i in range(n):
        spec = gen_case(rng, i)
        fails, st, err = run_case(spec)
        if err:
            ctx.note(f"oracle case without captured transfer: {err} {spec}")
        for k, v in st.items():
            if k.startswith(("unified", "nulled", "dropped-pointer", "arbitrary", "mapped-to-existing", "discarded", "copy-errors")):
                stats[k] = stats.get(k, 0) + v
        ctx.count("O1 transfer oracle", repr(sorted(spec.items())), bool(spec["clash"]) or spec["policy"] != "KEEP",
                  sample={"spec": {k: spec[k] for k in ("op", "policy", "sver", "tver", "feats", "clash")}, "failures": [k for k, _ in fails][:5]})
        ctx.hist("O1 transfer oracle", f"{spec['op']}/{spec['policy']}")
        ctx.hist("O1 transfer oracle", f"versions {spec['sver']}->{spec['tver']}")
        for k, w in fails:
            ctx.fail(k, f"{w}   [op={spec['op']} policy={spec['policy']} {spec['sver']}->{spec['tver']} features={','.join(spec['feats'])} clash={','.join(spec['clash'])}]", {"spec": spec})
    ctx.note("oracle bookkeeping (not failures): " + ", ".join(f"{k}={v}" for k, v in sorted(stats.items())))


def replay(ctx, rep):
    bad = []
    for f in rep.get("failing_inputs", []):
        r = f["replay"]
        if "fixed" in r:
            fails = run_fixed(r["fixed"])
        else:
            fails, _, _ = run_case(r["spec"])
        if any(k == f["key"] for k, _ in fails):
            bad.append(f["key"])
    return (not bad, "; ".join(bad) or "all recorded failing inputs pass now")

"""C07  Recover mode survives any single corruption or truncation (DESIGN.md section 7, C07)."""
from __future__ import annotations

import io
import os
import re
import signal
import traceback

from leanfmt import lean_list

ID = "C07"
LEAN_MODULES = ["EzdxfVerif.Props.C07"]
DRIVER_DEPS = ["EzdxfVerif.Gen.RecoverTables", "EzdxfVerif.Model.Recover", "EzdxfVerif.Model.RecoverLoad", "Drivers.Proto"]


def _nats(s) -> str:
    if isinstance(s, str):
        s = s.encode("ascii")
    return lean_list((str(b) for b in s), 40)


# ------------------------------------------------------------------ regenerate (T-tab)
def regenerate(ctx):
    srcs = ["src/ezdxf/recover.py", "src/ezdxf/lldxf/repair.py", "src/ezdxf/lldxf/types.py", "src/ezdxf/lldxf/const.py",
            "src/ezdxf/lldxf/validator.py", "src/ezdxf/lldxf/encoding.py", "src/ezdxf/tools/codepage.py",
            "src/ezdxf/lldxf/tags.py"]
    text = {s: ctx.src(s) for s in srcs}
    import string

    from ezdxf import recover as R
    from ezdxf.lldxf import const, encoding as E, repair, types as T, validator as V
    from ezdxf.tools import codepage

    def need(cond, what):
        if not cond:
            raise ValueError("C07 regenerate: the hand model no longer matches the source: " + what)

    # group-code classes used by byte_tag_compiler / the repair filters (exhaustive over 0..1071, nothing outside)
    need(all(0 <= k <= 1071 for k in T.TYPE_TABLE), "TYPE_TABLE has keys outside 0..1071")
    need(all(0 <= k <= 1071 for k in T.POINT_CODES | T.BINARY_DATA), "POINT_CODES/BINARY_DATA outside 0..1071")
    need(set(T.TYPE_TABLE.values()) <= {int, float, str}, "TYPE_TABLE has a caster other than int/float/str")
    ints = [c for c in range(1072) if T.TYPE_TABLE.get(c, str) is int]
    floats = [c for c in range(1072) if T.TYPE_TABLE.get(c, str) is float]
    need(repair.X_CODES is T.POINT_CODES or repair.X_CODES == T.POINT_CODES, "repair.X_CODES is not POINT_CODES")
    need(set(repair.COORDINATE_FIXING_TOOLBOX) == {"LINE"}, "COORDINATE_FIXING_TOOLBOX keys != {LINE}")
    need(repair.COORDINATE_FIXING_TOOLBOX["LINE"].keywords == {"codes": (10, 11)}, "LINE coordinate codes != (10, 11)")
    need(repair.COORDINATE_FIXING_TOOLBOX["LINE"].func is repair.fix_coordinate_order, "LINE fixer is not fix_coordinate_order")
    need(R.INT_PATTERN_B.pattern == rb"[+-]?\d+" and R.INT_PATTERN_S.pattern == r"[+-]?\d+", "INT_PATTERN changed")
    need(R.FLOAT_PATTERN_S.pattern in (r"[+-]?\d+(:?\.\d*)?(:?[eE][+-]?\d+)?", r"[+-]?\d+(?:\.\d*)?(?:[eE][+-]?\d+)?"),
         "FLOAT_PATTERN_S is neither the known typo form nor its corrected form")
    need(R.FLOAT_PATTERN_B.pattern.decode() == R.FLOAT_PATTERN_S.pattern, "FLOAT_PATTERN_B differs from FLOAT_PATTERN_S")
    need(E.BACKSLASH_UNICODE.pattern == r"(\\U\+[A-F0-9]{4})", "BACKSLASH_UNICODE changed")
    need(E.MIF_ENCODED.pattern == r"(\\M\+[1-5][A-F0-9]{4})", "MIF_ENCODED changed")
    need(const.DEFAULT_ENCODING == "cp1252", "DEFAULT_ENCODING != cp1252")
    need(const.DXF12 == "AC1009" and const.DXF2007 == "AC1021", "DXF12 / DXF2007 constants changed")
    need(string.whitespace == " \t\n\r\x0b\x0c", "string.whitespace changed")
    need(T.EMBEDDED_OBJ_MARKER == 101 and T.EMBEDDED_OBJ_STR == "Embedded Object" and V.APP_DATA_MARKER == 102
         and V.XDATA_MARKER == 1001, "marker constants changed")
    need(R.DWGCODEPAGE == b"$DWGCODEPAGE" and R.ACADVER == b"$ACADVER", "header variable names changed")
    need(T.NONE_TAG == (0, 0), "NONE_TAG changed")
    need(re.search(r"re\.fullmatch\(r\"AC\[0-9\]\{4\}\", dxfversion\)", text["src/ezdxf/recover.py"]) is not None,
         "_detect_dxf_version pattern AC[0-9]{4} not found")
    need(re.search(r'for name in \("CLASSES", "OBJECTS", "ACDSDATA"\)', text["src/ezdxf/recover.py"]) is not None,
         "_remove_unsupported_sections name tuple changed")
    need(re.search(r'if name in \{"TABLES", "BLOCKS", "OBJECTS", "ENTITIES"\}', text["src/ezdxf/recover.py"]) is not None,
         "Recover.run checked-section set changed")
    need(re.search(r"subclass_markers = \(100,\)", text["src/ezdxf/recover.py"]) is not None, "subclass_markers changed")
    und = []
    for b in range(256):
        try:
            bytes([b]).decode("cp1252")
        except UnicodeDecodeError:
            und.append(b)
    # toencoding(): first suffix (dict order) that matches; class 0 = cp1252, 1 = another code page (not modelled further)
    suffixes = [(k, 0 if v == "cp1252" else 1) for k, v in codepage.codepage_to_encoding.items()]
    need(codepage.toencoding("no such page") == "cp1252", "toencoding default changed")
    upper = []
    for o in range(128, 0x110000):
        if 0xD800 <= o < 0xE000:
            continue
        u = chr(o).upper()
        if any(ord(c) < 128 for c in u):
            upper.append((o, [ord(c) for c in u]))
    for o in range(128):
        u = chr(o).upper()
        need(u == (chr(o - 32) if 97 <= o <= 122 else chr(o)), "ASCII upper()")

    def names(xs):
        return lean_list((_nats(x).replace("\n   ", " ") for x in xs), 1)

    out = "\nnamespace EzdxfVerif.Gen.RecoverTables\n\n"
    out += f"/-- types.POINT_CODES (= repair.X_CODES) -/\ndef pointCodes : List Nat := {lean_list(str(c) for c in sorted(T.POINT_CODES))}\n"
    out += f"/-- types.BINARY_DATA -/\ndef binaryCodes : List Nat := {lean_list(str(c) for c in sorted(T.BINARY_DATA))}\n"
    out += f"/-- codes c in 0..1071 with TYPE_TABLE.get(c, str) is int (no keys outside 0..1071) -/\ndef intCodes : List Nat := {lean_list((str(c) for c in ints), 24)}\n"
    out += f"/-- codes c in 0..1071 with TYPE_TABLE.get(c, str) is float -/\ndef floatCodes : List Nat := {lean_list((str(c) for c in floats), 24)}\n"
    out += f"/-- repair.INVALID_CODES -/\ndef invalidCodes : List Nat := {lean_list(str(c) for c in sorted(repair.INVALID_CODES))}\n"
    out += f"/-- const.MANAGED_SECTIONS (sorted) -/\ndef managedSections : List (List Nat) := {names(sorted(const.MANAGED_SECTIONS))}\n"
    out += f"/-- const.TABLE_NAMES_ACAD_ORDER -/\ndef tableNames : List (List Nat) := {names(const.TABLE_NAMES_ACAD_ORDER)}\n"
    out += f"/-- recover.EXCLUDE_STRUCTURE_CHECK (sorted) -/\ndef excludeStructureCheck : List (List Nat) := {names(sorted(R.EXCLUDE_STRUCTURE_CHECK))}\n"
    cp = [ord(bytes([b]).decode("cp1252", "surrogateescape")) for b in range(256)]
    need(all(cp[b] == b for b in range(128)), "cp1252 is not ASCII transparent")
    need([b for b in range(256) if 0xDC80 <= cp[b] <= 0xDCFF] == und, "cp1252 undefined bytes")
    out += ("/-- ord(bytes([b]).decode('cp1252', 'surrogateescape')) for b in 0..255 (undefined bytes -> U+DC80+b-128) -/\n"
            f"def cp1252Table : List Nat := {lean_list((str(c) for c in cp), 16)}\n")
    spaces = [o for o in range(0x110000) if chr(o).isspace()]
    out += f"/-- every code point c with chr(c).isspace() (what str.strip() removes) -/\ndef strSpace : List Nat := {lean_list(str(c) for c in spaces)}\n"
    out += ("/-- codepage.codepage_to_encoding in dict order: (suffix, 0 = cp1252 | 1 = another code page) -/\n"
            f"def codepageSuffixes : List (List Nat × Nat) := {lean_list((f'({_nats(k)}, {v})' for k, v in suffixes), 1)}\n")
    out += ("/-- non-ASCII scalars whose str.upper() contains an ASCII character, with that upper() -/\n"
            f"def upperSpecial : List (Nat × List Nat) := {lean_list((f'({o}, {lean_list(str(x) for x in u)})' for o, u in upper), 4)}\n")
    out += f"/-- True iff recover.FLOAT_PATTERN_* still has the `(:?` typo (optional colon inside the groups) -/\ndef floatPatternColon : Bool := {'true' if '(:?' in R.FLOAT_PATTERN_S.pattern else 'false'}\n"
    # behaviour of the four formerly defective sites, observed on the CURRENT source (T-tab probe of the real functions):
    # the theorems about the current code are stated for this configuration, so reverting a fix re-opens front_total
    # --- tables and source-shape facts for Model/RecoverLoad.lean (ExtendedTags._setup, setup_app_data, XData)
    from ezdxf.lldxf import extendedtags as XT_, loader as LD_
    import inspect

    xsrcs = ["src/ezdxf/lldxf/extendedtags.py", "src/ezdxf/lldxf/loader.py", "src/ezdxf/entities/appdata.py",
             "src/ezdxf/entities/xdict.py", "src/ezdxf/entities/xdata.py", "src/ezdxf/entities/dxfentity.py"]
    xtext = {s: ctx.src(s) for s in xsrcs}
    srcs = srcs + xsrcs
    setup_src = inspect.getsource(XT_.ExtendedTags._setup)
    tail = setup_src[setup_src.index("tag = collect_base_class()"):]
    loops = re.findall(r"while ([^:]+):\n\s+tag = (\w+)\(tag\)", tail)
    need(loops == [("tag.code == SUBCLASS_MARKER", "collect_subclass"), ("is_embedded_object_marker(tag)", "collect_embedded_object"),
                   ("tag.code == XDATA_MARKER", "collect_xdata")], f"ExtendedTags._setup: the three collector loops changed: {loops}")
    need(re.search(r"if tag is not NONE_TAG:\s+raise DXFStructureError", tail) is not None, "_setup: final NONE_TAG check changed")
    need(setup_src.count("raise DXFStructureError") == 2, "_setup: number of raise DXFStructureError sites != 2")
    need((XT_.SUBCLASS_MARKER, XT_.EMBEDDED_OBJ_MARKER, XT_.XDATA_MARKER, XT_.APP_DATA_MARKER) == (100, 101, 1001, 102), "marker codes changed")
    need(re.search(r'for name in \["TABLES", "CLASSES", "ENTITIES", "BLOCKS", "OBJECTS"\]', xtext["src/ezdxf/lldxf/loader.py"]) is not None,
         "load_and_bind_dxf_content section order changed")
    need("yield factory.load(ExtendedTags(entity), doc)" in xtext["src/ezdxf/lldxf/loader.py"], "load_dxf_entities changed")
    need(const.ACAD_REACTORS == "{ACAD_REACTORS" and const.ACAD_XDICTIONARY == "{ACAD_XDICTIONARY" and const.REACTOR_HANDLE_CODE == 330,
         "ACAD_REACTORS / ACAD_XDICTIONARY constants changed")
    need(re.search(r"if len\(tags\) != 3 or tags\[1\]\.code != XDICT_HANDLE_CODE:\s+raise DXFStructureError", xtext["src/ezdxf/entities/xdict.py"])
         is not None, "ExtensionDict.from_tags guard changed")
    need(re.search(r"if len\(tags\) < 2:.*\n\s+raise DXFStructureError", xtext["src/ezdxf/entities/appdata.py"]) is not None,
         "Reactors.from_tags guard changed")
    need(re.search(r"except const\.DXFValueError:.*\n\s+self\.xdata = XData\.safe_init\(tags\.xdata\)", xtext["src/ezdxf/entities/dxfentity.py"])
         is not None, "DXFEntity.load_tags XData fallback changed")
    out += f"/-- types.VALID_XDATA_GROUP_CODES (sorted) -/\ndef validXdataCodes : List Nat := {lean_list((str(c) for c in sorted(T.VALID_XDATA_GROUP_CODES)), 24)}\n"
    out += f"/-- const.XDICT_HANDLE_CODE -/\ndef xdictHandleCode : Int := {const.XDICT_HANDLE_CODE}\n"
    # edge cases of two front-end helpers that the model has as explicit guard branches (fixCoordinateOrder: no coordinate
    # tag at all -> identity, recoverRootdict: no root dictionary -> unchanged): probed on the real functions
    from ezdxf.lldxf.tags import Tags as _Tags
    from ezdxf.lldxf.types import DXFTag as _DXFTag

    def _probe(f):
        try:
            return f()
        except BaseException as e:  # noqa  (StopIteration is no Exception subclass problem, but be complete)
            return e

    for sample in ([(0, b"LINE")], [(0, b"LINE"), (8, b"0")], []):
        tags0 = _Tags(_DXFTag(c, v) for c, v in sample)
        r0 = _probe(lambda: list(repair.fix_coordinate_order(tags0, codes=(10, 11))))
        need(not isinstance(r0, BaseException) and r0 == list(tags0),
             f"fix_coordinate_order is not the identity on a tag list without coordinate tags: {sample} -> {r0!r}")
    for objs in ([], [_Tags([_DXFTag(0, "SECTION"), _DXFTag(2, "OBJECTS")])],
                 [_Tags([_DXFTag(0, "SECTION"), _DXFTag(2, "OBJECTS")]), _Tags([_DXFTag(0, "DICTIONARY"), _DXFTag(5, "C")])]):
        r0 = _probe(lambda: R._find_rootdict(objs))
        need(not isinstance(r0, BaseException) and r0[0] == 0 and len(r0[1]) == 0,
             f"_find_rootdict does not return (0, Tags()) when no root dictionary exists: {r0!r}")
    reactors_fixed = probe_reactors()
    out += ("/-- probed: does Reactors.from_tags ignore values that are no valid handles (fix 'Reactors.from_tags kept invalid reactor handles')? -/\n"
            f"def treeFixReactors : Bool := {'true' if reactors_fixed else 'false'}\n")
    cfg = probe_cfg()
    for i, name in enumerate(["treeFixSection", "treeFixErrMsg", "treeFixDetect", "treeFixUnicode"]):
        out += f"/-- probed: is defect C07-{i + 1} fixed in the tree under test? -/\ndef {name} : Bool := {'true' if cfg[i] == '1' else 'false'}\n"
    out += "\nend EzdxfVerif.Gen.RecoverTables\n"
    ctx.write_gen("RecoverTables", out, srcs)


RULE = (
    "correspondence: the real recover front end (Recover.run = bytes_loader, detect_encoding, repair filters, "
    "byte_tag_compiler, rebuild_sections, load_section_dict, rebuild_tables, recover_rootdict, check_entities) vs the Lean "
    "recoverFront on (a) seeded synthetic DXF byte streams built from a section/table/entity grammar with structural "
    "damage and 0-2 line faults (full section dict: version, section order, every group, every tag code, every string "
    "value; exception class), (b) corpus files of all 7 DXF versions with one fault (hash of the same rendering); unit "
    "streams for int()/int(,16)/float()/recover_int/recover_float/unhexlify, UTF-8 and cp1252 decoding with error "
    "handlers, decode_dxf_unicode, bytes_loader, the three repair filters, byte_tag_compiler, entity_structure_validator. "
    "The model is compared in the configuration (C07-1..4 patched or not) that probing the real functions reports. "
    "non-trivial = input has a fault / a non-default branch; distinct by hash. oracle: recover.read(BytesIO(faulted)) "
    "under a watchdog returns or raises DXFStructureError, the returned document is written and strictly reloaded, "
    "modelspace survives a truncation behind ENTITIES; quick = seeded sample stratified by (file, section, fault kind), "
    "thorough = every tag position x every fault kind (+ every byte for truncation) + random double faults. "
    "X2b: the same front-end comparison on EVERY ASCII DXF file of the repository (examples_dxf, integration_tests) up to "
    "300 kB, undamaged and with one fault (distribution by directory / DXF version / fault kind in the evidence). "
    "X10: the generic first loading stage behind the front end (ExtendedTags._setup, DXFEntity.setup_app_data with "
    "Reactors / ExtensionDict / AppData, XData with the safe_init fallback) vs Model/RecoverLoad.lean on seeded damaged entity "
    "tag lists (0-3 tag faults: dropped / duplicated / swapped tags, garbage codes and values, cut) and on every entity group "
    "the real front end delivers for the corpus files (+ one fault); X11: section order of load_and_bind_dxf_content. "
    "O3: the oracle also runs on the repository files that are valid in the sense of the property (strictly loadable, "
    "undamaged file passes), single and double faults."
)
TRUSTED_BASE = [
    "CPython int()/float()/bytes.decode/str.upper/str.strip/re semantics as modelled by hand (tied by the unit correspondence streams)",
    "generators are lazy in Python; the model orders exceptions by RStream (tags delivered before the terminal exception)",
    "code pages other than cp1252/utf8, MIF \\M+ decoding and Unicode (non-ASCII) decimal digits are not modelled (inputs skipped and counted)",
    "behind the front end only the generic envelope of the first loading stage is modelled (ExtendedTags._setup, setup_app_data, "
    "XData init; Model/RecoverLoad.lean, tied by X10/X11 and by source-shape checks in regenerate); the entity specific attribute "
    "loaders, post_load_hook, Auditor, export and strict reload are oracle-only",
    "handle strings (reactors) are modelled for ASCII text: int(str, 16) also accepts non-ASCII decimal digits and strips "
    "Unicode white space (X10 generates ASCII handles; corpus groups with non-ASCII strings are skipped)",
    "the unfixed behaviour of Reactors.from_tags (treeFixReactors = false) is modelled for string values only",
]
ASSUMPTIONS = [
    "sys.get_int_max_str_digits() == 4300",
    "errors='surrogateescape' (the default of recover.read); errors='strict' is documented to raise UnicodeDecodeError",
    "C int is 32 bit (chr() OverflowError boundary)",
]
OPEN = [
    "front_total is stated for Cfg.tree, the configuration regenerate() probes from the current source (all four fixes present); "
    "the five unfixed_counterexample theorems document the pre-fix behaviour (Cfg.unfixed)",
    "behind the front end: theorems cover the generic envelope only (load_envelope_total, load_stage_total, "
    "setup_only_missing_app_close, checked_entity_loads, reactors_sortable, xdata_codes_valid); no theorem covers the entity "
    "specific loaders, post_load_hook, Auditor, export, strict reload (oracle only; all ten former save/reload findings are fixed "
    "in the repository, see known.d/C07.json 'fixed')",
    "faults that break the pairing of code and value lines: lost_value_line_resync / lost_line_raises / loader_stops_at_noninteger say exactly "
    "what the loader delivers (the re-paired tags up to the first line at a code position without an integer, then DXFStructureError); "
    "loader_classification gives the loader's result for every line list (ends: end of lines / (0, EOF) / line without integer); NOT proved: which "
    "section dict recover builds from a shifted stream that ends by (0, EOF) or end of lines (every former value line contains a digit) - "
    "correspondence and oracle only",
    "single_fault_window / single_fault_bytes need the stale-code hypothesis: filter_invalid_point_codes keeps its expected_code across a "
    "(0, ..) tag (stale_code_matters: proved necessary, confirmed on the real function; harmless for written files)",
    "crashed_writer_bytes keeps the existential R12 flag of sections_prefix_stable (a HEADER section behind the cut changes the version)",
    "absence of hangs behind the front end is watched (CPU-time watchdog), not proved",
]

VERSIONS = ["R12", "R2000", "R2004", "R2007", "R2010", "R2013", "R2018"]
# minimal documents: only the default layouts Model + Layout1, no user tables/blocks/objects (the restore paths of
# Layouts.load / the audit that a document with a third layout never reaches); id = version + "m"
MINIMAL = ["R2000m", "R2018m"]
# documents with ACIS entities (3DSOLID): the SAT text inside the entity (R2010a) resp. the binary SAB data in the ACDSDATA
# section (R2013a, R2018a), which is fetched lazily at export (Body.preprocess_export); id = version + "a"
ACIS = ["R2010a", "R2013a", "R2018a"]
FILE_IDS = VERSIONS + MINIMAL + ACIS
WATCHDOG_S = 20.0


# ------------------------------------------------------------------ corpus (public API only)
def build_doc(version: str):
    import ezdxf

    doc = ezdxf.new(version)
    r12 = version == "R12"
    msp = doc.modelspace()
    doc.layers.add("L1", color=3)
    doc.linetypes.add("DASHX", pattern=[0.6, 0.5, -0.1], description="dash x")
    doc.styles.add("ST1", font="arial.ttf")
    doc.appids.add("MYAPP")
    doc.dimstyles.add("DS1")
    doc.ucs.add("UCS1")
    doc.views.add("VIEW1")
    doc.viewports.add("VP1")
    blk = doc.blocks.new("B1")
    blk.add_line((0, 0), (1, 1))
    blk.add_attdef("TAG1", (0, 0), text="dflt")
    line = msp.add_line((0, 0), (1, 2.5), dxfattribs={"layer": "L1", "linetype": "DASHX"})
    line.set_xdata("MYAPP", [(1000, "xd"), (1002, "{"), (1070, 7), (1010, (1, 2, 3)), (1002, "}")])
    msp.add_circle((1, 1), 2)
    msp.add_polyline2d([(0, 0), (1, 0), (1, 1)])
    ins = msp.add_blockref("B1", (5, 5))
    ins.add_attrib("TAG1", "val", (5, 5))
    msp.add_text("Täxt € Ω", dxfattribs={"style": "ST1"})
    msp.add_point((1, 2, 3))
    if not r12:
        msp.add_lwpolyline([(0, 0), (1, 0), (1, 1)], close=True)
        msp.add_mtext("M {\\C1;red} \\P next")
        c2 = msp.add_circle((0, 0), 1)
        xd = c2.new_extension_dict()
        xd.add_xrecord("XR").reset([(1, "s"), (40, 1.5), (70, 2)])
        g = doc.groups.new("G1")
        g.extend([line, c2])
        lay = doc.layouts.new("Second")
        lay.add_line((0, 0), (3, 3))
        d = doc.rootdict.add_new_dict("MYDICT")
        d.add_dict_var("VAR", "value")
        h = msp.add_hatch(color=2)
        h.paths.add_polyline_path([(0, 0), (1, 0), (1, 1)], is_closed=True)
        msp.add_spline([(0, 0), (1, 1), (2, 0), (3, 1)])
        doc.layouts.get("Layout1").add_line((0, 0), (2, 2))
    else:
        doc.layout().add_line((0, 0), (2, 2))
    return doc


def build_min_doc(version: str):
    import ezdxf

    doc = ezdxf.new(version)
    msp = doc.modelspace()
    msp.add_line((0, 0), (1, 1))
    msp.add_circle((1, 2), 3)
    msp.add_lwpolyline([(0, 0), (1, 0), (1, 1)])
    doc.layout("Layout1").add_circle((0, 0), 1)
    return doc


def build_acis_doc(version: str):
    import ezdxf
    from ezdxf.acis import api as acis
    from ezdxf.render import forms

    doc = ezdxf.new(version)
    msp = doc.modelspace()
    msp.add_line((0, 0), (1, 1))
    solid = msp.add_3dsolid()
    acis.export_dxf(solid, [acis.body_from_mesh(forms.cube())])
    msp.add_circle((1, 2), 3)
    solid = msp.add_3dsolid()
    acis.export_dxf(solid, [acis.body_from_mesh(forms.cube().translate(5, 0, 0))])
    return doc


def msp_types(doc):
    return [e.dxftype() for e in doc.modelspace()]


_CORPUS = None


def _build_corpus_raw():
    """{version: [bytes as hex, modelspace entity types]} - run in a child process with PYTHONHASHSEED=0, because the
    order of the CLASSES section written by ezdxf depends on the hash seed"""
    import logging

    logging.disable(logging.CRITICAL)
    out = {}
    for v in FILE_IDS:
        doc = build_min_doc(v[:-1]) if v.endswith("m") else build_acis_doc(v[:-1]) if v.endswith("a") else build_doc(v)
        s = io.StringIO()
        doc.write(s)
        out[v] = [s.getvalue().encode(doc.output_encoding, errors="dxfreplace").hex(), msp_types(doc)]
    return out


def corpus():
    global _CORPUS
    if _CORPUS is not None:
        return _CORPUS
    import json
    import subprocess
    import sys

    import ezdxf

    src = os.path.dirname(os.path.dirname(os.path.abspath(ezdxf.__file__)))
    harness = os.path.dirname(os.path.dirname(os.path.abspath(__file__)))
    code = (f"import sys; sys.path.insert(0, {harness!r}); sys.path.insert(0, {src!r}); import json; import props.c07 as m; "
            "sys.stdout.write(json.dumps(m._build_corpus_raw()))")
    r = subprocess.run([sys.executable, "-c", code], env=dict(os.environ, PYTHONHASHSEED="0"), capture_output=True, text=True, timeout=600)
    if r.returncode != 0:
        raise RuntimeError("C07 corpus builder failed: " + r.stderr[-2000:])
    raw = json.loads(r.stdout)
    out = {}
    for v in FILE_IDS:
        data, msp = bytes.fromhex(raw[v][0]), raw[v][1]
        lines = data.splitlines(keepends=True)
        assert len(lines) % 2 == 0
        # the writer stamps time and GUIDs into every file: fixed values, so that a seed determines the run
        for i in range(1, len(lines), 2):
            if lines[i - 1].strip() == b"40" and i >= 3 and lines[i - 2].strip() in (b"$TDCREATE", b"$TDUPDATE", b"$TDUCREATE", b"$TDUUPDATE"):
                lines[i] = b"2458532.153996898\n"
            elif re.fullmatch(rb"\{[0-9A-F]{8}(-[0-9A-F]{4}){3}-[0-9A-F]{12}\}\n", lines[i]):
                lines[i] = b"{7A5F35C1-2D8E-4B0A-9C3D-1E2F3A4B5C6D}\n"
            elif re.match(rb"\d+\.\d+\.\d+\S* @ \d{4}-\d\d-\d\dT", lines[i]):
                lines[i] = b"1.4.1 @ 2026-01-01T00:00:00.000000+00:00\n"
        data = b"".join(lines)
        tags = [(lines[i].strip(), lines[i + 1].rstrip(b"\r\n")) for i in range(0, len(lines), 2)]
        ent_start = next(i for i, t in enumerate(tags) if t == (b"2", b"ENTITIES"))
        ent_end = next(i for i in range(ent_start, len(tags)) if tags[i] == (b"0", b"ENDSEC"))
        sec, cur = [], "-"
        for i, t in enumerate(tags):
            if t[0] == b"2" and i and tags[i - 1] == (b"0", b"SECTION"):
                cur = t[1].decode()
                sec[-1] = cur
            sec.append(cur)
            if t == (b"0", b"ENDSEC"):
                cur = "-"
        out[v] = {"lines": lines, "ntags": len(tags), "entities_end": ent_end, "msp": msp, "sec": sec, "data": data}
    _CORPUS = out
    return out


# ------------------------------------------------------------------ faults
GARBAGE_CODE = [b"xyz", b"", b"\xff\xfe\x80", b"-5", b"99999", b"1e3", b" ", b"0x10", b"10 20", b"+", b"5.0", b"\xe4 7",
                b"1_0", b"999", b"0", b"100", b"1001", b"102"]
GARBAGE_VALUE = [b"xyz", b"", b"\xff\xfe\x80", b"1.2.3", b"{", b"}", b"ZZZZ", b"-", b"1e999", b"SECTION", b"ENDSEC", b"EOF",
                 b"0", b"\xc3\x28", b"  ", b"1e5x", b"AC1009", b"AC1032", b"Embedded Object", b"\x81", b"\\U+\\U+0041",
                 b"\\U+abcdef12 \\U+0041", b"{ACAD_REACTORS", b"1:.5", b"TABLE", b"DICTIONARY", b"-1", b"1_000"]
KINDS = ["trunc_tag", "trunc_byte", "drop_tag", "drop_code_line", "drop_value_line", "dup_tag", "swap", "garb_code", "garb_value"]


def apply_fault(lines, kind: str, k: int, arg: int = 0) -> bytes:
    """lines = physical lines with their line ends; tag k = lines[2k], lines[2k+1]"""
    n = len(lines) // 2
    if n == 0:
        return b"".join(lines)
    k %= n
    a, b = 2 * k, 2 * k + 1
    if kind == "trunc_tag":
        return b"".join(lines[:a])
    if kind == "trunc_byte":
        tag = lines[a] + lines[b]
        return b"".join(lines[:a]) + tag[: 1 + arg % max(1, len(tag) - 1)]
    if kind == "drop_tag":
        return b"".join(lines[:a] + lines[b + 1:])
    if kind == "drop_code_line":
        return b"".join(lines[:a] + lines[b:])
    if kind == "drop_value_line":
        return b"".join(lines[:b] + lines[b + 1:])
    if kind == "dup_tag":
        return b"".join(lines[: b + 1] + lines[a:])
    if kind == "swap":
        if b + 2 >= len(lines):
            return b"".join(lines)
        return b"".join(lines[:a] + lines[a + 2: a + 4] + lines[a: a + 2] + lines[a + 4:])
    if kind == "garb_code":
        return b"".join(lines[:a] + [GARBAGE_CODE[arg % len(GARBAGE_CODE)] + b"\n"] + lines[b:])
    if kind == "garb_value":
        return b"".join(lines[:b] + [GARBAGE_VALUE[arg % len(GARBAGE_VALUE)] + b"\n"] + lines[b + 1:])
    raise ValueError(kind)


def apply_faults(lines, faults) -> bytes:
    data = b"".join(lines)
    for kind, k, arg in faults:
        data = apply_fault(data.splitlines(keepends=True), kind, k, arg)
    return data


# ------------------------------------------------------------------ oracle worker
class Watchdog(BaseException):
    pass


def _alarm(signum, frame):
    raise Watchdog()


def where(e: BaseException) -> str:
    """module.function of the innermost ezdxf frame (no line numbers, no source text: stable under unrelated edits)"""
    tb = traceback.extract_tb(e.__traceback__, )
    for fr in reversed(tb):
        if "ezdxf" in fr.filename:
            return f"{os.path.basename(fr.filename)[:-3]}.{fr.name}"
    return "?"


def evaluate(data: bytes, expect_msp=None, timeout=WATCHDOG_S):
    """the property's predicate on the real code -> (verdict, detail); verdict 'ok' / 'dxfstructure' are fine"""
    import logging

    import ezdxf
    from ezdxf import recover
    from ezdxf.lldxf.const import DXFStructureError

    logging.disable(logging.CRITICAL)
    # a hang of pure Python code burns CPU: the watchdog counts CPU time of this process (a stalled machine is not a
    # hang of ezdxf), with a 10x wall-clock backstop
    signal.signal(signal.SIGPROF, _alarm)
    signal.signal(signal.SIGALRM, _alarm)
    signal.setitimer(signal.ITIMER_PROF, timeout)
    signal.setitimer(signal.ITIMER_REAL, 10 * timeout)
    stage = "crash"
    try:
        try:
            doc, auditor = recover.read(io.BytesIO(data))
        except DXFStructureError:
            return "dxfstructure", ""
        stage = "save"
        s = io.StringIO()
        doc.write(s)
        stage = "reload"
        ezdxf.read(io.StringIO(s.getvalue()))
        if expect_msp is not None:
            got = msp_types(doc)
            if got != expect_msp:
                return "msp-lost/modelspace/entities", f"expected {expect_msp} got {got}"
        return "ok", ""
    except Watchdog:
        return f"hang/{stage}/watchdog", f"no result after {timeout}s CPU time"
    except Exception as e:  # noqa
        return f"{stage}/{type(e).__name__}/{where(e)}", f"{type(e).__name__}: {e}"[:300]
    finally:
        signal.setitimer(signal.ITIMER_PROF, 0)
        signal.setitimer(signal.ITIMER_REAL, 0)


def run_case(case):
    fid, faults = case
    ent = corpus()[fid]
    data = apply_faults(ent["lines"], faults)
    expect = None
    if len(faults) == 1 and faults[0][0] in ("trunc_tag", "trunc_byte") and faults[0][1] > ent["entities_end"]:
        expect = ent["msp"]
    v, d = evaluate(data, expect)
    return case, v, d


def repo_lines(rel):
    for name, data in repo_files()["files"]:
        if name == rel:
            return data.splitlines(keepends=True)
    raise KeyError(rel)


def repo_usable(rel):
    """a repository file takes part in the oracle if it is a valid file in the sense of the property: even number of
    lines, strictly loadable by ezdxf.read, and recover.read + save + strict reload work on the undamaged file"""
    import logging

    import ezdxf

    logging.disable(logging.CRITICAL)
    data = dict(repo_files()["files"])[rel]
    if not data.endswith(b"\n") or len(data.splitlines()) % 2:
        return rel, "odd number of lines"
    try:
        ezdxf.read(io.StringIO(data.decode("utf8", "surrogateescape")))
    except Exception as e:  # noqa
        return rel, "strict read fails: " + type(e).__name__
    v, d = evaluate(data)
    return rel, "" if v == "ok" else f"undamaged file: {v}"


def run_repo_case(case):
    rel, faults = case
    v, d = evaluate(apply_faults(repo_lines(rel), faults))
    return case, v, d


def _pool():
    import multiprocessing as mp

    return mp.get_context("fork").Pool(min(int(os.environ.get("VERIF_WORKERS", "16")), os.cpu_count() or 4))


LOAD_CHECKED_SECTIONS = {"-", "HEADER", "CLASSES", "TABLES", "BLOCKS", "ENTITIES", "OBJECTS"}


def _is_link_tag(code_line: bytes) -> bool:
    try:
        c = int(code_line)
    except ValueError:
        return False
    return c in (0, 2, 3, 5, 105, 1005) or 320 <= c <= 369


def single_fault_cases(ctx, rng):
    """quick: seeded sample stratified by (file, section, kind); thorough: the whole single-fault space"""
    cp = corpus()
    cases = []
    for fid, ent in cp.items():
        n = ent["ntags"]
        by_sec: dict = {}
        for k in range(n):
            by_sec.setdefault(ent["sec"][k], []).append(k)
        for sec, ks in by_sec.items():
            for kind in KINDS:
                if ctx.quick:
                    # half of the sample from the tags that carry the document structure (entity type, handle, name, pointer
                    # tags): a fault there detaches or re-links entities, which is where the loader / audit repairs live
                    want = 36 if kind.startswith("garb") else 18
                    link = [k for k in ks if _is_link_tag(ent["lines"][2 * k])]
                    other = [k for k in ks if not _is_link_tag(ent["lines"][2 * k])]
                    if sec not in LOAD_CHECKED_SECTIONS:
                        # sections that pass the front end, the loader and the audit unchecked and whose records are only
                        # resolved lazily at export (ACDSDATA: binary ACIS data): every structure tag, not a sample
                        sel = list(link)
                    else:
                        sel = rng.sample(link, min(len(link), want // 2))
                    sel += rng.sample(other, min(len(other), max(want - len(sel), want // 2)))
                else:
                    sel = ks
                for k in sel:
                    L = len(ent["lines"][2 * k]) + len(ent["lines"][2 * k + 1])
                    if kind == "trunc_byte":
                        args = [rng.randrange(L - 1)] if ctx.quick else range(L - 1)
                    elif kind == "garb_code":
                        args = [rng.randrange(len(GARBAGE_CODE))] if ctx.quick else rng.sample(range(len(GARBAGE_CODE)), 4)
                    elif kind == "garb_value":
                        args = [rng.randrange(len(GARBAGE_VALUE))] if ctx.quick else rng.sample(range(len(GARBAGE_VALUE)), 5)
                    else:
                        args = [0]
                    for a in args:
                        cases.append((fid, ((kind, k, a),)))
    return cases


def oracle(ctx):
    rng = ctx.rng("oracle")
    cp = corpus()
    # the undamaged files must pass (otherwise the corpus is wrong, not the library)
    for fid, ent in cp.items():
        v, d = evaluate(ent["data"], ent["msp"])
        ctx.count("O0 undamaged corpus", fid, True)
        if v != "ok":
            ctx.fail(f"corpus/{fid}/{v}", f"undamaged corpus file {fid}: {v} {d}", {"file": fid, "faults": []})
    cases = single_fault_cases(ctx, rng)
    ndouble = ctx.n(3000, 30000)
    for _ in range(ndouble):
        fid = rng.choice(FILE_IDS)
        n = cp[fid]["ntags"]
        cases.append((fid, tuple((rng.choice(KINDS), rng.randrange(n), rng.randrange(64)) for _ in range(2))))
    repo_files()  # cached before the workers are forked
    with _pool() as pool:
        for case, v, d in pool.imap(run_case, cases, chunksize=32):  # ordered: deterministic examples
            fid, faults = case
            stream = "O1 single fault" if len(faults) == 1 else "O2 double fault"
            ctx.count(stream, case, True)
            ctx.hist(stream, f"{faults[0][0]}" if len(faults) == 1 else "double")
            ctx.hist(stream, "verdict:" + v.split("/")[0])
            if v not in ("ok", "dxfstructure"):
                kind = faults[0][0] if len(faults) == 1 else "double"
                ctx.fail(f"{v}/{kind}", f"{fid} + {list(faults)}: {d}", {"file": fid, "faults": [list(f) for f in faults]})
        # O3: the files of the repository (examples_dxf, integration_tests) that are valid in the sense of the property
        rels = [name for name, _ in repo_files()["files"]]
        if ctx.quick:
            rels = sorted(rng.sample(rels, min(len(rels), 24)))
        usable = []
        for rel, why in pool.imap(repo_usable, rels, chunksize=1):
            ctx.hist("O3 repository files", "usable file" if not why else "skipped file: " + why)
            if not why:
                usable.append(rel)
        cases = []
        for _ in range(ctx.n(400, 12000) if usable else 0):
            rel = rng.choice(usable)
            n = len(repo_lines(rel)) // 2
            nf = 1 if rng.random() < 0.8 else 2
            cases.append((rel, tuple((rng.choice(KINDS), rng.randrange(n), rng.randrange(1000)) for _ in range(nf))))
        for case, v, d in pool.imap(run_repo_case, cases, chunksize=8):
            rel, faults = case
            ctx.count("O3 repository files", case, True)
            ctx.hist("O3 repository files", f"{faults[0][0]}" if len(faults) == 1 else "double")
            ctx.hist("O3 repository files", "verdict:" + v.split("/")[0])
            if v not in ("ok", "dxfstructure"):
                kind = faults[0][0] if len(faults) == 1 else "double"
                ctx.fail(f"{v}/{kind}", f"{rel} + {list(faults)}: {d}", {"repo_file": rel, "faults": [list(f) for f in faults]})


def replay(ctx, rep):
    msgs, ok = [], True
    for item in rep.get("failing_inputs", []):
        r = item.get("replay", {})
        if "bytes" in r:
            v, d = evaluate(bytes.fromhex(r["bytes"]))
            ok = ok and v in ("ok", "dxfstructure")
            msgs.append(f"bytes[{len(r['bytes']) // 2}]: {v} {d}")
            continue
        if "repo_file" in r:
            v, d = evaluate(apply_faults(repo_lines(r["repo_file"]), [tuple(f) for f in r["faults"]]))
            ok = ok and v in ("ok", "dxfstructure")
            msgs.append(f"{r['repo_file']}+{r['faults']}: {v} {d}")
            continue
        if "ctags" in r:
            res = impl_envelope([tuple(t) for t in r["ctags"]])
            good = res.startswith("ok") or res == "err DXFStructureError"
            ok = ok and good
            msgs.append(f"envelope {r['ctags']}: {res[:200]}")
            continue
        if "file" not in r:
            continue
        ent = corpus()[r["file"]]
        faults = [tuple(f) for f in r["faults"]]
        expect = ent["msp"] if len(faults) == 1 and faults[0][0].startswith("trunc") and faults[0][1] > ent["entities_end"] else None
        v, d = evaluate(apply_faults(ent["lines"], faults), expect)
        good = v in ("ok", "dxfstructure")
        ok = ok and good
        msgs.append(f"{r['file']}+{faults}: {v} {d}")
    if not msgs:
        return True, "nothing to replay (broken proof/correspondence entries are re-checked by ./check C07)"
    return ok, "; ".join(msgs)[:2000]


# ------------------------------------------------------------------ correspondence: implementation side
def _ename(e: BaseException) -> str:
    from ezdxf.lldxf.const import DXFStructureError

    return "DXFStructureError" if isinstance(e, DXFStructureError) else type(e).__name__


def _dots(s) -> str:
    return ".".join(str(ord(c)) for c in s)


def nats(b) -> str:
    return " ".join(str(x) for x in b)


def show_ctag(t) -> str:
    from ezdxf.lldxf.types import DXFBinaryTag, DXFVertex

    if isinstance(t, DXFVertex):
        return f"{t.code}:v"
    if isinstance(t, DXFBinaryTag):
        return f"{t.code}:b"
    v = t.value
    if isinstance(v, str):
        return f"{t.code}:s{_dots(v)}"
    return f"{t.code}:n"


def hash_str(s: str) -> int:
    h = 7
    for c in s:
        h = (h * 131 + ord(c)) % 2305843009213693951
    return h


def probe_cfg() -> str:
    """which of the four defects are fixed in the tree under test ('1' = fixed), by calling the real functions"""
    from ezdxf import recover as R
    from ezdxf.lldxf import encoding as E
    from ezdxf.lldxf.const import DXFStructureError
    from ezdxf.lldxf.types import DXFTag

    def outcome(f):
        try:
            f()
            return "ok"
        except Exception as e:  # noqa
            return _ename(e)

    o1 = outcome(lambda: R.Recover().load_section_dict([[DXFTag(0, "SECTION")], []]))
    o2 = outcome(lambda: list(R.byte_tag_compiler(iter([DXFTag(70, b"\x81")]))))
    o3 = outcome(lambda: R.detect_encoding(iter([DXFTag(9, b"$DWGCODEPAGE"), DXFTag(3, b"\x81")])))
    o4 = outcome(lambda: E.decode_dxf_unicode("\\U+\\U+0041"))
    return "".join("0" if o == bad else "1" for o, bad in ((o1, "IndexError"), (o2, "UnicodeDecodeError"),
                                                           (o3, "UnicodeDecodeError"), (o4, "ValueError")))


def probe_reactors() -> bool:
    """True iff Reactors.from_tags drops values that are no valid handles"""
    from ezdxf.entities.appdata import Reactors
    from ezdxf.lldxf.tags import Tags
    from ezdxf.lldxf.types import DXFTag

    r = Reactors.from_tags(Tags([DXFTag(102, "{ACAD_REACTORS"), DXFTag(330, "xyz"), DXFTag(330, "1F"), DXFTag(102, "}")]))
    return "xyz" not in r.reactors and "1F" in r.reactors


def impl_front(data: bytes, mode: str, ctx=None) -> str:
    from ezdxf import recover as R

    try:
        r = R.Recover.run(io.BytesIO(data))
    except Exception as e:  # noqa
        name = _ename(e)
        if ctx is not None and name != "DXFStructureError":
            # the real front end itself violates the property on this input: a failing input, not only a disagreement
            ctx.fail(f"crash/{type(e).__name__}/{where(e)}/synthetic", f"Recover.run(BytesIO({data[:200]!r}...)) raised {name}: {e}"[:400],
                     {"bytes": data.hex()})
        return "err " + name
    text = ";".join(
        _dots(name) + "=" + ",".join(" ".join(show_ctag(t) for t in g) for g in groups)
        for name, groups in r.section_dict.items()
    )
    return f"ok h{hash_str(text)}" if mode == "hash" else "ok " + text


def impl_encoding(data: bytes):
    """the encoding the real detect_encoding picks (None if it raises)"""
    from ezdxf import recover as R

    try:
        return R.detect_encoding(R.bytes_loader(io.BytesIO(data)))
    except Exception:  # noqa
        return None


REPO_FILE_LIMIT = 300_000
_REPO_FILES = None


def repo_files():
    """all *.dxf under examples_dxf and integration_tests of the repository under test that are ASCII DXF, at most
    REPO_FILE_LIMIT bytes and inside the modelled encodings"""
    global _REPO_FILES
    if _REPO_FILES is not None:
        return _REPO_FILES
    import ezdxf

    root = os.path.dirname(os.path.dirname(os.path.dirname(os.path.abspath(ezdxf.__file__))))
    found, files, skipped, versions = 0, [], {}, {}
    for sub in ("examples_dxf", "integration_tests"):
        for dirpath, _, names in sorted(os.walk(os.path.join(root, sub))):
            for n in sorted(names):
                if not n.lower().endswith(".dxf"):
                    continue
                found += 1
                path = os.path.join(dirpath, n)
                rel = os.path.relpath(path, root)
                if os.path.getsize(path) > REPO_FILE_LIMIT:
                    skipped["too big"] = skipped.get("too big", 0) + 1
                    continue
                with open(path, "rb") as fh:
                    data = fh.read()
                if data.startswith(b"AutoCAD Binary DXF"):
                    skipped["binary DXF"] = skipped.get("binary DXF", 0) + 1
                    continue
                if not modelled_input(data):
                    skipped["encoding/MIF outside the model"] = skipped.get("encoding/MIF outside the model", 0) + 1
                    continue
                mm = re.search(rb"\$ACADVER\s+1\s+(AC\d{4})", data)
                versions[rel] = mm.group(1).decode() if mm else "none"
                files.append((rel, data))
    sizes = sorted(len(d) for _, d in files)
    q = [sizes[int(i * (len(sizes) - 1) / 4)] for i in range(5)] if sizes else []
    _REPO_FILES = {"found": found, "files": files, "skipped": skipped, "versions": versions, "quantiles": q}
    return _REPO_FILES


def modelled_input(data: bytes) -> bool:
    if b"\\M+" in data:
        return False
    return impl_encoding(data) in (None, "cp1252", "utf8")


def impl_loader(data: bytes) -> str:
    from ezdxf import recover as R

    out, end = [], "end"
    try:
        for t in R.bytes_loader(io.BytesIO(data)):
            out.append(f"{t.code}:{nats(t.value)}")
    except Exception as e:  # noqa
        end = _ename(e)
    return ";".join(out) + "|" + end


def impl_detect(data: bytes) -> str:
    from ezdxf import recover as R

    try:
        return "ok " + R.detect_encoding(R.bytes_loader(io.BytesIO(data)))
    except Exception as e:  # noqa
        return "err " + _ename(e)


def impl_repair(tags, flush: bool) -> str:
    from ezdxf.lldxf import repair
    from ezdxf.lldxf.const import DXFStructureError
    from ezdxf.lldxf.types import DXFTag

    def gen():
        for c, v in tags:
            yield DXFTag(c, v)
        if not flush:
            raise DXFStructureError("terminal")

    out = []
    try:
        for t in repair.filter_invalid_handles(repair.filter_invalid_point_codes(repair.tag_reorder_layer(gen()))):
            out.append(f"{t.code}:{nats(t.value)}")
    except DXFStructureError:
        pass
    return ";".join(out)


def impl_compile(enc: str, tags) -> str:
    from ezdxf import recover as R
    from ezdxf.lldxf.types import DXFTag

    try:
        out = list(R.byte_tag_compiler(iter([DXFTag(c, v) for c, v in tags]), enc, messages=[]))
    except Exception as e:  # noqa
        return "err " + _ename(e)
    return "ok " + " ".join(show_ctag(t) for t in out)


def impl_float(b: bytes) -> str:
    def ok(f):
        try:
            f()
            return "true"
        except ValueError:
            return "false"

    from binascii import unhexlify
    from ezdxf import recover as R
    from ezdxf.lldxf.types import DXFTag

    def comp(code):
        try:
            list(R.byte_tag_compiler(iter([DXFTag(code, b)]), "utf8", messages=[]))
            return "true"
        except Exception:  # noqa  (DXFStructureError, or UnicodeDecodeError from error_msg)
            return "false"

    return f"{ok(lambda: float(b))} {comp(40)} {comp(70)} {ok(lambda: unhexlify(b))}"


def impl_utf8(b: bytes) -> str:
    def strict(enc):
        try:
            b.decode(enc)
            return "true"
        except UnicodeDecodeError:
            return "false"

    return (_dots(b.decode("utf8", "surrogateescape")) + "|" + _dots(b.decode("utf8", "ignore")) + "|"
            + _dots(b.decode("cp1252", "surrogateescape")) + "|" + strict("utf8") + " " + strict("cp1252"))


def impl_udec(s: str) -> str:
    from ezdxf.lldxf import encoding as E

    if not E.has_dxf_unicode(s):
        return "nomatch"
    try:
        return "ok " + _dots(E.decode_dxf_unicode(s))
    except Exception as e:  # noqa
        return "err " + _ename(e)


def impl_validate(ctags) -> str:
    from ezdxf.lldxf.const import DXFStructureError
    from ezdxf.lldxf.types import DXFTag
    from ezdxf.lldxf.validator import entity_structure_validator

    try:
        list(entity_structure_validator([DXFTag(c, v) for c, v in ctags]))
        return "true"
    except DXFStructureError:
        return "false"


def opt_int(f) -> str:
    """value modulo 2^61-1 with its sign (str() of an int with more than 4300 digits raises)"""
    try:
        v = f()
    except ValueError:
        return "none"
    return "ok " + ("-" if v < 0 else "") + str(abs(v) % 2305843009213693951)


# ------------------------------------------------------------------ first loading stage behind the front end (Model/RecoverLoad.lean)
def _mk_tag(c, kind, v):
    from ezdxf.lldxf.types import DXFBinaryTag, DXFTag, DXFVertex

    if kind == "s":
        return DXFTag(c, v)
    if kind == "n":
        return DXFTag(c, 1)
    if kind == "v":
        return DXFVertex(c, (1.0, 2.0, 3.0))
    return DXFBinaryTag(c, b"\x01")


def _enc_ctag(c, kind, v) -> str:
    return f"{c}:s{_dots(v)}" if kind == "s" else f"{c}:{kind}"


def _show_val(v) -> str:
    from ezdxf.math import Vec3

    if isinstance(v, str):
        return "s" + _dots(v)
    if isinstance(v, bytes):
        return "b"
    if isinstance(v, (tuple, Vec3)):
        return "v"
    return "n"


def impl_envelope(ctags, ctx=None) -> str:
    """the real ExtendedTags + DXFEntity.load_tags (setup_app_data, XData with the safe_init fallback) on one tag list"""
    from ezdxf.entities.dxfentity import DXFEntity
    from ezdxf.lldxf.const import DXFStructureError
    from ezdxf.lldxf.extendedtags import ExtendedTags
    from ezdxf.lldxf.tags import Tags

    tags = Tags(_mk_tag(c, k, v) for c, k, v in ctags)
    try:
        xt = ExtendedTags(tags)
        ent = DXFEntity()
        # DXFEntity.load_tags up to (not including) the attribute loader
        if len(xt.appdata):
            ent.setup_app_data(xt.appdata)
        if len(xt.xdata):
            ent_load_xdata(ent, xt)
    except DXFStructureError:
        return "err DXFStructureError"
    except Exception as e:  # noqa
        if ctx is not None:
            ctx.fail(f"crash/{type(e).__name__}/{where(e)}/envelope", f"loading envelope of {ctags!r} raised {type(e).__name__}: {e}"[:400],
                     {"ctags": [list(t) for t in ctags]})
        return "err " + type(e).__name__

    def grp(g):
        return " ".join(show_ctag(t) for t in g)

    base = " ".join(f"a{t.value}" if t.code == 102 and isinstance(t.value, int) else show_ctag(t) for t in xt.subclasses[0])
    out = "ok base=" + base + "|subs=" + ",".join(grp(g) for g in xt.subclasses[1:]) + "|apps=" + ",".join(grp(g) for g in xt.appdata)
    out += "|emb=" + ",".join(grp(g) for g in (xt.embedded_objects or [])) + "|xd=" + ",".join(grp(g) for g in xt.xdata)
    if ent.reactors is None:
        out += "|r=-"
    else:
        last = [g for g in xt.appdata if g[0].value == "{ACAD_REACTORS"][-1]
        kept = [t.value for t in last[1:-1] if _hashable(t.value) and t.value in ent.reactors.reactors]
        if set(kept) != set(ent.reactors.reactors):
            kept.append("?unexpected member")
        out += "|r=" + ",".join(_dots(h) if isinstance(h, str) else "?" for h in kept)
    if ent.extension_dict is None:
        out += "|x=-"
    else:
        out += "|x=" + _show_val(ent.extension_dict._xdict)
    out += "|ad=" + (";".join(_dots(k) + "=" + grp(g) for k, g in ent.appdata.data.items()) if ent.appdata is not None else "")
    out += "|xdata=" + (";".join(_dots(k) + "=" + grp(g) for k, g in ent.xdata.data.items()) if ent.xdata is not None else "")
    out += "|iter=" + ("true" if [tuple(t) for t in xt] == [tuple(t) for t in tags] else "false")
    return out


def _hashable(v) -> bool:
    try:
        hash(v)
        return True
    except TypeError:
        return False


def ent_load_xdata(ent, xt):
    """the XDATA part of DXFEntity.load_tags (same statements; regenerate() checks the source text)"""
    from ezdxf.entities.xdata import XData
    from ezdxf.lldxf import const

    try:
        ent.xdata = XData(xt.xdata)
    except const.DXFValueError:
        ent.xdata = XData.safe_init(xt.xdata)


def _kind_of(code: int) -> str:
    from ezdxf.lldxf import types as T

    if code in T.POINT_CODES:
        return "v"
    if code in T.BINARY_DATA:
        return "b"
    t = T.TYPE_TABLE.get(code, str)
    return "s" if t is str else "n"


ENV_CODES = [5, 8, 100, 100, 101, 102, 102, 102, 330, 330, 360, 1, 2, 10, 40, 70, 90, 310, 1000, 1001, 1001, 1002, 1010, 1040, 1070, 1071,
             1072, 999, 1004, 1005, 5000, -5, 62, 6]
ENV_VALUES = ["{", "}", "{ACAD_REACTORS", "{ACAD_XDICTIONARY", "ACAD_REACTORS}", "ACAD_XDICTIONARY}", "{MYAPP", "MYAPP}", "{MYAPP}", "xyz", "1F",
              "", "Embedded Object", "embedded object", "AcDbEntity", "MYAPP", "0", "FFFF", "0x1F", "1_F", " 2A ", "-1", "G", "{{", "ACAD"]


def gen_envelope_entity(rng):
    """a realistic entity tag list (as the front end delivers it) with 0-3 tag faults; (code, kind, value) triples"""
    def T(c, v=None):
        k = _kind_of(c)
        return (c, k, (v if v is not None else "x") if k == "s" else None)

    t = [T(0, rng.choice(["LINE", "MTEXT", "XRECORD", "INSERT", "DICTIONARY", "LAYER"])), T(5, "%X" % rng.randrange(1, 999))]
    if rng.random() < 0.6:
        t += [T(102, "{ACAD_REACTORS")] + [T(330, rng.choice(["1F", "2A", "1F", "xyz", "", "0x10", "1_0", " A "])) for _ in range(rng.randrange(0, 4))]
        t += [T(102, rng.choice(["}", "}", "}", "ACAD_REACTORS}"]))]
    if rng.random() < 0.5:
        t += [T(102, "{ACAD_XDICTIONARY"), T(rng.choice([360, 360, 360, 330]), "3B"), T(102, "}")]
    if rng.random() < 0.3:
        name = rng.choice(["{MYAPP", "{OTHER", "{MYAPP"])
        t += [T(102, name), T(rng.choice([1, 70, 10, 330]), "d"), T(102, rng.choice(["}", name[1:] + "}"]))]
    t.append(T(330, "1E"))
    if rng.random() < 0.8:
        t += [T(100, "AcDbEntity"), T(8, "0"), T(62, None)]
        if rng.random() < 0.3:
            t += [T(102, rng.choice(["{INSUB", "}", "junk"])), T(330, "5")]
        t += [T(100, "AcDbLine"), T(10), T(11), T(40)]
    if rng.random() < 0.25:
        t += [T(101, "Embedded Object"), T(70), T(10), T(102, "{no app"), T(100, "inside")]
        if rng.random() < 0.3:
            t += [T(101, "Embedded Object"), T(1, "second")]
    for _ in range(rng.choice([0, 0, 1, 1, 2])):
        app = rng.choice(["MYAPP", "ACAD", "MYAPP", "OTHER"])
        t += [T(1001, app), T(1000, "str"), T(1002, "{"), T(1070), T(1010), T(1002, "}")]
        if rng.random() < 0.3:
            t.insert(len(t) - rng.randrange(1, 4), T(rng.choice([40, 8, 1072, 999, 5000, 102, 100]), "bad"))
    nf = rng.choice([0, 1, 1, 1, 2, 3])
    for _ in range(nf):
        if len(t) < 2:
            break
        i = rng.randrange(1, len(t))
        r = rng.random()
        if r < 0.2:
            del t[i]
        elif r < 0.35:
            t.insert(i, t[i])
        elif r < 0.5 and i + 1 < len(t):
            t[i], t[i + 1] = t[i + 1], t[i]
        elif r < 0.75:
            c = rng.choice(ENV_CODES)
            k = _kind_of(c)
            old = t[i][2]
            t[i] = (c, k, (old if old is not None else "9") if k == "s" else None)
        else:
            c, k, _ = t[i]
            if k == "s":
                t[i] = (c, k, rng.choice(ENV_VALUES))
        if rng.random() < 0.1:
            t = t[: rng.randrange(1, len(t) + 1)]
    return t, nf


def correspond_load(ctx, rng):
    """X10/X11: the generic first loading stage (ExtendedTags, setup_app_data, XData) on damaged entity tag lists,
    and the section order of load_and_bind_dxf_content"""
    cases = []
    for _ in range(ctx.n(6000, 60000)):
        t, nf = gen_envelope_entity(rng)
        impl = impl_envelope(t, ctx)
        ctx.hist("X10 loading envelope", "faults:" + str(nf))
        ctx.hist("X10 loading envelope", impl.split("|")[0][:24] if impl.startswith("err") else "ok")
        cases.append(("envelope|" + " ".join(_enc_ctag(*x) for x in t), impl, nf > 0 or impl.startswith("err")))
    # every entity group of the corpus files as the real front end delivers them, with one tag fault
    from ezdxf import recover as R

    ngroups = 0
    for fid, ent in corpus().items():
        try:
            sd = R.Recover.run(io.BytesIO(ent["data"])).section_dict
        except Exception:  # noqa
            continue
        for name in ("TABLES", "BLOCKS", "ENTITIES", "OBJECTS"):
            for g in sd.get(name, []):
                base = [(t.code, _show_val(t.value)[0], t.value if isinstance(t.value, str) else None) for t in g]
                if any(k == "s" and any(ord(ch) > 127 for ch in v) for _, k, v in base):
                    continue  # handle strings are modelled for ASCII only
                for variant in range(ctx.n(1, 4)):
                    t = list(base)
                    if variant and len(t) > 1:
                        i = rng.randrange(1, len(t))
                        r = rng.random()
                        if r < 0.3:
                            del t[i]
                        elif r < 0.6:
                            c = rng.choice(ENV_CODES)
                            k = _kind_of(c)
                            t[i] = (c, k, (t[i][2] if t[i][2] is not None else "9") if k == "s" else None)
                        elif t[i][1] == "s":
                            t[i] = (t[i][0], "s", rng.choice(ENV_VALUES))
                    ngroups += 1
                    cases.append(("envelope|" + " ".join(_enc_ctag(*x) for x in t), impl_envelope(t, ctx), variant > 0))
    ctx.hist("X10 loading envelope", "corpus entity groups", ngroups)
    ctx.correspond("X10 loading envelope", "C07", cases)

    # X11: order in which load_and_bind_dxf_content walks the sections of a dict
    from ezdxf.lldxf import loader as LD
    import ezdxf.entities.factory as F

    cases = []
    names_pool = ["HEADER", "CLASSES", "TABLES", "BLOCKS", "ENTITIES", "OBJECTS", "ACDSDATA", "THUMBNAILIMAGE"]
    for _ in range(ctx.n(200, 1000)):
        names = rng.sample(names_pool, rng.randrange(0, len(names_pool) + 1))
        seen = []

        class Doc:  # the minimum load_and_bind_dxf_content touches
            class entitydb:  # noqa
                @staticmethod
                def __contains__(h):
                    return False

        orig_load, orig_bind = LD.load_dxf_entities, F.bind
        try:
            LD.load_dxf_entities = lambda section, doc: (seen.append(section[0][0].value) or [])  # noqa
            LD.load_and_bind_dxf_content({n: [[_mk_tag(0, "s", n)]] for n in names}, Doc)
        finally:
            LD.load_dxf_entities, F.bind = orig_load, orig_bind
        cases.append(("loadseq|" + ",".join(nats(n.encode()) for n in names), ",".join(_dots(n) for n in seen), len(names) > 1))
    ctx.correspond("X11 section load order", "C07", cases)


# ------------------------------------------------------------------ correspondence: generators
def tag_bytes(tags, eol=b"\n") -> bytes:
    out = []
    for c, v in tags:
        out.append((b"%3d" % c if isinstance(c, int) else c) + eol + (v if isinstance(v, bytes) else str(v).encode("utf8")) + eol)
    return b"".join(out)


def gen_entity(rng, hgen):
    """tags of one entity (codes as int, values as bytes)"""
    kind = rng.choice(["LINE", "LINE", "CIRCLE", "POINT", "LWPOLYLINE", "TEXT", "MTEXT", "DIMSTYLE", "XRECORD", "INSERT", "line"])
    t = [(0, kind.encode())]
    hcode = 105 if kind == "DIMSTYLE" else 5
    if rng.random() < 0.9:
        t.append((hcode, rng.choice([b"%X" % next(hgen), b"%X" % next(hgen), b"XYZ", b"0x1F", b"1_F", b"", b" 2A "])))
    if rng.random() < 0.3:
        name = rng.choice([b"{ACAD_REACTORS", b"{ACAD_XDICTIONARY", b"{MYAPP", b"{"])
        t.append((102, name))
        t.append((330, b"1F"))
        r = rng.random()
        if r < 0.93:
            t.append((102, rng.choice([b"}", b"}", name[1:] + b"}"])))
        elif r < 0.96:
            t.append((102, b"{NESTED"))
    if rng.random() < 0.5:
        t.append((100, b"AcDbEntity"))
    t.append((8, rng.choice([b"0", b"L1", b"\xe4\xf6", b"\\U+00E4x", b"\\U+00e4 \\U+0041"])))
    if kind in ("LINE", "line"):
        coords = [(10, b"0.0"), (20, b"1.5"), (30, b"0"), (11, b"1e1"), (21, b"2"), (31, b"3")]
        r = rng.random()
        if r < 0.3:
            coords = [coords[i] for i in (0, 3, 1, 4, 2, 5)]  # legacy order x x y y z z
        elif r < 0.45:
            rng.shuffle(coords)
        elif r < 0.6:
            del coords[rng.randrange(6)]
        elif r < 0.7:
            coords.insert(rng.randrange(6), (rng.choice([10, 21, 39]), b"7"))
        t += coords
    elif kind == "CIRCLE":
        t += [(10, rng.choice([b"1", b"1", b"1.5", b"1,5", b" 1 ", b"1_0", b"1e3", b"abc" if rng.random() < 0.2 else b"-1", b"1:.5" if rng.random() < 0.2 else b".5"])),
              (20, b"2"), (30, b"3"),
              (40, rng.choice([b"2.5", b"2.5", b"2.5mm", b"inf", b" 7", b"x" if rng.random() < 0.15 else b"1", b"\x81" if rng.random() < 0.15 else b"2"]))]
    elif kind == "POINT":
        t += [(10, b"1"), (20, b"2")] + ([(30, b"3")] if rng.random() < 0.5 else [])
        if rng.random() < 0.3:
            t.append((rng.choice([20, 30, 38, 11, 210, -1]), b"9"))
    elif kind == "LWPOLYLINE":
        n = rng.randrange(0, 4)
        t.append((90, str(n).encode()))
        for i in range(n):
            t += [(10, str(i).encode()), (20, b"0")]
        if rng.random() < 0.4:
            t.append((38, b"1.0"))
    elif kind in ("TEXT", "MTEXT"):
        t += [(10, b"0"), (20, b"0"), (30, b"0"), (40, b"2.5")]
        t.append((1, rng.choice([b"text", b"\\U+03A9 ok", b"a\\U+00E4b\\U+20AC", b"t\xe4xt", b"\xc3\xa4", b"", b" pad "])))
        if kind == "MTEXT" and rng.random() < 0.5:
            t += [(101, b"Embedded Object"), (70, b"1"), (10, b"1"), (20, b"0"), (30, b"0"), (102, b"no app data here")]
    elif kind == "XRECORD":
        t += [(100, b"AcDbXrecord"), (280, b"1"), (102, b"anything"), (102, b"{"), (1, b"v")]
    elif kind == "INSERT":
        t += [(2, b"B1"), (10, b"5"), (20, b"5"), (30, b"0"), (66, rng.choice([b"1", b"1.0", b"x" if rng.random() < 0.2 else b"0", b" 1"]))]
    if rng.random() < 0.08:
        t.append((310, rng.choice([b"0AFF", b"0aff", b"0af" if rng.random() < 0.3 else b"00", b"xx" if rng.random() < 0.3 else b"FF", b""])))
    if rng.random() < 0.35:
        t.append((1001, b"MYAPP"))
        t += [(1000, b"str"), (1002, b"{"), (1070, rng.choice([b"7", b"7", b"7.0", b"seven" if rng.random() < 0.2 else b" 7 "])), (1010, b"1"), (1020, b"2"), (1030, b"3")]
        r = rng.random()
        if r < 0.9:
            t.append((1002, b"}"))
        elif r < 0.93:
            t += [(1002, b"}"), (1002, b"}")]
        elif r < 0.96:
            t.append((1002, b"x"))
        if rng.random() < 0.05:
            t.append((8, b"late"))
        if rng.random() < 0.1:
            t.append((1001, b"SECOND"))
    return t


def gen_stream(rng):
    """a structured, mostly valid DXF tag stream with structural damage"""
    def hg():
        h = 0x10
        while True:
            h += 1
            yield h

    hgen = hg()
    ver = rng.choice([b"AC1009", b"AC1009", b"AC1015", b"AC1018", b"AC1021", b"AC1032", b"AC10", b" AC1015 ", b"ac1015", None, b"AC1009x"])
    S, E = (0, b"SECTION"), (0, b"ENDSEC")
    secs = []
    hdr = [S, (2, b"HEADER")]
    if ver is not None:
        hdr += [(9, b"$ACADVER"), (rng.choice([1, 1, 1, 3, 70]), ver)]
    if rng.random() < 0.7:
        hdr += [(9, b"$DWGCODEPAGE"), (3, rng.choice([b"ANSI_1252", b"ANSI_1252", b"ANSI_1252", b"ansi_1252", b"DOS850", b"", b"ANSI_1252\x81" if rng.random() < 0.3 else b"ANSI_1252", b"\x81" if rng.random() < 0.3 else b"1252"]))]
    hdr += [(9, b"$HANDSEED"), (5, b"FF"), (9, b"$EXTMIN"), (10, b"0"), (20, b"0"), (30, b"0"), E]
    secs.append(hdr)
    if rng.random() < 0.5:
        secs.append([S, (2, b"CLASSES"), (0, b"CLASS"), (1, b"X"), (90, b"1"), E])
    names = [b"VPORT", b"LTYPE", b"LAYER", b"STYLE", b"VIEW", b"UCS", b"APPID", b"DIMSTYLE", b"BLOCK_RECORD"]
    tb = [S, (2, b"TABLES")]
    if rng.random() < 0.2:
        tb.append((70, b"3"))
    for name in rng.sample(names, rng.randrange(0, 7)) + ([b"LAYER"] if rng.random() < 0.2 else []):
        r = rng.random()
        shown = name.lower() if r < 0.15 else name
        if r < 0.85:
            second = rng.choice([(2, shown), (2, shown), (2, shown), (2, shown), (3, shown), (70, b"1"), (10, b"1")])
            tb += [(0, b"TABLE"), second, (5, b"%X" % next(hgen)), (70, b"1")]
        elif r < 0.9:
            tb += [(0, b"TABLE")]
        for _ in range(rng.randrange(0, 3)):
            ent = rng.choice([name, name, name, name.lower(), rng.choice(names), b"FOO"])
            tb += [(0, ent), (105 if ent == b"DIMSTYLE" else 5, b"%X" % next(hgen)), (2, b"n%d" % rng.randrange(9)), (70, b"0")]
        if rng.random() < 0.85:
            tb.append((0, b"ENDTAB"))
    tb.append(E)
    secs.append(tb)
    bl = [S, (2, b"BLOCKS")]
    for _ in range(rng.randrange(0, 3)):
        bl += [(0, b"BLOCK"), (5, b"%X" % next(hgen)), (2, b"B1"), (10, b"0"), (20, b"0"), (30, b"0")]
        for _ in range(rng.randrange(0, 2)):
            bl += gen_entity(rng, hgen)
        bl += [(0, b"ENDBLK"), (5, b"%X" % next(hgen))]
    bl.append(E)
    secs.append(bl)
    en = [S, (2, b"ENTITIES")]
    for _ in range(rng.randrange(0, 5)):
        en += gen_entity(rng, hgen)
    en.append(E)
    secs.append(en)
    if rng.random() < 0.7:
        ob = [S, (2, b"OBJECTS")]
        root = [(0, b"DICTIONARY"), (5, b"C"), (3, b"ACAD_GROUP"), (350, b"D")]
        other = [[(0, b"DICTIONARY"), (5, b"D")], [(0, b"XRECORD"), (5, b"E"), (102, b"junk")], [(0, b"LAYOUT"), (5, b"F"), (1, b"Model")]]
        objs = [root] + rng.sample(other, rng.randrange(0, 4))
        if rng.random() < 0.4:
            rng.shuffle(objs)
        if rng.random() < 0.15:
            objs = [o for o in objs if o is not root]
        for o in objs:
            ob += o
        ob.append(E)
        secs.append(ob)
    if rng.random() < 0.15:
        secs.append([S, (2, rng.choice([b"THUMBNAILIMAGE", b"ACDSDATA", b"entities", b"ENTITIES"])), (0, b"LINE"), (8, b"0"), E])
    # structural damage
    r = rng.random()
    if r < 0.12:
        rng.shuffle(secs)
    elif r < 0.22:
        i = rng.randrange(len(secs))
        secs[i] = [t for t in secs[i] if t != E]          # missing ENDSEC
    elif r < 0.32:
        i = rng.randrange(len(secs))
        secs[i] = secs[i][1:]                             # missing SECTION
    elif r < 0.40:
        i = rng.randrange(len(secs))
        secs[i] = [secs[i][0]] + secs[i][2:]              # missing section name
    elif r < 0.43:
        secs.insert(rng.randrange(len(secs) + 1), [S, E])  # a section that is only (0, SECTION)
    elif r < 0.52:
        secs.insert(rng.randrange(len(secs) + 1), [(9, b"$ACADVER"), (1, b"AC1024"), (9, b"$X"), (40, b"1")])  # orphans
    elif r < 0.57:
        secs.insert(rng.randrange(len(secs) + 1), [(0, b"EOF")])
    elif r < 0.62:
        secs.append(list(secs[rng.randrange(len(secs))]))   # duplicated section
    tags = [t for s in secs for t in s]
    if rng.random() < 0.9:
        tags.append((0, b"EOF"))
    if rng.random() < 0.1:
        tags.insert(rng.randrange(len(tags)), (999, b"a comment"))
    return tags


LINE_FAULTS = ["trunc_tag", "trunc_byte", "drop_tag", "drop_code_line", "drop_value_line", "dup_tag", "swap", "garb_code", "garb_value"]


def gen_file(rng) -> tuple[bytes, int]:
    tags = gen_stream(rng)
    data = tag_bytes(tags, rng.choice([b"\n", b"\n", b"\r\n"]))
    nf = rng.choice([0, 0, 1, 1, 1, 2])
    for _ in range(nf):
        lines = data.splitlines(keepends=True)
        data = apply_fault(lines, rng.choice(LINE_FAULTS), rng.randrange(max(1, len(lines) // 2)), rng.randrange(1000))
    return data, nf


NUM_ALPHA = [b"0", b"1", b"9", b"_", b"+", b"-", b".", b"e", b"E", b"x", b"X", b"a", b"f", b"F", b"i", b"n", b"N", b" ", b"\t",
             b"\x0b", b":", b"\xff", b"\xc3\xa4", b"\r", b"\n", b"\x1c", b"inf", b"nan", b"infinity", b"0x", b"g", b"\x00", b"\xe2\x82"]


def num_strings(ctx, rng):
    import itertools

    small = [b"0", b"1", b"_", b"+", b"-", b".", b"e", b"x", b"f", b" ", b":", b"\xff"]
    out = [b"".join(p) for n in range(0, 4 if ctx.quick else 5) for p in itertools.product(small, repeat=n)]
    for _ in range(ctx.n(4000, 40000)):
        out.append(b"".join(rng.choice(NUM_ALPHA) for _ in range(rng.randrange(1, 9))))
    for base in (b"1", b"0", b"f"):
        for n in (4299, 4300, 4301, 5000):
            out += [base * n, b" -" + base * n + b"\n", b"x" + base * n + b"y", base * (n // 2) + b"_" + base * (n - n // 2),
                    base * (n // 2) + b"\xff" + base * (n - n // 2), base * (n // 2) + b"\xc3\xa4" + base * (n - n // 2),
                    b"1." + base * n, b"1e" + base * n]
    out += [b"1.5", b"-1.5e-3", b"1:.5", b"1.5:e3", b"1:e3", b"12abc", b"abc12", b"1,5", b"1 2", b" 1_0 ", b"1__0", b"0x_1f", b"0X1F",
            b"+0x1f", b"0x", b"0x_", b"i n f", b"in f inity", b"NAN", b"+nan", b"-inf", b"1e", b"1e+", b".e5", b"1.e5", b"+.5e-3",
            b"1d5", b"--1", b"+-5", b"0AFF", b"0aff", b"0af", b"  ", b"", b"\x1c1", b"1\x00"]
    return out


def correspond(ctx):
    import logging

    logging.disable(logging.CRITICAL)
    rng = ctx.rng("c07")
    cfg = probe_cfg()
    ctx.note(f"configuration of the tree under test (C07-1..4 fixed?): {cfg}")
    ctx.hist("X1 front end synthetic", "cfg:" + cfg)

    # --- X1: whole front end on synthetic streams (full rendering of the section dict)
    cases, skipped = [], 0
    for i in range(ctx.n(4000, 25000)):
        data, nf = gen_file(rng)
        if not modelled_input(data):
            skipped += 1
            continue
        impl = impl_front(data, "full", ctx)
        ctx.hist("X1 front end synthetic", "ok" if impl.startswith("ok") else impl)
        cases.append((f"front|{cfg}|full|{nats(data)}", impl, nf > 0 or impl.startswith("err")))
    ctx.hist("X1 front end synthetic", "skipped (encoding/MIF outside the model)", skipped)
    ctx.correspond("X1 front end synthetic", "C07", cases, build=DRIVER_DEPS)

    # --- X2: corpus files with one fault (hash of the rendering)
    cases, skipped = [], 0
    cp = corpus()
    for fid, ent in cp.items():
        cases.append((f"front|{cfg}|hash|{nats(ent['data'])}", impl_front(ent["data"], "hash"), True))
        for _ in range(ctx.n(30, 400)):
            kind = rng.choice(KINDS)
            f = (kind, rng.randrange(ent["ntags"]), rng.randrange(1000))
            data = apply_fault(ent["lines"], *f)
            if not modelled_input(data):
                skipped += 1
                continue
            impl = impl_front(data, "hash", ctx)
            ctx.hist("X2 front end corpus", kind)
            ctx.hist("X2 front end corpus", "ok" if impl.startswith("ok") else impl)
            cases.append((f"front|{cfg}|hash|{nats(data)}", impl, True))
    ctx.hist("X2 front end corpus", "skipped (encoding/MIF outside the model)", skipped)
    ctx.correspond("X2 front end corpus", "C07", cases)

    # --- X2b: EVERY ASCII DXF file of the repository (examples_dxf, integration_tests) that is small enough: undamaged and with
    # one fault (hash of the same rendering); the distribution is printed in the evidence
    cases, dist = [], {}
    repo = repo_files()
    ctx.note(f"X2b repository files: {len(repo['files'])} usable of {repo['found']} found (skipped: {repo['skipped']}), "
             f"{sum(len(d) for _, d in repo['files'])} bytes, size quantiles {repo['quantiles']}")
    for name, data in repo["files"]:
        cases.append((f"front|{cfg}|hash|{nats(data)}", impl_front(data, "hash", ctx), True))
        ctx.hist("X2b repository files", "undamaged")
        ctx.hist("X2b repository files", "dir:" + name.split("/")[0])
        ctx.hist("X2b repository files", "version:" + repo["versions"].get(name, "?"))
    weights = [1.0 / (1 + len(d) / 20000) for _, d in repo["files"]]  # smaller files more often: the driver is interpreted
    for _ in range(ctx.n(50, 900) if repo["files"] else 0):
        name, data = rng.choices(repo["files"], weights)[0]
        lines = data.splitlines(keepends=True)
        kind = rng.choice(KINDS)
        data2 = apply_fault(lines, kind, rng.randrange(max(1, len(lines) // 2)), rng.randrange(1000))
        if not modelled_input(data2):
            continue
        impl = impl_front(data2, "hash", ctx)
        ctx.hist("X2b repository files", kind)
        ctx.hist("X2b repository files", "ok" if impl.startswith("ok") else impl)
        cases.append((f"front|{cfg}|hash|{nats(data2)}", impl, True))
    ctx.correspond("X2b repository files", "C07", cases)

    # --- X3: number parsers
    cases = []
    for s in num_strings(ctx, rng):
        nontriv = len(s) > 1
        cases.append((f"pyint|{nats(s)}", opt_int(lambda: int(s)), nontriv))
        cases.append((f"pyhex|{nats(s)}", opt_int(lambda: int(s, 16)), nontriv))
        if b"\xd9" not in s:
            cases.append((f"float|{nats(s)}", impl_float(s), nontriv))
    ctx.correspond("X3 int/float/hex parsers", "C07", cases)

    # --- X4: UTF-8 / cp1252 decoding with error handlers
    cases = []
    edge = [0x00, 0x41, 0x7F, 0x80, 0x81, 0x8D, 0x9F, 0xA0, 0xBF, 0xC0, 0xC1, 0xC2, 0xDF, 0xE0, 0xE1, 0xEC, 0xED, 0xEE, 0xEF, 0xF0, 0xF1,
            0xF3, 0xF4, 0xF5, 0xFF, 0x8F, 0x90]
    import itertools

    for n in (1, 2):
        for p in itertools.product(edge, repeat=n):
            cases.append((f"utf8|{nats(p)}", impl_utf8(bytes(p)), True))
    for _ in range(ctx.n(3000, 30000)):
        b = bytes(rng.choice(edge) if rng.random() < 0.8 else rng.randrange(256) for _ in range(rng.randrange(1, 8)))
        cases.append((f"utf8|{nats(b)}", impl_utf8(b), True))
    ctx.correspond("X4 utf8/cp1252 decode", "C07", cases)

    # --- X5: decode_dxf_unicode
    cases = []
    ua = ["\\U+", "\\U+", "0041", "00E4", "FFFF", "D800", "abcd", "12", "1F", "G", " ", "x", "-", "_", "+", "0x", "FFFFFFFF", "110000",
          "10FFFF", "7FFFFFFF", "80000000", "\\", "U", "\\M", "ä", " "]
    for _ in range(ctx.n(3000, 30000)):
        s = "".join(rng.choice(ua) for _ in range(rng.randrange(1, 7)))
        if "\\M+" in s:
            continue
        cases.append((f"udec|{cfg}|{nats(ord(c) for c in s)}", impl_udec(s), "\\U+" in s))
    ctx.correspond("X5 decode_dxf_unicode", "C07", cases)

    # --- X6: bytes_loader and detect_encoding on line soups
    cases = []
    la = [b"0", b"SECTION", b"EOF", b"  0", b"999", b"comment", b"9", b"$ACADVER", b"$DWGCODEPAGE", b"1", b"3", b"AC1015", b"AC1021", b"AC1032",
          b"ANSI_1252", b"ANSI_1250", b"ANSI_932", b"x", b"", b"10", b"1.5", b"-7", b"70abc", b"abc70", b"\xff", b"\x81", b" ", b"1_0", b"+5", b"0x10",
          b"AC1009", b"ac1021", b"\xe4"]
    for _ in range(ctx.n(3000, 30000)):
        n = rng.randrange(0, 12)
        eol = rng.choice([b"\n", b"\n", b"\r\n", b"\r\r\n"])
        data = b"".join(rng.choice(la) + eol for _ in range(n))
        if rng.random() < 0.3:
            data += rng.choice(la)
        cases.append((f"loader|{nats(data)}", impl_loader(data), n > 0))
        det = impl_detect(data)
        if det.startswith("ok ") and det not in ("ok cp1252", "ok utf8"):
            det = "ok other"
        cases.append((f"detect|{cfg}|{nats(data)}", det, n > 1))
    ctx.correspond("X6 bytes_loader / detect_encoding", "C07", cases)

    # --- X7: repair filters on raw tag lists
    cases = []
    pool = [10, 20, 30, 11, 21, 31, 12, 22, 32, 38, 39, 210, 220, 230, 1010, 1020, 1030, 110, 120, 130, 1, 8, 5, 105, 0, 0, 0, -1, 9, 40, 1011, 18, 28]
    for _ in range(ctx.n(6000, 60000)):
        tags = []
        for _ in range(rng.randrange(0, 14)):
            c = rng.choice(pool)
            if c == 0:
                v = rng.choice([b"LINE", b"LINE", b"CIRCLE", b"DIMSTYLE", b"LI\xffNE", b" LINE", b"line", b"EOF"])
            elif c in (5, 105):
                v = rng.choice([b"1F", b"xyz", b"", b"0x1f", b"1_f", b" A ", b"-1", b"G", b"1__0"])
            else:
                v = rng.choice([b"1", b"2", b"3"])
            tags.append((c, v))
        flush = rng.random() < 0.8
        cases.append((f"repair|{int(flush)}|" + ";".join(f"{c}:{nats(v)}" for c, v in tags), impl_repair(tags, flush), len(tags) > 2))
    ctx.correspond("X7 repair filters", "C07", cases)

    # --- X8: byte_tag_compiler
    cases = []
    vals = [b"1", b"1.5", b"x", b"", b" 7 ", b"7.0", b"1:.5", b"\x81", b"\xc3\xa4", b"\xc3\x28", b"0AFF", b"0af", b"\\U+0041", b"\\U+ \\U+0041",
            b"\\U+110000 \\U+0041", b"\\U+80000000\\U+0041", b" section ", b"eof", b"inf", b"1e5x", b"abc12", b"t\xe4xt", b"\\U+-1\\U+0041"]
    cpool = [0, 1, 2, 5, 9, 10, 20, 30, 11, 21, 31, 38, 40, 70, 90, 100, 102, 210, 220, 230, 290, 310, 330, 1000, 1004, 1010, 1020, 1030, 1070, 1071, 1072, -5, 5000]
    for _ in range(ctx.n(6000, 60000)):
        tags = []
        for _ in range(rng.randrange(0, 8)):
            c = rng.choice(cpool)
            if c in (10, 11, 210, 1010) and rng.random() < 0.7:
                k = rng.choice([2, 3, 3])
                tags += [(c + 10 * j, rng.choice(vals[:8])) for j in range(k)]
            else:
                tags.append((c, rng.choice(vals)))
        enc = rng.choice(["cp1252", "utf8"])
        cases.append((f"compile|{cfg}|{enc}|" + ";".join(f"{c}:{nats(v)}" for c, v in tags), impl_compile(enc, tags), len(tags) > 1))
    ctx.correspond("X8 byte_tag_compiler", "C07", cases)

    # --- X9: entity_structure_validator
    cases = []
    from ezdxf.lldxf.types import DXFVertex

    for _ in range(ctx.n(6000, 60000)):
        ts = [(0, rng.choice(["LINE", "XRECORD", "MTEXT"]))]
        for _ in range(rng.randrange(0, 9)):
            c = rng.choice([5, 8, 100, 101, 102, 102, 102, 1001, 1002, 1002, 1000, 1070, 70, 10, 1010, 330])
            if c == 102:
                v = rng.choice(["{A", "{A", "}", "}", "A}", "{", "x", ""])
            elif c == 1002:
                v = rng.choice(["{", "{", "}", "}", "x"])
            elif c == 101:
                v = rng.choice(["Embedded Object", "Embedded Object", "embedded object"])
            elif c in (70, 1070):
                v = 1
            elif c in (10, 1010):
                v = (1.0, 2.0, 3.0)
            else:
                v = rng.choice(["a", "1F", "APP"])
            ts.append((c, v))

        def enc_t(c, v):
            return f"{c}:n" if isinstance(v, int) else f"{c}:v" if isinstance(v, tuple) else f"{c}:s{_dots(v)}"

        impl = impl_validate([(c, v) for c, v in ts])
        cases.append(("validate|" + " ".join(enc_t(c, v) for c, v in ts), impl, len(ts) > 2))
    ctx.correspond("X9 entity_structure_validator", "C07", cases)

    correspond_load(ctx, ctx.rng("c07-load"))

"""C05  API-visible document state follows a simple reference model (DESIGN.md section 7, C05)."""
from __future__ import annotations

import itertools

from gen.dochist import Runner, gen_history, hx

ID = "C05"
LEAN_MODULES = ["EzdxfVerif.Props.C05"]
DRIVER_DEPS = ["EzdxfVerif.Model.Doc", "Drivers.Proto"]
RULE = (
    "correspondence: operation histories (add/ins/unlink/add_entity/move/delete/destroy/copy_to_layout/purge/"
    "new+delete+rename block/new+delete+rename+activate layout/add+remove layer/save+reload) run on a real Drawing "
    "through the public API and on the Lean Doc machine; after EVERY step outcome (ok / exception class) and the "
    "observables (per block record: len and live content in order; per entity ever created: alive, owner, db "
    "membership, get_layout(); block names; layouts in tab order; active layout; layers) are compared. Histories: "
    "exhaustive short ones over a small universe + seeded random ones; non-trivial = history contains a mutation after "
    "the first create; distinct by hash of the request lines. oracle: on the same runs the property's own predicates "
    "(one owner, handles unique and never reused, lookup by handle, rejected => unchanged, name lookups)."
)
TRUSTED_BASE = [
    "the model checks (does not predict) the fresh handles chosen by the implementation",
    "entities are modelled as LINE/INSERT without sub-entities; linked entities (POLYLINE/ATTRIB), explode, groups, audit as a history step are outside the model",
]
ASSUMPTIONS = ["ASCII block/layout/layer names", "layout.add_entity() is only applied to unlinked entities (documented caller obligation); the misuse stream only checks rejected => unchanged"]
OPEN = ["explode and audit as history steps (tier 2)"]


def histories(ctx):
    """yield (label, list-of-ops-or-chooser, length)"""
    rng = ctx.rng("hist")
    for i in range(ctx.n(250, 3000)):
        yield f"rnd{i}", rng.randrange(1 << 30), rng.choice([6, 12, 12, 20, 30] if ctx.quick else [12, 20, 40, 40])


def run_history(seed, length, misuse=False, version="R2010"):
    import random

    rng = random.Random(seed)
    r = Runner(version)
    choose = gen_history(rng, length, misuse=misuse)
    lines = [(r.init_line(), "ok;" + r.observe())]
    checks = []
    issued = set()
    for i in range(length):
        op = choose(r)
        before = r.observe()
        req, out = r.apply(op)
        after = r.observe()
        lines.append((req, out + ";" + after))
        checks.append((op, out, before, after))
    return r, lines, checks


def correspond(ctx):
    cases = []
    nh = 0
    for label, seed, length in histories(ctx):
        r, lines, checks = run_history(seed, length)
        nh += 1
        mutating = any(c[0][0] not in ("add", "ins") for c in checks)
        for req, resp in lines:
            cases.append((req, resp, mutating))
        for c in checks:
            ctx.hist("X1 doc machine", f"{c[0][0]}:{c[1].split(':')[-1] if c[1] != 'ok' else 'ok'}")
    # exhaustive short histories over a small universe (fixed op templates)
    depth = ctx.n(2, 3)
    templates = ["add0", "add1", "unlink", "addex1", "move", "del", "destroy", "copy", "purge", "newblock", "delblock", "reload"]
    for combo in itertools.product(templates, repeat=depth):
        r = Runner("R2010")
        lines = [(r.init_line(), "ok;" + r.observe())]
        ks = sorted(r.containers().keys())
        for t in ["add0"] + list(combo):
            hs = r.order
            last = hs[-1] if hs else None
            if t == "add0":
                op = ("add", ks[0])
            elif t == "add1":
                op = ("add", ks[1])
            elif t == "purge":
                op = ("purge",)
            elif t == "reload":
                op = ("reload",)
            elif t == "newblock":
                op = ("newblock", "B1")
            elif t == "delblock":
                op = ("delblock", "B1", True)
            elif last is None:
                continue
            elif t == "unlink":
                op = ("unlink", ks[0], last)
            elif t == "addex1":
                e = r.ents[last]
                if not e.is_alive or e.dxf.owner is not None:
                    continue  # caller obligation
                op = ("addex", ks[1], last)
            elif t == "move":
                op = ("move", ks[0], last, ks[1])
            elif t == "del":
                op = ("del", ks[0], last)
            elif t == "destroy":
                op = ("destroy", last)
            elif t == "copy":
                if not r.ents[last].is_alive:
                    continue
                op = ("copy", last, ks[1])
            req, out = r.apply(op)
            lines.append((req, out + ";" + r.observe()))
        for req, resp in lines:
            cases.append((req, resp, True))
    ctx.note(f"{nh} random histories, {len(templates) ** depth} exhaustive histories of depth {depth}+1")
    ctx.correspond("X1 doc machine", "C05", cases, build=DRIVER_DEPS)


# ------------------------------------------------------------------ oracle on the real code
DOCUMENTED = {"err:DXFValueError", "err:DXFKeyError", "err:DXFTableEntryError", "err:DXFBlockInUseError",
              "err:DXFStructureError", "err:ValueError", "err:KeyError"}


def oracle(ctx):
    rng = ctx.rng("oracle")
    for i in range(ctx.n(150, 2000)):
        seed = rng.randrange(1 << 30)
        length = rng.choice([10, 20, 30])
        misuse = i % 5 == 4
        version = rng.choice(["R2000", "R2004", "R2007", "R2010", "R2013", "R2018"])
        check_history(ctx, seed, length, misuse, version)


def check_history(ctx, seed, length, misuse, version):
    import random

    rng = random.Random(seed)
    r = Runner(version)
    choose = gen_history(rng, length, misuse=misuse)
    ever = {}
    rep = {"op": "history", "seed": seed, "length": length, "misuse": misuse, "version": version}
    for i in range(length):
        op = choose(r)
        before = r.observe()
        nb = len(r.order)
        req, out = r.apply(op)
        after = r.observe()
        ctx.count("O1 history step", (seed, i), op[0] not in ("add",))
        if out != "ok":
            if out.startswith("err:other"):
                if not misuse:
                    ctx.fail(f"undocumented-error/{op[0]}/{out}", f"step {i} {req}: {out}", rep)
                continue
            if before != after:
                ctx.fail(f"rejected-changed/{op[0]}/{out}", f"step {i} {req} raised {out} but the document changed", rep)
            continue
        # new handles are unique and never reused
        for h in r.order[nb:]:
            if h in ever:
                ctx.fail(f"handle-reused/{op[0]}", f"step {i} {req}: handle {h:X} was issued before", rep)
            ever[h] = True
        if misuse:
            continue
        doc = r.doc
        seen = {}
        for br in doc.block_records:
            lay = br.block_layout
            items = list(lay)
            if [e.dxf.handle for e in lay.query("*")] != [e.dxf.handle for e in items]:
                ctx.fail(f"query-differs/{op[0]}", f"step {i} {req}: layout.query('*') differs from iteration", rep)
            for e in items:
                h = e.dxf.handle
                if h in seen:
                    ctx.fail(f"two-owners/{op[0]}", f"step {i} {req}: entity #{h} is in {seen[h]} and {br.dxf.name}", rep)
                seen[h] = br.dxf.name
                if e.dxf.owner != br.dxf.handle:
                    ctx.fail(f"owner-mismatch/{op[0]}", f"step {i} {req}: #{h} in {br.dxf.name} has owner {e.dxf.owner}", rep)
                if doc.entitydb.get(h) is not e:
                    ctx.fail(f"lookup/{op[0]}", f"step {i} {req}: entitydb.get({h}) is not the entity in {br.dxf.name}", rep)
                gl = e.get_layout()
                if gl is None or gl.block_record_handle != br.dxf.handle:
                    ctx.fail(f"get_layout/{op[0]}", f"step {i} {req}: #{h}.get_layout() is not {br.dxf.name}", rep)
        for h, e in r.ents.items():
            if e.is_alive and e.dxf.owner is None and ("%X" % h) in seen:
                ctx.fail(f"unlinked-but-listed/{op[0]}", f"step {i} {req}: unlinked #{h:X} is listed in {seen['%X' % h]}", rep)
            if e.is_alive and e.dxf.owner is not None and ("%X" % h) not in seen:
                ctx.fail(f"linked-but-missing/{op[0]}", f"step {i} {req}: #{h:X} has owner {e.dxf.owner} but is in no layout", rep)
        # query results: the paperspace flag must tell paperspace content from modelspace/block content
        for br in doc.block_records:
            lay = br.block_layout
            want = 1 if lay.is_any_paperspace else 0
            bad = [e.dxf.handle for e in lay if e.dxf.get("paperspace", 0) != want]
            if bad:
                ctx.fail(f"paperspace-flag/{op[0]}", f"step {i} {req}: entities {bad[:3]} in {br.dxf.name} have paperspace != {want}", rep)
            q = [e.dxf.handle for e in lay.query("*[paperspace==%d]" % want)]
            if q != [e.dxf.handle for e in lay]:
                ctx.fail(f"paperspace-query/{op[0]}", f"step {i} {req}: layout.query('*[paperspace=={want}]') misses content of {br.dxf.name}", rep)
        # a safely deleted block has no live reference left
        if op[0] == "delblock" and op[2]:
            gone = op[1].lower()
            refs = [e.dxf.handle for br in doc.block_records for e in br.block_layout
                    if e.dxftype() == "INSERT" and e.dxf.name.lower() == gone]
            if refs and gone not in {b.name.lower() for b in doc.blocks}:
                ctx.fail(f"deleted-referenced-block/{op[0]}", f"step {i} {req}: block deleted (safe=True) although INSERT {refs[:3]} references it", rep)
        names = {b.name.lower() for b in doc.blocks}
        for n in ["B1", "b1", "B2", "Blk3", "nope"]:
            if (n in doc.blocks) != (n.lower() in names):
                ctx.fail(f"name-lookup/{op[0]}", f"step {i} {req}: '{n}' in doc.blocks inconsistent with block names", rep)
        for l in doc.layouts:
            if l.name not in doc.layouts or doc.layouts.get(l.name) is not l:
                ctx.fail(f"layout-lookup/{op[0]}", f"step {i} {req}: layout {l.name} lookup inconsistent", rep)


def replay(ctx, rep):
    n0 = len(ctx.failures)
    for f in rep.get("failing_inputs", []):
        r = f["replay"]
        if r.get("op") == "history":
            check_history(ctx, r["seed"], r["length"], r["misuse"], r["version"])
    bad = ctx.failures[n0:]
    return (not bad, "; ".join(x.key for x in bad) or "recorded histories pass now")

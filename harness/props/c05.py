"""C05  API-visible document state follows a simple reference model (DESIGN.md section 7, C05)."""
from __future__ import annotations

import itertools

from gen.dochist import Runner, gen_history, hx

ID = "C05"
LEAN_MODULES = ["EzdxfVerif.Props.C05"]
DRIVER_DEPS = ["EzdxfVerif.Model.Doc", "Drivers.Proto"]
RULE = (
    "correspondence: operation histories (add/ins/unlink/add_entity/move/delete/destroy/copy_to_layout/purge/"
    "new+delete+rename block/new+delete+rename+activate layout/add+remove layer/save+reload; session 3: linked parents "
    "POLYLINE+VERTEX+SEQEND and INSERT+ATTRIB+SEQEND with their sub-entity handles, copy_to_layout of linked parents, "
    "insert.explode(), doc.audit() as a step, add/remove/duplicate entries of the LTYPE/STYLE/DIMSTYLE/APPID/UCS/VIEW tables, "
    "new/set_data/delete group) run on a real Drawing "
    "through the public API and on the Lean Doc machine; after EVERY step outcome (ok / exception class) and the "
    "observables (per block record: len and live content in order; per entity ever created: alive, owner, db "
    "membership, get_layout(), per sub-entity handle/owner/db membership/paperspace flag; block names; layouts in tab "
    "order; active layout; layers; table entries; groups with their live members) are compared. Histories: "
    "exhaustive short ones over a small universe + seeded random ones; non-trivial = history contains a mutation after "
    "the first create; distinct by hash of the request lines. oracle: on the same runs the property's own predicates "
    "(one owner, handles unique and never reused, lookup by handle, rejected => unchanged, name lookups)."
)
TRUSTED_BASE = [
    "the model checks (does not predict) the fresh handles chosen by the implementation (entity, sub-entities, block record, GROUP object); the TEXT replacing an exploded ATTRIB takes over the handle of the ATTRIB (documented in explode.attrib_to_text) and the model checks that this handle is no handle of another top-level entity",
    "sub-entities (VERTEX / ATTRIB / SEQEND) are modelled as handles attached to their parent: owner = parent handle, liveness / database membership / paperspace flag follow the parent (LinkedEntities.set_owner/destroy) - compared per sub-entity after every step; the never-written SEQEND of an INSERT without ATTRIBs is not tracked",
    "entity kinds: LINE, INSERT, POLYLINE(2d)+VERTEX+SEQEND, INSERT+ATTRIB+SEQEND, TEXT (from explode); tables LTYPE/STYLE/DIMSTYLE/APPID/UCS/VIEW as key sets; groups as (name, handle, members)",
]
ASSUMPTIONS = ["ASCII block/layout/layer/table/group names", "layout.add_entity() is only applied to unlinked entities (documented caller obligation); the misuse stream only checks rejected => unchanged",
               "explode() is not applied to an INSERT that lies inside the block it references (cyclic block definition, invalid DXF: explode_block_reference iterates the block while appending to it and never returns)"]
OPEN = ["the single refinement theorem abs (step s op) = specStep (abs s) op over all 29 operations is not assembled: the per-operation spec_* theorems plus content_exact / lookup_sound / iteration_filters_dead are the available form",
        "name lookups of blocks, layouts and layers are corresponded per step, not proved as a refinement (table entries and groups: proved, spec_add_entry / spec_remove_entry / spec_duplicate_entry / table_keys_unique / spec_new_group / spec_delete_group)",
        "insert.explode(target_layout) with an explicit target other than the own layout: oracle O2 only (the model explodes into the layout of the INSERT)",
        "VPORT table (duplicate names allowed), dictionary entries other than groups, attribs added/removed after creation are outside the model",
        "query language beyond '*' and attribute filters (oracle only)"]


def histories(ctx):
    """yield (label, list-of-ops-or-chooser, length)"""
    rng = ctx.rng("hist")
    for i in range(ctx.n(250, 3000)):
        yield f"rnd{i}", rng.randrange(1 << 30), rng.choice([6, 12, 12, 20, 30] if ctx.quick else [12, 20, 40, 40])


def run_history(seed, length, misuse=False, version="R2010"):
    import random

    rng = random.Random(seed)
    r = Runner(version)
    choose = gen_history(rng, length, misuse=misuse)
    lines = [(r.init_line(), "ok;" + r.observe())]
    checks = []
    issued = set()
    for i in range(length):
        op = choose(r)
        before = r.observe()
        req, out = r.apply(op)
        after = r.observe()
        lines.append((req, out + ";" + after))
        checks.append((op, out, before, after))
    return r, lines, checks


def correspond(ctx):
    cases = []
    nh = 0
    for label, seed, length in histories(ctx):
        r, lines, checks = run_history(seed, length)
        nh += 1
        mutating = any(c[0][0] not in ("add", "ins") for c in checks)
        for req, resp in lines:
            cases.append((req, resp, mutating))
        for c in checks:
            ctx.hist("X1 doc machine", f"{c[0][0]}:{c[1].split(':')[-1] if c[1] != 'ok' else 'ok'}")
    # exhaustive short histories over a small universe (fixed op templates)
    depth = ctx.n(2, 3)
    templates = ["add0", "add1", "unlink", "addex1", "move", "del", "destroy", "copy", "purge", "newblock", "delblock", "reload",
                 "poly", "insattr", "explode", "audit", "group", "delgroup", "entry"]
    for combo in itertools.product(templates, repeat=depth):
        r = Runner("R2010")
        lines = [(r.init_line(), "ok;" + r.observe())]
        ks = sorted(r.containers().keys())
        for t in ["add0"] + list(combo):
            hs = r.order
            last = hs[-1] if hs else None
            if t == "add0":
                op = ("add", ks[0])
            elif t == "add1":
                op = ("add", ks[1])
            elif t == "purge":
                op = ("purge",)
            elif t == "reload":
                op = ("reload",)
            elif t == "newblock":
                op = ("newblock", "B1")
            elif t == "delblock":
                op = ("delblock", "B1", True)
            elif t == "poly":
                op = ("addl", ks[0], None, 2)
            elif t == "insattr":
                op = ("addl", ks[0], "B1", 1)
            elif t == "audit":
                op = ("auditstep",)
            elif t == "delgroup":
                op = ("delgroup", "g1")
            elif t == "entry":
                op = ("addentry", 2, "E1")
            elif t == "explode":
                ins = [h for h in hs if r.ents[h].is_alive and r.ents[h].dxftype() == "INSERT"]
                if not ins:
                    continue
                op = ("explode", ins[-1])
            elif t == "group":
                if "G1" not in r.doc.groups:
                    req, out = r.apply(("newgroup", "G1"))
                    lines.append((req, out + ";" + r.observe()))
                if last is None:
                    continue
                op = ("setgroup", "G1", [last])
            elif last is None:
                continue
            elif t == "unlink":
                op = ("unlink", ks[0], last)
            elif t == "addex1":
                e = r.ents[last]
                if not e.is_alive or e.dxf.owner is not None:
                    continue  # caller obligation
                op = ("addex", ks[1], last)
            elif t == "move":
                op = ("move", ks[0], last, ks[1])
            elif t == "del":
                op = ("del", ks[0], last)
            elif t == "destroy":
                op = ("destroy", last)
            elif t == "copy":
                if not r.ents[last].is_alive:
                    continue
                op = ("copy", last, ks[1])
            req, out = r.apply(op)
            lines.append((req, out + ";" + r.observe()))
        for req, resp in lines:
            cases.append((req, resp, True))
    # directed histories: nested block references x guarded deletes, group members x moves, explode of nested INSERTs
    for hist in directed_histories():
        r = Runner("R2010")
        lines = [(r.init_line(), "ok;" + r.observe())]
        for op in hist:
            op = resolve(r, op)
            if op is None:
                continue
            req, out = r.apply(op)
            lines.append((req, out + ";" + r.observe()))
            ctx.hist("X1 doc machine", f"directed:{op[0]}")
        for req, resp in lines:
            cases.append((req, resp, True))
    ctx.note(f"{nh} random histories, {len(templates) ** depth} exhaustive histories of depth {depth}+1")
    ctx.correspond("X1 doc machine", "C05", cases, build=DRIVER_DEPS)


def resolve(r, op):
    """directed histories name containers symbolically: 'msp', 'psp', ('blk', name); entities by creation index"""
    def cont(c):
        if c == "msp":
            return hx(r.doc.modelspace().block_record_handle)
        if c == "psp":
            return hx(r.doc.layout("Layout1").block_record_handle)
        b = r.doc.blocks.get(c[1])
        return None if b is None else hx(b.block_record_handle)

    def ent(i):
        return r.order[i] if -len(r.order) <= i < len(r.order) else None

    kind = op[0]
    if kind in ("add",):
        k = cont(op[1])
        return None if k is None else ("add", k)
    if kind == "ins":
        k = cont(op[1])
        return None if k is None else ("addl", k, op[2], op[3] if len(op) > 3 else 0)
    if kind == "poly":
        k = cont(op[1])
        return None if k is None else ("addl", k, None, 2)
    if kind in ("explode", "destroy"):
        e = ent(op[1])
        return None if e is None else (kind, e)
    if kind == "move":
        e, k1, k2 = ent(op[1]), cont(op[2]), cont(op[3])
        return None if None in (e, k1, k2) else ("move", k1, e, k2)
    if kind in ("unlink", "del", "addex"):
        e, k = ent(op[1]), cont(op[2])
        return None if None in (e, k) else (kind, k, e)
    if kind == "copy":
        e, k = ent(op[1]), cont(op[2])
        return None if None in (e, k) else ("copy", e, k)
    if kind == "setgroup":
        ms = [ent(i) for i in op[2]]
        return None if None in ms else ("setgroup", op[1], ms)
    return op


def directed_histories():
    out = []
    # a block referenced only from inside another block (at any depth) is in use
    for where in ("msp", "psp", ("blk", "OUTER")):
        for name in ("INNER", "inner", "Inner"):
            out.append([("newblock", "INNER"), ("newblock", "OUTER"), ("add", ("blk", "INNER")), ("ins", where, name),
                        ("delblock", "INNER", True), ("delblock", "OUTER", True), ("delblock", "INNER", True), ("reload",),
                        ("delblock", "inner", True)])
    out.append([("newblock", "A"), ("newblock", "B"), ("newblock", "C"), ("add", ("blk", "C")), ("ins", ("blk", "B"), "C"),
                ("ins", ("blk", "A"), "B"), ("ins", "msp", "A", 1), ("delblock", "C", True), ("delblock", "B", True),
                ("explode", -1), ("delblock", "A", True), ("explode", -1), ("delblock", "B", True), ("auditstep",), ("reload",)])
    # the active layout deleted / renamed through every spelling of its name, with two and three paperspace layouts
    for n in ("L1", "l1", "L1".swapcase()):
        for extra in ([], [("newlayout", "Second")]):
            out.append([("newlayout", "L1")] + extra + [("activate", "L1"), ("dellayout", n), ("add", "psp"), ("reload",)])
            out.append([("newlayout", "L1")] + extra + [("activate", n), ("renlayout", n, "L9"), ("dellayout", "l9"), ("reload",)])
            out.append([("newlayout", "L1")] + extra + [("dellayout", "layout1"), ("dellayout", n), ("reload",)])
    # runs of adjacent destroyed entities, then purge: len(layout) and the stored order are observables
    for dead in ([0, 1], [1, 2], [0, 1, 2], [1, 2, 3], [0, 1, 2, 3], [0, 2], [0, 1, 3]):
        out.append([("add", "msp")] * 4 + [("add", "psp")] + [("destroy", i) for i in dead] + [("purge",), ("add", "msp"), ("reload",)])
    # requests addressed to a layout that does NOT own the entity: rejected, nothing changes (every entity kind x every
    # owner x every wrong address x unlink / move / delete), then the same request to the right layout
    conts = ["msp", "psp", ("blk", "HOLD")]
    for kind in (("add",), ("poly",), ("ins",)):
        for own in conts:
            make = {"add": ("add", own), "poly": ("poly", own), "ins": ("ins", own, "HOLD2", 1)}[kind[0]]
            for wrong in conts:
                if wrong == own:
                    continue
                other = next(c for c in conts if c not in (own, wrong))
                out.append([("newblock", "HOLD"), ("newblock", "HOLD2"), ("add", wrong), make,
                            ("unlink", -1, wrong), ("move", -1, wrong, other), ("move", -1, wrong, own), ("del", -1, wrong),
                            ("move", -1, own, wrong), ("del", -1, own), ("del", -1, wrong), ("unlink", -1, wrong), ("reload",)])
    # the generator across save + reload: the entities / objects with the HIGHEST handles are deleted before the file is
    # written; $HANDSEED of the file must still be above them (the model takes the generator after loading from the file)
    killers = [
        [("add", "msp"), ("add", "msp"), ("del", -1, "msp"), ("del", -2, "msp")],
        [("poly", "psp"), ("destroy", -1), ("purge",)],
        [("newblock", "TMP"), ("add", ("blk", "TMP")), ("delblock", "TMP", True)],
        [("newblock", "TMP"), ("ins", "msp", "TMP", 2), ("explode", -1), ("del", -1, "msp"), ("del", -2, "msp")],
        [("addlayer", "TMPL"), ("dellayer", "TMPL")],
        [("addentry", 2, "TMPS"), ("delentry", 2, "tmps")],
        [("add", "msp"), ("newgroup", "TG"), ("setgroup", "TG", [-1]), ("delgroup", "tg"), ("destroy", -1)],
        [("newlayout", "TMPLAY"), ("add", "msp"), ("dellayout", "tmplay"), ("del", -1, "msp")],
    ]
    for k in killers:
        out.append([("add", "msp"), ("reload",)] + k + [("reload",), ("add", "msp"), ("poly", "psp"), ("newblock", "AFTER"), ("reload",), ("add", "msp")])
        out.append([("add", "msp"), ("reload",)] + k + [("auditstep",), ("purge",), ("reload",), ("add", "msp")])
    # group members moved / unlinked / destroyed, then save + reload and audit
    for act in (("move", 0, "msp", "psp"), ("unlink", 0, "msp"), ("destroy", 0), ("move", 0, "msp", ("blk", "B"))):
        for end in (("reload",), ("auditstep",)):
            out.append([("newblock", "B"), ("add", "msp"), ("add", "msp"), ("poly", "msp"), ("newgroup", "G"),
                        ("setgroup", "g", [0, 1, 2]), act, end, ("auditstep",), ("reload",)])
    return out


# ------------------------------------------------------------------ oracle on the real code
DOCUMENTED = {"err:DXFValueError", "err:DXFKeyError", "err:DXFTableEntryError", "err:DXFBlockInUseError",
              "err:DXFStructureError", "err:ValueError", "err:KeyError"}


def oracle(ctx):
    rng = ctx.rng("oracle")
    for i in range(ctx.n(150, 2000)):
        seed = rng.randrange(1 << 30)
        length = rng.choice([10, 20, 30])
        misuse = i % 5 == 4
        version = rng.choice(["R2000", "R2004", "R2007", "R2010", "R2013", "R2018"])
        check_history(ctx, seed, length, misuse, version)
    explode_target_sweep(ctx)


def check_history(ctx, seed, length, misuse, version):
    import random

    rng = random.Random(seed)
    r = Runner(version)
    choose = gen_history(rng, length, misuse=misuse)
    ever = {}
    rep = {"op": "history", "seed": seed, "length": length, "misuse": misuse, "version": version}
    for i in range(length):
        op = choose(r)
        before = r.observe()
        nb = len(r.order)
        req, out = r.apply(op)
        after = r.observe()
        ctx.count("O1 history step", (seed, i), op[0] not in ("add",))
        if out != "ok":
            if out.startswith("err:other"):
                if not misuse:
                    ctx.fail(f"undocumented-error/{op[0]}/{out}", f"step {i} {req}: {out}", rep)
                continue
            if before != after:
                ctx.fail(f"rejected-changed/{op[0]}/{out}", f"step {i} {req} raised {out} but the document changed", rep)
            continue
        # new handles are unique and never reused
        for h in r.order[nb:]:
            if h in ever:
                ctx.fail(f"handle-reused/{op[0]}", f"step {i} {req}: handle {h:X} was issued before", rep)
            ever[h] = True
        if misuse:
            continue
        doc = r.doc
        seen = {}
        for br in doc.block_records:
            lay = br.block_layout
            items = list(lay)
            if [e.dxf.handle for e in lay.query("*")] != [e.dxf.handle for e in items]:
                ctx.fail(f"query-differs/{op[0]}", f"step {i} {req}: layout.query('*') differs from iteration", rep)
            for e in items:
                h = e.dxf.handle
                if h in seen:
                    ctx.fail(f"two-owners/{op[0]}", f"step {i} {req}: entity #{h} is in {seen[h]} and {br.dxf.name}", rep)
                seen[h] = br.dxf.name
                if e.dxf.owner != br.dxf.handle:
                    ctx.fail(f"owner-mismatch/{op[0]}", f"step {i} {req}: #{h} in {br.dxf.name} has owner {e.dxf.owner}", rep)
                if doc.entitydb.get(h) is not e:
                    ctx.fail(f"lookup/{op[0]}", f"step {i} {req}: entitydb.get({h}) is not the entity in {br.dxf.name}", rep)
                gl = e.get_layout()
                if gl is None or gl.block_record_handle != br.dxf.handle:
                    ctx.fail(f"get_layout/{op[0]}", f"step {i} {req}: #{h}.get_layout() is not {br.dxf.name}", rep)
        for h, e in r.ents.items():
            if e.is_alive and e.dxf.owner is None and ("%X" % h) in seen:
                ctx.fail(f"unlinked-but-listed/{op[0]}", f"step {i} {req}: unlinked #{h:X} is listed in {seen['%X' % h]}", rep)
            if e.is_alive and e.dxf.owner is not None and ("%X" % h) not in seen:
                ctx.fail(f"linked-but-missing/{op[0]}", f"step {i} {req}: #{h:X} has owner {e.dxf.owner} but is in no layout", rep)
        # query results: the paperspace flag must tell paperspace content from modelspace/block content
        for br in doc.block_records:
            lay = br.block_layout
            want = 1 if lay.is_any_paperspace else 0
            bad = [e.dxf.handle for e in lay if e.dxf.get("paperspace", 0) != want]
            if bad:
                ctx.fail(f"paperspace-flag/{op[0]}", f"step {i} {req}: entities {bad[:3]} in {br.dxf.name} have paperspace != {want}", rep)
            q = [e.dxf.handle for e in lay.query("*[paperspace==%d]" % want)]
            if q != [e.dxf.handle for e in lay]:
                ctx.fail(f"paperspace-query/{op[0]}", f"step {i} {req}: layout.query('*[paperspace=={want}]') misses content of {br.dxf.name}", rep)
        # a safely deleted block has no live reference left
        if op[0] == "delblock" and op[2]:
            gone = op[1].lower()
            refs = [e.dxf.handle for br in doc.block_records for e in br.block_layout
                    if e.dxftype() == "INSERT" and e.dxf.name.lower() == gone]
            if refs and gone not in {b.name.lower() for b in doc.blocks}:
                ctx.fail(f"deleted-referenced-block/{op[0]}", f"step {i} {req}: block deleted (safe=True) although INSERT {refs[:3]} references it", rep)
        names = {b.name.lower() for b in doc.blocks}
        for n in ["B1", "b1", "B2", "Blk3", "nope"]:
            if (n in doc.blocks) != (n.lower() in names):
                ctx.fail(f"name-lookup/{op[0]}", f"step {i} {req}: '{n}' in doc.blocks inconsistent with block names", rep)
        for l in doc.layouts:
            if l.name not in doc.layouts or doc.layouts.get(l.name) is not l:
                ctx.fail(f"layout-lookup/{op[0]}", f"step {i} {req}: layout {l.name} lookup inconsistent", rep)


def explode_target_sweep(ctx):
    """O2: insert.explode(target_layout) for every kind of target - none (own layout), the own layout given explicitly,
    another layout with content, an EMPTY layout, an empty block - the new entities must be content of the target (in
    block order, then the TEXTs of the ATTRIBs), the INSERT must be destroyed, nothing else changes"""
    import ezdxf

    for version in ["R2000", "R2010", "R2018"]:
        for src in ("msp", "psp", "blk"):
            for tgt in ("none", "own", "other", "empty-layout", "empty-block"):
                for nattr in (0, 2):
                    doc = ezdxf.new(version)
                    b = doc.blocks.new("B")
                    b.add_line((0, 0), (1, 1))
                    b.add_polyline2d([(0, 0), (1, 0)])
                    holder = doc.blocks.new("HOLDER")
                    lay = {"msp": doc.modelspace(), "psp": doc.layout("Layout1"), "blk": holder}[src]
                    lay.add_circle((0, 0), 1)
                    ins = lay.add_blockref("b", (1, 1))
                    for i in range(nattr):
                        ins.add_attrib("T%d" % i, "v", (0, i))
                    other = doc.modelspace() if src != "msp" else doc.layout("Layout1")
                    other.add_circle((5, 5), 1)
                    target = {"none": None, "own": lay, "other": other, "empty-layout": doc.layouts.new("EMPTY"),
                              "empty-block": doc.blocks.new("EMPTYBLK")}[tgt]
                    expect = lay if target is None else target
                    rep = {"op": "explode-target", "version": version, "src": src, "target": tgt, "nattr": nattr}
                    ctx.count("O2 explode targets", (version, src, tgt, nattr), True)
                    before = {br.dxf.name: [e.dxf.handle for e in br.block_layout] for br in doc.block_records}
                    try:
                        new = list(ins.explode(target) if target is not None else ins.explode())
                    except Exception as e:  # noqa
                        ctx.fail(f"explode-raised/{tgt}/{type(e).__name__}", f"{version} explode(target={tgt}) of an INSERT in {src}: {type(e).__name__}: {e}", rep)
                        continue
                    hs = [e.dxf.handle for e in new]
                    if len(new) != 2 + nattr or [e.dxftype() for e in new] != ["LINE", "POLYLINE"] + ["TEXT"] * nattr:
                        ctx.fail(f"explode-result/{tgt}", f"{version} explode(target={tgt}): returned {[e.dxftype() for e in new]}", rep)
                    if ins.is_alive:
                        ctx.fail(f"explode-insert-alive/{tgt}", f"{version} explode(target={tgt}): the INSERT is still alive", rep)
                    for br in doc.block_records:
                        now = [e.dxf.handle for e in br.block_layout]
                        old = [h for h in before.get(br.dxf.name, []) if h != ins.dxf.handle] if False else before.get(br.dxf.name, [])
                        want = [h for h in old if doc.entitydb.get(h) is not None and doc.entitydb.get(h).is_alive]
                        if br.dxf.handle == expect.block_record_handle:
                            want = want + hs
                        if now != want:
                            ctx.fail(f"explode-target/{tgt}/{src}", f"{version} explode(target={tgt}) of an INSERT in {src}: content of {br.dxf.name} is {now}, expected {want}", rep)
                    for e in new:
                        if e.dxf.owner != expect.block_record_handle:
                            ctx.fail(f"explode-owner/{tgt}/{src}", f"{version} explode(target={tgt}): new {e.dxftype()} #{e.dxf.handle} has owner {e.dxf.owner}, target is {expect.block_record_handle}", rep)


def replay(ctx, rep):
    n0 = len(ctx.failures)
    for f in rep.get("failing_inputs", []):
        r = f["replay"]
        if r.get("op") == "history":
            check_history(ctx, r["seed"], r["length"], r["misuse"], r["version"])
        elif r.get("op") == "explode-target":
            explode_target_sweep(ctx)
    bad = ctx.failures[n0:]
    return (not bad, "; ".join(x.key for x in bad) or "recorded histories pass now")

"""C14  Flattening and path conversion respect the requested tolerance (DESIGN.md section 7, C14)."""
from __future__ import annotations

import ast
import inspect
import math
import re
import textwrap
from fractions import Fraction as Fr

ID = "C14"
LEAN_MODULES = ["EzdxfVerif.Props.C14", "EzdxfVerif.Props.C14Path"]
DRIVER_DEPS = ["EzdxfVerif.Model.Flatten", "EzdxfVerif.Model.FlattenPath", "EzdxfVerif.Gen.FlattenKernels", "Drivers.Proto"]

RULE = (
    "correspondence (Lean model over exact Rat vs the real code; dyadic control points / knots / parameters and power-of-two "
    "`segments` so that the float parameter arithmetic is exact; the emitted vertex list WITH the parameter at which the real code "
    "evaluated each vertex is compared as exact rationals): X1 Bezier4P/Bezier3P.flattening of BOTH twins (ezdxf.math._bezier4p/_bezier3p "
    "stack machine, ezdxf.acc.* recursion) against the model evaluating the curve itself; X2 Bezier.flattening, X3 BSpline.flattening, "
    "X4 ConstructionEllipse.flattening against the model run on the table of evaluations recorded by wrapping the curve's point "
    "function (floats as exact rationals). A case is dropped (and counted) when the model run at distance*(1-1e-6) and distance*(1+1e-6) "
    "differ (a test inside the decision band) except the deliberate exact-tie family, or when coordinates are so large that the float "
    "cancellation in the distance function exceeds the band. Non-trivial = not a straight/degenerate curve. "
    "Session 3: X5 generated histories of Path operations (line_to, move_to, curve3_to, curve4_to, close, close_sub_path, reversed, "
    "append_path, extend_multi_path on two registers): the private storage (_start_index, _commands, _has_sub_paths, _vertices) after EVERY "
    "operation (incl. transform(m) with exact affine maps), sub_paths(), _start_of_last_sub_path(), end; X6 Path.flattening of generated single- and multi-paths with both Bezier twins, "
    "exact vertex lists incl. distance 0 (ValueError); X7 tools.add_bezier4p / add_bezier3p on generated chains (connected, broken, reversed, "
    "closed, straight and half-straight members); X8 the curve assembly of add_2d_polyline.bulge_to (the curves returned by every "
    "cubic_bezier_from_ellipse call are recorded and given to the model), add_2d_polyline without bulges and converter.from_vertices; X9 every add_bezier4p call made by "
    "make_path(entity) over the entity generator of O5 (path before + curves -> path after); X10 the parameter prelude of "
    "ConstructionEllipse.flattening (param, end_param, first step: the model's exact values rounded to double); X11 "
    "converter.from_hatch_edge_path on generated line/arc edge paths (all connection cases, several loops); X12 NumpyPath2d(path) for "
    "generated multi-paths: arrays, sub_paths(), reverse(), has_sub_paths, to_path(), extend(); X13 NumpyPath2d.flattening (both Bezier twins) "
    "incl. sub-paths that begin with a curve directly after the MOVE_TO. "
    "oracle (real code only): O1 arcs/circles (sagitta of every chord <= distance, vertices on the circle, equal counter-clockwise turns, "
    "ends; sagitta around r, 2r, ulp neighbours); O2-O4 Bezier twins / Bezier / BSpline / ellipse (parameters strictly increasing, ends, "
    ">= segments chords (per knot span), vertices on the curve by independent evaluation, curve point at the middle parameter within "
    "distance of the chord; non power-of-two segments, six decades of tolerance); O5 make_path(entity) for LINE CIRCLE ARC ELLIPSE SPLINE "
    "LWPOLYLINE POLYLINE2D/3D HATCH against an independent parametrisation of the entity in WCS (start, end, direction, deviation) and "
    "Path.flattening = concatenation of the per-curve flattenings; O6 path -> polylines3d/2d/lwpolylines/hatches/splines/lines -> path, "
    "multi-paths, NumpyPath2d, nesting; O7 full circles as closed two-bulge LWPOLYLINE far from the origin; O8 multi-paths built by move_to / "
    "extend_multi_path / to_multi_path / append_path of a MULTI-path (sub-paths starting with a curve) through every consumer of "
    "has_sub_paths (flag vs commands, single_paths, to_polylines3d, to_lwpolylines, to_lines, to_hatches, to_splines_and_polylines) and the "
    "numpy twin (NumpyPath2d flattening / sub_paths / extents / transform_inplace, NumpyPoints2d)."
)
TRUSTED_BASE = [
    "hand model Model/Flatten.lean of the four flattening methods, tied to the code by the correspondence streams and by the re-extracted "
    "kernel pieces of Gen/FlattenKernels.lean (tie_* theorems); not a mechanical translation of the loops",
    "hand model Model/FlattenPath.lean of ezdxf.path.Path (element view; the flat storage is derived and compared with the private fields "
    "of the real object after every operation, X5), of Path._approximate/flattening, add_bezier4p/3p, the bulge_to assembly, from_vertices: "
    "tied by X5-X9 and by the statement text of 17 Path methods and 8 tools functions re-extracted on every run (tie_path_methods, tie_path_tools)",
    "hand model of npshapes.NumpyPath2d in Model/FlattenPath.lean (flat arrays, running index as the list of unread rows): flattening loop, "
    "sub_paths index walk, reverse, extend; tied by X12/X13 and the statement text of 13 methods + the CMD constants (tie_numpy_path)",
    "make_path dispatch: the LIVE singledispatch registry and the builder calls of every handler are regenerated (tie_make_path_dispatch, "
    "make_path_dispatch_covered); what the handlers compute BEFORE they call a builder (construction tools, OCS) is not modelled (oracle O5, X9)",
    "Vec3 arithmetic (lerp, distance, project, isclose) is component-wise as modelled by V3 (properties C10/C11)",
    "float arithmetic is not modelled: the theorems are about exact rational/real arithmetic; the correspondence uses inputs on which the "
    "float parameter arithmetic is exact and excludes tests within 1e-6 relative of the threshold",
    "the mini translator of the arc formulas (ast -> RExpr trees) and the real semantics evalE given to the trees in Props/C14.lean "
    "(sqrt/asin domain errors, float division by zero, ceil)",
    "CPython math.isclose / float % semantics as modelled by pyIsclose / pyMod (defaults re-read from the running interpreter)",
    "B-spline and ellipse point evaluation itself is not modelled here (property C13): the model runs on the recorded evaluations",
]
ASSUMPTIONS = [
    "positive tolerances only (flattening(0.0) never terminates in both twins: theorem nonpositive_distance_never_finishes; "
    "Path.flattening(0.0) raises ValueError at the first curve: model + X6)",
    "segments < 10^9 (beyond that isclose(t1, 1.0) snaps early)",
    "termination is PROVED for Bezier3P, Bezier4P and whole paths (bezier3_terminates, bezier4_terminates, path_flat_terminates: a sufficient "
    "recursion budget exists; it can exceed RECURSION_LIMIT = 1000 of the Cython twin for extreme inputs - then RecursionError, stated in "
    "rec_eq_stack / twins_agree); for B-splines and ellipses only conditionally (recSub_terminates: if all chords below some width pass)",
    "ellipse: param_span (arc_angle_span_rad) is an input of the prelude model, its consistency with the computed range is a hypothesis of "
    "ellipse_full_sound",
]
OPEN = [
    "termination of BSpline / ConstructionEllipse flattening is proved for every evaluation function with a Lipschitz modulus "
    "(bspline_terminates_lipschitz, ellipse_terminates_lipschitz, bspline_flattening_total, ellipse_flattening_total); that the real B-spline / ellipse evaluators "
    "HAVE such a modulus (C13: basis functions, cos/sin) is not proved here",
    "sagitta_bound / arc_flattening_sound are about the real-valued formulas (incl. the clamp min(x, 1.0) of fix 677c29f93); float rounding is "
    "covered by the oracle only (sagitta within a few ulps of r, 2r)",
    "make_path: the construction tools in front of the builders (ConstructionEllipse.from_arc, cubic_bezier_from_ellipse, bezier_decomposition, "
    "bulge_to_arc trigonometry, OCS -> WCS) are not modelled: the curves they return are inputs of the model (recorded in X8/X9), their geometry "
    "is checked by oracle O5 (and C13 for the bulge laws)",
    "to_splines_and_polylines / nesting: oracle only; closed variants path -> closed POLYLINE / LWPOLYLINE / HATCH polyline boundary -> path "
    "are proved (polyline_closed_roundtrip, polyline2d_closed_roundtrip); path -> 3D polyline -> path and path -> LWPOLYLINE/2D polyline -> path "
    "are proved (polyline_roundtrip, polyline2d_roundtrip), the loops of HATCH edge paths are proved closed single paths (edgeLoops_closed)",
    "known findings C14-7 (closed curves reversed by add_bezier4p; model: closed_chain_added_reversed) and C14-8 (full circle LWPOLYLINE within "
    "isclose tolerance loses one half) remain: the candidate fix is not test-clean",
]

SRC_FILES = [
    "src/ezdxf/math/_bezier4p.py", "src/ezdxf/math/_bezier3p.py", "src/ezdxf/acc/bezier4p.pyx",
    "src/ezdxf/acc/bezier3p.pyx", "src/ezdxf/acc/constants.h", "src/ezdxf/acc/vector.pyx", "src/ezdxf/math/bezier.py",
    "src/ezdxf/math/bspline.py", "src/ezdxf/math/ellipse.py", "src/ezdxf/math/arc.py", "src/ezdxf/math/circle.py",
    "src/ezdxf/math/construct3d.py", "src/ezdxf/path/path.py", "src/ezdxf/path/converter.py", "src/ezdxf/path/tools.py",
    "src/ezdxf/path/nesting.py", "src/ezdxf/npshapes.py",
]
NUMPY_PATH_METHODS = ["__init__", "flattening", "sub_paths", "reverse", "extend", "to_path", "has_sub_paths", "commands",
                      "start", "end", "is_closed", "clockwise", "counter_clockwise"]


# ====================================================================== regenerate (T-ast extraction)
class Extract(Exception):
    """the source left the shape the hand model copies -> translation broken"""


def _lean_str(s: str) -> str:
    from leanfmt import lean_str

    return lean_str(s)


def _rat(v) -> str:
    fr = Fr(v)
    if fr.denominator == 1:
        return f"({fr.numerator} : Rat)"
    return f"(({fr.numerator} : Rat) / {fr.denominator})"


def _find_method(tree, cls: str | None, name: str):
    for n in ast.walk(tree):
        if cls is None and isinstance(n, ast.FunctionDef) and n.name == name:
            return n
        if isinstance(n, ast.ClassDef) and n.name == cls:
            for m in n.body:
                if isinstance(m, ast.FunctionDef) and m.name == name:
                    return m
    raise Extract(f"{cls}.{name} not found")


def _body(fn):
    b = fn.body
    if b and isinstance(b[0], ast.Expr) and isinstance(getattr(b[0], "value", None), ast.Constant) and isinstance(b[0].value.value, str):
        b = b[1:]
    return b


def _u(n) -> str:
    return ast.unparse(n)


def _default_of(fn, arg: str) -> str:
    args = fn.args.args
    defaults = fn.args.defaults
    off = len(args) - len(defaults)
    for i, a in enumerate(args):
        if a.arg == arg and i >= off:
            return _u(defaults[i - off])
    raise Extract(f"no default for {arg} in {fn.name}")


def _stmts(lst) -> str:
    return "; ".join(_u(s) for s in lst)


def _cmp_of(test) -> str:
    if not (isinstance(test, ast.Compare) and len(test.ops) == 1):
        raise Extract(f"not a simple comparison: {_u(test)}")
    return type(test.ops[0]).__name__


def kernel_py_stack(src: str, cls: str) -> list[tuple[str, str]]:
    """pieces of the pure Python stack machine `cls.flattening`"""
    fn = _find_method(ast.parse(src), cls, "flattening")
    body = _body(fn)
    whiles = [s for s in body if isinstance(s, ast.While)]
    if len(whiles) != 1:
        raise Extract("expected exactly one outer while loop")
    outer = whiles[0]
    pre = [s for s in body if not isinstance(s, ast.While)]
    if len(outer.body) != 3 or not isinstance(outer.body[1], ast.If) or not isinstance(outer.body[2], ast.While):
        raise Extract("outer loop body is not [t1 = ..., if isclose, while True]")
    snap = outer.body[1]
    inner = outer.body[2]
    ib = inner.body
    if len(ib) != 5 or not isinstance(ib[4], ast.If):
        raise Extract("inner loop body is not [mid_t, mid_point, chk_point, d, if]")
    test = ib[4]
    return [
        ("segments_default", _default_of(fn, "segments")),
        ("prelude", _stmts(pre)),
        ("outer_test", _u(outer.test)),
        ("outer_cmp", _cmp_of(outer.test)),
        ("step", _u(outer.body[0])),
        ("snap_test", _u(snap.test)),
        ("snap_then", _stmts(snap.body)),
        ("snap_else", _stmts(snap.orelse)),
        ("inner_test", _u(inner.test)),
        ("mid_t", _u(ib[0])),
        ("mid_point", _u(ib[1])),
        ("chk_point", _u(ib[2])),
        ("dist", _u(ib[3])),
        ("accept_test", _u(test.test)),
        ("accept_cmp", _cmp_of(test.test)),
        ("accept_then", _stmts(test.body)),
        ("accept_else", _stmts(test.orelse)),
    ]


def kernel_py_rec(src: str, cls: str, mode: str) -> list[tuple[str, str]]:
    """pieces of the recursive generator variants: Bezier (bezier.py), BSpline, ConstructionEllipse"""
    fn = _find_method(ast.parse(src), cls, "flattening")
    body = _body(fn)
    sub = next((s for s in body if isinstance(s, ast.FunctionDef) and s.name == "subdiv"), None)
    if sub is None:
        raise Extract("subdiv not found")
    sb = _body(sub)
    test = sb[-1]
    if not isinstance(test, ast.If):
        raise Extract("subdiv does not end in the accept test")
    out = [
        ("segments_default", _default_of(fn, "segments")),
        ("subdiv_args", ", ".join(a.arg for a in sub.args.args)),
        ("subdiv_pre", _stmts(sb[:-1])),
        ("accept_test", _u(test.test)),
        ("accept_cmp", _cmp_of(test.test)),
        ("accept_then", _stmts(test.body)),
        ("accept_else", _stmts(test.orelse)),
    ]
    rest = [s for s in body if not (isinstance(s, ast.FunctionDef))]
    if mode == "bspline":
        loops = [s for s in rest if isinstance(s, ast.For)]
        if len(loops) != 1:
            raise Extract("expected one for loop over the knots")
        lp = loops[0]
        out += [
            ("prelude", _stmts([s for s in rest if not isinstance(s, ast.For)])),
            ("for", f"for {_u(lp.target)} in {_u(lp.iter)}"),
            ("for_body", _stmts(lp.body)),
        ]
    else:
        loops = [s for s in rest if isinstance(s, ast.While)]
        if len(loops) != 1:
            raise Extract("expected one while loop")
        lp = loops[0]
        out += [
            ("prelude", _stmts([s for s in rest if not isinstance(s, ast.While)])),
            ("outer_test", _u(lp.test)),
            ("outer_cmp", _cmp_of(lp.test)),
            ("outer_body", _stmts(lp.body)),
        ]
    return out


def _pyx_function(src: str, header: str) -> list[str]:
    """physical lines of the pyx function whose header line matches `header` (regex)"""
    lines = src.split("\n")
    for i, ln in enumerate(lines):
        if re.match(header, ln):
            ind = len(ln) - len(ln.lstrip())
            out = [ln]
            for l2 in lines[i + 1:]:
                if l2.strip() and (len(l2) - len(l2.lstrip())) <= ind and not l2.lstrip().startswith(")") and not out[-1].rstrip().endswith(","):
                    # next definition at the same or outer level (multi line headers end with ")" / "):")
                    if not re.match(r"\s*\)", l2):
                        break
                out.append(l2)
            return out
    raise Extract(f"pyx function {header!r} not found")


_CDEF = re.compile(r"^(\s*)cdef\s+[A-Za-z_][\w\.\[\]\* ]*?\s+(\w+\s*=\s*.*)$")
_CDECL = re.compile(r"^\s*cdef\s+[A-Za-z_][\w\.\[\]\* ]*?\s+\w+\s*$")


def _pyx_body_ast(lines: list[str]):
    """strip the (possibly multi-line) header and the C declarations, parse the body with `ast`"""
    i = 0
    while not lines[i].rstrip().endswith(":"):
        i += 1
    header = " ".join(l.strip() for l in lines[: i + 1])
    body = []
    for ln in lines[i + 1:]:
        code = ln.split("#")[0].rstrip()
        if not code.strip():
            continue
        m = _CDEF.match(code)
        if m:
            rhs = m.group(2)
            # `cdef double t0 = 0.0, t1`  ->  t0 = 0.0
            depth, cut = 0, None
            for k, ch in enumerate(rhs):
                depth += ch in "([" ; depth -= ch in ")]"
                if ch == "," and depth == 0:
                    cut = k
                    break
            code = m.group(1) + (rhs if cut is None else rhs[:cut])
        elif _CDECL.match(code):
            continue
        body.append(code)
    text = "def f():\n" + textwrap.indent(textwrap.dedent("\n".join(body)), "    ")
    return header, ast.parse(text).body[0].body


def kernel_pyx(src: str) -> list[tuple[str, str]]:
    """pieces of the Cython twin: `flattening` outer loop and `_Flattening.flatten`"""
    h1, b1 = _pyx_body_ast(_pyx_function(src, r"\s+def flattening\("))
    h2, b2 = _pyx_body_ast(_pyx_function(src, r"\s+cdef flatten\("))
    m = re.search(r"int\s+segments\s*=\s*(\d+)", h1)
    if not m:
        raise Extract("default of segments not found in the pyx header")
    lim = re.search(r"^cdef\s+\w+\s+RECURSION_LIMIT\s*=\s*(\d+)\s*$", src, re.M)
    if not lim:
        raise Extract("RECURSION_LIMIT not found")
    whiles = [s for s in b1 if isinstance(s, ast.While)]
    if len(whiles) != 1:
        raise Extract("expected one while loop in the pyx flattening")
    lp = whiles[0]
    if not isinstance(lp.body[1], ast.If):
        raise Extract("pyx outer loop: second statement is not the isclose test")
    snap = lp.body[1]
    guard, rest = b2[0], b2[1:]
    if not isinstance(guard, ast.If) or not isinstance(rest[-2], ast.If):
        raise Extract("pyx flatten: unexpected shape")
    test = rest[-2]
    return [
        ("segments_default", m.group(1)),
        ("recursion_limit", lim.group(1)),
        ("prelude", _stmts([s for s in b1 if not isinstance(s, ast.While)])),
        ("outer_test", _u(lp.test)),
        ("outer_cmp", _cmp_of(lp.test)),
        ("step", _u(lp.body[0])),
        ("snap_test", _u(snap.test)),
        ("snap_then", _stmts(snap.body)),
        ("snap_else", _stmts(snap.orelse)),
        ("outer_rest", _stmts(lp.body[2:])),
        ("guard_test", _u(guard.test)),
        ("guard_cmp", _cmp_of(guard.test)),
        ("guard_then", _stmts(guard.body)),
        ("flatten_pre", _stmts(rest[:-2])),
        ("accept_test", _u(test.test)),
        ("accept_cmp", _cmp_of(test.test)),
        ("accept_then", _stmts(test.body)),
        ("accept_else", _stmts(test.orelse)),
        ("flatten_post", _u(rest[-1])),
    ]


def point_kernel_py(src: str, cls: str) -> str:
    fn = _find_method(ast.parse(src), cls, "_get_curve_point")
    return _stmts(_body(fn))


def point_kernel_pyx(src: str, cls: str) -> str:
    """FastCubicCurve.point / FastQuadCurve.point: the cdef: block of locals and the accumulation"""
    m = re.search(r"^cdef class " + cls + r":\n(.*?)(?=^cdef class |\Z|^cdef double |^@)", src, re.M | re.S)
    if not m:
        raise Extract(f"{cls} not found")
    body = m.group(1)
    p = re.search(r"cdef Vec3 point\(self, double t\):\n(.*?)return result", body, re.S)
    if not p:
        raise Extract(f"{cls}.point not found")
    lines = [re.sub(r"\s+", " ", l.split("#")[0]).strip() for l in p.group(1).split("\n")]
    ctor = re.search(r"def __cinit__\(self,[^\n]*\):\n(.*?)(?=\n    cdef |\n    def )", body, re.S)
    clines = [re.sub(r"\s+", " ", l.split("#")[0]).strip() for l in (ctor.group(1).split("\n") if ctor else [])]
    return "; ".join(l for l in clines + lines if l and l != "cdef:")


def distance_point_line_kernel(src: str, name: str = "distance_point_line_3d") -> str:
    fn = _find_method(ast.parse(src), None, name)
    return _stmts(_body(fn))


# ---------------------------------------------------------------------- arc formulas -> RExpr trees
def rexpr(e) -> str:
    if isinstance(e, ast.Constant) and isinstance(e.value, (int, float)) and not isinstance(e.value, bool):
        return f"(.num {_rat(e.value)})"
    if isinstance(e, ast.Name):
        return f'(.var "{e.id}")'
    if isinstance(e, ast.BinOp):
        op = {ast.Add: "add", ast.Sub: "sub", ast.Mult: "mul", ast.Div: "div"}.get(type(e.op))
        if op is None:
            raise Extract(f"operator {type(e.op).__name__} outside the arc subset")
        return f"(.{op} {rexpr(e.left)} {rexpr(e.right)})"
    if isinstance(e, ast.Call) and isinstance(e.func, ast.Attribute) and isinstance(e.func.value, ast.Name) \
            and e.func.value.id == "math" and len(e.args) == 1 and not e.keywords:
        fn = {"sqrt": "sqrt", "asin": "asin", "ceil": "ceil"}.get(e.func.attr)
        if fn is None:
            raise Extract(f"math.{e.func.attr} outside the arc subset")
        return f"(.{fn} {rexpr(e.args[0])})"
    if isinstance(e, ast.Call) and isinstance(e.func, ast.Name) and e.func.id == "min" and len(e.args) == 2 and not e.keywords:
        return f"(.min {rexpr(e.args[0])} {rexpr(e.args[1])})"
    raise Extract(f"expression outside the arc subset: {_u(e)}")


def _handler_names(h) -> list[str]:
    t = h.type
    if isinstance(t, ast.Name):
        return [t.id]
    if isinstance(t, ast.Tuple):
        return [x.id for x in t.elts]
    raise Extract("bare except")


def arc_kernels(src: str) -> dict:
    tree = ast.parse(src)
    f1 = _find_method(tree, None, "arc_chord_length")
    f2 = _find_method(tree, None, "arc_segment_count")
    b1, b2 = _body(f1), _body(f2)
    if not (len(b1) == 1 and isinstance(b1[0], ast.Try) and len(b1[0].body) == 1 and isinstance(b1[0].body[0], ast.Return)
            and len(b1[0].handlers) == 1 and isinstance(b1[0].handlers[0].body[0], ast.Return)):
        raise Extract("arc_chord_length: not `try: return E except X: return c`")
    if [a.arg for a in f1.args.args] != ["radius", "sagitta"] or [a.arg for a in f2.args.args] != ["radius", "angle", "sagitta"]:
        raise Extract("arc function signatures changed")
    t2 = b2[0]
    if not (len(b2) == 1 and isinstance(t2, ast.Try) and len(t2.body) == 3 and len(t2.handlers) == 1):
        raise Extract("arc_segment_count: not `try: a; b; return E except (...): return c`")
    s_ch, s_al, s_ret = t2.body
    if not (isinstance(s_ch, (ast.Assign, ast.AnnAssign)) and _u(s_ch.value) == "arc_chord_length(radius, sagitta)"):
        raise Extract("arc_segment_count: first statement is not the chord length call")
    ch_name = _u(s_ch.target if isinstance(s_ch, ast.AnnAssign) else s_ch.targets[0])
    al_name = _u(s_al.target if isinstance(s_al, ast.AnnAssign) else s_al.targets[0])
    if ch_name != "chord_length" or al_name != "alpha" or not isinstance(s_ret, ast.Return):
        raise Extract("arc_segment_count: local names changed")
    return {
        "chordExpr": rexpr(b1[0].body[0].value),
        "chordHandler": (_handler_names(b1[0].handlers[0]), b1[0].handlers[0].body[0].value.value),
        "alphaExpr": rexpr(s_al.value),
        "countExpr": rexpr(s_ret.value),
        "countHandler": (_handler_names(t2.handlers[0]), t2.handlers[0].body[0].value.value),
    }


def arc_flattening_kernels(arc_src: str, circle_src: str) -> list[tuple[str, str]]:
    fa = _find_method(ast.parse(arc_src), "ConstructionArc", "flattening")
    fc = _find_method(ast.parse(circle_src), "ConstructionCircle", "flattening")
    return [("arc", _stmts(_body(fa))), ("circle", _stmts(_body(fc)))]


def path_linear_rules(src: str) -> list[tuple[str, str]]:
    """the 'Bezier segment is a straight line -> LINE_TO' rules of add_bezier4p / add_bezier3p (path/tools.py)"""
    tree = ast.parse(src)
    out = []
    for fname in ("add_bezier4p", "add_bezier3p"):
        fn = _find_method(tree, None, fname)
        loops = [s for s in _body(fn) if isinstance(s, ast.For)]
        if len(loops) != 1:
            raise Extract(f"{fname}: expected one loop over the curves")
        ifs = [s for s in loops[0].body if isinstance(s, ast.If)]
        rule = next((i for i in ifs if i.orelse and _u(i.body[0]).startswith("path.line_to(end)")), None)
        if rule is None or not isinstance(rule.test, ast.BoolOp):
            raise Extract(f"{fname}: linear segment rule not found")
        consts = {t.targets[0].id: _u(t.value) for t in _body(fn) if isinstance(t, ast.Assign) and isinstance(t.targets[0], ast.Name)}
        out += [
            (fname + ".op", type(rule.test.op).__name__),
            (fname + ".operands", "; ".join(_u(v) for v in rule.test.values)),
            (fname + ".then", _stmts(rule.body)),
            (fname + ".else", _stmts(rule.orelse)),
            (fname + ".rel_tol", consts.get("rel_tol", "?")),
            (fname + ".abs_tol", consts.get("abs_tol", "?")),
        ]
    return out


PATH_METHODS = ["line_to", "move_to", "curve3_to", "curve4_to", "close", "close_sub_path", "_start_of_last_sub_path",
                "append_path_element", "reversed", "sub_paths", "extend_multi_path", "append_path", "is_closed", "end",
                "flattening", "_approximate", "transform", "to_wcs"]
TOOLS_FUNCS = ["add_bezier4p", "add_bezier3p", "add_2d_polyline", "add_ellipse", "add_spline", "to_multi_path", "single_paths"]
MODELLED_BUILDERS = ["tools.add_2d_polyline", "tools.add_spline", "tools.add_ellipse", "from_vertices", "path.line_to",
                     "tools.to_multi_path", "from_hatch_boundary_path", "make_path", "Path"]


def path_kernels(path_src: str, tools_src: str, conv_src: str, np_src: str) -> dict:
    """statement text of the Path methods / tools functions the hand model Model/FlattenPath.lean copies"""
    tree = ast.parse(path_src)
    methods = []
    for name in PATH_METHODS:
        fn = _find_method(tree, "Path", name)
        methods.append((name, _stmts(_body(fn))))
    mvi = _find_method(tree, None, "make_vertex_index")
    methods.append(("make_vertex_index", _stmts(_body(mvi))))
    ttree = ast.parse(tools_src)
    tools = [(name, _stmts(_body(_find_method(ttree, None, name)))) for name in TOOLS_FUNCS]
    ctree = ast.parse(conv_src)
    tools.append(("from_vertices", _stmts(_body(_find_method(ctree, None, "from_vertices")))))
    fhe = _find_method(ctree, None, "from_hatch_edge_path")
    tools.append(("from_hatch_edge_path.loops", _stmts([st for st in _body(fhe) if not isinstance(st, ast.FunctionDef)])))
    ntree = ast.parse(np_src)
    numpy_methods = [(name, _stmts(_body(_find_method(ntree, "NumpyPath2d", name)))) for name in NUMPY_PATH_METHODS]
    consts = {}
    for n in ntree.body:
        if isinstance(n, ast.Assign) and isinstance(n.targets[0], ast.Name) and n.targets[0].id.startswith("CMD_"):
            consts[n.targets[0].id] = _u(n.value)
    numpy_methods.append(("CMD constants", "; ".join(f"{k} = {v}" for k, v in sorted(consts.items()))))
    tol = None
    for n in ttree.body:
        if isinstance(n, ast.Assign) and isinstance(n.targets[0], ast.Name) and n.targets[0].id == "IS_CLOSE_TOL":
            tol = _u(n.value)
    if tol is None:
        raise Extract("IS_CLOSE_TOL not found in path/tools.py")
    return {"methods": methods, "tools": tools, "is_close_tol": tol, "numpy": numpy_methods}


def make_path_dispatch(conv_src: str):
    """T-tab: the LIVE singledispatch registry of make_path (class -> handler) and, from the source of every handler,
    the path builders it calls (the calls a hand model has to cover)"""
    from ezdxf.path import converter

    reg = converter.make_path.registry
    table = sorted((cls.__name__ if cls is not object else "object", fn.__name__) for cls, fn in reg.items())
    tree = ast.parse(conv_src)
    builders = []
    for hname in sorted({h for _, h in table}):
        fn = _find_method(tree, None, hname)
        calls = []
        for n in ast.walk(fn):
            if isinstance(n, ast.Call):
                t = _u(n.func)
                if t.startswith("tools.") or t in ("from_vertices", "path.line_to", "make_path", "from_hatch_boundary_path", "Path") \
                        or t.startswith("ConstructionEllipse"):
                    if t not in calls:
                        calls.append(t)
        builders.append((hname, sorted(calls)))
    return table, builders


def _pairs(name: str, doc: str, pairs) -> str:
    items = ",\n   ".join(f"({_lean_str(k)}, {_lean_str(v)})" for k, v in pairs)
    return f"/-- {doc} -/\ndef {name} : List (String × String) :=\n  [{items}]\n"


def regenerate(ctx):
    src = {p: ctx.src(p) for p in SRC_FILES}
    import numpy as np

    consts = dict(re.findall(r"#define\s+(\w+)\s+([0-9.eE+-]+)", src["src/ezdxf/acc/constants.h"]))
    if "ABS_TOL" not in consts or "REL_TOL" not in consts:
        raise Extract("ABS_TOL / REL_TOL not found in constants.h")
    msig = math.isclose.__text_signature__
    mm = re.search(r"rel_tol=([0-9.eE+-]+), abs_tol=([0-9.eE+-]+)", msig or "")
    if not mm:
        raise Extract("math.isclose signature not readable")
    nsig = inspect.signature(np.isclose).parameters
    vsrc = src["src/ezdxf/acc/vector.pyx"]
    iso = re.search(r"cdef bint isclose\(double a, double b, double rel_tol, double abs_tol\):\n(.*?)\n\n", vsrc, re.S)
    if not iso:
        raise Extract("cdef isclose not found in vector.pyx")
    iso_txt = " ".join(re.sub(r"\s+", " ", l.split("#")[0]).strip().rstrip("\\").strip() for l in iso.group(1).split("\n") if l.split("#")[0].strip())
    from ezdxf.math import Vec3

    vis = inspect.signature(Vec3.isclose).parameters if not hasattr(Vec3.isclose, "__text_signature__") else None
    import ezdxf.math._vector as pv

    pvis = inspect.signature(pv.Vec3.isclose).parameters
    arc = arc_kernels(src["src/ezdxf/math/arc.py"])
    pk = path_kernels(src["src/ezdxf/path/path.py"], src["src/ezdxf/path/tools.py"], src["src/ezdxf/path/converter.py"],
                      src["src/ezdxf/npshapes.py"])
    dispatch, builders = make_path_dispatch(src["src/ezdxf/path/converter.py"])
    import ezdxf.path.path as _pp
    from ezdxf.path.commands import Command as _Cmd

    cmd_size = dict(_pp.CMD_SIZE)
    cmd_codes = sorted(((c.name, int(c)) for c in _Cmd), key=lambda kv: kv[1])
    lin = dict(path_linear_rules(src["src/ezdxf/path/tools.py"]))
    if lin["add_bezier4p.rel_tol"] != lin["add_bezier3p.rel_tol"] or lin["add_bezier4p.abs_tol"] != lin["add_bezier3p.abs_tol"]:
        raise Extract("add_bezier4p / add_bezier3p use different straight-line tolerances")
    lin_rel, lin_abs = lin["add_bezier4p.rel_tol"], lin["add_bezier4p.abs_tol"]
    text = f"""
import EzdxfVerif.Model.Flatten
namespace EzdxfVerif.Gen.FlattenKernels
open EzdxfVerif.Flatten

/-! constants -/
/-- acc/constants.h -/
def pyxRelTol : Rat := {_rat(Fr(consts["REL_TOL"]))}
def pyxAbsTol : Rat := {_rat(Fr(consts["ABS_TOL"]))}
/-- defaults of CPython `math.isclose` (text signature of the running interpreter) -/
def mathRelTol : Rat := {_rat(Fr(mm.group(1)))}
def mathAbsTol : Rat := {_rat(Fr(mm.group(2)))}
/-- the double `math.tau` -/
def mathTau : Rat := {_rat(Fr(math.tau))}
/-- defaults of `numpy.isclose` -/
def npRtol : Rat := {_rat(Fr(repr(nsig["rtol"].default)))}
def npAtol : Rat := {_rat(Fr(repr(nsig["atol"].default)))}
/-- defaults of `Vec3.isclose` (math/_vector.py) used by `distance_point_line_3d` -/
def vecRelTol : Rat := {_rat(Fr(repr(pvis["rel_tol"].default)))}
def vecAbsTol : Rat := {_rat(Fr(repr(pvis["abs_tol"].default)))}
/-- body of the Cython helper `isclose` (acc/vector.pyx) -/
def pyxIscloseBody : String := {_lean_str(iso_txt)}

{_pairs("bez4Py", "Bezier4P.flattening, math/_bezier4p.py", kernel_py_stack(src["src/ezdxf/math/_bezier4p.py"], "Bezier4P"))}
{_pairs("bez3Py", "Bezier3P.flattening, math/_bezier3p.py", kernel_py_stack(src["src/ezdxf/math/_bezier3p.py"], "Bezier3P"))}
{_pairs("bez4Pyx", "Bezier4P.flattening + _Flattening.flatten, acc/bezier4p.pyx", kernel_pyx(src["src/ezdxf/acc/bezier4p.pyx"]))}
{_pairs("bez3Pyx", "Bezier3P.flattening + _Flattening.flatten, acc/bezier3p.pyx", kernel_pyx(src["src/ezdxf/acc/bezier3p.pyx"]))}
{_pairs("bezierN", "Bezier.flattening, math/bezier.py", kernel_py_rec(src["src/ezdxf/math/bezier.py"], "Bezier", "while"))}
{_pairs("bspline", "BSpline.flattening, math/bspline.py", kernel_py_rec(src["src/ezdxf/math/bspline.py"], "BSpline", "bspline"))}
{_pairs("ellipse", "ConstructionEllipse.flattening, math/ellipse.py", kernel_py_rec(src["src/ezdxf/math/ellipse.py"], "ConstructionEllipse", "while"))}
{_pairs("arcFlattening", "ConstructionArc.flattening / ConstructionCircle.flattening", arc_flattening_kernels(src["src/ezdxf/math/arc.py"], src["src/ezdxf/math/circle.py"]))}
{_pairs("pathLinearRules", "add_bezier4p / add_bezier3p (path/tools.py): when a Bezier segment is stored as LINE_TO", path_linear_rules(src["src/ezdxf/path/tools.py"]))}

{_pairs("pathMethods", "ezdxf.path.Path: the methods Model/FlattenPath.lean copies (statement text)", pk["methods"])}
{_pairs("pathTools", "path/tools.py + converter.from_vertices: the functions Model/FlattenPath.lean copies", pk["tools"])}
{_pairs("numpyPathMethods", "npshapes.NumpyPath2d: the methods Model/FlattenPath.lean copies (statement text)", pk["numpy"])}
{_pairs("makePathDispatch", "LIVE registry of the singledispatch function make_path: entity class -> handler", dispatch)}
/-- path builders called by every make_path handler (from the handler source) -/
def makePathBuilders : List (String × List String) :=
  [{(","+chr(10)+"   ").join("(" + _lean_str(h) + ", [" + ", ".join(_lean_str(b) for b in bs) + "])" for h, bs in builders)}]

/-- `CMD_SIZE` of the live module path.path: (Command value, vertices per command) -/
def cmdSizeTable : List (Nat × Nat) := [{", ".join(f"({int(k)}, {int(v)})" for k, v in sorted(cmd_size.items()))}]
/-- `Command` enum of the live module path.commands -/
def commandCodes : List (String × Nat) := [{", ".join(f"({_lean_str(k)}, {int(v)})" for k, v in cmd_codes)}]
/-- `rel_tol` / `abs_tol` of the straight-line rule of add_bezier4p / add_bezier3p -/
def pathLinearRelTol : Rat := {_rat(Fr(lin_rel))}
def pathLinearAbsTol : Rat := {_rat(Fr(lin_abs))}
/-- `IS_CLOSE_TOL` of path/tools.py -/
def pathIsCloseTol : Rat := {_rat(Fr(pk["is_close_tol"]))}

/-- `distance_point_line_3d`, math/construct3d.py -/
def distancePointLine3d : String := {_lean_str(distance_point_line_kernel(src["src/ezdxf/math/construct3d.py"]))}
/-- `distance_point_segment_3d`, math/construct3d.py (the test of BSpline / ConstructionEllipse.flattening) -/
def distancePointSegment3d : String := {_lean_str(distance_point_line_kernel(src["src/ezdxf/math/construct3d.py"], "distance_point_segment_3d"))}

/-- point kernels of the four Bezier twins -/
def bez4PointPy : String := {_lean_str(point_kernel_py(src["src/ezdxf/math/_bezier4p.py"], "Bezier4P"))}
def bez3PointPy : String := {_lean_str(point_kernel_py(src["src/ezdxf/math/_bezier3p.py"], "Bezier3P"))}
def bez4PointPyx : String := {_lean_str(point_kernel_pyx(src["src/ezdxf/acc/bezier4p.pyx"], "FastCubicCurve"))}
def bez3PointPyx : String := {_lean_str(point_kernel_pyx(src["src/ezdxf/acc/bezier3p.pyx"], "FastQuadCurve"))}

/-! arc formulas of math/arc.py as expression trees (evaluated over the reals in Props/C14.lean) -/
/-- `arc_chord_length(radius, sagitta)`: the expression returned inside `try` -/
def chordExpr : RExpr := {arc["chordExpr"]}
/-- `except <names>: return <value>` of arc_chord_length -/
def chordHandler : List String × Rat := ({"[" + ", ".join(_lean_str(n) for n in arc["chordHandler"][0]) + "]"}, {_rat(arc["chordHandler"][1])})
/-- `alpha = …` of arc_segment_count (over `chord_length`, `radius`) -/
def alphaExpr : RExpr := {arc["alphaExpr"]}
/-- the value returned inside `try` of arc_segment_count (over `angle`, `alpha`) -/
def countExpr : RExpr := {arc["countExpr"]}
/-- `except <names>: return <value>` of arc_segment_count -/
def countHandler : List String × Rat := ({"[" + ", ".join(_lean_str(n) for n in arc["countHandler"][0]) + "]"}, {_rat(arc["countHandler"][1])})

end EzdxfVerif.Gen.FlattenKernels
"""
    ctx.write_gen("FlattenKernels", text, SRC_FILES)


# ====================================================================== shared helpers
def fs(x) -> str:
    f = Fr(x)
    return str(f.numerator) if f.denominator == 1 else f"{f.numerator}/{f.denominator}"


def pt(v) -> str:
    """a Vec2/Vec3/tuple of floats as exact rationals x:y:z"""
    t = tuple(v)
    if len(t) == 2:
        t = (t[0], t[1], 0.0)
    return ":".join(fs(float(c)) for c in t)


def key3(v):
    t = tuple(float(c) for c in v)
    return t if len(t) == 3 else (t[0], t[1], 0.0)


class Watchdog(Exception):
    pass


def bounded(it, limit=200000):
    """materialise a generator of the real code with a hard bound (flattening(0) never ends)"""
    out = []
    for v in it:
        out.append(v)
        if len(out) > limit:
            raise Watchdog(f"more than {limit} vertices")
    return out


def attach_params(vertices, table: dict, first_t, last_t=None, last_val=None, ids=None) -> str:
    """impl response: emitted vertices with the parameter at which the real code evaluated them.
    `ids` maps id(vertex object) -> parameter (the real generators yield the very objects returned by the
    wrapped point function); `table` maps vertex value -> sorted list of parameters and is the fall-back
    (Cython twin, ellipse closure), ambiguity (closed curves) is resolved monotonically."""
    out = []
    prev = None
    n = len(vertices)
    for i, v in enumerate(vertices):
        k = key3(v)
        if i == 0:
            t = first_t
        elif ids is not None and id(v) in ids:
            t = ids[id(v)]
        elif i == n - 1 and last_t is not None and k == last_val:
            t = last_t
        else:
            cands = [c for c in table.get(k, []) if prev is None or c > prev]
            t = min(cands) if cands else None
        out.append((fs(t) if t is not None else "?") + "=" + pt(k))
        if t is not None:
            prev = t
    return "ok " + ",".join(out)


def impl_error(e: BaseException) -> str:
    return "err " + type(e).__name__


EPS_BAND = Fr(1, 10 ** 6)  # relative width of the excluded decision band around `distance`


# ====================================================================== correspondence: Bezier twins
def bezier_cases(ctx):
    """yield (kind, degree, control points (tuples of dyadic floats), distance, segments)"""
    rng = ctx.rng("bezier")
    dists = [2.0 ** -k for k in range(0, 9)] + [0.1, 0.01, 0.3, 10.0, 3.0]
    segs = [1, 2, 4, 4, 4, 8, 16]

    def coord(scale=8, frac=4):
        return rng.randint(-scale * frac, scale * frac) / frac

    def p3d(flat):
        return (coord(), coord(), 0.0 if flat else coord())

    shapes = {
        "line": lambda n: [(float(i * 2), float(i), 0.0) for i in range(n)],
        "backtrack": lambda n: [(0.0, 0.0, 0.0), (8.0, 0.0, 0.0), (-4.0, 0.0, 0.0), (1.0, 0.0, 0.0)][:n],
        "closed": lambda n: ([(0.0, 0.0, 0.0), (6.0, 5.0, 0.0), (-6.0, 5.0, 0.0), (0.0, 0.0, 0.0)] if n == 4 else [(0.0, 0.0, 0.0), (4.0, 6.0, 1.0), (0.0, 0.0, 0.0)]),
        "scurve": lambda n: [(0.0, 0.0, 0.0), (4.0, 6.0, 0.0), (4.0, -6.0, 0.0), (8.0, 0.0, 0.0)][:n],
        "cusp": lambda n: [(0.0, 0.0, 0.0), (8.0, 8.0, 0.0), (0.0, 8.0, 0.0), (8.0, 0.0, 0.0)][:n],
        "degenerate": lambda n: [(1.0, 1.0, 1.0)] * n,
        "flatlong": lambda n: [(0.0, 0.0, 0.0), (21.25, 0.25, 0.0), (42.5, -0.25, 0.0), (64.0, 0.0, 0.0)][:n],
        "offset": lambda n: [(1024.0, -2048.0, 512.0), (1026.0, -2044.0, 512.0), (1030.0, -2044.0, 513.0), (1032.0, -2048.0, 512.0)][:n],
    }
    for deg in (4, 3):
        for name, mk in shapes.items():
            for d in dists:
                for s in (1, 4):
                    yield name, deg, mk(deg), d, s
        for _ in range(ctx.n(500, 4000)):
            flat = rng.random() < 0.5
            cps = [p3d(flat) for _ in range(deg)]
            yield ("rnd2d" if flat else "rnd3d"), deg, cps, rng.choice(dists), rng.choice(segs)
    # exact ties: all control points on one axis, the distance is the exact value of the first test
    for _ in range(ctx.n(100, 600)):
        deg = rng.choice((3, 4))
        axis = rng.randrange(3)
        cps = []
        for _ in range(deg):
            c = [0.0, 0.0, 0.0]
            c[axis] = float(rng.randint(-16, 16))
            cps.append(tuple(c))
        s = rng.choice((1, 2, 4))
        depth = rng.choice((0, 0, 1, 2))
        d = _first_test_distance(deg, cps, s, depth)
        if d and d > 0:
            yield "tie", deg, cps, d, s


def _bez_exact(deg, cps, t):
    t = Fr(t)
    P = [tuple(Fr(c) for c in p) for p in cps]
    if deg == 4:
        w = [(1 - t) ** 3, 3 * (1 - t) ** 2 * t, 3 * (1 - t) * t * t, t ** 3]
    else:
        w = [(1 - t) ** 2, 2 * (1 - t) * t, t * t]
    return tuple(sum(w[i] * P[i][k] for i in range(deg)) for k in range(3))


def _first_test_distance(deg, cps, segs, depth):
    """exact |P(mid) - chord midpoint| of the test on [0, 1/(segs*2^depth)] when it is a double"""
    t1 = Fr(1, segs * 2 ** depth)
    a, b, m = _bez_exact(deg, cps, 0), _bez_exact(deg, cps, t1), _bez_exact(deg, cps, t1 / 2)
    diff = [m[k] - (a[k] + b[k]) / 2 for k in range(3)]
    nz = [abs(x) for x in diff if x != 0]
    if len(nz) != 1:
        return None
    f = float(nz[0])
    return f if Fr(f) == nz[0] else None


def _recording_bezier(deg):
    from ezdxf.math._bezier4p import Bezier4P as B4
    from ezdxf.math._bezier3p import Bezier3P as B3

    base = B4 if deg == 4 else B3

    class Rec(base):  # type: ignore
        __slots__ = ("rec",)

        def _get_curve_point(self, t):
            p = base._get_curve_point(self, t)
            self.rec.setdefault(key3(p), []).append(Fr(t))
            self.rec.setdefault("ids", {})[id(p)] = Fr(t)
            self.rec.setdefault("keep", []).append(p)
            return p

    return Rec


def bezier_impl(deg, cps, d, segs):
    """returns {twin: response} computed on the real code (both twins)"""
    from ezdxf.math import Vec3
    import ezdxf.acc.bezier4p as a4
    import ezdxf.acc.bezier3p as a3

    pts = [Vec3(p) for p in cps]
    Rec = _recording_bezier(deg)
    rec_curve = Rec(pts)
    rec_curve.rec = {}
    out = {}
    py_verts = None
    try:
        py_verts = bounded(rec_curve.flattening(d, segs))
        table, ids = _split_rec(rec_curve.rec)
        out["py"] = attach_params(py_verts, table, Fr(0), Fr(1), key3(pts[-1]), ids=ids)
    except Exception as e:  # noqa
        table, ids = _split_rec(rec_curve.rec)
        out["py"] = impl_error(e)
    acc = (a4.Bezier4P if deg == 4 else a3.Bezier3P)(pts)
    try:
        verts = bounded(acc.flattening(d, segs))
        if py_verts is not None and [key3(v) for v in verts] == [key3(v) for v in py_verts]:
            # same vertex list as the Python twin: the parameters are those recorded there
            out["pyx"] = out["py"]
        else:
            out["pyx"] = attach_params(verts, table, Fr(0), Fr(1), key3(pts[-1]))
    except Exception as e:  # noqa
        out["pyx"] = impl_error(e)
    return out


def _deps_once(ctx):
    """lake targets of the driver: built by the first driver call of a run only (shared lake lock)"""
    if getattr(ctx, "_c14_built", False):
        return None
    ctx._c14_built = True
    return DRIVER_DEPS


def band_filter(ctx, stream, reqs):
    """reqs: list of (kind, make_request(distance_fraction) -> line, distance).  Runs the model at
    distance*(1-eps) and distance*(1+eps); a case whose two outputs differ has a test within the
    decision band (float rounding could flip it): dropped and counted, except the deliberate `tie` cases."""
    lines = []
    for kind, mk, d in reqs:
        lines.append(mk(Fr(d) * (1 - EPS_BAND)))
        lines.append(mk(Fr(d) * (1 + EPS_BAND)))
    outs = ctx.driver("C14", lines, build=_deps_once(ctx))
    keep = []
    for i, (kind, mk, d) in enumerate(reqs):
        same = outs[2 * i] == outs[2 * i + 1]
        if same or kind == "tie":
            keep.append(True)
        else:
            keep.append(False)
            ctx.hist(stream, "decision-band(excluded)")
    return keep


def correspond_bezier(ctx):
    stream = "X1 Bezier4P/3P flattening (py stack machine + pyx recursion)"
    cases, reqs = [], []
    for kind, deg, cps, d, segs in bezier_cases(ctx):
        impl = bezier_impl(deg, cps, d, segs)
        cp_txt = ",".join(pt(p) for p in cps)
        for twin in ("py", "pyx"):
            budget = 200000 if twin == "py" else 1001
            mk = (lambda dd, deg=deg, twin=twin, segs=segs, budget=budget, cp_txt=cp_txt:
                  f"bez|{deg}|{twin}|{fs(dd)}|{segs}|{budget}|{cp_txt}")
            reqs.append((kind, mk, d))
            cases.append((kind, mk(Fr(d)), impl[twin], kind not in ("line", "degenerate")))
    keep = band_filter(ctx, stream, reqs)
    final = []
    for k, (kind, req, resp, nt) in zip(keep, cases):
        if k:
            ctx.hist(stream, kind)
            final.append((req, resp, nt))
    ctx.correspond(stream, "C14", final, build=_deps_once(ctx))


# ====================================================================== correspondence: table curves
def _split_rec(rec: dict):
    """recorded evaluations -> (value table, id table)"""
    ids = rec.get("ids", {})
    table = {k: sorted(set(v)) for k, v in rec.items() if k not in ("ids", "keep")}
    return table, ids


def ill_conditioned(table: dict, d: float) -> bool:
    """float cancellation in `distance_point_line_3d` (|v1|^2 - |v2|^2) exceeds the decision band:
    coordinates too large for the tolerance (e.g. rational unclamped B-splines outside their domain)"""
    big = max((abs(c) for k in table for c in k), default=0.0)
    return big * big * 1e-14 > d * d * float(EPS_BAND)


def table_txt(table: dict) -> str:
    """{value: [params]} -> `t=x:y:z,…` sorted by parameter"""
    ent = sorted((t, k) for k, ts in table.items() for t in ts)
    return ",".join(f"{fs(t)}={pt(k)}" for t, k in ent)


def beziern_cases(ctx):
    rng = ctx.rng("beziern")
    dists = [2.0 ** -k for k in range(0, 8)] + [0.1, 0.01, 10.0]
    for _ in range(ctx.n(450, 4000)):
        n = rng.randint(2, 7)
        flat = rng.random() < 0.4
        cps = [(rng.randint(-32, 32) / 4, rng.randint(-32, 32) / 4, 0.0 if flat else rng.randint(-32, 32) / 4) for _ in range(n)]
        if rng.random() < 0.1:
            cps[-1] = cps[0]
        yield f"deg{n - 1}", cps, rng.choice(dists), rng.choice([1, 2, 4, 4, 8])


def correspond_beziern(ctx):
    from ezdxf.math import Bezier, Vec3

    stream = "X2 Bezier.flattening (bezier.py, recursive generator)"

    class Rec(Bezier):
        def point(self, t):
            p = Bezier.point(self, t)
            self.rec.setdefault(key3(p), []).append(Fr(float(t)))
            self.rec.setdefault("ids", {})[id(p)] = Fr(float(t))
            self.rec.setdefault("keep", []).append(p)
            return p

    cases, reqs = [], []
    for kind, cps, d, segs in beziern_cases(ctx):
        c = Rec([Vec3(p) for p in cps])
        c.rec = {}
        try:
            verts = bounded(c.flattening(d, segs))
            table, ids = _split_rec(c.rec)
            resp = attach_params(verts, table, Fr(0), Fr(1), key3(cps[-1]), ids=ids)
        except Exception as e:  # noqa
            table, ids = _split_rec(c.rec)
            resp = impl_error(e)
        if ill_conditioned(table, d):
            ctx.hist(stream, "ill-conditioned(excluded)")
            continue
        tab = table_txt(table)
        extra = f"{pt(cps[0])},{pt(cps[-1])}"
        mk = lambda dd, segs=segs, extra=extra, tab=tab: f"tab|beziern|{fs(dd)}|{segs}|900|{extra}|{tab}"
        reqs.append((kind, mk, d))
        cases.append((kind, mk(Fr(d)), resp, True))
    keep = band_filter(ctx, stream, reqs)
    final = []
    for k, (kind, req, resp, nt) in zip(keep, cases):
        if k:
            ctx.hist(stream, kind)
            final.append((req, resp, nt))
    ctx.correspond(stream, "C14", final, build=_deps_once(ctx))


def bspline_cases(ctx):
    """(kind, control points, order, knots or None, weights or None, distance, segments)"""
    rng = ctx.rng("bspline")
    dists = [2.0 ** -k for k in range(0, 8)] + [0.1, 0.01, 10.0]
    fixed = [
        ("collinear-backtrack", [(0, 0, 0), (10, 0, 0), (1, 0, 0)], 3, None, None),
        ("closed-loop", [(0, 0, 0), (10, 5, 0), (-10, 5, 0), (0, 0, 0)], 4, None, None),
        ("line", [(0, 0, 0), (1, 1, 0), (2, 2, 0), (3, 3, 0)], 2, None, None),
        ("degenerate", [(1, 1, 1)] * 4, 4, None, None),
    ]
    for name, cps, order, knots, weights in fixed:
        inner = len(cps) - order
        knots = [0.0] * order + [float(i + 1) for i in range(inner)] + [float(inner + 1)] * order
        for d in (1.0, 0.01):
            for s in (1, 4):
                yield name, cps, order, knots, weights, d, s
    for _ in range(ctx.n(450, 4000)):
        order = rng.randint(2, 6)
        count = rng.randint(order, order + 5)
        flat = rng.random() < 0.4
        cps = [(rng.randint(-32, 32) / 4, rng.randint(-32, 32) / 4, 0.0 if flat else rng.randint(-32, 32) / 4) for _ in range(count)]
        mode = rng.choice(["clamped-uniform", "clamped-nonuniform", "unclamped", "multi"])
        inner = count - order
        knots = [0.0] * order + [float(i + 1) for i in range(inner)] + [float(inner + 1)] * order
        if mode != "clamped-uniform":
            if mode == "unclamped":
                knots = [float(i) for i in range(count + order)]
            else:
                vals, v = [], 0.0
                for _ in range(inner):
                    if not (mode == "multi" and vals and rng.random() < 0.4 and vals.count(v) < order - 1):
                        v += rng.choice([0.5, 1.0, 2.0, 0.25])
                    vals.append(v)
                end = v + rng.choice([0.5, 1.0, 2.0])
                knots = [0.0] * order + vals + [end] * order
        weights = None
        if rng.random() < 0.25:
            weights = [rng.choice([0.5, 1.0, 2.0, 4.0]) for _ in range(count)]
        yield mode + ("-rational" if weights else ""), cps, order, knots, weights, rng.choice(dists), rng.choice([1, 2, 4, 4, 8])


def correspond_bspline(ctx):
    from ezdxf.math import BSpline

    stream = "X3 BSpline.flattening (recursive generator per knot span, distance to the chord)"

    class Proxy:
        def __init__(self, ev, rec):
            self.ev, self.rec = ev, rec

        def point(self, t):
            p = self.ev.point(t)
            self.rec.setdefault(key3(p), []).append(Fr(float(t)))
            self.rec.setdefault("ids", {})[id(p)] = Fr(float(t))
            self.rec.setdefault("keep", []).append(p)
            return p

    class Rec(BSpline):
        __slots__ = ("rec",)

        @property
        def evaluator(self):
            return Proxy(BSpline.evaluator.fget(self), self.rec)

    cases, reqs = [], []
    for kind, cps, order, knots, weights, d, segs in bspline_cases(ctx):
        try:
            sp = Rec(cps, order=order, knots=knots, weights=weights)
        except Exception:  # noqa
            ctx.hist(stream, "constructor-rejected")
            continue
        sp.rec = {}
        kn = [float(k) for k in sp.knots()]
        try:
            verts = bounded(sp.flattening(d, segs))
            table, ids = _split_rec(sp.rec)
            resp = attach_params(verts, table, Fr(kn[0]), ids=ids)
        except Exception as e:  # noqa
            table, ids = _split_rec(sp.rec)
            resp = impl_error(e)
        if ill_conditioned(table, d):
            ctx.hist(stream, "ill-conditioned(excluded)")
            continue
        tab = table_txt(table)
        extra = ",".join(fs(k) for k in kn)
        mk = lambda dd, segs=segs, extra=extra, tab=tab: f"tab|bspline|{fs(dd)}|{segs}|900|{extra}|{tab}"
        reqs.append((kind, mk, d))
        cases.append((kind, mk(Fr(d)), resp, True))
    keep = band_filter(ctx, stream, reqs)
    final = []
    for k, (kind, req, resp, nt) in zip(keep, cases):
        if k:
            ctx.hist(stream, kind)
            final.append((req, resp, nt))
    ctx.correspond(stream, "C14", final, build=_deps_once(ctx))


class _MathProxy:
    """stands in for the module global `math` of ezdxf.math.ellipse while flattening runs: records cos() arguments"""

    def __init__(self, rec):
        self._rec = rec

    def __getattr__(self, name):
        return getattr(math, name)

    def cos(self, x):
        self._rec.append(float(x))
        return math.cos(x)


def ellipse_cases(ctx):
    rng = ctx.rng("ellipse")
    dists = [2.0 ** -k for k in range(0, 9)] + [0.1, 0.01, 10.0]
    for _ in range(ctx.n(450, 4000)):
        center = (rng.randint(-8, 8), rng.randint(-8, 8), rng.choice([0, 0, rng.randint(-4, 4)]))
        major = rng.choice([(4, 0, 0), (0, 3, 0), (3, 4, 0), (rng.randint(1, 9), rng.randint(-9, 9), 0), (2, 3, 6)])
        ratio = rng.choice([1.0, 0.5, 0.25, 0.75, 0.125, 1e-3 * 64])
        a = rng.randint(0, 48) / 8
        b = rng.randint(0, 50) / 8
        if a == b:
            b = a + 0.5
        if a > b:
            a, b = b, a
        if b >= 6.28:
            b = 6.25
        if a >= b:
            a = b - 0.125
        yield "arc", center, major, ratio, a, b, rng.choice(dists), rng.choice([1, 2, 4, 4, 8])


def correspond_ellipse(ctx):
    import ezdxf.math.ellipse as em
    from ezdxf.math import ConstructionEllipse, Vec3, Z_AXIS

    stream = "X4 ConstructionEllipse.flattening (recursive generator, distance to the chord)"
    cases, reqs = [], []
    for kind, center, major, ratio, a, b, d, segs in ellipse_cases(ctx):
        mj = Vec3(major)
        ext = Z_AXIS if mj.z == 0 else Vec3(-6, 0, 2) if abs(mj.dot(Vec3(-6, 0, 2))) < 1e-9 else Z_AXIS
        try:
            ell = ConstructionEllipse(center=center, major_axis=major, extrusion=ext, ratio=ratio, start_param=a, end_param=b)
        except Exception:  # noqa
            ctx.hist(stream, "constructor-rejected")
            continue
        rec: list[float] = []
        saved = em.math
        em.math = _MathProxy(rec)
        try:
            try:
                verts = bounded(ell.flattening(d, segs))
                err = None
            except Exception as e:  # noqa
                verts, err = [], e
        finally:
            em.math = saved
        if not rec or rec[0] != a or ell.param_span / segs != (b - a) / segs:
            ctx.hist(stream, "prelude-not-identity(skipped)")
            continue
        table: dict = {}
        for p in sorted(set(rec)):
            v = next(iter(ell.vertices([p])))
            table.setdefault(key3(v), []).append(Fr(p))
        resp = impl_error(err) if err else attach_params(verts, table, Fr(a))
        if ill_conditioned(table, d):
            ctx.hist(stream, "ill-conditioned(excluded)")
            continue
        tab = table_txt(table)
        extra = f"{fs(a)},{fs(b)},{fs((b - a) / segs)}"
        mk = lambda dd, segs=segs, extra=extra, tab=tab: f"tab|ellipse|{fs(dd)}|{segs}|900|{extra}|{tab}"
        reqs.append((kind, mk, d))
        cases.append((kind, mk(Fr(d)), resp, True))
    keep = band_filter(ctx, stream, reqs)
    final = []
    for k, (kind, req, resp, nt) in zip(keep, cases):
        if k:
            ctx.hist(stream, kind)
            final.append((req, resp, nt))
    ctx.correspond(stream, "C14", final, build=_deps_once(ctx))


# ====================================================================== correspondence: Path machine (session 3)
def _vtxt(v) -> str:
    return pt(key3(v))


def show_path(p) -> str:
    """flat storage of a real Path in the driver's `showPath` format (private fields on purpose: the model derives them)"""
    return (",".join(str(int(i)) for i in p._start_index) + "!" + ",".join(str(int(c)) for c in p._commands) + "!"
            + ("1" if p._has_sub_paths else "0") + "!" + ",".join(_vtxt(v) for v in p._vertices))


def _dy(rng, scale=8, frac=4):
    return rng.randint(-scale * frac, scale * frac) / frac


def _dpt(rng, flat=False):
    return (_dy(rng), _dy(rng), 0.0 if flat else _dy(rng))


# exact isometries (rows r1 r2 r3 of the matrix, translation b): quarter turns, a reflection, a 3-4-5 rotation
ISOMETRIES = [
    ((0.0, -1.0, 0.0), (1.0, 0.0, 0.0), (0.0, 0.0, 1.0), (5.0, 7.0, 9.0)),
    ((0.0, 1.0, 0.0), (1.0, 0.0, 0.0), (0.0, 0.0, 1.0), (0.0, 0.0, 0.0)),
    ((1.0, 0.0, 0.0), (0.0, 0.0, -1.0), (0.0, 1.0, 0.0), (-2.0, 0.5, 0.25)),
    ((0.75, 0.0, -0.5), (0.0, 1.0, 0.0), (0.5, 0.0, 0.75), (0.0, 0.0, 0.0)),  # NOT orthonormal scaling 13/16: a similarity (general affine map)
    ((-1.0, 0.0, 0.0), (0.0, -1.0, 0.0), (0.0, 0.0, 1.0), (1.0, 1.0, 1.0)),
]


def path_histories(ctx, n, curves=True, max_ops=12):
    """generated histories of Path operations for the two-register machine of the driver; points are dyadic and
    drawn from a small pool so that coincidences (close(), is_closed, append_path without bridge) are frequent"""
    rng = ctx.rng("path-hist")
    for i in range(n):
        pool = [_dpt(rng, flat=rng.random() < 0.3) for _ in range(rng.randint(2, 5))]

        def pnt():
            return rng.choice(pool) if rng.random() < 0.6 else _dpt(rng)

        ops = [("N", pnt())]
        for _ in range(rng.randint(0, max_ops)):
            k = rng.random()
            if k < 0.28:
                ops.append(("L", pnt()))
            elif k < 0.42:
                ops.append(("M", pnt()))
            elif k < 0.52 and curves:
                ops.append(("Q", pnt(), pnt()))
            elif k < 0.64 and curves:
                ops.append(("C", pnt(), pnt(), pnt()))
            elif k < 0.70:
                ops.append(("Z",))
            elif k < 0.76:
                ops.append(("S",))
            elif k < 0.79:
                ops.append(("R",))
            elif k < 0.82:
                ops.append(("T",) + rng.choice(ISOMETRIES))
            elif k < 0.88:
                ops.append(("X",))
                if rng.random() < 0.5:
                    ops.append(("N", pnt()))
            elif k < 0.94:
                ops.append(("A",))
            else:
                ops.append(("E",))
        yield ops


def ops_txt(ops) -> str:
    return ";".join(" ".join([o[0]] + [pt(a) for a in o[1:]]) for o in ops)


def run_ops_real(ops, states=None):
    """execute a history on the real Path class; returns the two registers (current first)"""
    from ezdxf.path import Path

    p, q = Path(), Path()
    for o in ops:
        k = o[0]
        if k == "N":
            p = Path(o[1])
        elif k == "L":
            p.line_to(o[1])
        elif k == "M":
            p.move_to(o[1])
        elif k == "Q":
            p.curve3_to(o[1], o[2])
        elif k == "C":
            p.curve4_to(o[1], o[2], o[3])
        elif k == "Z":
            p.close()
        elif k == "S":
            p.close_sub_path()
        elif k == "R":
            p = p.reversed()
        elif k == "T":
            from ezdxf.math import Matrix44

            r1, r2, r3, b = o[1:]
            p = p.transform(Matrix44([r1[0], r2[0], r3[0], 0.0, r1[1], r2[1], r3[1], 0.0, r1[2], r2[2], r3[2], 0.0, b[0], b[1], b[2], 1.0]))
        elif k == "X":
            p, q = q, p
        elif k == "A":
            p.append_path(q)
        elif k == "E":
            p.extend_multi_path(q)
        if states is not None:
            states.append(show_path(p))
    return p, q


def correspond_path_ops(ctx):
    stream = "X5 Path operations: flat storage after every operation, sub_paths(), _start_of_last_sub_path, end"
    cases = []
    for ops in path_histories(ctx, ctx.n(1500, 12000)):
        states = []
        p, _ = run_ops_real(ops, states)
        sp = p._start_of_last_sub_path()
        resp = ("|".join(states) + "#" + "|".join(show_path(x) for x in p.sub_paths()) + "#"
                + (_vtxt(sp) if sp is not None else "-") + "#" + _vtxt(p.end))
        kinds = {o[0] for o in ops}
        ctx.hist(stream, "multi" if p.has_sub_paths else ("curves" if p.has_curves else "lines"))
        cases.append(("path|" + ops_txt(ops), resp, len(ops) > 2 and len(kinds) > 2))
    ctx.correspond(stream, "C14", cases, build=_deps_once(ctx))


def _flat_real(p, d, segs, twin):
    """Path.flattening on the real code with the chosen Bezier twin"""
    import ezdxf.path.path as pp
    import ezdxf.math._bezier4p as m4
    import ezdxf.math._bezier3p as m3
    import ezdxf.acc.bezier4p as a4
    import ezdxf.acc.bezier3p as a3

    old = pp.Bezier4P, pp.Bezier3P
    pp.Bezier4P, pp.Bezier3P = (m4.Bezier4P, m3.Bezier3P) if twin == "py" else (a4.Bezier4P, a3.Bezier3P)
    try:
        return "ok " + ",".join(_vtxt(v) for v in bounded(p.flattening(d, segs)))
    except Exception as e:  # noqa
        return impl_error(e)
    finally:
        pp.Bezier4P, pp.Bezier3P = old


def correspond_path_flattening(ctx):
    stream = "X6 Path.flattening of generated single- and multi-paths (both Bezier twins, exact vertex lists)"
    rng = ctx.rng("path-flat")
    dists = [2.0 ** -k for k in range(0, 8)] + [0.1, 0.01, 3.0, 0.0]
    reqs, cases = [], []
    for ops in path_histories(ctx, ctx.n(500, 4000), max_ops=8):
        p, _ = run_ops_real(ops)
        d = rng.choice(dists)
        segs = rng.choice((1, 2, 4, 4, 8))
        txt = ops_txt(ops)
        for twin in ("py", "pyx"):
            mk = (lambda dd, twin=twin, segs=segs, txt=txt: f"pflat|{twin}|{fs(dd)}|{segs}|{txt}")
            kind = "d=0" if d == 0.0 else ("multi" if p.has_sub_paths else ("curves" if p.has_curves else "lines"))
            reqs.append((kind, mk, d))
            cases.append((kind, mk(Fr(d)), _flat_real(p, d, segs, twin), p.has_curves))
    keep = band_filter(ctx, stream, reqs)
    final = []
    for k, (kind, req, resp, nt) in zip(keep, cases):
        if k:
            ctx.hist(stream, kind)
            final.append((req, resp, nt))
    ctx.correspond(stream, "C14", final, build=_deps_once(ctx))


def _curve_txt(c) -> str:
    return ",".join(_vtxt(v) for v in c.control_points)


def _rand_chain(rng, deg, start=None):
    """a list of Bezier control point tuples: connected / broken / closed / with straight and half-straight members"""
    n = rng.randint(1, 4)
    out = []
    cur = start if start is not None else _dpt(rng)
    first = cur
    for i in range(n):
        if rng.random() < 0.2:
            cur = _dpt(rng)  # gap: bridged by LINE_TO
        end = _dpt(rng)
        if i == n - 1 and rng.random() < 0.3:
            end = first  # closed chain
        if deg == 4:
            c1, c2 = _dpt(rng), _dpt(rng)
            k = rng.random()
            if k < 0.15:
                c1, c2 = cur, end  # straight: LINE_TO
            elif k < 0.3:
                c1 = cur  # one handle retracted: still a curve
            elif k < 0.4:
                c2 = end
            out.append((cur, c1, c2, end))
        else:
            c = _dpt(rng)
            k = rng.random()
            if k < 0.15:
                c = cur
            elif k < 0.3:
                c = end
            out.append((cur, c, end))
        cur = end
    return out


def correspond_add_bezier(ctx):
    from ezdxf.math import Bezier4P, Bezier3P, Vec3
    from ezdxf.path import tools

    stream = "X7 tools.add_bezier4p / add_bezier3p: reversal rule, bridging LINE_TO, straight-segment rule"
    rng = ctx.rng("addbez")
    cases = []
    hist = list(path_histories(ctx, ctx.n(800, 6000), max_ops=4))
    for ops in hist:
        ops = [o for o in ops if o[0] not in ("X", "A", "E", "T")]
        p, _ = run_ops_real(ops)
        deg = rng.choice((4, 4, 3))
        mode = rng.choice(["at-end", "at-end", "reversed", "free"])
        end = tuple(p.end)
        chain = _rand_chain(rng, deg, start=end if mode != "free" else None)
        if mode == "reversed":
            chain = [tuple(reversed(c)) for c in reversed(chain)]
        curves = [(Bezier4P if deg == 4 else Bezier3P)([Vec3(v) for v in c]) for c in chain]
        (tools.add_bezier4p if deg == 4 else tools.add_bezier3p)(p, curves)
        ctx.hist(stream, f"deg{deg}/{mode}")
        cases.append((f"addbez|{deg}|{ops_txt(ops)}|" + "~".join(_curve_txt(c) for c in curves), show_path(p), True))
    ctx.correspond(stream, "C14", cases, build=_deps_once(ctx))


def correspond_polyline_assembly(ctx):
    """add_2d_polyline with ONE bulge segment after some straight ones: the curves returned by every call of
    cubic_bezier_from_ellipse are recorded (they are inputs of the model), the assembly - order of the sub-arcs,
    reversal of the whole chain, add_bezier4p - is the model's `bulgeTo`"""
    from ezdxf.math import OCS
    from ezdxf.path import Path, tools, converter

    stream = "X8 add_2d_polyline.bulge_to curve assembly (recorded sub-arc curves) and converter.from_vertices"
    rng = ctx.rng("bulge-asm")
    cases = []
    orig = tools.cubic_bezier_from_ellipse
    for i in range(ctx.n(600, 5000)):
        pts = [(_dy(rng), _dy(rng), 0.0) for _ in range(rng.randint(1, 3))]
        bulge = rng.choice([-2.5, -1.0, -0.5, -0.1, 0.1, 0.5, 1.0, 2.5, rng.uniform(-3, 3)])
        last = (_dy(rng), _dy(rng))
        close = rng.random() < 0.3 and len(pts) >= 2
        segs = rng.choice((1, 1, 3, 4, 6, 8, 12))
        if close:
            # the bulge belongs to the closing segment (last vertex -> first vertex)
            points = [(x, y, 0.0) for x, y, _ in pts] + [(last[0], last[1], bulge)]
            p2 = (pts[0][0], pts[0][1], 0.0)
            pre = [("N", (pts[0][0], pts[0][1], 0.0))] + [("L", (x, y, 0.0)) for x, y, _ in pts[1:]] + [("L", (last[0], last[1], 0.0))]
        else:
            points = [(x, y, 0.0) for x, y, _ in pts[:-1]] + [(pts[-1][0], pts[-1][1], bulge), (last[0], last[1], 0.0)]
            p2 = (last[0], last[1], 0.0)
            pre = [("N", (pts[0][0], pts[0][1], 0.0))] + [("L", (x, y, 0.0)) for x, y, _ in pts[1:]]
        rec = []

        def hook(ellipse, segments=1, rec=rec):
            cs = list(orig(ellipse, segments))
            rec.append(cs)
            return cs

        tools.cubic_bezier_from_ellipse = hook
        try:
            p = Path()
            tools.add_2d_polyline(p, points, close=close, ocs=OCS(), elevation=0, segments=segs)
        finally:
            tools.cubic_bezier_from_ellipse = orig
        if not rec:
            continue  # coinciding end points: bulge_to returned early
        arcs = "^".join("~".join(_curve_txt(c) for c in cs) for cs in rec)
        ctx.hist(stream, f"bulge{'<0' if bulge < 0 else '>0'}/num_bez={len(rec)}")
        cases.append((f"bulge|{ops_txt(pre)}|{pt(p2)}|{arcs}", show_path(p), True))
    for i in range(ctx.n(300, 2000)):
        pool = [_dpt(rng) for _ in range(3)]
        vs = [rng.choice(pool) if rng.random() < 0.5 else _dpt(rng) for _ in range(rng.randint(0, 7))]
        close = rng.random() < 0.5
        p = converter.from_vertices(vs, close)
        ctx.hist(stream, "from_vertices")
        cases.append((f"fromv|{1 if close else 0}|" + ",".join(pt(v) for v in vs), show_path(p), len(vs) > 2))
        # the same points as a 2D polyline without bulges (z = 0): add_2d_polyline keeps every point
        vs2 = [(v[0], v[1], 0.0) for v in vs]
        p2 = Path()
        tools.add_2d_polyline(p2, [(v[0], v[1], 0.0) for v in vs2], close=close, ocs=OCS(), elevation=0)
        ctx.hist(stream, "add_2d_polyline(no bulges)")
        cases.append((f"poly2d|{1 if close else 0}|" + ",".join(pt(v) for v in vs2), show_path(p2), len(vs2) > 2))
    ctx.correspond(stream, "C14", cases, build=_deps_once(ctx))


def path_to_ops(p):
    """a real Path as operations of the driver's path machine (N start, then one operation per command)"""
    from ezdxf.path import Command

    ops = [("N", tuple(p.start))]
    for c in p.commands():
        t = c.type
        if t == Command.LINE_TO:
            ops.append(("L", tuple(c.end)))
        elif t == Command.MOVE_TO:
            ops.append(("M", tuple(c.end)))
        elif t == Command.CURVE3_TO:
            ops.append(("Q", tuple(c.end), tuple(c.ctrl)))
        else:
            ops.append(("C", tuple(c.end), tuple(c.ctrl1), tuple(c.ctrl2)))
    return ops


def correspond_make_path_hook(ctx):
    """every call of tools.add_bezier4p made by make_path(entity) over the entity generator of oracle O5 (ARC, CIRCLE,
    ELLIPSE, SPLINE, LWPOLYLINE/POLYLINE bulges, HATCH edges, ...): path before + curves -> path after, against the model"""
    import ezdxf
    from ezdxf.path import make_path, tools

    stream = "X9 make_path(entity): every add_bezier4p call (path before, curves of the construction tool) -> path after"
    doc = ezdxf.new()
    msp = doc.modelspace()
    rng = ctx.rng("mp-hook")
    orig = tools.add_bezier4p
    calls = []

    def hook(path, curves):
        curves = list(curves)
        before = path_to_ops(path)
        if path.has_sub_paths and len(path) and path.command_codes()[-1] == 4:
            before = None  # trailing MOVE_TO cannot be rebuilt exactly through move_to() after move_to(): not produced here
        orig(path, curves)
        if before is not None and curves:
            calls.append((before, curves, show_path(path)))

    cases = []
    tools.add_bezier4p = hook
    try:
        for i, (kind, e, T, tol, size, conic, rep) in enumerate(entity_cases(ctx, msp)):
            del calls[:]
            seg = rng.choice([1, 1, 2, 4, 8]) if conic else 1
            try:
                make_path(e, segments=seg) if seg != 1 else make_path(e)
            except Exception:  # noqa  (reported by oracle O5)
                continue
            for before, curves, after in calls[:6]:
                ctx.hist(stream, kind.split("-")[0])
                cases.append((f"addbez|4|{ops_txt(before)}|" + "~".join(_curve_txt(c) for c in curves), after, True))
    finally:
        tools.add_bezier4p = orig
    ctx.correspond(stream, "C14", cases, build=_deps_once(ctx))


def correspond_ellipse_prelude(ctx):
    """the parameter prelude of ConstructionEllipse.flattening: the model computes (param, end_param, delta) exactly from
    start_param, end_param, param_span (all doubles = exact rationals) and the double math.tau; float `%` is exact, float
    `+` and `/` are correctly rounded, so the real values must be the model's values rounded to double.  Observed on the
    real code through the recorded cos() arguments: first = param, last = end_param, second = param + delta (or the snap)."""
    import ezdxf.math.ellipse as em
    from ezdxf.math import ConstructionEllipse

    stream = "X10 ConstructionEllipse.flattening parameter prelude (normalisation, wrap, full ellipse with any start)"
    rng = ctx.rng("prelude")
    tau = math.tau
    obs, lines = [], []
    for i in range(ctx.n(600, 5000)):
        mode = rng.choice(["rnd", "rnd", "wrap", "full", "full-shifted", "neg", "big", "tiny", "tau-end", "equal"])
        a = rng.uniform(0, tau)
        if mode == "rnd":
            b = rng.uniform(0, tau)
        elif mode == "wrap":
            a, b = rng.uniform(3, tau), rng.uniform(0, 3)
        elif mode == "full":
            a, b = 0.0, tau
        elif mode == "full-shifted":
            a = rng.choice([rng.uniform(-10, 10), 1.0, -1.0, 0.5, 7.0, rng.randint(-8, 8) / 4])
            b = a + tau
        elif mode == "neg":
            a, b = rng.uniform(-12, 0), rng.uniform(-12, 12)
        elif mode == "big":
            a, b = rng.uniform(0, 40), rng.uniform(0, 40)
        elif mode == "tiny":
            b = a + rng.choice([1e-3, 1e-6, 1e-8])
        elif mode == "tau-end":
            b = tau
        else:
            b = a
        segs = rng.choice([1, 2, 3, 4, 8, 16])
        try:
            ell = ConstructionEllipse(major_axis=(4, 0, 0), ratio=0.5, start_param=a, end_param=b)
        except Exception:  # noqa
            continue
        rec: list[float] = []
        saved = em.math
        em.math = _MathProxy(rec)
        try:
            try:
                n_vertices = len(bounded(ell.flattening(100.0, segs)))  # huge distance: no subdivision, outer loop only
            except Exception as e:  # noqa
                n_vertices = -1
        finally:
            em.math = saved
        if n_vertices < 0:
            continue
        obs.append((mode, ell.start_param, ell.end_param, ell.param_span, segs, rec, n_vertices))
        lines.append(f"prelude|{fs(ell.start_param)}|{fs(ell.end_param)}|{fs(ell.param_span)}|{segs}")
    outs = ctx.driver("C14", lines, build=_deps_once(ctx))
    for (mode, a, b, span, segs, rec, nv), line, out in zip(obs, lines, outs):
        ctx.hist(stream, mode)
        ctx.count(stream, line, True, sample={"request": line[:200], "impl": repr((rec[:2], rec[-1:] , nv))[:200], "model": out[:200]})
        ctx.cov["disagreements_checked"] += 1
        if out == "none":
            if nv != 0:
                ctx.disagree(stream, line, f"{nv} vertices, parameters {rec[:3]}", "none (no vertex)")
            continue
        p, e, dl = (Fr(x) for x in out.split(","))
        pf, ef, dlf = float(p), float(e), float(dl)
        nxt = pf + dlf
        if math.isclose(nxt, ef):
            nxt = ef
        ok = nv >= 2 and len(rec) >= 2 and rec[0] == pf and rec[1] == nxt and max(rec) == ef
        if not ok:
            ctx.disagree(stream, line, f"{nv} vertices, first/second/last parameter {rec[:2]} {max(rec) if rec else None}",
                         f"param={pf!r} next={nxt!r} end_param={ef!r}")


def correspond_hatch_edges(ctx):
    """converter.from_hatch_edge_path on generated edge paths of line and (counter-clockwise) arc edges whose end points come
    from a small pool, so that all connection cases occur: end-start, end-end, start-end, start-start, gap after a closed
    loop (new loop), gap after an open loop (bridged).  The per-edge segment paths are inputs of the model (built here the
    way the converter builds them), the loop assembly is the model's `edgePath`."""
    from ezdxf.entities.boundary_paths import EdgePath
    from ezdxf.math import ConstructionEllipse, Z_AXIS, Vec3
    from ezdxf.path import Path, converter, tools

    stream = "X11 converter.from_hatch_edge_path: joining line / arc edges into closed loops (multi-path)"
    rng = ctx.rng("hatch-edges")
    cases = []
    for i in range(ctx.n(700, 6000)):
        pool = [(_dy(rng), _dy(rng)) for _ in range(rng.randint(2, 5))]
        ep = EdgePath()
        segs = []
        cur = rng.choice(pool)
        for _ in range(rng.randint(1, 7)):
            k = rng.random()
            if k < 0.15:
                # quarter / half circle around a pool point: computed end points, consecutive arcs share them exactly
                c = rng.choice(pool)
                r = rng.choice([1.0, 2.0, 0.5])
                a0 = rng.choice([0.0, 90.0, 180.0, 270.0])
                a1 = a0 + rng.choice([90.0, 180.0])
                ep.add_arc(c, r, a0, a1, ccw=True)
                e = ep.edges[-1]
                ell = ConstructionEllipse.from_arc(center=(c[0], c[1], 0), radius=e.radius, extrusion=Z_AXIS,
                                                   start_angle=e.start_angle, end_angle=e.end_angle)
                seg = Path()
                tools.add_ellipse(seg, ell, reset=True)
                segs.append(seg)
                cur = (float(seg.end.x), float(seg.end.y))
                continue
            mode = rng.choice(["chain", "chain", "chain", "rev", "jump", "front"])
            nxt = rng.choice(pool) if rng.random() < 0.7 else (_dy(rng), _dy(rng))
            if mode == "chain":
                a, b = cur, nxt
            elif mode == "rev":
                a, b = nxt, cur
            elif mode == "front":
                a, b = nxt, rng.choice(pool)
            else:
                a, b = rng.choice(pool), nxt
            ep.add_line(a, b)
            seg = Path(Vec3(a[0], a[1], 0))
            seg.line_to(Vec3(b[0], b[1], 0))
            segs.append(seg)
            cur = b
        try:
            real = converter.from_hatch_edge_path(ep, None, 0)
        except Exception as ex:  # noqa
            ctx.fail(f"make_path/raise/HATCH-edge-path/{type(ex).__name__}/{i}", f"from_hatch_edge_path raised {ex!r} for edges {[type(e).__name__ for e in ep.edges]}", {"op": "hatch-edges", "id": str(i)})
            continue
        n_loops = len(list(real.sub_paths())) if len(real) else 0
        ctx.hist(stream, f"loops={min(n_loops, 3)}{'+' if n_loops > 3 else ''}")
        cases.append(("edges|" + "^".join(ops_txt(path_to_ops(sg)) for sg in segs), show_path(real), len(segs) > 1))
    ctx.correspond(stream, "C14", cases, build=_deps_once(ctx))


# ====================================================================== correspondence: NumpyPath2d (session 4)
def show_np(np_path) -> str:
    return (",".join(str(int(c)) for c in np_path._commands) + "!"
            + ",".join(pt((float(v[0]), float(v[1]), 0.0)) for v in np_path._vertices))


def multi_path_histories(ctx, n, salt="np-hist"):
    """histories that build multi-paths whose sub-paths begin with a line, a quadratic or a cubic curve (directly after
    the MOVE_TO), incl. trailing MOVE_TO, MOVE_TO as first command, closed sub-paths; dyadic points"""
    rng = ctx.rng(salt)
    for i in range(n):
        flat = rng.random() < 0.7
        pool = [_dpt(rng, flat=flat) for _ in range(rng.randint(2, 5))]

        def pnt():
            return rng.choice(pool) if rng.random() < 0.4 else _dpt(rng, flat=flat)

        ops = [("N", pnt())]
        if rng.random() < 0.1:
            ops.append(("M", pnt()))
        for s_ in range(rng.randint(1, 4)):
            if s_ > 0:
                ops.append(("M", pnt()))
            for k in range(rng.randint(0 if s_ > 0 else 1, 4)):
                c = rng.choice(["L", "Q", "C"]) if k == 0 else rng.choice(["L", "L", "Q", "C"])
                ops.append((c,) + tuple(pnt() for _ in range({"L": 1, "Q": 2, "C": 3}[c])))
            if rng.random() < 0.3:
                ops.append(("S",))
        if rng.random() < 0.15:
            ops.append(("M", pnt()))
        yield ops


def _np_flat_real(np_path, d, segs, twin):
    import ezdxf.npshapes as nps
    import ezdxf.math._bezier4p as m4
    import ezdxf.math._bezier3p as m3
    import ezdxf.acc.bezier4p as a4
    import ezdxf.acc.bezier3p as a3

    old = nps.Bezier4P, nps.Bezier3P
    nps.Bezier4P, nps.Bezier3P = (m4.Bezier4P, m3.Bezier3P) if twin == "py" else (a4.Bezier4P, a3.Bezier3P)
    try:
        return "ok " + ",".join(pt((float(v.x), float(v.y), 0.0)) for v in bounded(np_path.flattening(d, segs)))
    except Exception as e:  # noqa
        return impl_error(e)
    finally:
        nps.Bezier4P, nps.Bezier3P = old


def correspond_numpy_path(ctx):
    from ezdxf.npshapes import NumpyPath2d

    st1 = "X12 NumpyPath2d(path): arrays, sub_paths(), reverse(), has_sub_paths, to_path(), extend()"
    st2 = "X13 NumpyPath2d.flattening of generated multi-paths (sub-paths starting with line / curve3 / curve4, both twins)"
    rng = ctx.rng("np-flat")
    dists = [2.0 ** -k for k in range(0, 8)] + [0.1, 0.01, 3.0]
    cases, reqs, fcases = [], [], []
    built = []
    for ops in multi_path_histories(ctx, ctx.n(900, 8000)):
        p, _ = run_ops_real(ops)
        npp = NumpyPath2d(p)
        built.append((ops, p))
        subs = "|".join(show_np(x) for x in npp.sub_paths())
        rev = show_np(npp.clone().reverse())
        resp = show_np(npp) + "#" + subs + "#" + rev + "#" + ("1" if npp.has_sub_paths else "0") + "#" + show_path(npp.to_path())
        first_cmds = [o[0] for o, prev in zip(ops[1:], ops[:-1]) if prev[0] == "M"]
        kind = "sub-path starts with curve" if any(c in ("Q", "C") for c in first_cmds) else ("multi" if npp.has_sub_paths else "single")
        ctx.hist(st1, kind)
        cases.append(("npstate|" + ops_txt(ops), resp, len(ops) > 2))
        if len(fcases) < 2 * ctx.n(500, 4000):
            d = rng.choice(dists)
            segs = rng.choice((1, 2, 4, 4, 8))
            txt = ops_txt(ops)
            for twin in ("py", "pyx"):
                mk = (lambda dd, twin=twin, segs=segs, txt=txt: f"npflat|{twin}|{fs(dd)}|{segs}|{txt}")
                reqs.append((kind, mk, d))
                fcases.append((kind, mk(Fr(d)), _np_flat_real(npp, d, segs, twin), p.has_curves))
    # extend / concatenate
    for i in range(ctx.n(300, 2500)):
        group = [built[rng.randrange(len(built))] for _ in range(rng.randint(1, 4))]
        if rng.random() < 0.5 and len(group) > 1:
            # make the next path start where the previous ends: joined without MOVE_TO
            o0, p0 = group[0]
            o1 = [("N", tuple(p0.end))] + [("L", _dpt(rng, flat=True))]
            group[1] = (o1, run_ops_real(o1)[0])
        nps_ = [NumpyPath2d(p) for _, p in group]
        first = nps_[0].clone()
        try:
            first.extend(nps_[1:])
        except Exception:  # noqa  (first path without commands and without vertices cannot happen here)
            continue
        ctx.hist(st1, "extend")
        cases.append(("npext|" + "^".join(ops_txt(o) for o, _ in group), show_np(first), True))
    ctx.correspond(st1, "C14", cases, build=_deps_once(ctx))
    keep = band_filter(ctx, st2, reqs)
    final = []
    for k, (kind, req, resp, nt) in zip(keep, fcases):
        if k:
            ctx.hist(st2, kind)
            final.append((req, resp, nt))
    ctx.correspond(st2, "C14", final, build=_deps_once(ctx))


def correspond(ctx):
    correspond_numpy_path(ctx)
    correspond_hatch_edges(ctx)
    correspond_ellipse_prelude(ctx)
    correspond_make_path_hook(ctx)
    correspond_bezier(ctx)
    correspond_beziern(ctx)
    correspond_bspline(ctx)
    correspond_ellipse(ctx)
    correspond_path_ops(ctx)
    correspond_path_flattening(ctx)
    correspond_add_bezier(ctx)
    correspond_polyline_assembly(ctx)


# ====================================================================== oracle (real code only)
TOLERANCES = [1e-4, 3e-4, 1e-3, 3e-3, 1e-2, 3e-2, 0.1, 0.3, 1.0, 3.0, 10.0]  # six decades


def _scale(*vals) -> float:
    return max([1.0] + [abs(float(v)) for v in vals])


def _ulp_steps(x: float, k: int) -> float:
    for _ in range(abs(k)):
        x = math.nextafter(x, math.inf if k > 0 else -math.inf)
    return x


# ---------------------------------------------------------------------- O1 arcs and circles
def arc_inputs(ctx):
    """(kind, center, radius, start_deg, end_deg, sagitta)"""
    rng = ctx.rng("arcs")
    n = ctx.n(3500, 60000)
    for i in range(n):
        r = 10 ** rng.uniform(-3, 4) if rng.random() < 0.7 else rng.choice([0.5, 1.0, 2.0, 8.0, 100.0, 1024.0])
        c = (rng.uniform(-100, 100), rng.uniform(-100, 100)) if rng.random() < 0.6 else (0.0, 0.0)
        mode = rng.choice(["rnd", "rnd", "rnd", "tiny", "quarter", "full", "nearfull", "wrap", "neg", "big"])
        if mode == "rnd":
            a, span = rng.uniform(0, 360), rng.uniform(0.01, 360)
        elif mode == "tiny":
            a, span = rng.uniform(0, 360), 10 ** rng.uniform(-5, -1)
        elif mode == "quarter":
            a, span = rng.choice([0.0, 45.0, 90.0, 180.0, 270.0]), rng.choice([90.0, 180.0, 270.0])
        elif mode == "full":
            a, span = rng.choice([0.0, 10.0, 180.0, 359.0]), 360.0
        elif mode == "nearfull":
            a, span = rng.uniform(0, 360), 360.0 - 10 ** rng.uniform(-6, -1)
        elif mode == "wrap":
            a, span = rng.uniform(200, 360), rng.uniform(170, 350)
        elif mode == "neg":
            a, span = -rng.uniform(0, 720), rng.uniform(1, 359)
        else:
            a, span = rng.uniform(360, 1080), rng.uniform(1, 359)
        b = a + span
        smode = rng.choice(["grid", "grid", "grid", "log", "rel", "s=r", "s~r", "s=2r", "s~2r", "s>2r"])
        if smode == "grid":
            s = rng.choice(TOLERANCES)
        elif smode == "log":
            s = 10 ** rng.uniform(-4, 1)
        elif smode == "rel":
            s = r * 10 ** rng.uniform(-6, 0)
        elif smode == "s=r":
            s = r
        elif smode == "s~r":
            s = _ulp_steps(r, rng.randint(-40, 40)) if rng.random() < 0.5 else r * (1 + rng.uniform(-1, 1) * 10 ** rng.uniform(-15, -9))
        elif smode == "s=2r":
            s = 2 * r
        elif smode == "s~2r":
            s = _ulp_steps(2 * r, rng.randint(-4, 4))
        else:
            s = r * rng.uniform(2.0, 50.0)
        yield mode + "/" + smode, c, r, a, b, s


def _huge_count(ctx, st, r, span, s) -> bool:
    """sagitta a few ulps below the diameter: `asin` folds the half angle back and arc_segment_count returns
    millions of segments (the bound still holds; performance only, recorded as a note, not a violation)"""
    from ezdxf.math.arc import arc_segment_count

    n = arc_segment_count(r, span, s)
    if n > 50000:
        ctx.hist(st, "huge-count(skipped)")
        if not getattr(ctx, "_c14_huge", False):
            ctx._c14_huge = True
            ctx.note(f"arc_segment_count({r!r}, tau, {s!r}) = {n}: a sagitta just below the diameter yields an enormous segment "
                     "count (asin folds the half angle back for s > r); bound holds, not counted as a violation")
        return True
    return False


def oracle_arcs(ctx):
    from ezdxf.math import ConstructionArc, ConstructionCircle, Vec2

    st = "O1 arc/circle flattening: sagitta, on circle, order, ends"
    for kind, c, r, a, b, s in arc_inputs(ctx):
        ctx.hist(st, kind.split("/")[1])
        near_r = abs(s - r) <= 1e-6 * r and s != r
        tag = "s~r-asin-domain" if near_r else kind.split("/")[1]
        rep = {"op": "arc", "center": list(c), "radius": r, "start": a, "end": b, "sagitta": s}
        arc = ConstructionArc(c, r, a, b)
        if _huge_count(ctx, st, r, math.tau, s):
            continue
        try:
            v = bounded(arc.flattening(s))
        except Exception as e:  # noqa
            ctx.fail(f"arc/raise/{type(e).__name__}/{tag}/{r!r}/{s!r}", f"ConstructionArc{(c, r, a, b)}.flattening({s!r}) raised {type(e).__name__}: {e}", rep)
            continue
        ctx.count(st, (c, r, a, b, s), True)
        start = a % 360
        stop = b % 360
        if stop <= start:
            stop += 360
        span = math.radians(stop - start)
        sc = _scale(r, c[0], c[1])
        bad = None
        if len(v) < 2:
            bad = f"only {len(v)} vertices"
        else:
            n = len(v) - 1
            cen = Vec2(c)
            if (v[0] - arc.start_point).magnitude > 1e-9 * sc or (v[-1] - arc.end_point).magnitude > 1e-9 * sc:
                bad = f"ends {v[0]}, {v[-1]} != {arc.start_point}, {arc.end_point}"
            elif any(abs((p - cen).magnitude - r) > 1e-9 * sc for p in v):
                bad = "vertex off the circle"
            else:
                step = span / n
                for i in range(n):
                    # angular order: every chord turns counter-clockwise by span/n
                    u0, u1 = v[i] - cen, v[i + 1] - cen
                    turn = math.atan2(u0.det(u1), u0.dot(u1)) % math.tau
                    if step < math.tau - 1e-9 and abs(turn - step) > 1e-7 + 1e-9 * sc / r:
                        bad = f"chord {i} turns {turn!r}, expected {step!r}"
                        break
                sag = r * (1.0 - math.cos(step / 2.0))
                if bad is None and sag > s * (1 + 1e-9) + 1e-12 * sc:
                    bad = f"sagitta {sag!r} of the {n} chord(s) exceeds {s!r}"
        if bad:
            ctx.fail(f"arc/sagitta/{tag}/{r!r}/{s!r}/{a!r}/{b!r}", f"ConstructionArc(center={c}, radius={r!r}, {a!r}, {b!r}).flattening({s!r}): {bad}", rep)
    rng = ctx.rng("circles")
    for i in range(ctx.n(1500, 20000)):
        r = 10 ** rng.uniform(-3, 4)
        c = (rng.uniform(-100, 100), rng.uniform(-100, 100))
        smode = rng.choice(["grid", "grid", "log", "rel", "s=r", "s~r", "s=2r", "s>2r"])
        s = {"grid": rng.choice(TOLERANCES), "log": 10 ** rng.uniform(-4, 1), "rel": r * 10 ** rng.uniform(-6, 0), "s=r": r,
             "s~r": _ulp_steps(r, rng.randint(-40, 40)), "s=2r": 2 * r, "s>2r": r * rng.uniform(2, 50)}[smode]
        ctx.hist(st, "circle/" + smode)
        near_r = abs(s - r) <= 1e-6 * r and s != r
        tag = "s~r-asin-domain" if near_r else smode
        rep = {"op": "circle", "center": list(c), "radius": r, "sagitta": s}
        circ = ConstructionCircle(c, r)
        if _huge_count(ctx, st, r, math.tau, s):
            continue
        try:
            v = bounded(circ.flattening(s))
        except Exception as e:  # noqa
            ctx.fail(f"circle/raise/{type(e).__name__}/{tag}/{r!r}/{s!r}", f"ConstructionCircle({c}, {r!r}).flattening({s!r}) raised {type(e).__name__}: {e}", rep)
            continue
        ctx.count(st, ("circle", c, r, s), True)
        sc = _scale(r, c[0], c[1])
        cen = Vec2(c)
        bad = None
        if len(v) < 2:
            bad = f"only {len(v)} vertices"
        elif (v[0] - v[-1]).magnitude > 1e-9 * sc or (v[0] - (cen + Vec2(r, 0))).magnitude > 1e-9 * sc:
            bad = "closed polygon does not start/end at angle 0"
        elif any(abs((p - cen).magnitude - r) > 1e-9 * sc for p in v):
            bad = "vertex off the circle"
        else:
            n = len(v) - 1
            sag = r * (1.0 - math.cos(math.tau / n / 2.0))
            if sag > s * (1 + 1e-9) + 1e-12 * sc:
                bad = f"sagitta {sag!r} of the {n} chord(s) exceeds {s!r}"
            else:
                for i in range(n):
                    u0, u1 = v[i] - cen, v[i + 1] - cen
                    turn = math.atan2(u0.det(u1), u0.dot(u1)) % math.tau
                    if n > 1 and abs(turn - math.tau / n) > 1e-7 + 1e-9 * sc / r:
                        bad = f"chord {i} turns {turn!r}"
                        break
        if bad:
            ctx.fail(f"circle/sagitta/{tag}/{r!r}/{s!r}", f"ConstructionCircle({c}, {r!r}).flattening({s!r}): {bad}", rep)


# ---------------------------------------------------------------------- O2 Bezier / B-spline / ellipse flattening
def seg_dist(p, a, b) -> float:
    """euclidean distance from point p to the segment [a, b] (tuples of 3 floats)"""
    ab = [b[i] - a[i] for i in range(3)]
    ap = [p[i] - a[i] for i in range(3)]
    L = sum(x * x for x in ab)
    lam = 0.0 if L == 0.0 else max(0.0, min(1.0, sum(ab[i] * ap[i] for i in range(3)) / L))
    return math.sqrt(sum((ap[i] - lam * ab[i]) ** 2 for i in range(3)))


def de_casteljau(cps, t):
    pts = [tuple(float(c) for c in p) for p in cps]
    while len(pts) > 1:
        pts = [tuple(a[i] + (b[i] - a[i]) * t for i in range(3)) for a, b in zip(pts, pts[1:])]
    return pts[0]


def line_dist(p, a, b) -> float:
    """distance from p to the infinite line through a and b (to a if a == b)"""
    ab = [b[i] - a[i] for i in range(3)]
    ap = [p[i] - a[i] for i in range(3)]
    L = sum(x * x for x in ab)
    lam = 0.0 if L == 0.0 else sum(ab[i] * ap[i] for i in range(3)) / L
    return math.sqrt(sum((ap[i] - lam * ab[i]) ** 2 for i in range(3)))


def check_run(ctx, st, name, tv, P, d, min_chords, t_first, t_last, first_val, last_val, scale, rep, exact_ends, key_extra="", line_test=False):
    """the property's predicate on one flattening run; `tv` = [(t, vertex)], P = independent evaluation.
    `line_test` (no caller since the fixes 5dd05e20e / c03295f49; B-spline and ellipse tested the distance to the LINE through
    the chord ends before): a run that meets the line distance but not the distance to the chord itself is reported in the
    separate class `chord-end`."""
    bad = None
    cls = "other"
    if len(tv) < 2:
        bad, cls = f"only {len(tv)} vertices", "count"
    else:
        ts = [t for t, _ in tv]
        if any(t is None for t in ts):
            bad, cls = "a yielded vertex is not a point the curve function returned", "oncurve"
        elif ts[0] != t_first or ts[-1] != t_last:
            bad, cls = f"parameter range {ts[0]}..{ts[-1]}, expected {t_first}..{t_last}", "ends"
        elif any(not (a < b) for a, b in zip(ts, ts[1:])):
            bad, cls = "parameters not strictly increasing", "order"
        elif len(tv) - 1 < min_chords:
            bad, cls = f"{len(tv) - 1} chords, at least {min_chords} requested", "count"
        else:
            tol_end = 0.0 if exact_ends else 1e-9 * scale
            v0, v1 = key3(tv[0][1]), key3(tv[-1][1])
            if max(abs(a - b) for a, b in zip(v0, first_val)) > tol_end or max(abs(a - b) for a, b in zip(v1, last_val)) > tol_end:
                bad, cls = f"ends {v0}, {v1} != {first_val}, {last_val}", "ends"
            else:
                for (t0, a), (t1, b) in zip(tv, tv[1:]):
                    a, b = key3(a), key3(b)
                    pa, pb = P(float(t0)), P(float(t1))
                    if max(abs(x - y) for x, y in zip(a, pa)) > 1e-9 * scale or max(abs(x - y) for x, y in zip(b, pb)) > 1e-9 * scale:
                        bad, cls = f"vertex at t={float(t1)!r} is {b}, curve point is {pb}", "oncurve"
                        break
                    m = P((float(t0) + float(t1)) / 2)
                    dist = seg_dist(m, a, b)
                    if dist > d * (1 + 1e-6) + 1e-10 * scale:
                        cls = "criterion"
                        if line_test and max(abs(x - y) for x, y in zip(a, b)) <= 1e-9 * scale:
                            cls = "chord-degenerate"  # coinciding chord ends: no line to measure against
                        elif line_test and line_dist(m, a, b) <= d * (1 + 1e-6) + 1e-10 * scale:
                            cls = "chord-end"
                        bad = (f"curve point at the middle parameter of [{float(t0)!r}, {float(t1)!r}] is {dist!r} "
                               f"from the chord" + (" (but within distance of the line through its ends)" if cls == "chord-end" else "")
                               + f", distance={d!r}")
                        break
    if bad:
        ctx.fail(f"{name}/{cls}/{key_extra}{rep.get('id', '')}", f"{name} {rep}: {bad}", rep)
    return bad is None


def oracle_bezier(ctx):
    from ezdxf.math import Vec3, Bezier
    import ezdxf.acc.bezier4p as a4
    import ezdxf.acc.bezier3p as a3

    st = "O2 Bezier4P/3P/Bezier flattening: order, ends, count, midpoint criterion (both twins)"
    rng = ctx.rng("obezier")
    for i in range(ctx.n(1500, 25000)):
        deg = rng.choice((4, 4, 3))
        shape = rng.choice(["rnd", "rnd", "rnd", "flat", "closed", "cusp", "collinear", "long", "tiny", "far"])
        sc = {"long": 1000.0, "tiny": 1e-3, "far": 10.0}.get(shape, 10.0)
        off = (1e6, -2e6, 5e5) if shape == "far" else (0.0, 0.0, 0.0)
        z = rng.random() < 0.4
        cps = [(off[0] + rng.uniform(-sc, sc), off[1] + rng.uniform(-sc, sc), off[2] + (rng.uniform(-sc, sc) if z else 0.0)) for _ in range(deg)]
        if shape == "flat":
            cps = [(sc * k / (deg - 1), rng.uniform(-1e-3, 1e-3), 0.0) for k in range(deg)]
        elif shape == "closed":
            cps[-1] = cps[0]
        elif shape == "cusp" and deg == 4:
            cps = [(0.0, 0.0, 0.0), (sc, sc, 0.0), (0.0, sc, 0.0), (sc, 0.0, 0.0)]
        elif shape == "collinear":
            cps = [(rng.uniform(-sc, sc), 0.0, 0.0) for _ in range(deg)]
        d = rng.choice(TOLERANCES) * (sc / 10.0 if shape in ("long", "tiny") else 1.0)
        segs = rng.choice([1, 2, 3, 4, 4, 4, 5, 7, 10, 16])
        rep = {"op": "bezier", "degree": deg - 1, "cps": cps, "distance": d, "segments": segs, "id": f"{i}"}
        scale = _scale(*[c for p in cps for c in p])
        pts = [Vec3(p) for p in cps]
        Rec = _recording_bezier(deg)
        c = Rec(pts)
        c.rec = {}
        ctx.hist(st, f"deg{deg - 1}/{shape}")
        ctx.count(st, (deg, tuple(cps), d, segs), True)
        try:
            verts = bounded(c.flattening(d, segs))
        except Exception as e:  # noqa
            ctx.fail(f"bezier-py/raise/{type(e).__name__}/{i}", f"Bezier{deg}P(py) {rep} raised {type(e).__name__}: {e}", rep)
            continue
        table, ids = _split_rec(c.rec)
        tv = [(Fr(0), verts[0])] + [(ids.get(id(v)), v) for v in verts[1:]]
        if tv[-1][0] is None and key3(verts[-1]) == key3(c.control_points[-1]):
            tv[-1] = (Fr(1), verts[-1])
        P = lambda t, cps=cps: de_casteljau(cps, t)
        # ends: exactly the first / last definition point (fix 0db19c816: control_points no longer round-trips through the offset)
        ok = check_run(ctx, st, f"bezier{deg - 1}-py", tv, P, d, segs, Fr(0), Fr(1), tuple(float(x) for x in cps[0]), tuple(float(x) for x in cps[-1]), scale, rep, True)
        # Cython twin: same vertex list
        acc = (a4.Bezier4P if deg == 4 else a3.Bezier3P)(pts)
        try:
            av = bounded(acc.flattening(d, segs))
        except Exception as e:  # noqa
            ctx.fail(f"bezier-pyx/raise/{type(e).__name__}/{i}", f"Bezier{deg}P(pyx) {rep} raised {type(e).__name__}: {e}", rep)
            continue
        if key3(av[0]) != tuple(float(x) for x in cps[0]) or key3(av[-1]) != tuple(float(x) for x in cps[-1]):
            ctx.fail(f"bezier{deg - 1}-pyx/ends/{i}", f"Cython twin ends {av[0]} {av[-1]} are not the control points {rep}", rep)
        if len(av) == len(verts) and all(max(abs(a - b) for a, b in zip(key3(x), key3(y))) <= 1e-9 * scale for x, y in zip(av, verts)):
            continue  # identical run: the checks above cover it
        # different subdivision (rounding at a threshold): check the Cython run on its own, parameters by nearest recorded value
        tvx = []
        for k, v in enumerate(av):
            if k == 0:
                tvx.append((Fr(0), v))
            elif k == len(av) - 1:
                tvx.append((Fr(1), v))
            else:
                tvx.append((_nearest_param(P, v, segs), v))
        check_run(ctx, st, f"bezier{deg - 1}-pyx", tvx, P, d, segs, Fr(0), Fr(1), tuple(float(x) for x in cps[0]), tuple(float(x) for x in cps[-1]), scale, rep, True)
    # generic Bezier (bezier.py)
    class RecN(Bezier):
        def point(self, t):
            p = Bezier.point(self, t)
            self.rec.setdefault("ids", {})[id(p)] = Fr(float(t))
            self.rec.setdefault("keep", []).append(p)
            return p

    for i in range(ctx.n(400, 6000)):
        n = rng.randint(2, 8)
        cps = [(rng.uniform(-10, 10), rng.uniform(-10, 10), rng.choice([0.0, rng.uniform(-10, 10)])) for _ in range(n)]
        d = rng.choice(TOLERANCES)
        segs = rng.choice([1, 2, 3, 4, 4, 5, 8])
        rep = {"op": "beziern", "cps": cps, "distance": d, "segments": segs, "id": f"{i}"}
        c = RecN(cps)
        c.rec = {}
        ctx.hist(st, f"Bezier(n={n})")
        ctx.count(st, ("n", tuple(cps), d, segs), True)
        try:
            verts = bounded(c.flattening(d, segs))
        except Exception as e:  # noqa
            ctx.fail(f"beziern/raise/{type(e).__name__}/{i}", f"Bezier {rep} raised {type(e).__name__}: {e}", rep)
            continue
        ids = c.rec.get("ids", {})
        tv = [(Fr(0), verts[0])] + [(ids.get(id(v)), v) for v in verts[1:-1]] + [(Fr(1), verts[-1])]
        check_run(ctx, st, "beziern", tv, lambda t, cps=cps: de_casteljau(cps, t), d, segs, Fr(0), Fr(1),
                  tuple(float(x) for x in cps[0]), tuple(float(x) for x in cps[-1]), _scale(*[x for p in cps for x in p]), rep, True)


def _nearest_param(P, v, segs):
    """parameter of a vertex of the Cython twin: dyadic refinement of k/segs closest to the vertex"""
    best, bt = None, None
    k = key3(v)
    for depth in range(0, 14):
        n = segs * 2 ** depth
        for j in range(n + 1):
            t = j / n
            p = P(t)
            dd = max(abs(a - b) for a, b in zip(p, k))
            if best is None or dd < best:
                best, bt = dd, Fr(j, n)
        if best is not None and best < 1e-9 * _scale(*k):
            return bt
    return bt


def oracle_bspline(ctx):
    from ezdxf.math import BSpline

    st = "O3 BSpline.flattening: order, ends, count per knot span, midpoint criterion"

    class Proxy:
        def __init__(self, ev, rec):
            self.ev, self.rec = ev, rec

        def point(self, t):
            p = self.ev.point(t)
            self.rec.setdefault("ids", {})[id(p)] = float(t)
            self.rec.setdefault("keep", []).append(p)
            return p

    class Rec(BSpline):
        __slots__ = ("rec",)

        @property
        def evaluator(self):
            return Proxy(BSpline.evaluator.fget(self), self.rec)

    rng = ctx.rng("obspline")
    fixed = [
        ("collinear-backtrack", [(0, 0, 0), (10, 0, 0), (1, 0, 0)], 3, None, None, 0.01, 1),
        ("collinear-backtrack", [(0, 0, 0), (10, 0, 0), (1, 0, 0)], 3, None, None, 0.01, 4),
        ("closed-one-span", [(0, 0, 0), (10, 5, 0), (-10, 5, 0), (0, 0, 0)], 4, None, None, 0.01, 1),
        ("closed-one-span", [(0, 0, 0), (10, 5, 0), (-10, 5, 0), (0, 0, 0)], 4, None, None, 0.01, 4),
    ]
    cases = list(fixed)
    for i in range(ctx.n(700, 12000)):
        order = rng.randint(2, 8)
        count = rng.randint(order, order + 8)
        shape = rng.choice(["rnd", "rnd", "rnd", "closed", "collinear", "clustered", "bigknots"])
        z = rng.random() < 0.4
        cps = [(rng.uniform(-10, 10), rng.uniform(-10, 10), rng.uniform(-10, 10) if z else 0.0) for _ in range(count)]
        if shape == "closed":
            cps[-1] = cps[0]
        elif shape == "collinear":
            cps = [(rng.uniform(-10, 10), 0.0, 0.0) for _ in range(count)]
        elif shape == "clustered":
            cps = [(p[0] * (1e-3 if k % 3 else 1.0), p[1], p[2]) for k, p in enumerate(cps)]
        knots = None
        kmode = rng.choice(["default", "default", "nonuniform", "multi", "unclamped"])
        if shape == "bigknots":
            kmode = "nonuniform"
        inner = count - order
        if kmode == "unclamped":
            knots = [float(k) for k in range(count + order)]
        elif kmode in ("nonuniform", "multi"):
            vals, v = [], 0.0
            for _ in range(inner):
                if not (kmode == "multi" and vals and rng.random() < 0.4 and vals.count(v) < order - 1):
                    v += rng.uniform(0.05, 2.0)
                vals.append(v)
            end = v + rng.uniform(0.05, 2.0)
            knots = [0.0] * order + vals + [end] * order
            if shape == "bigknots":
                # same curve, parameter range stretched and shifted: large knot values, short relative spans
                base = 10 ** rng.uniform(2, 5)
                knots = [0.0] * order + [base + k for k in vals] + [base + end] * order
        weights = [rng.choice([0.25, 0.5, 1.0, 2.0, 3.0]) for _ in range(count)] if rng.random() < 0.25 else None
        cases.append((f"{shape}/{kmode}" + ("/rational" if weights else ""), cps, order, knots, weights, rng.choice(TOLERANCES), rng.choice([1, 2, 3, 4, 4, 4, 5, 8])))
    for i, (kind, cps, order, knots, weights, d, segs) in enumerate(cases):
        rep = {"op": "bspline", "cps": [list(map(float, p)) for p in cps], "order": order, "knots": knots, "weights": weights, "distance": d,
               "segments": segs, "id": f"{i}"}
        try:
            sp = Rec(cps, order=order, knots=knots, weights=weights)
        except Exception:  # noqa
            ctx.hist(st, "constructor-rejected")
            continue
        sp.rec = {}
        ctx.hist(st, kind)
        ctx.count(st, (tuple(map(tuple, cps)), order, tuple(knots or ()), tuple(weights or ()), d, segs), True)
        kn = sorted(set(float(k) for k in sp.knots()))
        if kind.startswith(("unclamped",)) or "unclamped" in kind:
            # outside [knots[order-1], knots[count]] an unclamped curve is not defined (the code still flattens
            # the whole knot range); rational ones run off to infinity there: restrict the check to clamped curves
            if weights:
                continue
        try:
            verts = bounded(sp.flattening(d, segs))
        except Exception as e:  # noqa
            ctx.fail(f"bspline/raise/{type(e).__name__}/{kind}/{i}", f"BSpline {rep} raised {type(e).__name__}: {e}", rep)
            continue
        ids = sp.rec.get("ids", {})
        tv = [(ids.get(id(v)), v) for v in verts]
        ref = BSpline(cps, order=order, knots=knots, weights=weights)
        P = lambda t, ref=ref: key3(ref.point(t))
        scale = _scale(*[c for p in cps for c in p])
        first, last = P(kn[0]), P(kn[-1])
        sub = "bigknots" if kind.startswith("bigknots") else ""
        check_run(ctx, st, "bspline", tv, P, d, segs * (len(kn) - 1), kn[0], kn[-1], first, last, scale, rep, False,
                  key_extra=(sub + "/") if sub else "")


def oracle_ellipse(ctx):
    import ezdxf.math.ellipse as em
    from ezdxf.math import ConstructionEllipse, Vec3, Z_AXIS

    st = "O4 ConstructionEllipse.flattening: order, ends, count, midpoint criterion"
    rng = ctx.rng("oellipse")
    for i in range(ctx.n(900, 15000)):
        center = (rng.uniform(-50, 50), rng.uniform(-50, 50), rng.choice([0.0, rng.uniform(-5, 5)]))
        ang = rng.uniform(0, math.tau)
        rx = 10 ** rng.uniform(-1, 2)
        major = (rx * math.cos(ang), rx * math.sin(ang), 0.0)
        ratio = rng.choice([1.0, 0.5, rng.uniform(0.01, 1.0), 1e-3, 1e-6])
        mode = rng.choice(["rnd", "rnd", "full", "full-shifted", "wrap", "tiny", "half", "neg", "tau-end"])
        if mode == "rnd":
            a = rng.uniform(0, math.tau); b = rng.uniform(0, math.tau)
        elif mode == "full":
            a, b = 0.0, math.tau
        elif mode == "full-shifted":
            a = rng.uniform(0, math.tau); b = a + math.tau
        elif mode == "wrap":
            a = rng.uniform(3, 6); b = rng.uniform(0.1, 2.9)
        elif mode == "tiny":
            a = rng.uniform(0, 6); b = a + 10 ** rng.uniform(-6, -2)
        elif mode == "half":
            a = rng.choice([0.0, math.pi / 2, math.pi]); b = a + math.pi
        elif mode == "neg":
            a = -rng.uniform(0, 10); b = a + rng.uniform(0.1, 6)
        else:
            a = rng.uniform(0.1, 6); b = math.tau
        d = rng.choice(TOLERANCES) * (rx / 10.0 if rng.random() < 0.5 else 1.0)
        segs = rng.choice([1, 2, 3, 4, 4, 4, 5, 8, 16])
        rep = {"op": "ellipse", "center": center, "major": major, "ratio": ratio, "start": a, "end": b, "distance": d, "segments": segs, "id": f"{i}"}
        ell = ConstructionEllipse(center=center, major_axis=major, extrusion=Z_AXIS, ratio=ratio, start_param=a, end_param=b)
        ctx.hist(st, mode)
        ctx.count(st, (center, major, ratio, a, b, d, segs), True)
        rec: list[float] = []
        saved = em.math
        em.math = _MathProxy(rec)
        try:
            try:
                verts = bounded(ell.flattening(d, segs))
                err = None
            except Exception as e:  # noqa
                verts, err = [], e
        finally:
            em.math = saved
        full = abs(ell.param_span - math.tau) < 1e-9
        if err is not None:
            sub = "full-ellipse-segments-1" if (full and segs == 1) else "other"
            ctx.fail(f"ellipse/raise/{type(err).__name__}/{sub}/{i}", f"ConstructionEllipse {rep} raised {type(err).__name__}: {err}", rep)
            continue
        if ell.param_span < 1e-9:
            continue
        # parameters: the sequence of cos() arguments is the sequence of evaluated parameters; vertices by value
        table: dict = {}
        for p in sorted(set(rec)):
            v = next(iter(ell.vertices([p])))
            table.setdefault(key3(v), []).append(p)
        tv, prev = [], None
        for k, v in enumerate(verts):
            c = [t for t in table.get(key3(v), []) if prev is None or t > prev]
            t = min(c) if c else None
            tv.append((t, v))
            prev = t if t is not None else prev
        P = lambda t, ell=ell: key3(next(iter(ell.vertices([t]))))
        p0 = rec[0] if rec else a
        p1 = p0 + ell.param_span
        scale = _scale(rx, *center)
        # the end parameter computed by the prelude may differ from p0 + span by rounding
        t_last = tv[-1][0] if tv and tv[-1][0] is not None and abs(tv[-1][0] - p1) <= 1e-9 * max(1.0, abs(p1)) else p1
        sub = "full-shifted/" if (mode == "full-shifted" and not verts) else ""
        check_run(ctx, st, "ellipse", tv, P, d, segs, p0, t_last, key3(ell.start_point), key3(ell.end_point), scale, rep, False,
                  key_extra=sub)


# ---------------------------------------------------------------------- O5 make_path(entity) vs the entity's own geometry
def _np():
    import numpy as np

    return np


def poly_dist(points, poly):
    """for every point (M x 3) the distance to the polyline poly (N x 3); numpy, chunked"""
    np = _np()
    points = np.asarray(points, dtype=float).reshape(-1, 3)
    poly = np.asarray(poly, dtype=float).reshape(-1, 3)
    if len(poly) == 1:
        return np.linalg.norm(points - poly[0], axis=1)
    a, b = poly[:-1], poly[1:]
    ab = b - a
    L = np.einsum("ij,ij->i", ab, ab)
    L = np.where(L == 0.0, 1.0, L)
    out = np.empty(len(points))
    for i in range(0, len(points), 256):
        p = points[i:i + 256, None, :]
        ap = p - a[None, :, :]
        lam = np.clip(np.einsum("mnj,nj->mn", ap, ab) / L[None, :], 0.0, 1.0)
        dv = ap - lam[:, :, None] * ab[None, :, :]
        out[i:i + 256] = np.sqrt(np.einsum("mnj,mnj->mn", dv, dv)).min(axis=1)
    return out


def at_arclength(poly, fracs):
    np = _np()
    poly = np.asarray(poly, dtype=float).reshape(-1, 3)
    seg = np.linalg.norm(poly[1:] - poly[:-1], axis=1)
    cum = np.concatenate([[0.0], np.cumsum(seg)])
    total = cum[-1]
    res = []
    for f in fracs:
        s = f * total
        k = int(np.searchsorted(cum, s, side="right") - 1)
        k = min(max(k, 0), len(seg) - 1)
        u = 0.0 if seg[k] == 0 else (s - cum[k]) / seg[k]
        res.append(poly[k] + u * (poly[k + 1] - poly[k]))
    return np.array(res), total


def bulge_samples(p1, p2, b, n):
    """own parametrisation of a DXF bulge segment in the OCS plane: included angle 4*atan(b), counter-clockwise for b > 0"""
    x1, y1 = p1
    x2, y2 = p2
    if abs(b) < 1e-6 or (x1 == x2 and y1 == y2):
        return [(x1 + (x2 - x1) * k / n, y1 + (y2 - y1) * k / n) for k in range(n + 1)]
    theta = 4.0 * math.atan(b)
    cx, cy = x2 - x1, y2 - y1
    L = math.hypot(cx, cy)
    mx, my = (x1 + x2) / 2, (y1 + y2) / 2
    h = (L / 2) / math.tan(theta / 2)
    ox, oy = mx - cy / L * h, my + cx / L * h
    rx, ry = x1 - ox, y1 - oy
    out = []
    for k in range(n + 1):
        a = theta * k / n
        out.append((ox + rx * math.cos(a) - ry * math.sin(a), oy + rx * math.sin(a) + ry * math.cos(a)))
    return out


def _rand_extrusion(rng):
    from ezdxf.math import Vec3

    m = rng.choice(["z", "z", "-z", "rnd", "rnd", "tilt"])
    if m == "z":
        return Vec3(0, 0, 1)
    if m == "-z":
        return Vec3(0, 0, -1)
    if m == "tilt":
        return Vec3(1e-3, 0, 1).normalize()
    while True:
        v = Vec3(rng.uniform(-1, 1), rng.uniform(-1, 1), rng.uniform(-1, 1))
        if v.magnitude > 0.2:
            return v.normalize()


def entity_cases(ctx, msp):
    """yield (kind, entity, true samples (ordered WCS points), approx_tol, size, conic: bool, replay dict)"""
    from ezdxf.math import OCS, Vec3

    rng = ctx.rng("entities")
    N = 1000
    for i in range(ctx.n(300, 5000)):
        kind = rng.choice(["LINE", "CIRCLE", "ARC", "ARC", "ELLIPSE", "ELLIPSE", "SPLINE", "SPLINE", "LWPOLYLINE", "LWPOLYLINE",
                           "POLYLINE2D", "POLYLINE3D", "HATCH-poly", "HATCH-edge", "HATCH-spline-edge"])
        ext = _rand_extrusion(rng)
        ocs = OCS(ext)
        if kind == "LINE":
            a = Vec3(rng.uniform(-50, 50), rng.uniform(-50, 50), rng.uniform(-50, 50))
            b = Vec3(rng.uniform(-50, 50), rng.uniform(-50, 50), rng.uniform(-50, 50))
            e = msp.add_line(a, b)
            T = [tuple(a.lerp(b, k / 10)) for k in range(11)]
            yield kind, e, T, 1e-9, _scale(*a, *b), False, {"start": list(a), "end": list(b)}
        elif kind in ("CIRCLE", "ARC"):
            c = Vec3(rng.uniform(-50, 50), rng.uniform(-50, 50), rng.uniform(-20, 20))
            r = 10 ** rng.uniform(-2, 3)
            if kind == "CIRCLE":
                a0, a1 = 0.0, 360.0
                e = msp.add_circle(c, r, dxfattribs={"extrusion": ext})
            else:
                a0 = rng.choice([rng.uniform(0, 360), rng.uniform(-360, 0), rng.uniform(360, 720), 0.0, 90.0, 270.0])
                a1 = a0 + rng.choice([rng.uniform(1, 359), 90.0, 180.0, 270.0, rng.uniform(0.01, 1), 359.9])
                e = msp.add_arc(c, r, a0, a1, dxfattribs={"extrusion": ext})
            s0 = a0 % 360
            s1 = a1 % 360
            if s1 <= s0:
                s1 += 360
            T = []
            for k in range(N + 1):
                a = math.radians(s0 + (s1 - s0) * k / N)
                T.append(tuple(ocs.to_wcs(Vec3(c.x + r * math.cos(a), c.y + r * math.sin(a), c.z))))
            yield kind, e, T, 4e-4 * r, _scale(r, *c), True, {"center": list(c), "radius": r, "start": a0, "end": a1, "extrusion": list(ext)}
        elif kind == "ELLIPSE":
            c = Vec3(rng.uniform(-50, 50), rng.uniform(-50, 50), rng.uniform(-20, 20))
            v = Vec3(rng.uniform(-1, 1), rng.uniform(-1, 1), rng.uniform(-1, 1))
            major = v - ext * ext.dot(v)
            if major.magnitude < 0.05:
                continue
            major = major.normalize(10 ** rng.uniform(-1, 2))
            ratio = rng.choice([1.0, 0.5, rng.uniform(0.05, 1.0), 0.05])
            p0 = rng.choice([0.0, rng.uniform(0, math.tau), rng.uniform(-6, 0)])
            p1 = p0 + rng.choice([math.tau, rng.uniform(0.05, 6.2), math.pi, math.pi / 2])
            if p0 == 0.0 and rng.random() < 0.5:
                p1 = math.tau
            e = msp.add_ellipse(c, major, ratio, p0, p1, dxfattribs={"extrusion": ext})
            minor = ext.cross(major).normalize(major.magnitude * ratio)
            s0 = p0 % math.tau
            span = p1 - p0
            if abs(span - math.tau) < 1e-9:
                span = math.tau  # full ellipse (also when given as a .. a + 2 pi)
            elif span > math.tau:
                span = span % math.tau
            T = []
            for k in range(N + 1):
                p = s0 + span * k / N
                T.append(tuple(c + major * math.cos(p) + minor * math.sin(p)))
            yield kind + ("-full" if abs(span - math.tau) < 1e-9 else ""), e, T, 4e-4 * major.magnitude, _scale(major.magnitude, *c), True, \
                {"center": list(c), "major": list(major), "ratio": ratio, "start": p0, "end": p1, "extrusion": list(ext)}
        elif kind == "SPLINE":
            deg = rng.choice([3, 3, 3, 2, 4, 5])
            cnt = rng.randint(deg + 1, deg + 7)
            z = rng.random() < 0.5
            cps = [(rng.uniform(-20, 20), rng.uniform(-20, 20), rng.uniform(-20, 20) if z else 0.0) for _ in range(cnt)]
            weights = [rng.choice([0.5, 1.0, 2.0]) for _ in range(cnt)] if rng.random() < 0.2 else None
            # control polygons with coincident control points: a doubled first / last control point of a cubic is a
            # "retracted handle" (one of them does NOT make the Bezier segment a straight line), doubled inner points
            shape = rng.choice(["rnd", "rnd", "rnd", "dbl-first", "dbl-last", "dbl-both", "dbl-inner", "dbl-first"])
            closed = shape == "rnd" and rng.random() < 0.15
            if closed:
                cps[-1] = cps[0]
            if shape in ("dbl-first", "dbl-both"):
                cps[1] = cps[0]
            if shape in ("dbl-last", "dbl-both"):
                cps[-2] = cps[-1]
            if shape == "dbl-inner" and cnt > 3:
                k = rng.randint(1, cnt - 3)
                cps[k + 1] = cps[k]
            if weights:
                e = msp.add_rational_spline(cps, weights, degree=deg)
            else:
                e = msp.add_open_spline(cps, degree=deg)
            ct = e.construction_tool()
            T2 = [key3(p) for p in ct.approximate(2 * N)]
            T = T2[::2]
            samp = float(poly_dist(T2[1::2], T).max()) * 1.5  # error of the sampling polyline itself
            exact = deg == 3 and not weights
            size = _scale(*[c for p in cps for c in p])
            yield f"SPLINE-deg{deg}" + ("-rational" if weights else "") + ("-closed" if closed else "") + ("" if shape == "rnd" else "-" + shape), e, T, \
                (1e-9 * size if exact else 1e-1 * size) + samp, size, False, {"cps": cps, "degree": deg, "weights": weights}
        elif kind in ("LWPOLYLINE", "POLYLINE2D", "HATCH-poly"):
            n = rng.randint(2, 7)
            pts = []
            for _ in range(n):
                b = rng.choice([0.0, 0.0, rng.uniform(-1.5, 1.5), 1.0, -1.0, rng.uniform(-0.2, 0.2), 2.5])
                pts.append((rng.uniform(-30, 30), rng.uniform(-30, 30), b))
            closed = True if kind == "HATCH-poly" else rng.random() < 0.5
            elev = rng.choice([0.0, rng.uniform(-10, 10)])
            if kind == "LWPOLYLINE":
                e = msp.add_lwpolyline(pts, format="xyb", close=closed, dxfattribs={"elevation": elev, "extrusion": ext})
            elif kind == "POLYLINE2D":
                e = msp.add_polyline2d(pts, format="xyb", close=closed, dxfattribs={"elevation": (0, 0, elev), "extrusion": ext})
            else:
                e = msp.add_hatch(dxfattribs={"elevation": (0, 0, elev), "extrusion": ext})
                e.paths.add_polyline_path(pts, is_closed=True)
            seq = pts + ([pts[0]] if closed else [])
            T2 = []
            for (x1, y1, b1), (x2, y2, _) in zip(seq, seq[1:]):
                if abs(x1 - x2) < 1e-9 and abs(y1 - y2) < 1e-9:
                    continue
                ss = bulge_samples((x1, y1), (x2, y2), b1, 300 if abs(b1) >= 1e-6 else 2)
                T2.extend(ss if not T2 else ss[1:])
            if len(T2) < 2:
                continue
            T = [tuple(ocs.to_wcs(Vec3(x, y, elev))) for x, y in T2]
            rmax = max([1.0] + [math.hypot(x2 - x1, y2 - y1) * (1 + b * b) / (4 * abs(b)) for (x1, y1, b), (x2, y2, _) in zip(seq, seq[1:]) if abs(b) >= 1e-6])
            yield kind, e, T, 4e-4 * rmax + 1e-9, _scale(rmax, *[c for p in pts for c in p[:2]]), True, \
                {"points": pts, "closed": closed, "elevation": elev, "extrusion": list(ext)}
        elif kind == "POLYLINE3D":
            n = rng.randint(2, 7)
            pts = [(rng.uniform(-30, 30), rng.uniform(-30, 30), rng.uniform(-30, 30)) for _ in range(n)]
            closed = rng.random() < 0.5
            e = msp.add_polyline3d(pts, close=closed)
            T = pts + ([pts[0]] if closed else [])
            yield kind, e, T, 1e-9, _scale(*[c for p in pts for c in p]), False, {"points": pts, "closed": closed}
        elif kind == "HATCH-spline-edge":
            # boundary = one cubic spline edge (clamped, explicit knots; doubled end control points included) closed by a line
            from ezdxf.math import BSpline

            elev = rng.choice([0.0, rng.uniform(-10, 10)])
            cnt = rng.randint(4, 9)
            c2 = [(rng.uniform(-20, 20), rng.uniform(-20, 20)) for _ in range(cnt)]
            shape = rng.choice(["rnd", "dbl-first", "dbl-last", "dbl-inner", "dbl-first"])
            if shape == "dbl-first":
                c2[1] = c2[0]
            elif shape == "dbl-last":
                c2[-2] = c2[-1]
            elif shape == "dbl-inner" and cnt > 4:
                k = rng.randint(1, cnt - 3)
                c2[k + 1] = c2[k]
            knots = [0.0] * 4 + [float(k) for k in range(1, cnt - 3)] + [float(cnt - 3)] * 4
            e = msp.add_hatch(dxfattribs={"elevation": (0, 0, elev), "extrusion": ext})
            ep = e.paths.add_edge_path()
            ep.add_spline(control_points=c2, knot_values=knots, degree=3)
            ep.add_line(c2[-1], c2[0])
            ref = BSpline([(x, y, elev) for x, y in c2], order=4, knots=knots)
            T3 = [key3(p) for p in ref.approximate(2 * N)]
            To = T3[::2]
            samp = float(poly_dist(T3[1::2], To).max()) * 1.5
            To = To + [(c2[0][0], c2[0][1], elev)]
            T = [tuple(ocs.to_wcs(Vec3(p))) for p in To]
            size = _scale(*[c for p in c2 for c in p], elev)
            yield kind + ("" if shape == "rnd" else "-" + shape), e, T, 1e-9 * size + samp, size, False, \
                {"spline-edge": c2, "knots": knots, "elevation": elev, "extrusion": list(ext)}
        else:  # HATCH-edge: rounded rectangle of 4 lines + 4 counter-clockwise arcs, or a full ellipse, in the OCS
            elev = rng.choice([0.0, rng.uniform(-10, 10)])
            e = msp.add_hatch(dxfattribs={"elevation": (0, 0, elev), "extrusion": ext})
            ep = e.paths.add_edge_path()
            if rng.random() < 0.6:
                w, h, r = rng.uniform(4, 30), rng.uniform(4, 30), rng.uniform(0.2, 1.9)
                x0, y0 = rng.uniform(-20, 20), rng.uniform(-20, 20)
                corners = [((x0 + w - r, y0 + r), 270), ((x0 + w - r, y0 + h - r), 0), ((x0 + r, y0 + h - r), 90), ((x0 + r, y0 + r), 180)]
                T2 = []
                prev_end = None
                for (cx, cy), a0 in corners:
                    sa = (cx + r * math.cos(math.radians(a0)), cy + r * math.sin(math.radians(a0)))
                    if prev_end is not None:
                        ep.add_line(prev_end, sa)
                    ep.add_arc((cx, cy), r, a0, a0 + 90, ccw=True)
                    for k in range(201):
                        a = math.radians(a0 + 90 * k / 200)
                        T2.append((cx + r * math.cos(a), cy + r * math.sin(a)))
                    prev_end = T2[-1]
                ep.add_line(prev_end, T2[0])
                T2.append(T2[0])
                tol, size, rep = 4e-4 * r, _scale(x0, y0, w, h), {"rounded-rect": [x0, y0, w, h, r]}
            else:
                cx, cy = rng.uniform(-20, 20), rng.uniform(-20, 20)
                ang, rx, ratio = rng.uniform(0, math.tau), rng.uniform(1, 30), rng.uniform(0.1, 1.0)
                mj = (rx * math.cos(ang), rx * math.sin(ang))
                ep.add_ellipse((cx, cy), mj, ratio, 0, 360, ccw=True)
                T2 = []
                for k in range(N + 1):
                    p = math.tau * k / N
                    T2.append((cx + mj[0] * math.cos(p) - mj[1] * ratio * math.sin(p), cy + mj[1] * math.cos(p) + mj[0] * ratio * math.sin(p)))
                tol, size, rep = 4e-4 * rx, _scale(cx, cy, rx), {"ellipse-edge": [cx, cy, mj, ratio]}
                kind = "HATCH-edge-ellipse-full"
            T = [tuple(ocs.to_wcs(Vec3(x, y, elev))) for x, y in T2]
            rep.update({"elevation": elev, "extrusion": list(ext)})
            yield kind, e, T, tol, size, True, rep


def oracle_make_path(ctx):
    import ezdxf
    from ezdxf.path import make_path
    from ezdxf.math import Bezier4P, Bezier3P, Vec3
    from ezdxf.path import Command

    np = _np()
    st = "O5 make_path(entity): start, end, orientation, deviation from the entity's own geometry; Path.flattening structure"
    doc = ezdxf.new()
    msp = doc.modelspace()
    rng = ctx.rng("mp")
    worst = {}
    for i, (kind, e, T, tol, size, conic, rep) in enumerate(entity_cases(ctx, msp)):
        rep = dict(rep, op="make_path", kind=kind, id=str(i))
        ctx.hist(st, kind)
        ctx.count(st, (kind, repr(rep)), True)
        mp_segments = rng.choice([1, 1, 2, 4, 8]) if conic else 1
        rep["make_path_segments"] = mp_segments
        try:
            P = make_path(e, segments=mp_segments) if mp_segments != 1 else make_path(e)
        except Exception as ex:  # noqa
            ctx.fail(f"make_path/raise/{kind}/{type(ex).__name__}/{i}", f"make_path({kind}) {rep} raised {type(ex).__name__}: {ex}", rep)
            continue
        Tn = np.array(T, dtype=float)
        eps = 1e-9 * size
        if len(P) == 0:
            ctx.fail(f"make_path/empty/{kind}/{i}", f"make_path({kind}) {rep} returned an empty path", rep)
            continue
        bad = None
        if (Vec3(P.start) - Vec3(T[0])).magnitude > tol + eps or (Vec3(P.end) - Vec3(T[-1])).magnitude > tol + eps:
            bad = ("ends", f"path runs {P.start} -> {P.end}, entity runs {T[0]} -> {T[-1]}")
        else:
            d_ref = 1e-4 * size
            R = np.array([key3(v) for v in bounded(P.flattening(d_ref, segments=16))])
            dv = poly_dist(R, Tn).max()
            dt = poly_dist(Tn, R).max()
            samp = 0.0
            if conic:
                seg = np.linalg.norm(Tn[1:] - Tn[:-1], axis=1).max()
                samp = seg * seg / (8 * max(tol / 4e-4, 1e-9)) if tol > 1e-8 else 0.0  # sagitta of the sampling chords
            worst[kind] = max(worst.get(kind, 0.0), max(dv, dt) / size)
            if dv > tol + samp + eps or dt > tol + samp + d_ref + eps:
                bad = ("deviation", f"path deviates {float(max(dv, dt))!r} from the entity geometry, allowed {tol!r}")
            else:
                fr = [0.1, 0.25, 0.5, 0.75, 0.9]
                pr, lr = at_arclength(R, fr)
                ptt, lt = at_arclength(Tn, fr)
                slack = 4 * (tol + samp + d_ref) + abs(lr - lt) + 1e-6 * size
                if abs(lr - lt) > 1e-3 * lt + 8 * tol or np.linalg.norm(pr - ptt, axis=1).max() > slack + 2e-3 * lt:
                    cls = "orientation"
                    prr, _ = at_arclength(Tn[::-1], fr)
                    if np.linalg.norm(Tn[0] - Tn[-1]) <= tol + eps and np.linalg.norm(pr - prr, axis=1).max() <= slack + 2e-3 * lt:
                        cls = "closed-reversed"  # closed curve traversed against the entity's own direction
                    bad = (cls, f"points at equal arc length fractions differ by {float(np.linalg.norm(pr - ptt, axis=1).max())!r} "
                                f"(lengths {float(lr)!r} / {float(lt)!r})" + ("; the path runs the closed curve in the opposite direction" if cls == "closed-reversed" else ""))
        if bad:
            ctx.fail(f"make_path/{bad[0]}/{kind}/{i}", f"make_path({kind}) {rep}: {bad[1]}", rep)
            continue
        # Path.flattening over six decades: ends exact, composition of the Bezier flattenings, vertices near the entity
        d = rng.choice(TOLERANCES)
        segs = rng.choice([1, 2, 4, 4, 8])
        V = bounded(P.flattening(d, segs))
        exp = [P.start]
        start = P.start
        nsub = 0
        for cmd in P.commands():
            if cmd.type in (Command.LINE_TO, Command.MOVE_TO):
                exp.append(cmd.end)
            elif cmd.type == Command.CURVE4_TO:
                exp.extend(list(Bezier4P((start, cmd.ctrl1, cmd.ctrl2, cmd.end)).flattening(d, segs))[1:])
                nsub += 1
            elif cmd.type == Command.CURVE3_TO:
                exp.extend(list(Bezier3P((start, cmd.ctrl, cmd.end)).flattening(d, segs))[1:])
                nsub += 1
            start = cmd.end
        sbad = None
        if key3(V[0]) != key3(P.start) or key3(V[-1]) != key3(P.end):
            sbad = f"flattening({d}) runs {V[0]} -> {V[-1]}, path runs {P.start} -> {P.end}"
        elif len(V) != len(exp) or any(key3(a) != key3(b) for a, b in zip(V, exp)):
            sbad = f"flattening({d}, {segs}) is not the concatenation of the per-curve flattenings ({len(V)} vs {len(exp)} vertices)"
        elif len(V) - 1 < nsub * segs:
            sbad = f"{len(V) - 1} segments for {nsub} curves with segments={segs}"
        else:
            Vn = np.array([key3(v) for v in V])
            dv = poly_dist(Vn, Tn).max()
            if dv > tol + (samp if conic else 0.0) + eps + (1e-2 * size if not conic and tol > 1e-6 else 0.0):
                sbad = f"a flattening vertex is {dv!r} off the entity geometry"
            elif conic:
                dt = poly_dist(Tn, Vn).max()
                if dt > 2.0 * d + tol + samp + eps:
                    sbad = f"entity deviates {dt!r} from flattening({d!r})"
        if sbad:
            ctx.fail(f"make_path/flattening/{kind}/{i}", f"make_path({kind}) {rep}: {sbad}", dict(rep, distance=d, segments=segs))
    ctx.note("make_path: worst deviation / size per entity kind this run: " + ", ".join(f"{k}={v:.2e}" for k, v in sorted(worst.items())))


# ---------------------------------------------------------------------- O6 path -> entities -> path
def random_paths(ctx, rng, planar: bool):
    """a list of 1..3 single paths (open/closed, lines and curves); planar: z = const"""
    from ezdxf.path import Path

    z0 = rng.choice([0.0, 0.0, rng.uniform(-5, 5)]) if planar else None

    def pnt(cx=0.0, cy=0.0, r=20.0):
        return (cx + rng.uniform(-r, r), cy + rng.uniform(-r, r), z0 if planar else rng.uniform(-r, r))

    paths = []
    for _ in range(rng.choice([1, 1, 2, 3])):
        p = Path(pnt())
        for _ in range(rng.randint(1, 6)):
            c = rng.choice(["l", "l", "c3", "c4", "c4", "c4-r1", "c4-r2", "c4-both", "c3-r"])
            cur = tuple(p.end)
            if c == "l":
                p.line_to(pnt())
            elif c == "c3":
                p.curve3_to(pnt(), pnt())
            elif c == "c4":
                p.curve4_to(pnt(), pnt(), pnt())
            elif c == "c4-r1":  # retracted first handle: ctrl1 == start (still a curve)
                p.curve4_to(pnt(), cur, pnt())
            elif c == "c4-r2":  # retracted second handle: ctrl2 == end (still a curve)
                e_ = pnt()
                p.curve4_to(e_, pnt(), e_)
            elif c == "c4-both":  # both handles retracted: a straight line stored as a cubic
                e_ = pnt()
                p.curve4_to(e_, cur, e_)
            else:  # quadratic with the control point on the start point: a straight line
                p.curve3_to(pnt(), cur)
        if rng.random() < 0.4:
            p.close()
        paths.append(p)
    return paths


def _verts(it):
    return [key3(v) for v in it]


def _dedupe(vs, tol=1e-9):
    out = []
    for v in vs:
        if not out or max(abs(a - b) for a, b in zip(out[-1], v)) > tol:
            out.append(v)
    return out


def _same(a, b, tol):
    return len(a) == len(b) and all(max(abs(x - y) for x, y in zip(p, q)) <= tol for p, q in zip(a, b))


def _hausdorff(a, b):
    return float(max(poly_dist(a, b).max(), poly_dist(b, a).max()))


def oracle_roundtrip(ctx):
    from ezdxf.path import (Path, make_path, to_polylines3d, to_polylines2d, to_lwpolylines, to_hatches, to_splines_and_polylines,
                            to_lines, to_multi_path, from_hatch)
    from ezdxf.path import nesting, Command
    from ezdxf.math import Vec3
    from ezdxf.npshapes import NumpyPath2d

    st = "O6 path -> entities -> path round trips (polylines 2D/3D, hatches, splines, lines, multi-paths, nesting)"
    rng = ctx.rng("roundtrip")
    for i in range(ctx.n(170, 3000)):
        planar = rng.random() < 0.6
        paths = random_paths(ctx, rng, planar)
        d = rng.choice(TOLERANCES)
        segs = rng.choice([1, 2, 4, 4, 8])
        size = _scale(*[c for p in paths for v in p.control_vertices() for c in v])
        tol = 1e-9 * size
        rep = {"op": "roundtrip", "id": str(i), "planar": planar, "distance": d, "segments": segs,
               "paths": [[(c.type.name, [list(map(float, v)) for v in ([c.end] if not hasattr(c, "ctrl") and not hasattr(c, "ctrl1") else
                                                                         ([c.ctrl, c.end] if hasattr(c, "ctrl") else [c.ctrl1, c.ctrl2, c.end]))])
                          for c in p.commands()] + [("START", [list(map(float, p.start))])] for p in paths]}
        ctx.count(st, repr(rep), True)
        flats = [_verts(p.flattening(d, segs)) for p in paths]

        def fail(what, msg):
            ctx.fail(f"roundtrip/{what}/{i}", f"{what} {msg}; input {str(rep)[:600]}", rep)

        # --- 3D polylines
        ctx.hist(st, "to_polylines3d")
        ents = list(to_polylines3d(paths, distance=d, segments=segs))
        back = [_verts(make_path(e).flattening(d, segs)) for e in ents]
        if len(back) != len(paths) or any(not _same(_dedupe(a), _dedupe(b), tol) for a, b in zip(flats, back)):
            fail("to_polylines3d", "does not reproduce the flattened vertices")
        # --- multi path: same vertices as the concatenation, sub_paths() gives the parts back
        mp = to_multi_path(paths)
        ctx.hist(st, "multi-path")
        subs = list(mp.sub_paths())
        if len(subs) != len(paths) or any(not _same(_verts(a.flattening(d, segs)), f, tol) for a, f in zip(subs, flats)):
            fail("multi-path", "sub_paths() of to_multi_path() differ from the parts")
        cat = [v for f in flats for v in f]
        if not _same(_verts(mp.flattening(d, segs)), cat, tol):
            fail("multi-path-flattening", "flattening of the multi-path is not the concatenation of the parts")
        # --- LINE entities
        ctx.hist(st, "to_lines")
        lines = list(to_lines(paths, distance=d, segments=segs))
        chain, k = [], 0
        okl = True
        for f in flats:
            for a, b in zip(f, f[1:]):
                if k >= len(lines) or not _same([key3(lines[k].dxf.start), key3(lines[k].dxf.end)], [a, b], tol):
                    okl = False
                k += 1
        if not okl or k != len(lines):
            fail("to_lines", "LINE entities are not the chords of the flattened paths")
        # --- splines and polylines: geometry of every path is reproduced
        ctx.hist(st, "to_splines_and_polylines")
        for p, f in zip(paths, flats):
            ents = list(to_splines_and_polylines([p]))
            ref = np_arr(_verts(p.flattening(1e-4 * size, 16)))
            parts = []
            for e in ents:
                parts.extend(_verts(make_path(e).flattening(1e-4 * size, 16)))
            if not parts:
                fail("to_splines_and_polylines", "no entities")
                continue
            h = _hausdorff(np_arr(parts), ref)
            has_z_lines = (not planar or any(abs(v[2]) > 0 for v in f)) and any(c.type == Command.LINE_TO for c in p.commands())
            cls = "3d-lines-lose-z" if has_z_lines else "other"
            if h > 1e-3 * size:
                ctx.fail(f"roundtrip/to_splines_and_polylines/{cls}/{i}", f"to_splines_and_polylines -> make_path deviates {h!r} from the path "
                         f"(size {size!r}); input {str(rep)[:500]}", rep)
            elif max(abs(a - b) for a, b in zip(parts[0], key3(p.start))) > 1e-6 * size or max(abs(a - b) for a, b in zip(parts[-1], key3(p.end))) > 1e-6 * size:
                ctx.fail(f"roundtrip/to_splines_and_polylines/{cls}/ends/{i}", f"to_splines_and_polylines -> make_path: start/end not kept "
                         f"({parts[0]} .. {parts[-1]} vs {key3(p.start)} .. {key3(p.end)}); input {str(rep)[:400]}", rep)
        if not planar:
            continue
        z = paths[0].start.z
        # --- 2D polylines / lwpolylines (WCS z-axis extrusion, elevation = z of the first start point)
        for name, fn in (("to_lwpolylines", to_lwpolylines), ("to_polylines2d", to_polylines2d)):
            ctx.hist(st, name)
            ents = list(fn(paths, distance=d, segments=segs))
            back = [_verts(make_path(e).flattening(d, segs)) for e in ents]
            if len(back) != len(paths) or any(not _same(_dedupe(a), _dedupe(b), tol) for a, b in zip(flats, back)):
                fail(name, "does not reproduce the flattened vertices")
        # --- NumpyPath2d twin of Path.flattening (z dropped)
        ctx.hist(st, "NumpyPath2d")
        for p, f in zip(paths, flats):
            nv = [key3(v) for v in NumpyPath2d(p).flattening(d, segs)]
            if not _same(nv, [(a, b, 0.0) for a, b, _ in f], tol):
                fail("NumpyPath2d", "flattening differs from Path.flattening")
        # --- hatches: closed versions of the paths; every path comes back as one boundary path
        for edge in (False, True):
            name = "to_hatches-edge" if edge else "to_hatches-poly"
            ctx.hist(st, name)
            cl = [p.clone() for p in paths]
            for p in cl:
                p.close()
            try:
                hs = list(to_hatches([p.clone() for p in cl], edge_path=edge, distance=d, segments=segs))
            except Exception as ex:  # noqa
                fail(name, f"raised {type(ex).__name__}: {ex}")
                continue
            got = [bp for h in hs for bp in from_hatch(h)]
            if len(got) != len(cl):
                fail(name, f"{len(cl)} paths went in, {len(got)} boundary paths came back")
                continue
            fine = 1e-4 * size
            refs = [np_arr(_verts(p.flattening(fine if edge or not p.has_curves else d, 16 if edge or not p.has_curves else segs))) for p in cl]
            for g in got:
                gv = np_arr(_verts(g.flattening(fine, 16)))
                best = min(_hausdorff(gv, r) for r in refs)
                if best > (1e-3 * size if edge else 1e-6 * size):
                    fail(name, f"a boundary path deviates {best!r} from every input path")
                    break
            # z of all boundary paths is the elevation of the first start point
            if any(abs(v.z - z) > tol for g in got for v in g.control_vertices()):
                fail(name + "-elevation", "elevation not kept")
    # --- nesting: hole and island detection used by to_hatches
    rng2 = ctx.rng("nesting")
    for i in range(ctx.n(120, 1500)):
        ctx.hist(st, "nesting")

        def rect(cx, cy, w, h):
            from ezdxf.path import from_vertices

            return from_vertices([(cx - w, cy - h), (cx + w, cy - h), (cx + w, cy + h), (cx - w, cy + h)], close=True)

        cx, cy = rng2.uniform(-50, 50), rng2.uniform(-50, 50)
        outer = rect(cx, cy, 20, 20)
        hole = rect(cx + rng2.uniform(-5, 5), cy + rng2.uniform(-5, 5), 8, 8)
        island = rect(hole.start.x + 8, hole.start.y + 8, 2, 2)
        apart = rect(cx + 100, cy, 5, 5)
        items = [outer, hole, island, apart]
        rng2.shuffle(items)
        ctx.count(st, ("nesting", cx, cy, i), True)
        groups = nesting.group_paths(items)
        sizes = sorted(len(g) for g in groups)
        hs = list(to_hatches([p.clone() for p in items], edge_path=False))
        nb = sorted(len(h.paths) for h in hs)
        big = max(groups, key=len)
        # documented structure: separated polygons, each a flat list [exterior, holes ... nested islands]
        order_ok = len(big) == 3 and big[0] is outer and set(map(id, big[1:])) == {id(hole), id(island)}
        poly = nesting.make_polygon_structure(items)
        nested = [pg for pg in poly if pg[0] is outer]
        nest_ok = len(nested) == 1 and len(nested[0]) == 2 and nested[0][1][0] is hole and nested[0][1][1][0] is island
        ext_flags = sorted(sum(1 for bp in h.paths if bp.path_type_flags & 1) for h in hs)
        if sizes != [1, 3] or nb != [1, 3] or not order_ok or not nest_ok or ext_flags != [1, 1]:
            ctx.fail(f"roundtrip/nesting/{i}", f"outer+hole+island+separate: groups {sizes}, hatch boundary counts {nb}, exterior flags {ext_flags}, "
                     f"order_ok={order_ok} nest_ok={nest_ok}; expected [1, 3]", {"op": "nesting", "cx": cx, "cy": cy})


def np_arr(vs):
    return _np().array(vs, dtype=float).reshape(-1, 3)



def oracle_far_circle(ctx):
    """full circles given as closed LWPOLYLINE of two bulge=1 vertices (the usual way CAD applications write a circle as
    polyline) at a distance from the origin where the whole circle lies within the default `isclose` tolerance
    (diameter <= 1e-9 * |coordinate|): the path must still run once around the whole circle"""
    import ezdxf
    from ezdxf.path import make_path

    np = _np()
    st = "O7 make_path(full circle LWPOLYLINE) far from the origin: the path covers the whole circle"
    rng = ctx.rng("far-circle")
    doc = ezdxf.new()
    msp = doc.modelspace()
    for i in range(ctx.n(60, 400)):
        mag = 10.0 ** rng.uniform(3, 8)
        cx, cy = mag * rng.uniform(0.5, 1.0), mag * rng.uniform(0.05, 1.0)
        rel = 10.0 ** rng.uniform(-9.4, -6)  # diameter relative to the coordinate magnitude (above IS_CLOSE_TOL = 1e-10)
        r = max(abs(cx), abs(cy)) * rel / 2
        pts = [(cx - r, cy, 1.0), (cx + r, cy, 1.0)]
        e = msp.add_lwpolyline(pts, format="xyb", close=True)
        rep = {"op": "far-circle", "points": pts, "id": str(i)}
        ctx.hist(st, "within-isclose" if rel <= 1e-9 else "regular")
        ctx.count(st, repr(pts), True)
        try:
            P = make_path(e)
            R = np.array([key3(v) for v in bounded(P.flattening(r * 1e-3, segments=8))])
        except Exception as ex:  # noqa
            ctx.fail(f"make_path/raise/LWPOLYLINE-far-circle/{type(ex).__name__}/{i}", f"make_path(full circle LWPOLYLINE) {rep} raised {ex!r}", rep)
            continue
        if len(R) == 0:
            ctx.fail(f"make_path/empty/LWPOLYLINE-far-circle/{i}", f"make_path(full circle LWPOLYLINE) {rep} returned an empty path", rep)
            continue
        ymax, ymin = R[:, 1].max() - pts[0][1], R[:, 1].min() - pts[0][1]
        eps = 0.05 * r + 4 * math.ulp(max(abs(cx), abs(cy)))
        if not (abs(ymax - r) <= eps and abs(ymin + r) <= eps):
            ctx.fail(f"make_path/far-circle/{i}",
                     f"make_path(closed LWPOLYLINE {pts}, both bulges 1 = full circle of radius {r!r}): the path covers y in "
                     f"[{ymin!r}, {ymax!r}] around the centre line, expected [-{r!r}, {r!r}] ({len(P)} commands)", rep)


def oracle_multi_consumers(ctx):
    """multi-paths built in every way the API offers (move_to, extend_multi_path, to_multi_path, append_path of a MULTI-path,
    sub-paths that begin with a curve) and everything that consumes `has_sub_paths` / the command stream: the flag, single_paths,
    to_polylines3d / to_lwpolylines / to_lines / to_hatches / to_splines_and_polylines, NumpyPath2d (flattening, sub_paths)."""
    from ezdxf.path import (Path, Command, make_path, to_polylines3d, to_lwpolylines, to_lines, to_hatches,
                            to_splines_and_polylines, to_multi_path, single_paths, from_hatch)
    from ezdxf.npshapes import NumpyPath2d

    st = "O8 multi-paths (incl. append_path of a multi-path, sub-paths starting with a curve) through every consumer of has_sub_paths; NumpyPath2d twin"
    rng = ctx.rng("multi-consumers")
    for i in range(ctx.n(160, 2500)):
        planar = rng.random() < 0.7
        parts = []
        while len(parts) < 2:  # one call = one common z for planar paths
            parts = [p for p in random_paths(ctx, rng, planar) if len(p)]
        if rng.random() < 0.5:  # make a sub-path begin with a curve
            q = Path(parts[-1].start)
            e_ = tuple(parts[-1].end)
            if rng.random() < 0.5:
                q.curve4_to(e_, tuple(parts[0].end), tuple(parts[0].start))
            else:
                q.curve3_to(e_, tuple(parts[0].end))
            parts[-1] = q
        how = rng.choice(["to_multi_path", "extend", "append-multi", "append-multi", "move_to"])
        if how == "to_multi_path":
            mp = to_multi_path(parts)
        elif how == "extend":
            mp = parts[0].clone()
            mp.extend_multi_path(to_multi_path(parts[1:]))
        elif how == "append-multi":
            # head.append_path(tail) with a MULTI-path tail: a bridging line to tail.start, then the tail with its MOVE_TOs
            mp = parts[0].clone()
            tail = to_multi_path(parts[1:])
            bridge = not mp.end.isclose(tail.start)
            mp.append_path(tail)
            first = parts[0].clone()
            if bridge:
                first.line_to(tail.start)
            subs_t = list(tail.sub_paths())
            for c in subs_t[0].commands():
                first.append_path_element(c)
            parts = [first] + subs_t[1:]
        else:
            mp = parts[0].clone()
            for q in parts[1:]:
                mp.move_to(q.start)
                for c in q.commands():
                    mp.append_path_element(c)
        d = rng.choice(TOLERANCES)
        segs = rng.choice([1, 2, 4, 8])
        size = _scale(*[c for p in parts for v in p.control_vertices() for c in v])
        tol = 1e-9 * size
        rep = {"op": "multi-consumers", "id": str(i), "how": how, "planar": planar, "distance": d, "segments": segs,
               "parts": [[tuple(map(float, p.start))] + [(c.type.name,) + tuple(tuple(map(float, v)) for v in c) for c in p.commands()] for p in parts]}
        ctx.hist(st, how)
        ctx.count(st, repr(rep), True)
        flats = [_verts(p.flattening(d, segs)) for p in parts]

        def fail(what, msg):
            ctx.fail(f"multi/{what}/{how}/{i}", f"{what} ({how}): {msg}; input {str(rep)[:700]}", rep)

        n_moves = sum(1 for c in mp.command_codes() if c == Command.MOVE_TO)
        if mp.has_sub_paths != (n_moves > 0):
            fail("has_sub_paths", f"has_sub_paths is {mp.has_sub_paths} but the path has {n_moves} MOVE_TO commands")
        sp = list(single_paths([mp]))
        if len(sp) != len(parts):
            fail("single_paths", f"{len(sp)} single paths for {len(parts)} sub-paths")
        if not _same(_verts(mp.flattening(d, segs)), [v for f in flats for v in f], tol):
            fail("flattening", "flattening of the multi-path is not the concatenation of its parts")
        ents = list(to_polylines3d([mp], distance=d, segments=segs))
        back = [_verts(make_path(e).flattening(d, segs)) for e in ents]
        # a sub-path whose flattening collapses to one point (closed curve inside the tolerance) comes back empty: from_vertices
        if len(back) != len(parts) or any(not _same(_dedupe(a), _dedupe(b), tol) for a, b in zip(flats, back) if len(_dedupe(a)) > 1):
            fail("to_polylines3d", f"{len(back)} polylines for {len(parts)} sub-paths / vertices differ (a gap drawn as a segment?)")
        lines = list(to_lines([mp], distance=d, segments=segs))
        want = sum(len(f) - 1 for f in flats)
        if len(lines) != want:
            fail("to_lines", f"{len(lines)} LINE entities, the sub-paths have {want} chords")
        try:
            sents = list(to_splines_and_polylines([mp]))
            if not sents:
                fail("to_splines_and_polylines", "no entities")
        except Exception as ex:  # noqa
            fail("to_splines_and_polylines", f"raised {type(ex).__name__}: {ex}")
        if planar:
            ents = list(to_lwpolylines([mp], distance=d, segments=segs))
            if len(ents) != len(parts):
                fail("to_lwpolylines", f"{len(ents)} LWPOLYLINE entities for {len(parts)} sub-paths")
            try:
                hs = list(to_hatches([mp.clone()], edge_path=False, distance=d, segments=segs))
                got = [bp for h in hs for bp in from_hatch(h)]
                if len(got) != len(parts):
                    fail("to_hatches", f"{len(parts)} sub-paths went in, {len(got)} boundary paths came back")
            except Exception as ex:  # noqa
                fail("to_hatches", f"raised {type(ex).__name__}: {ex}")
        if not planar:
            continue  # NumpyPath2d projects to the xy-plane BEFORE flattening: only comparable for z = const
        # NumpyPath2d twin: flattening == Path.flattening (z dropped) == concatenation of its own sub-paths
        npp = NumpyPath2d(mp)
        nv = [key3(v) for v in npp.flattening(d, segs)]
        if not _same(nv, [(a, b, 0.0) for f in flats for a, b, _ in f], tol):
            fail("NumpyPath2d-flattening", "NumpyPath2d.flattening differs from Path.flattening of the same multi-path")
        nsub = npp.sub_paths()
        if len(nsub) != len(parts) or any(not _same([key3(v) for v in a.flattening(d, segs)], [(x, y, 0.0) for x, y, _ in f], tol)
                                          for a, f in zip(nsub, flats)):
            fail("NumpyPath2d-sub_paths", "NumpyPath2d.sub_paths() differ from the parts")
        if npp.has_sub_paths != (n_moves > 0):
            fail("NumpyPath2d-has_sub_paths", "flag differs from the commands")
        # NumpyPoints2d / NumpyShape2d: vertices, extents, transform_inplace against Path.transform (2D affine map)
        from ezdxf.npshapes import NumpyPoints2d
        from ezdxf.math import Matrix44, Vec2

        cvs = mp.control_vertices()
        pts2 = NumpyPoints2d(cvs)
        if [tuple(v) for v in pts2.vertices()] != [(v.x, v.y) for v in cvs] or len(pts2) != len(cvs):
            fail("NumpyPoints2d-vertices", "vertices() differ from the projected input points")
        lo, hi = pts2.extents()
        lo2, hi2 = npp.extents()
        xs, ys = [v.x for v in cvs], [v.y for v in cvs]
        if (tuple(lo), tuple(hi)) != ((min(xs), min(ys)), (max(xs), max(ys))) or (tuple(lo2), tuple(hi2)) != (tuple(lo), tuple(hi)):
            fail("NumpyShape2d-extents", "extents are not the min/max of the control vertices")
        m = Matrix44.z_rotate(rng.uniform(0, 6.28)) @ Matrix44.scale(rng.uniform(0.5, 2), rng.uniform(0.5, 2), 1) @ Matrix44.translate(rng.uniform(-9, 9), rng.uniform(-9, 9), 0)
        want = [Vec2(v) for v in mp.transform(m).control_vertices()]
        t1, t2 = npp.clone(), pts2.clone()
        t1.transform_inplace(m)
        t2.transform_inplace(m)
        if any(not a.isclose(b, abs_tol=1e-9 * size) for a, b in zip(t1.vertices(), want)) or \
                any(not a.isclose(b, abs_tol=1e-9 * size) for a, b in zip(t2.vertices(), want)) or len(t1.vertices()) != len(want):
            fail("NumpyShape2d-transform", "transform_inplace differs from Path.transform")
        if [int(c) for c in t1.command_codes()] != [int(c) for c in mp.command_codes()]:
            fail("NumpyPath2d-transform-commands", "commands changed by transform_inplace")


def oracle(ctx):
    oracle_multi_consumers(ctx)
    oracle_far_circle(ctx)
    oracle_arcs(ctx)
    oracle_bezier(ctx)
    oracle_bspline(ctx)
    oracle_ellipse(ctx)
    oracle_make_path(ctx)
    oracle_roundtrip(ctx)


def replay(ctx, rep):
    """re-evaluate the recorded failing inputs: the oracle streams are deterministic functions of (seed, tier), so the
    streams are rerun with the recorded seed and the recorded keys are looked up among the failures of this run"""
    ctx.seed = int(rep.get("seed", ctx.seed))
    ctx.tier = rep.get("tier", ctx.tier)
    want = [f["key"] for f in rep.get("failing_inputs", [])]
    if not want:
        return True, "no failing inputs recorded (broken obligation only)"
    oracle(ctx)
    now = {f.key for f in ctx.failures}
    still = [k for k in want if k in now]
    return (not still, "; ".join(still[:5]) or "all recorded failing inputs pass now")

"""C01  Save/load round trip preserves the whole document (DESIGN.md section 7, C01)."""
from __future__ import annotations

import io
import logging
import math
import os
import struct
import subprocess
import sys

from leanfmt import lean_list

ID = "C01"
LEAN_MODULES = ["EzdxfVerif.Props.C01"]
DRIVER_DEPS = ["EzdxfVerif.Model.Schema", "EzdxfVerif.Gen.Schemas", "Drivers.Proto"]
VERSIONS = ["AC1009", "AC1015", "AC1018", "AC1021", "AC1024", "AC1027", "AC1032"]
VNAME = {"AC1009": "R12", "AC1015": "R2000", "AC1018": "R2004", "AC1021": "R2007", "AC1024": "R2010",
         "AC1027": "R2013", "AC1032": "R2018"}

logging.getLogger("ezdxf").setLevel(logging.CRITICAL)


# ====================================================================================== small helpers
def enc_name(s: str) -> int:
    """interned name: big-endian base-256 value of the UTF-8 bytes (injective for names without leading NUL)"""
    return int.from_bytes(s.encode("utf8"), "big")


def dec_name(n: int) -> str:
    return n.to_bytes((n.bit_length() + 7) // 8, "big").decode("utf8", "replace")


def vernum(v: str) -> int:
    if not (len(v) == 6 and v.startswith("AC") and v[2:].isdigit()):
        raise ValueError(f"unexpected DXF version string {v!r}")
    return int(v[2:])


def fbits(x: float) -> int:
    return struct.unpack("<Q", struct.pack("<d", float(x)))[0]


def bits2f(b: int) -> float:
    return struct.unpack("<d", struct.pack("<Q", b))[0]


# ====================================================================================== the zoo
SAT = ["400 0 1 0", "0 end-of-ACIS-data"]


def build_zoo(doc, note=None):
    """One instance of (almost) every registered entity type inside `doc`, created through the public
    factory API (layout.add_*, table.new/add, objects.add_*, new_entity for types without a factory method).
    Returns {dxftype: entity}.  Factory methods that the document version does not support are skipped."""
    import ezdxf
    from ezdxf.entities import factory, DXFGraphic, DXFObject
    from ezdxf.math import Vec2

    msp = doc.modelspace()
    z: dict = {}

    def put(e, name=None):
        if e is not None:
            z.setdefault(name or e.dxftype(), e)
        return e

    def attempt(fn):
        try:
            return fn()
        except (ezdxf.DXFVersionError, ezdxf.DXFValueError, ezdxf.DXFKeyError, AttributeError, KeyError, TypeError) as ex:
            if note:
                note(f"zoo: {type(ex).__name__} {str(ex)[:60]}")
            return None

    put(msp.add_line((0, 0), (1, 1)))
    put(msp.add_point((1, 2, 3)))
    put(msp.add_circle((0, 0), 1))
    put(msp.add_arc((0, 0), 1, 10, 20))
    put(msp.add_solid([(0, 0), (1, 0), (1, 1), (0, 1)]))
    put(msp.add_trace([(0, 0), (1, 0), (1, 1), (0, 1)]))
    put(msp.add_3dface([(0, 0), (1, 0), (1, 1), (0, 1)]))
    put(msp.add_text("text"))
    blk = doc.blocks.new("ZOOBLK")
    put(blk.block, "BLOCK")
    put(blk.endblk, "ENDBLK")
    put(blk.block_record, "BLOCK_RECORD")
    put(blk.add_attdef("TAG1", (0, 0), "def"))
    ins = put(msp.add_blockref("ZOOBLK", (1, 1)))
    put(ins.add_attrib("TAG1", "val", (0, 0)))
    put(ins.seqend, "SEQEND")
    pl = put(msp.add_polyline2d([(0, 0), (1, 0), (1, 1)]))
    put(pl.vertices[0], "VERTEX")
    put(msp.add_shape("S", (0, 0)))
    put(attempt(lambda: msp.add_ellipse((0, 0), (2, 0), 0.5)))
    put(attempt(lambda: msp.add_lwpolyline([(0, 0, 0, 0, 0.5), (1, 0, 0.1, 0.2, 0), (1, 1)])))
    put(attempt(lambda: msp.add_mtext("mtext content")))
    put(attempt(lambda: msp.add_ray((0, 0), (1, 0))))
    put(attempt(lambda: msp.add_xline((0, 0), (1, 0))))
    put(attempt(lambda: msp.add_spline([(0, 0), (1, 1), (2, 0), (3, 1)])))
    for name in ("add_body", "add_region", "add_3dsolid", "add_surface", "add_extruded_surface", "add_lofted_surface",
                 "add_revolved_surface", "add_swept_surface"):
        e = put(attempt(getattr(msp, name)))
        if e is not None:
            e.sat = SAT

    def hatch():
        h = msp.add_hatch(color=2)
        h.paths.add_polyline_path([(0, 0, 0.5), (1, 0), (1, 1)], is_closed=True)
        ep = h.paths.add_edge_path()
        ep.add_line((0, 0), (1, 0))
        ep.add_arc((0, 0), 1, 0, 90)
        ep.add_ellipse((0, 0), (1, 0), 0.5, 0, 90)
        ep.add_spline(control_points=[(0, 0), (1, 1), (2, 0), (3, 1)], knot_values=[0, 0, 0, 0, 1, 1, 1, 1], degree=3)
        return h

    put(attempt(hatch))

    def mpolygon():
        mp = msp.add_mpolygon()
        mp.paths.add_polyline_path([(0, 0), (1, 0), (1, 1)], is_closed=True)
        return mp

    put(attempt(mpolygon))

    def mesh():
        m = msp.add_mesh()
        with m.edit_data() as md:
            md.vertices = [(0, 0, 0), (1, 0, 0), (1, 1, 0), (0, 1, 0)]
            md.faces = [(0, 1, 2, 3)]
        return m

    put(attempt(mesh))

    def image():
        imgdef = put(doc.add_image_def("img.png", (100, 100)))
        img = put(msp.add_image(imgdef, (0, 0), (1, 1)))
        for r in doc.objects.query("IMAGEDEF_REACTOR"):
            put(r)
        return img

    attempt(image)
    put(attempt(lambda: msp.add_wipeout([(0, 0), (1, 1)])))
    for fmt in ("pdf", "dwf", "dgn"):
        def underlay(fmt=fmt):
            ud = put(doc.add_underlay_def("x." + fmt, fmt=fmt, name="1"))
            return msp.add_underlay(ud, (0, 0))
        put(attempt(underlay))

    def lindim():
        d = msp.add_linear_dim((0, 2), (0, 0), (3, 0))
        d.render()
        return d.dimension

    put(attempt(lindim))

    def arcdim():
        d = msp.add_arc_dim_cra((0, 0), 3, 10, 60, 1)
        d.render()
        return d.dimension

    put(attempt(arcdim))
    put(attempt(lambda: msp.add_leader([(0, 0), (1, 1), (2, 1)])))

    def mleader():
        from ezdxf.render import mleader as _mld
        ml = msp.add_multileader_mtext("Standard")
        ml.set_content("ml")
        ml.add_leader_line(_mld.ConnectionSide.left, [Vec2(0, 0)])
        ml.build(Vec2(3, 3))
        return ml.multileader

    put(attempt(mleader))
    put(attempt(lambda: msp.add_mline([(0, 0), (1, 0), (1, 1)])))
    put(attempt(lambda: msp.add_helix(1, 1, 2)))
    put(attempt(lambda: doc.layout("Layout1").add_viewport((0, 0), (1, 1), (0, 0), 1)))
    # tables
    put(doc.layers.add("ZLAYER"))
    put(doc.layers.head, "TABLE")
    put(doc.linetypes.add("ZLT", [0.2, 0.1, -0.1], description="zlt"))
    put(doc.styles.add("ZSTYLE", font="arial.ttf"))
    put(doc.dimstyles.new("ZDIM"))
    put(doc.appids.add("ZAPP"))
    put(doc.ucs.new("ZUCS"))
    put(doc.views.new("ZVIEW"))
    put(doc.viewports.new("ZVP"))
    # objects
    if doc.dxfversion > "AC1009":
        root = doc.rootdict
        put(root, "DICTIONARY")
        put(attempt(lambda: doc.objects.add_dictionary_with_default(root.dxf.handle, "0")))
        put(attempt(lambda: doc.objects.add_dictionary_var(root.dxf.handle, "v")))
        put(attempt(lambda: doc.objects.add_xrecord(root.dxf.handle)))
        put(attempt(lambda: doc.objects.add_placeholder(root.dxf.handle)))
        put(attempt(lambda: doc.groups.new("ZGRP")))
        put(attempt(lambda: doc.materials.new("ZMAT")))
        put(attempt(lambda: doc.mline_styles.new("ZMLS")))
        put(attempt(lambda: doc.mleader_styles.new("ZMLDS")))
        put(attempt(lambda: msp.new_geodata()))
        attempt(lambda: msp.set_redraw_order([(z["LINE"].dxf.handle, "FF")]))
        attempt(lambda: doc.classes.add_class("IMAGE"))
        for c in doc.classes:
            put(c, "CLASS")
            break
        for e in list(doc.objects):
            put(e)
    # every other registered type: the generic factory entry points of layouts / the objects section
    for dxftype, cls in sorted(factory.ENTITY_CLASSES.items()):
        if dxftype in z:
            continue
        if issubclass(cls, DXFGraphic):
            put(attempt(lambda: msp.new_entity(dxftype, {})), dxftype)
        elif issubclass(cls, DXFObject) and doc.dxfversion > "AC1009":
            put(attempt(lambda: doc.objects.new_entity(dxftype, {})), dxftype)
    return z


# ====================================================================================== value classes
F_VALUES = [1.5, 0.5, 2.0, 0.25, -0.0, 5e-324, 2.2250738585072014e-308, 1234567.8901234567, 0.1, 1 / 3, -9.87654321e-5,
            1.7976931348623157e308, 123456789012345678.0, 0.0, 1.0, -1.0]
I_VALUES = {
    "bytes": [1, 0, 255, 127],
    "int16": [1, 2, 3, 0, 5, 7, 13, 16, 64, 32767, -32768, -1, 255, 256],
    "int32": [1, 2, 0, 65536, 2 ** 31 - 1, -(2 ** 31), -1, 0x02000080, 0x00FFFFFF],
    "int64": [1, 0, 2 ** 32, 2 ** 63 - 1, -(2 ** 63), -1],
}
S_VALUES = ["X1", "Standard", "0", "", "a" * 249, "b" * 250, "c" * 251, "d" * 254 + "^", "e" * 255, "f" * 256,
            "g" * 2048, "h" * 2049 + "^", "i" * 2050, "caret^ ^J^M^I", "ä€ß 中", " lead", "trail ",
            "%%c %%d 100%", "q\"uote back\\slash", "{[(;,)]}"]
P_VALUES = [(1.0, 2.0, 3.0), (0.0, 0.0, 1.0), (1.0, 0.0, 0.0), (-0.0, 5e-324, 1e300), (1 / 3, 0.1, -2.5), (0.0, 0.0, 0.0),
            (1234567.8901234567, -1e-9, 7.0)]


def int_kind(code: int) -> str:
    from ezdxf.lldxf import types as T

    for k, st in (("bytes", T.BYTES), ("int16", T.INT16), ("int32", T.INT32), ("int64", T.INT64)):
        if code in st:
            return k
    return ""


def value_class(code: int) -> str:
    from ezdxf.lldxf import types as T

    if code in T.POINT_CODES:
        return "point"
    t = T.TYPE_TABLE.get(code, str)
    return {int: "int", float: "float", str: "str"}[t]


def candidates(attr, cls_override=None):
    """values of the class of the attribute's group code, in a fixed order"""
    from ezdxf.lldxf import types as T
    from ezdxf.lldxf.attributes import XType
    from ezdxf.math import Vec3

    code = attr.code
    vc = value_class(code)
    if vc == "point":
        pts = [Vec3(p) for p in P_VALUES]
        if attr.xtype == XType.point2d:
            pts = [Vec3(p.x, p.y, 0.0) for p in pts]
        return pts
    if vc == "int":
        return list(I_VALUES[int_kind(code)])
    if vc == "float":
        return list(F_VALUES)
    if code in T.HEX_HANDLE_CODES:
        return ["FEFE", "0", "ABCDEF01", "1F"]
    return list(S_VALUES)


# attributes whose value must name an existing resource, otherwise export_dxf itself raises
SPECIAL_VALUES = {
    ("DIMSTYLE", "dimtxsty"): ["ZSTYLE", "Standard"],
    ("DIMSTYLE", "dimblk"): ["ZOOBLK"],
    ("DIMSTYLE", "dimblk1"): ["ZOOBLK"],
    ("DIMSTYLE", "dimblk2"): ["ZOOBLK"],
    ("DIMSTYLE", "dimldrblk"): ["ZOOBLK"],
    ("DIMSTYLE", "dimltype"): ["ZLT", "CONTINUOUS"],
    ("DIMSTYLE", "dimltex1"): ["ZLT", "CONTINUOUS"],
    ("DIMSTYLE", "dimltex2"): ["ZLT", "CONTINUOUS"],
}


def same_value(a, b) -> bool:
    """bit-exact equality of two attribute values"""
    from ezdxf.math import Vec3, Vec2

    if isinstance(a, (Vec3, Vec2)) or isinstance(b, (Vec3, Vec2)):
        try:
            a3, b3 = Vec3(a), Vec3(b)
        except Exception:  # noqa
            return False
        return all(fbits(p) == fbits(q) for p, q in zip(a3.xyz, b3.xyz))
    if isinstance(a, float) or isinstance(b, float):
        return isinstance(a, (int, float)) and isinstance(b, (int, float)) and fbits(a) == fbits(b)
    return type(a) is type(b) and a == b


def populate(e, salt: int = 0, skip=("handle", "owner")):
    """set every declared non-callback attribute to a value of its class that differs from the default;
    returns {name: value} for the values the setter accepted"""
    from ezdxf.lldxf.attributes import XType

    done = {}
    dxftype = e.dxftype()
    for name, a in e.DXFATTRIBS._attribs.items():
        if a.xtype == XType.callback or name in skip or a.code < 0:
            continue
        cands = SPECIAL_VALUES.get((dxftype, name)) or candidates(a)
        k = len(cands)
        for i in range(k):
            v = cands[(i + salt) % k]
            if a.default is not None and v == a.default:
                continue
            try:
                e.dxf.set(name, v)
            except Exception:  # noqa  validators reject: next candidate
                continue
            done[name] = e.dxf.get(name)
            break
    return done


# ====================================================================================== T-schema tracer
class Trace:
    """event log of one export_dxf call"""

    def __init__(self):
        self.items = []  # ("marker", name) | ("attr", name, wrote: bool, code) | ("raw", code)
        self.cur_attr = None
        self.chunks = []  # text written per item index


def make_trace_writer(trace: Trace, dxfversion: str):
    from ezdxf.lldxf.tagwriter import TagWriter
    from ezdxf.lldxf.tags import Tags
    from ezdxf.lldxf import types as T

    class TraceWriter(TagWriter):
        """the real ASCII TagWriter; every low level call is logged before it is executed"""

        def _log(self, code, value, compiled=False):
            code = int(code)
            if trace.cur_attr is not None:
                trace.cur_attr[2].append(code)
            elif code == 100:
                trace.items.append(["marker", str(value), self._stream.tell()])
            else:
                trace.items.append(["raw", code, self._stream.tell(), value, compiled])

        def write_tag(self, tag):
            if tag.code in T.POINT_CODES and hasattr(tag, "dxftags"):
                self._log(tag.code, None, True)  # one compiled vertex
            else:
                self._log(tag.code, tag.value)
            super().write_tag(tag)

        def write_tag2(self, code, value):
            self._log(code, value)
            super().write_tag2(code, value)

        def write_str(self, s):
            for t in Tags.from_text(s):
                self._log(t.code, t.value)
            super().write_str(s)

        def write_vertex(self, code, vertex):
            vertex = tuple(vertex)
            for i, v in enumerate(vertex):
                self._log(code + 10 * i, v)
            TagWriter.write_tag2  # noqa (documentation: the optimized path writes the same text)
            self._stream.write("".join("%3d\n%s\n" % (code + 10 * i, v) for i, v in enumerate(vertex)))

    stream = io.StringIO()
    w = TraceWriter(stream, dxfversion=dxfversion)
    return w, stream


class Hooks:
    """wrappers around DXFNamespace._export_dxf_attribute_optional and the two generic loaders"""

    def __init__(self):
        self.trace: Trace | None = None
        self.loads = None
        self.installed = False

    def install(self):
        from ezdxf.entities.dxfns import DXFNamespace, SubclassProcessor

        if self.installed:
            return
        self.installed = True
        hooks = self
        self._orig = (DXFNamespace._export_dxf_attribute_optional, SubclassProcessor.fast_load_dxfattribs,
                      SubclassProcessor.simple_dxfattribs_loader)
        o_exp, o_fast, o_simple = self._orig

        def exp(self, tagwriter, name):
            tr = hooks.trace
            if tr is None or tr.cur_attr is not None:
                return o_exp(self, tagwriter, name)
            tr.cur_attr = ["attr", name, [], tagwriter._stream.tell() if hasattr(tagwriter, "_stream") else 0]
            try:
                return o_exp(self, tagwriter, name)
            finally:
                tr.items.append(tr.cur_attr)
                tr.cur_attr = None

        def fast(self, dxf, group_code_mapping, subclass, *, recover=False, log=True):
            if hooks.loads is not None:
                if self.r12:
                    tags = self.subclasses[0]
                elif isinstance(subclass, int):
                    tags = self.subclass_by_index(subclass)
                elif isinstance(subclass, str):
                    tags = self.find_subclass(subclass)
                else:
                    tags = subclass
                before = dict(dxf.__dict__)
                rec = {"kind": "fast", "mapping": group_code_mapping, "arg": subclass if isinstance(subclass, (int, str)) else None,
                       "tags": list(tags) if tags is not None else None, "r12": self.r12, "recover": bool(recover),
                       "subclasses": [list(s) for s in self.subclasses], "before": before}
                hooks.loads.append(rec)
                out = o_fast(self, dxf, group_code_mapping, subclass, recover=recover, log=log)
                rec["after"] = dict(dxf.__dict__)
                rec["unprocessed"] = list(out)
                return out
            return o_fast(self, dxf, group_code_mapping, subclass, recover=recover, log=log)

        def simple(self, dxf, group_code_mapping):
            if hooks.loads is not None:
                rec = {"kind": "simple", "mapping": group_code_mapping, "subclasses": [list(s) for s in self.subclasses],
                       "before": dict(dxf.__dict__), "r12": self.r12}
                hooks.loads.append(rec)
                out = o_simple(self, dxf, group_code_mapping)
                rec["after"] = dict(dxf.__dict__)
                return out
            return o_simple(self, dxf, group_code_mapping)

        DXFNamespace._export_dxf_attribute_optional = exp
        SubclassProcessor.fast_load_dxfattribs = fast
        SubclassProcessor.simple_dxfattribs_loader = simple

    def uninstall(self):
        from ezdxf.entities.dxfns import DXFNamespace, SubclassProcessor

        if not self.installed:
            return
        DXFNamespace._export_dxf_attribute_optional, SubclassProcessor.fast_load_dxfattribs, SubclassProcessor.simple_dxfattribs_loader = self._orig
        self.installed = False


HOOKS = Hooks()


def trace_export(entity, dxfversion: str, force_optional=False):
    """export one entity through the real TagWriter; returns (text of the main entity, segments) or None when the
    entity writes nothing for that version.  segments = [(marker | None, [event, ...])] with
    event = ("attr", name, written: bool, code) | ("raw", code); raw x/y/z runs of point codes are merged like
    tag_compiler does."""
    from ezdxf.lldxf import types as T

    tr = Trace()
    w, stream = make_trace_writer(tr, dxfversion)
    w.force_optional = force_optional
    HOOKS.install()
    HOOKS.trace = tr
    try:
        entity.export_dxf(w)
    finally:
        HOOKS.trace = None
    text = stream.getvalue()
    if not text:
        return None
    items = tr.items
    # the main entity ends where the next structure tag (0, ...) starts (linked sub-entities, SEQEND)
    end_pos = len(text)
    cut = len(items)
    for i, it in enumerate(items):
        # ... or where ExtendedTags ends the subclasses: XDATA (1001) / an embedded object (101, "Embedded Object")
        if i > 0 and it[0] == "raw" and it[1] == 0:
            cut = min(cut, i)
            end_pos = it[2]
            break
        if i > 0 and it[0] == "raw" and (it[1] == 1001 or (it[1] == 101 and str(it[3]).startswith("Embedded Object"))):
            cut = min(cut, i)
    items = items[:cut]
    text = text[:end_pos]
    # merge raw coordinate runs into one compiled vertex
    merged = []
    i = 0
    while i < len(items):
        it = items[i]
        if it[0] == "raw" and it[1] == 102 and len(merged) and not any(m[0] == "marker" for m in merged) and str(it[3]).startswith("{"):
            # application data in the base class: ExtendedTags stores the group elsewhere and leaves one (102, index) tag
            j = i + 1
            while j < len(items) and not (items[j][0] == "raw" and items[j][1] == 102 and str(items[j][3]) == "}"):
                j += 1
            if j >= len(items):
                raise ValueError(f"{entity.dxftype()}: unterminated application data group in the exported stream")
            merged.append(("raw", 102))
            i = j + 1
        elif it[0] == "raw" and it[4]:
            merged.append(("raw", it[1]))
            i += 1
        elif it[0] == "raw" and it[1] in T.POINT_CODES:
            c = it[1]
            n = 1
            if i + 1 < len(items) and items[i + 1][0] == "raw" and items[i + 1][1] == c + 10:
                n = 2
                if i + 2 < len(items) and items[i + 2][0] == "raw" and items[i + 2][1] == c + 20:
                    n = 3
            if n == 1:
                raise ValueError(f"{entity.dxftype()}: x coordinate {c} without y coordinate in the exported stream")
            merged.append(("raw", c))
            i += n
        elif it[0] == "attr":
            codes = it[2]
            if len(codes) > 1:
                raise ValueError(f"{entity.dxftype()}.{it[1]}: more than one tag written for one attribute")
            merged.append(("attr", it[1], bool(codes), codes[0] if codes else None))
            i += 1
        elif it[0] == "marker":
            merged.append(("marker", it[1]))
            i += 1
        else:
            merged.append(("raw", it[1]))
            i += 1
    segs = [(None, [])]
    for it in merged:
        if it[0] == "marker":
            segs.append((it[1], []))
        else:
            segs[-1][1].append(it)
    return text, segs


def written_labels(seg):
    """labels (0 = marker, event i -> i + 1) of the tags a segment actually wrote, in order, with their codes"""
    marker, evs = seg
    out = []
    if marker is not None:
        out.append((0, 100))
    for i, ev in enumerate(evs):
        if ev[0] == "raw":
            out.append((i + 1, ev[1]))
        elif ev[2]:
            out.append((i + 1, ev[3]))
    return out


def trace_load(cls, text: str, segs, doc):
    """load the exported text with the real entity class; returns the list of loader calls as plan steps
    ("fast", mapping, sub, recover, drop) | ("simple", mapping) plus the raw records and the loaded entity"""
    from ezdxf.lldxf.extendedtags import ExtendedTags
    from ezdxf.entities import factory

    xt = ExtendedTags.from_text(text)
    if len(xt.subclasses) != len(segs):
        raise ValueError(f"{cls.DXFTYPE}: {len(segs)} traced subclasses, ExtendedTags found {len(xt.subclasses)}")
    ident = {}
    for k, (sub, seg) in enumerate(zip(xt.subclasses, segs)):
        labs = written_labels(seg)
        if [t.code for t in sub] != [c for _, c in labs]:
            raise ValueError(f"{cls.DXFTYPE}: subclass {k} tags {[t.code for t in sub][:12]} do not align with the trace {[c for _, c in labs][:12]}")
        for t, (lab, _) in zip(sub, labs):
            ident[id(t)] = (k, lab)
    HOOKS.install()
    HOOKS.loads = []
    try:
        ent = factory.load(xt, doc)
    finally:
        recs, HOOKS.loads = HOOKS.loads, None
    steps = []
    for r in recs:
        if r["kind"] == "simple":
            steps.append(("simple", r["mapping"]))
            continue
        tags = r["tags"]
        if tags is None or len(tags) == 0:
            r["skipped"] = True
            continue
        if r["r12"]:
            sub, drop = 0, []
        else:
            ks = {ident.get(id(t), (None, None))[0] for t in tags}
            if len(ks) != 1 or None in ks:
                raise ValueError(f"{cls.DXFTYPE}: fast_load_dxfattribs got tags that are not taken from one subclass")
            sub = ks.pop()
            passed = [ident[id(t)][1] for t in tags]
            if passed != sorted(passed):
                raise ValueError(f"{cls.DXFTYPE}: tags passed to fast_load_dxfattribs are reordered")
            alllabs = [lab for lab, _ in written_labels(segs[sub])]
            drop = [lab for lab in alllabs if lab not in set(passed)]
            if isinstance(r["arg"], str):
                first = next(i for i, s in enumerate(r["subclasses"]) if len(s) and s[0].value == r["arg"])
                if first != sub:
                    raise ValueError("find_subclass did not return the first subclass of that name")
        steps.append(("fast", r["mapping"], sub, r["recover"], drop))
    return steps, recs, ent


# ------------------------------------------------------------------ Lean emission
def lean_val(v) -> str:
    from ezdxf.math import Vec3, Vec2

    if isinstance(v, bool):
        return f"(.int {int(v)})"
    if isinstance(v, int):
        return f"(.int ({v}))" if v < 0 else f"(.int {v})"
    if isinstance(v, float):
        return f"(.dbl {fbits(v)})"
    if isinstance(v, str):
        return "(.str [" + ", ".join(str(ord(c)) for c in v) + "])"
    if isinstance(v, (Vec3, Vec2)):
        v = Vec3(v)
        return f"(.pt {fbits(v.x)} {fbits(v.y)} {fbits(v.z)})"
    if isinstance(v, (bytes, bytearray)):
        return "(.bin [" + ", ".join(str(b) for b in v) + "])"
    raise ValueError(f"value {v!r} of type {type(v).__name__} has no model counterpart")


def lean_int(n: int) -> str:
    return str(n) if n >= 0 else f"({n})"


XT = {None: ".none", "point2d": ".point2d", "point3d": ".point3d", "any_point": ".anyPoint", "callback": ".callback"}


def norm_default(attr, notes, where):
    """declared default normalised to the class of the group code (cast_value); the normalisation must be
    invisible to Python's == (the model compares values of one class only)"""
    from ezdxf.lldxf.types import cast_value

    d = attr.default
    if d is None:
        return None
    try:
        c = cast_value(attr.code, d)
    except Exception as ex:  # noqa
        notes.append(f"{where}: default {d!r} cannot be cast to the class of code {attr.code} ({type(ex).__name__})")
        return None
    if not (c == d):
        notes.append(f"{where}: default {d!r} != cast_value(default) {c!r}")
    return c


def mapping_key(m: dict):
    return tuple(sorted((int(c), tuple(v) if isinstance(v, list) else v) for c, v in m.items()))


def lean_mname(s: str) -> str:
    if s == "":
        raise ValueError("empty attribute name in a group code mapping")
    return f"⟨{enc_name(s)}, {'true' if s[0] == '*' else 'false'}⟩"


def lean_mapping(key) -> str:
    ents = []
    for code, v in key:
        if isinstance(v, tuple):
            ents.append(f"({lean_int(code)}, .many [{', '.join(lean_mname(x) for x in v)}])")
        else:
            ents.append(f"({lean_int(code)}, .one {lean_mname(v)})")
    return "[" + ", ".join(ents) + "]"


def ident(s: str) -> str:
    return "".join(ch if ch.isalnum() else "_" for ch in s)


def collect_schemas(ctx=None):
    """run the tracer over every registered class x every version.
    returns dict with classes, mappings, notes, stats (pure data; emission is separate so that the oracle and the
    correspondence can reuse the plans)"""
    import ezdxf
    from ezdxf.entities import factory
    from ezdxf.lldxf.attributes import XType

    notes: list[str] = []
    doc = ezdxf.new("R2018")
    zoo = build_zoo(doc, notes.append)
    load_docs = {v: ezdxf.new(VNAME[v]) for v in VERSIONS}
    mappings: dict = {}  # key -> index
    classes = []
    stats = {"classes": 0, "attrs": 0, "callbacks": 0, "plans": 0, "no_instance": [], "attrs_exported": 0}
    for dxftype, cls in sorted(factory.ENTITY_CLASSES.items()):
        stats["classes"] += 1
        attrs = []
        for name, a in cls.DXFATTRIBS._attribs.items():
            if a.name != name:
                notes.append(f"{dxftype}.{name}: DXFAttr.name is {a.name!r} (alias)")
            stats["attrs"] += 1
            if a.xtype == XType.callback:
                stats["callbacks"] += 1
            attrs.append({
                "name": name, "code": int(a.code), "xtype": a.xtype.name if a.xtype else None,
                "default": norm_default(a, notes, f"{dxftype}.{name}"), "optional": bool(a.optional),
                "minver": vernum(a.dxfversion), "validator": a.validator is not None, "fixer": a.fixer is not None,
            })
        plans = []
        e = zoo.get(dxftype)
        if e is None:
            stats["no_instance"].append(dxftype)
        else:
            populate(e)
            for ver in VERSIONS:
                try:
                    tr = trace_export(e, ver)
                except Exception as ex:  # noqa  e.g. BLOCK_RECORD refuses DXF R12
                    notes.append(f"{dxftype} {ver}: export_dxf raised {type(ex).__name__}: {str(ex)[:80]}")
                    continue
                if tr is None:
                    continue
                text, segs = tr
                try:
                    steps, _, _ = trace_load(cls, text, segs, load_docs[ver])
                except Exception as ex:  # noqa
                    notes.append(f"{dxftype} {ver}: load trace failed {type(ex).__name__}: {str(ex)[:160]}")
                    continue
                psteps = []
                for st in steps:
                    key = mapping_key(st[1])
                    idx = mappings.setdefault(key, len(mappings))
                    psteps.append(("simple", idx) if st[0] == "simple" else ("fast", idx, st[2], st[3], st[4]))
                plans.append({"ver": vernum(ver), "segs": segs, "loads": psteps})
                stats["plans"] += 1
        exported = {ev[1] for p in plans for _, evs in p["segs"] for ev in evs if ev[0] == "attr"}
        stats["attrs_exported"] += len(exported)
        classes.append({"dxftype": dxftype, "attrs": attrs, "plans": plans, "min_export": vernum(cls.MIN_DXF_VERSION_FOR_EXPORT)})
    return {"classes": classes, "mappings": mappings, "notes": notes, "stats": stats}


def probe_tables():
    """T-tab part: the class cast_value chooses for every group code 0..1071 and the recover table"""
    from ezdxf.lldxf.types import cast_value
    from ezdxf.entities.dxfns import GRAPHIC_ATTRIBUTES_TO_RECOVER
    from ezdxf.math import Vec3

    obs = []
    for code in range(1072):
        try:
            v = cast_value(code, "1")
        except Exception:  # noqa  Vec3("1") raises for point codes
            v = cast_value(code, (1, 2))
        obs.append(3 if isinstance(v, Vec3) else {str: 0, int: 1, float: 2}[type(v)])
    return obs, sorted((int(c), n) for c, n in GRAPHIC_ATTRIBUTES_TO_RECOVER.items())


SRC_FILES = ["src/ezdxf/entities/dxfns.py", "src/ezdxf/lldxf/attributes.py", "src/ezdxf/lldxf/types.py",
             "src/ezdxf/entities/factory.py"]


def entity_sources(ctx):
    import glob

    repo = os.environ.get("VERIF_REPO", "/repo")
    out = []
    for p in sorted(glob.glob(os.path.join(repo, "src/ezdxf/entities/*.py"))):
        rel = os.path.relpath(p, repo)
        ctx.src(rel)
        out.append(rel)
    return out


_SCHEMA_CACHE = {}


def schemas(ctx=None):
    if "data" not in _SCHEMA_CACHE:
        _SCHEMA_CACHE["data"] = collect_schemas(ctx)
    return _SCHEMA_CACHE["data"]


def emit_lean(data) -> str:
    obs, rectbl = probe_tables()
    out = ["import EzdxfVerif.Model.Schema", "", "namespace EzdxfVerif.Gen.Schemas", "open EzdxfVerif.Schema", "",
           "set_option maxRecDepth 100000", ""]
    out.append("/-- GRAPHIC_ATTRIBUTES_TO_RECOVER (dxfns.py) -/")
    out.append("def recoverTable : List (Int × Name) := " + lean_list((f"({c}, {enc_name(n)})" for c, n in rectbl), 6))
    out.append("/-- class of cast_value(code, ·) probed for every group code 0..1071: 0 str, 1 int, 2 float, 3 Vec3 -/")
    out.append("def obsCast : List Nat := " + lean_list((str(x) for x in obs), 40))
    out.append("")
    for key, idx in sorted(data["mappings"].items(), key=lambda kv: kv[1]):
        out.append(f"def m{idx} : Mapping := {lean_mapping(key)}")
    out.append("")
    cnames = []
    for c in data["classes"]:
        nm = ident(c["dxftype"])
        alist = []
        for a in c["attrs"]:
            d = "none" if a["default"] is None else f"(some {lean_val(a['default'])})"
            alist.append(f"⟨{enc_name(a['name'])}, {lean_int(a['code'])}, {XT[a['xtype']]}, {d}, "
                         f"{'true' if a['optional'] else 'false'}, {a['minver']}⟩")
        out.append(f"/-- {c['dxftype']}: " + " ".join(a["name"] for a in c["attrs"])[:2000] + " -/")
        out.append(f"def attrs_{nm} : Schema := " + lean_list(alist, 1))
        plist = []
        for p in c["plans"]:
            segs = []
            for marker, evs in p["segs"]:
                es = ", ".join(f".attr {enc_name(ev[1])}" if ev[0] == "attr" else f".raw {lean_int(ev[1])}" for ev in evs)
                mk = "none" if marker is None else f"(some {enc_name(marker)})"
                segs.append(f"⟨{mk}, [{es}]⟩")
            loads = []
            for st in p["loads"]:
                if st[0] == "simple":
                    loads.append(f".simple m{st[1]}")
                else:
                    loads.append(f".fast m{st[1]} {st[2]} {'true' if st[3] else 'false'} [{', '.join(str(x) for x in st[4])}]")
            plist.append(f"⟨{p['ver']}, [{', '.join(segs)}],\n     [{', '.join(loads)}]⟩")
        out.append(f"def plans_{nm} : List Plan := " + lean_list(plist, 1))
        out.append(f"def c_{nm} : ClassSchema := ⟨{enc_name(c['dxftype'])}, attrs_{nm}, plans_{nm}⟩")
        out.append("")
        cnames.append(f"c_{nm}")
    out.append("/-- every class in ezdxf.entities.factory.ENTITY_CLASSES -/")
    out.append("def classes : List ClassSchema := " + lean_list(cnames, 8))
    out.append("")
    out.append("end EzdxfVerif.Gen.Schemas")
    return "\n".join(out) + "\n"


def regenerate(ctx):
    for s in SRC_FILES:
        ctx.src(s)
    srcs = SRC_FILES + entity_sources(ctx)
    data = schemas(ctx)
    st = data["stats"]
    ctx.note(f"T-schema: {st['classes']} classes, {st['attrs']} declared attributes ({st['callbacks']} callbacks), "
             f"{st['plans']} traced (class, version) plans, {st['attrs_exported']} attributes exported through export_dxf_attribs, "
             f"{len(data['mappings'])} distinct group code mappings; no instance through the public API for {st['no_instance']}")
    for n in data["notes"][:40]:
        ctx.note("T-schema note: " + n)
    ctx.write_gen("Schemas", emit_lean(data), srcs)

"""C01  Save/load round trip preserves the whole document (DESIGN.md section 7, C01)."""
from __future__ import annotations

import io
import logging
import math
import os
import signal
import struct
import subprocess
import sys

from leanfmt import lean_list

ID = "C01"
LEAN_MODULES = ["EzdxfVerif.Props.C01"]
DRIVER_DEPS = ["EzdxfVerif.Model.Schema", "EzdxfVerif.Model.Payload", "EzdxfVerif.Gen.Schemas", "EzdxfVerif.Gen.PayloadTables", "Drivers.Proto"]
RULE = (
    "correspondence (Lean driver vs real code, line by line): X1 one synthetic attribute definition (group code class x xtype "
    "x default None/equal/different/int-under-float x optional x dxfversion x file version x force_optional x stored value incl. "
    "-0.0, NaN, 2D/3D points) through the real DXFNamespace.export_dxf_attribs vs exportAttr; X2 random group code mappings "
    "(str / list valued / '*' names) and tag lists through the real fast_load_dxfattribs (plain, R12 mode, recover=True) and "
    "simple_dxfattribs_loader vs fastLoad/recoverLoad/simpleLoad, namespace and unprocessed tags compared; X3 for every "
    "registered class x DXF version: the real export_dxf of one instance with random namespaces (unset / default / value of the "
    "class) vs exportEntity on the generated plan (every attribute tag, position and value) and the namespace the real loader "
    "calls build vs loadEntity; X4 LWPolylinePoints.dxftags/from_tags, text_to_multi_tags/multi_tags_to_text, entity_linker vs "
    "the payload models. non-trivial = reaches a non-default branch (suppression, version gate, list entry, '*', recover, "
    "payload tag); distinct by hash of the request. oracle (real code only): O1 one instance of every registered type in a real "
    "document, every declared attribute set (all at once with rotating value classes, and one at a time) -> write -> read -> "
    "get_default compared per attribute, permitted loss = attribute dxfversion newer than the file / type not exportable; O2 "
    "whole documents (type-rich generator, operation histories): types, order, handles, owners, attributes, payload accessors, "
    "XDATA, app data, reactors, extension dictionaries + byte level second cycle via harness/dxfparse.py; O3 the same in a "
    "process with EZDXF_DISABLE_C_EXT=1; O4 long string tag helpers; O5 payload codecs on the real code only: random SPLINE / MESH / "
    "MTEXT / DICTIONARY / HATCH / MPOLYGON boundary paths / seed points / pattern lines through the real writer and the real loader, "
    "compared with the payload before (documented canonical forms only). X5 (correspondence): the hand-made payload loaders "
    "(Spline.load_spline_data, Mesh.load_mesh_data, MText.load_mtext_content, Dictionary.load_dict, BoundaryPaths.load_tags, "
    "DXFPolygon.load_paths, Hatch.load_seeds, Pattern.load_tags, Leader.load_vertices, DXFGroup.load_group, Image boundary path, "
    "MLine.load_vertices) on tag lists that the real writers produced, undamaged and with structured damage (delete / duplicate / "
    "insert / swap tags), vs the loader models of Model/Payload.lean: loaded structure, tags left for the attribute loader, and the "
    "tags the real writer / the model writer emit for the loaded structure. X6: C02's storage model (driver C02, op rt) on the exported "
    "tags of typed API-built entities with random app data / reactors / extension dictionary / XDATA vs the real load -> export. X7: "
    "instances of SPLINE, MESH, MTEXT, LEADER, IMAGE, HATCH, MPOLYGON with payloads of other sizes than the traced one: the real export minus the "
    "tags the real loader drops vs the model's export on the stripped plan (Props section 8)."
)
TRUSTED_BASE = [
    "hand translation of dxfns.py/attributes.py/types.py into Model/Schema.lean (validated by X1-X3, not proved)",
    "hand translation of the payload writers/loaders (spline.py, mesh.py, mtext.py, dictionary.py, boundary_paths.py, polygon.py, "
    "hatch.py, pattern.py, leader.py, dxfgroups.py, image.py, mline.py) into Model/Payload.lean: validated by X5 (loader models on "
    "real and damaged tag lists, writer models on every loaded structure) and by the T-ast fingerprint of the group codes in source "
    "order (Gen/PayloadTables.lean, theorem payload_source_fingerprint); PATH_CODES / PATTERN_DEFINITION_LINE_CODES are regenerated "
    "and used by the counted theorems themselves",
    "T-schema tracer (harness/props/c01.py: trace_export/trace_load): the event log of the wrapped real functions is what the code does; "
    "a dxf.discard(name) after the last generic loader call is handed to the model as an ignored ('*') name",
    "doubles are opaque bit patterns; Python == on floats is modelled for zeros/NaN only; float and string text formats are C03/C09; "
    "the double operations 360.0 - x (clockwise hatch arcs) and Vec2 subtraction (required spline edge tangents) are parameters of the "
    "model (theorems for every function; the driver uses IEEE doubles), float32 rounding of MESH creases is a parameter (idempotent on "
    "stored values)",
    "validators/fixers of DXFNamespace.__setattr__ and dxf.set() inside recover_graphic_attributes are outside the model",
    "BY_DESIGN / STRUCTURAL tables of the oracle: attributes that are computed at export, carry document structure or belong to "
    "another entity sub-type (each entry names the responsible code)",
    "envelope (Props section 6) and document skeleton (section 7) are stated over the models of C02 (Model/Storage.lean, XTags.lean, "
    "Gen/StorageTables.lean regenerated here as well) and C04/C05 (Model/Doc.lean): their tie to the source is the correspondence of "
    "those properties; C01 adds its whole-document oracle O2 (XDATA, app data, reactors, extension dictionaries, owners, order)",
]
ASSUMPTIONS = [
    "namespaces reachable through the public setter hold cast_value(code, value); the only exception found (RETURN_DEFAULT fixer "
    "storing an uncast int default under a float code) is equal under Python == and normalised by the harness",
    "characters outside the file encoding (cp1252 below DXF R2007) are C09's subject and not generated here",
    "documents are built through the public factory API; bare new_entity() instances of types without factory method get every "
    "attribute populated first",
    "payload values are of the type of their group code (tags as the tag compiler produces them); LEADER vertices are 3D vertices "
    "(the loader keeps the raw tag value, the model its three components); MESH faces are not empty (face_to_array rejects an empty "
    "face); hatch spline edges satisfy SplineEdge.export_dxf's own checks (knots present, weights match control points); "
    "MLINE vertices have as many fill as line parameter tuples (MLineVertex.new enforces it)",
]
OPEN = [
    "still oracle-only: MULTILEADER context data, DIMSTYLE / VIEWPORT name<->handle conversion, DIMENSION override XDATA, ACIS data, "
    "GEODATA, MTEXT columns of DXF < R2018 (XDATA + linked MTEXT entities; the R2018 embedded object is modelled), "
    "XRECORD / TagList payloads, underlay boundary paths; everything load_dxf_attribs does after the generic loader calls except the "
    "payload loaders of Model/Payload.lean",
    "attributes AND payload of any size in one theorem exist for SPLINE, MESH, MTEXT, LEADER, IMAGE, HATCH, MPOLYGON (…_entity_roundtrip "
    "over the stripped plan = the traced plan without the payload tags of the traced instance; schemas_wf_stripped: wfPlan holds for "
    "the stripped plan of every registered class); for DICTIONARY, GROUP, MLINE the namespace is independent of the payload at the level of fastLoad "
    "(dict/group/mline_entity_roundtrip), for VIEWPORT (frozen layers) payload and attribute theorems are still separate statements joined by their interfaces (payload_side_conditions)",
    "entity_roundtrip joins attribute plan and envelope by an abstract tag encoder; entity_bytes_roundtrip puts C03's concrete BINARY "
    "codec under the envelope (the map from typed tags to their text form stays a parameter; an ASCII whole-file theorem does not exist in C03)",
    "doc_roundtrip_skeleton is about handles, order, owners, block/layout tables (Model/Doc.lean); the content of each entity is the "
    "subject of the entity level theorems; table entries and OBJECTS section ordering are covered by the oracle only",
    "hatch arcs/ellipses with clockwise orientation come back with 360-(360-angle) (canonEdge): exact only when the double "
    "subtraction is (hatch_edge_exact states the exact cases); the HATCH gradient rotation comes back as degrees(radians(r)) "
    "(gradient_roundtrip: one ulp off for ~12 % of the doubles, e.g. 30.0 -> 29.999999999999996, stable afterwards): both are "
    "unit/orientation conversions of the file format, stated as canonical forms, not reported as findings",
    "attr_roundtrip holds up to the sign of zero (simO); bit-exactness is proved for non-suppressed, non-2D values (attr_roundtrip_exact)",
    "multi_tags_roundtrip_partial excludes texts with a literal '^J' (counterexample theorem + known finding C01-F10; the helper pair "
    "is not used by the library)",
    "wfPlan fails for MATERIAL (all versions): genuine defect C01-F2, listed as exception of schemas_wf (no small safe patch); the "
    "former exceptions ATTRIB/ATTDEF R12 (C01-F9) are fixed and removed",
]
VERSIONS = ["AC1009", "AC1015", "AC1018", "AC1021", "AC1024", "AC1027", "AC1032"]
VNAME = {"AC1009": "R12", "AC1015": "R2000", "AC1018": "R2004", "AC1021": "R2007", "AC1024": "R2010",
         "AC1027": "R2013", "AC1032": "R2018"}

logging.getLogger("ezdxf").setLevel(logging.CRITICAL)


# ====================================================================================== small helpers
def enc_name(s: str) -> int:
    """interned name: big-endian base-256 value of the UTF-8 bytes (injective for names without leading NUL)"""
    return int.from_bytes(s.encode("utf8"), "big")


def dec_name(n: int) -> str:
    return n.to_bytes((n.bit_length() + 7) // 8, "big").decode("utf8", "replace")


def vernum(v: str) -> int:
    if not (len(v) == 6 and v.startswith("AC") and v[2:].isdigit()):
        raise ValueError(f"unexpected DXF version string {v!r}")
    return int(v[2:])


def fbits(x: float) -> int:
    return struct.unpack("<Q", struct.pack("<d", float(x)))[0]


def bits2f(b: int) -> float:
    return struct.unpack("<d", struct.pack("<Q", b))[0]


# ====================================================================================== the zoo
SAT = ["400 0 1 0", "0 end-of-ACIS-data"]


def build_zoo(doc, note=None):
    """One instance of (almost) every registered entity type inside `doc`, created through the public
    factory API (layout.add_*, table.new/add, objects.add_*, new_entity for types without a factory method).
    Returns {dxftype: entity}.  Factory methods that the document version does not support are skipped."""
    import ezdxf
    from ezdxf.entities import factory, DXFGraphic, DXFObject
    from ezdxf.math import Vec2

    msp = doc.modelspace()
    z: dict = {}

    def put(e, name=None):
        if e is not None:
            z.setdefault(name or e.dxftype(), e)
        return e

    def attempt(fn):
        try:
            return fn()
        except (ezdxf.DXFVersionError, ezdxf.DXFValueError, ezdxf.DXFKeyError, AttributeError, KeyError, TypeError) as ex:
            if note:
                note(f"zoo: {type(ex).__name__} {str(ex)[:60]}")
            return None

    put(msp.add_line((0, 0), (1, 1)))
    put(msp.add_point((1, 2, 3)))
    put(msp.add_circle((0, 0), 1))
    put(msp.add_arc((0, 0), 1, 10, 20))
    put(msp.add_solid([(0, 0), (1, 0), (1, 1), (0, 1)]))
    put(msp.add_trace([(0, 0), (1, 0), (1, 1), (0, 1)]))
    put(msp.add_3dface([(0, 0), (1, 0), (1, 1), (0, 1)]))
    put(msp.add_text("text"))
    blk = doc.blocks.new("ZOOBLK")
    put(blk.block, "BLOCK")
    put(blk.endblk, "ENDBLK")
    put(blk.block_record, "BLOCK_RECORD")
    put(blk.add_attdef("TAG1", (0, 0), "def"))
    ins = put(msp.add_blockref("ZOOBLK", (1, 1)))
    put(ins.add_attrib("TAG1", "val", (0, 0)))
    put(ins.seqend, "SEQEND")
    pl = put(msp.add_polyline2d([(0, 0), (1, 0), (1, 1)]))
    put(pl.vertices[0], "VERTEX")
    put(msp.add_shape("S", (0, 0)))
    put(attempt(lambda: msp.add_ellipse((0, 0), (2, 0), 0.5)))
    put(attempt(lambda: msp.add_lwpolyline([(0, 0, 0, 0, 0.5), (1, 0, 0.1, 0.2, 0), (1, 1)])))
    put(attempt(lambda: msp.add_mtext("mtext content")))
    put(attempt(lambda: msp.add_ray((0, 0), (1, 0))))
    put(attempt(lambda: msp.add_xline((0, 0), (1, 0))))
    put(attempt(lambda: msp.add_spline([(0, 0), (1, 1), (2, 0), (3, 1)])))
    for name in ("add_body", "add_region", "add_3dsolid", "add_surface", "add_extruded_surface", "add_lofted_surface",
                 "add_revolved_surface", "add_swept_surface"):
        e = put(attempt(getattr(msp, name)))
        if e is not None:
            if doc.dxfversion >= "AC1027":
                e.sab = b"ACIS BinaryFile" + bytes(range(40))
            else:
                e.sat = SAT

    def hatch():
        h = msp.add_hatch(color=2)
        h.paths.add_polyline_path([(0, 0, 0.5), (1, 0), (1, 1)], is_closed=True)
        ep = h.paths.add_edge_path()
        ep.add_line((0, 0), (1, 0))
        ep.add_arc((0, 0), 1, 0, 90)
        ep.add_ellipse((0, 0), (1, 0), 0.5, 0, 90)
        ep.add_spline(control_points=[(0, 0), (1, 1), (2, 0), (3, 1)], knot_values=[0, 0, 0, 0, 1, 1, 1, 1], degree=3)
        return h

    put(attempt(hatch))

    def mpolygon():
        mp = msp.add_mpolygon()
        mp.paths.add_polyline_path([(0, 0), (1, 0), (1, 1)], is_closed=True)
        return mp

    put(attempt(mpolygon))

    def mesh():
        m = msp.add_mesh()
        with m.edit_data() as md:
            md.vertices = [(0, 0, 0), (1, 0, 0), (1, 1, 0), (0, 1, 0)]
            md.faces = [(0, 1, 2, 3)]
        return m

    put(attempt(mesh))

    def image():
        imgdef = put(doc.add_image_def("img.png", (100, 100)))
        img = put(msp.add_image(imgdef, (0, 0), (1, 1)))
        for r in doc.objects.query("IMAGEDEF_REACTOR"):
            put(r)
        return img

    attempt(image)
    put(attempt(lambda: msp.add_wipeout([(0, 0), (1, 1)])))
    for fmt in ("pdf", "dwf", "dgn"):
        def underlay(fmt=fmt):
            ud = put(doc.add_underlay_def("x." + fmt, fmt=fmt, name="1"))
            return msp.add_underlay(ud, (0, 0))
        put(attempt(underlay))

    def lindim():
        d = msp.add_linear_dim((0, 2), (0, 0), (3, 0))
        d.render()
        return d.dimension

    put(attempt(lindim))

    def arcdim():
        d = msp.add_arc_dim_cra((0, 0), 3, 10, 60, 1)
        d.render()
        return d.dimension

    put(attempt(arcdim))
    put(attempt(lambda: msp.add_leader([(0, 0), (1, 1), (2, 1)])))

    def mleader():
        from ezdxf.render import mleader as _mld
        ml = msp.add_multileader_mtext("Standard")
        ml.set_content("ml")
        ml.add_leader_line(_mld.ConnectionSide.left, [Vec2(0, 0)])
        ml.build(Vec2(3, 3))
        return ml.multileader

    put(attempt(mleader))

    def mleader_alias():
        # MLEADER is the second registered name of the same entity: same data, other type name
        import copy
        src = z["MULTILEADER"]
        attribs = {k: v for k, v in src.dxfattribs().items() if k not in ("handle", "owner")}
        e = msp.new_entity("MLEADER", attribs)
        e.context = copy.deepcopy(src.context)
        e.arrow_heads = copy.deepcopy(src.arrow_heads)
        e.block_attribs = copy.deepcopy(src.block_attribs)
        return e

    if "MULTILEADER" in z:
        put(attempt(mleader_alias), "MLEADER")
    put(attempt(lambda: msp.add_mline([(0, 0), (1, 0), (1, 1)])))
    put(attempt(lambda: msp.add_helix(1, 1, 2)))
    put(attempt(lambda: doc.layout("Layout1").add_viewport((0, 0), (1, 1), (0, 0), 1)))
    # tables
    put(doc.layers.add("ZLAYER"))
    put(doc.layers.head, "TABLE")
    put(doc.linetypes.add("ZLT", [0.2, 0.1, -0.1], description="zlt"))
    put(doc.styles.add("ZSTYLE", font="arial.ttf"))
    put(doc.dimstyles.new("ZDIM"))
    put(doc.appids.add("ZAPP"))
    put(doc.ucs.new("ZUCS"))
    put(doc.views.new("ZVIEW"))
    put(doc.viewports.new("ZVP"))
    # objects
    if doc.dxfversion > "AC1009":
        root = doc.rootdict
        put(root, "DICTIONARY")
        put(attempt(lambda: doc.objects.add_dictionary_with_default(root.dxf.handle, "0")))
        put(attempt(lambda: doc.objects.add_dictionary_var(root.dxf.handle, "v")))
        put(attempt(lambda: doc.objects.add_xrecord(root.dxf.handle)))
        put(attempt(lambda: doc.objects.add_placeholder(root.dxf.handle)))
        put(attempt(lambda: doc.groups.new("ZGRP")))
        put(attempt(lambda: doc.materials.new("ZMAT")))
        put(attempt(lambda: doc.mline_styles.new("ZMLS")))
        put(attempt(lambda: doc.mleader_styles.new("ZMLDS")))
        put(attempt(lambda: msp.new_geodata()))
        attempt(lambda: msp.set_redraw_order([(z["LINE"].dxf.handle, "FF")]))
        attempt(lambda: doc.classes.add_class("IMAGE"))
        for c in doc.classes:
            put(c, "CLASS")
            break
        for e in list(doc.objects):
            put(e)
    # every other registered type: the generic factory entry points of layouts / the objects section
    for dxftype, cls in sorted(factory.ENTITY_CLASSES.items()):
        if dxftype in z or dxftype == "MLEADER":  # MLEADER is the alias class of MULTILEADER (built above)
            continue
        e = None
        if issubclass(cls, DXFGraphic):
            e = put(attempt(lambda: msp.new_entity(dxftype, {})), dxftype)
        elif issubclass(cls, DXFObject) and doc.dxfversion > "AC1009":
            e = put(attempt(lambda: doc.objects.new_entity(dxftype, {"owner": doc.rootdict.dxf.handle})), dxftype)
        if e is not None:
            # no factory method fills in the required data of these types: give every attribute a value
            if hasattr(e, "sat"):
                if doc.dxfversion >= "AC1027":
                    e.sab = b"ACIS BinaryFile" + bytes(range(40))
                else:
                    e.sat = SAT
            populate(e, 0)
    return z


# ====================================================================================== value classes
F_VALUES = [1.5, 0.5, 2.0, 0.25, -0.0, 5e-324, 2.2250738585072014e-308, 1234567.8901234567, 0.1, 1 / 3, -9.87654321e-5,
            1.7976931348623157e308, 123456789012345678.0, 0.0, 1.0, -1.0]
I_VALUES = {
    "bytes": [1, 0, 255, 127],
    "int16": [1, 2, 3, 0, 5, 7, 13, 16, 64, 32767, -32768, -1, 255, 256],
    "int32": [1, 2, 0, 65536, 2 ** 31 - 1, -(2 ** 31), -1, 0x02000080, 0x00FFFFFF],
    "int64": [1, 0, 2 ** 32, 2 ** 63 - 1, -(2 ** 63), -1],
}
S_VALUES = ["X1", "Standard", "0", "", "a" * 249, "b" * 250, "c" * 251, "d" * 254 + "^", "e" * 255, "f" * 256,
            "g" * 2048, "h" * 2049 + "^", "i" * 2050, "caret^ ^J^M^I", "ä€ß 中", " lead", "trail ",
            "%%c %%d 100%", "q\"uote back\\slash", "{[(;,)]}"]
P_VALUES = [(1.0, 2.0, 3.0), (0.0, 0.0, 1.0), (1.0, 0.0, 0.0), (-0.0, 5e-324, 1e300), (1 / 3, 0.1, -2.5), (0.0, 0.0, 0.0),
            (1234567.8901234567, -1e-9, 7.0)]


def int_kind(code: int) -> str:
    from ezdxf.lldxf import types as T

    for k, st in (("bytes", T.BYTES), ("int16", T.INT16), ("int32", T.INT32), ("int64", T.INT64)):
        if code in st:
            return k
    return ""


def value_class(code: int) -> str:
    from ezdxf.lldxf import types as T

    if code in T.POINT_CODES:
        return "point"
    t = T.TYPE_TABLE.get(code, str)
    return {int: "int", float: "float", str: "str"}[t]


def text_for_version(v, dxfversion):
    if isinstance(v, str) and dxfversion < "AC1021":
        return "".join(ch for ch in v if ord(ch) < 256 or ch == "€")
    return v


def candidates(attr, cls_override=None):
    """values of the class of the attribute's group code, in a fixed order"""
    from ezdxf.lldxf import types as T
    from ezdxf.lldxf.attributes import XType
    from ezdxf.math import Vec3

    code = attr.code
    vc = value_class(code)
    if vc == "point":
        pts = [Vec3(p) for p in P_VALUES]
        if attr.xtype == XType.point2d:
            pts = [Vec3(p.x, p.y, 0.0) for p in pts]
        return pts
    if vc == "int":
        return list(I_VALUES[int_kind(code)])
    if vc == "float":
        return list(F_VALUES)
    if code in T.HEX_HANDLE_CODES:
        return ["FEFE", "0", "ABCDEF01", "1F"]
    return list(S_VALUES)


# attributes whose value must name an existing resource, otherwise export_dxf itself raises
SPECIAL_VALUES = {
    ("DIMSTYLE", "dimtxsty"): ["ZSTYLE", "Standard"],
    ("DIMSTYLE", "dimblk"): ["ZOOBLK"],
    ("DIMSTYLE", "dimblk1"): ["ZOOBLK"],
    ("DIMSTYLE", "dimblk2"): ["ZOOBLK"],
    ("DIMSTYLE", "dimldrblk"): ["ZOOBLK"],
    ("DIMSTYLE", "dimltype"): ["ZLT", "CONTINUOUS"],
    ("DIMSTYLE", "dimltex1"): ["ZLT", "CONTINUOUS"],
    ("DIMSTYLE", "dimltex2"): ["ZLT", "CONTINUOUS"],
}


def same_value(a, b) -> bool:
    """bit-exact equality of two attribute values"""
    from ezdxf.math import Vec3, Vec2

    if isinstance(a, (Vec3, Vec2)) or isinstance(b, (Vec3, Vec2)):
        try:
            a3, b3 = Vec3(a), Vec3(b)
        except Exception:  # noqa
            return False
        return all(fbits(p) == fbits(q) for p, q in zip(a3.xyz, b3.xyz))
    if isinstance(a, float) or isinstance(b, float):
        return isinstance(a, (int, float)) and isinstance(b, (int, float)) and fbits(a) == fbits(b)
    return type(a) is type(b) and a == b


# Attributes that carry the structure of the document rather than data: another value is not "a valid value" for the
# document the entity lives in (the loader or the writer legitimately relies on them).
STRUCTURAL = {
    ("TABLE", "name"): "table head name selects the table",
    ("*", "handle"): "identity", ("*", "owner"): "ownership is maintained by layouts/tables",
    ("*TABLEENTRY", "name"): "table key; renaming goes through table.rename()",
    ("BLOCK", "name"): "block name is maintained by BlocksSection.rename_block()",
    ("BLOCK", "name2"): "written from BLOCK.name",
    ("BLOCK_RECORD", "layout"): "link to the LAYOUT object", ("LAYOUT", "block_record_handle"): "link to the BLOCK_RECORD",
    ("LAYOUT", "name"): "layout key; renaming goes through Layouts.rename()",
    ("POLYLINE", "flags"): "selects 2D/3D/mesh/face structure of the linked vertices",
    ("VERTEX", "flags"): "selects the vertex kind",
    ("INSERT", "attribs_follow"): "computed from the attached ATTRIBs at export",
    ("INSERT", "name"): "must name an existing block",
    ("DIMENSION", "geometry"): "must name the dimension geometry block", ("ARC_DIMENSION", "geometry"): "same",
    ("LARGE_RADIAL_DIMENSION", "geometry"): "same",
    ("DIMENSION", "dimtype"): "selects the subclass that is exported", ("ARC_DIMENSION", "dimtype"): "rewritten at export",
    ("LARGE_RADIAL_DIMENSION", "dimtype"): "selects the subclass that is exported",
    ("CLASS", "name"): "class registry key", ("CLASS", "cpp_class_name"): "class registry key",
    ("*", "paperspace"): "maintained by the owning layout (set_owner)",
    ("IMAGE", "image_def_handle"): "must reference the IMAGEDEF, otherwise the IMAGE is not exported",
    ("IMAGE", "image_def_reactor_handle"): "link to the IMAGEDEF_REACTOR",
    ("PDFUNDERLAY", "underlay_def_handle"): "must reference the definition", ("DWFUNDERLAY", "underlay_def_handle"): "same",
    ("DGNUNDERLAY", "underlay_def_handle"): "same", ("PDFREFERENCE", "underlay_def_handle"): "same",
    ("GEODATA", "version"): "selects the group code layout of the whole object",
    **{("DIMSTYLE", n + "_handle"): "derived from the resource name by set_handles() at export, discarded after loading"
       for n in ("dimblk", "dimblk1", "dimblk2", "dimldrblk", "dimltype", "dimltex1", "dimltex2", "dimtxsty")},
    ("VIEWPORT", "id"): "viewport id/status are renumbered by the layout", ("VIEWPORT", "status"): "same",
}
TABLE_ENTRY_TYPES = {"LAYER", "LTYPE", "STYLE", "DIMSTYLE", "APPID", "UCS", "VIEW", "VPORT", "BLOCK_RECORD"}


def is_structural(dxftype: str, name: str) -> bool:
    return ((dxftype, name) in STRUCTURAL or ("*", name) in STRUCTURAL
            or (dxftype in TABLE_ENTRY_TYPES and ("*TABLEENTRY", name) in STRUCTURAL))


def populate(e, salt: int = 0, skip=("handle", "owner")):
    """set every declared non-callback attribute to a value of its class that differs from the default;
    returns {name: value} for the values the setter accepted"""
    from ezdxf.lldxf.attributes import XType

    done = {}
    dxftype = e.dxftype()
    docver = e.doc.dxfversion if e.doc is not None else "AC1032"
    for name, a in e.DXFATTRIBS._attribs.items():
        if a.xtype == XType.callback or name in skip or a.code < 0 or is_structural(dxftype, name):
            continue
        cands = SPECIAL_VALUES.get((dxftype, name)) or candidates(a)
        k = len(cands)
        for i in range(k):
            v = text_for_version(cands[(i + salt) % k], docver)
            if a.default is not None and v == a.default:
                continue
            try:
                e.dxf.set(name, v)
            except Exception:  # noqa  validators reject: next candidate
                continue
            done[name] = e.dxf.get(name)
            break
    return done


# ====================================================================================== T-schema tracer
class Trace:
    """event log of one export_dxf call"""

    def __init__(self):
        self.items = []  # ("marker", name) | ("attr", name, wrote: bool, code) | ("raw", code)
        self.cur_attr = None
        self.chunks = []  # text written per item index


def make_trace_writer(trace: Trace, dxfversion: str):
    from ezdxf.lldxf.tagwriter import TagWriter
    from ezdxf.lldxf.tags import Tags
    from ezdxf.lldxf import types as T

    class TraceWriter(TagWriter):
        """the real ASCII TagWriter; every low level call is logged before it is executed"""

        def _log(self, code, value, compiled=False):
            code = int(code)
            if trace.cur_attr is not None:
                trace.cur_attr[2].append(code)
                trace.cur_attr.append(value)
            elif code == 100:
                trace.items.append(["marker", str(value), self._stream.tell()])
            else:
                trace.items.append(["raw", code, self._stream.tell(), value, compiled])

        def write_tag(self, tag):
            if tag.code in T.POINT_CODES and hasattr(tag, "dxftags"):
                self._log(tag.code, tuple(tag.value), True)  # one compiled vertex
            else:
                self._log(tag.code, tag.value)
            super().write_tag(tag)

        def write_tag2(self, code, value):
            self._log(code, value)
            super().write_tag2(code, value)

        def write_str(self, s):
            for t in Tags.from_text(s):
                self._log(t.code, t.value)
            super().write_str(s)

        def write_vertex(self, code, vertex):
            vertex = tuple(vertex)
            for i, v in enumerate(vertex):
                self._log(code + 10 * i, v)
            TagWriter.write_tag2  # noqa (documentation: the optimized path writes the same text)
            self._stream.write("".join("%3d\n%s\n" % (code + 10 * i, v) for i, v in enumerate(vertex)))

    stream = io.StringIO()
    w = TraceWriter(stream, dxfversion=dxfversion)
    return w, stream


class Hooks:
    """wrappers around DXFNamespace._export_dxf_attribute_optional and the two generic loaders"""

    def __init__(self):
        self.trace: Trace | None = None
        self.loads = None
        self.discards = None  # [(attribute name, number of loader calls made before)] while a load is traced
        self.installed = False

    def install(self):
        from ezdxf.entities.dxfns import DXFNamespace, SubclassProcessor

        if self.installed:
            return
        self.installed = True
        hooks = self
        self._orig = (DXFNamespace._export_dxf_attribute_optional, SubclassProcessor.fast_load_dxfattribs,
                      SubclassProcessor.simple_dxfattribs_loader)
        o_exp, o_fast, o_simple = self._orig
        self._orig_discard = DXFNamespace.discard
        o_discard = self._orig_discard

        def discard(self, key):
            if hooks.loads is not None and hooks.discards is not None:
                hooks.discards.append((key, len(hooks.loads)))
            return o_discard(self, key)

        DXFNamespace.discard = discard

        def exp(self, tagwriter, name):
            tr = hooks.trace
            if tr is None or tr.cur_attr is not None:
                return o_exp(self, tagwriter, name)
            tr.cur_attr = ["attr", name, [], tagwriter._stream.tell() if hasattr(tagwriter, "_stream") else 0]
            try:
                return o_exp(self, tagwriter, name)
            finally:
                tr.items.append(tr.cur_attr)
                tr.cur_attr = None

        def fast(self, dxf, group_code_mapping, subclass, *, recover=False, log=True):
            if hooks.loads is not None:
                if self.r12:
                    tags = self.subclasses[0]
                elif isinstance(subclass, int):
                    tags = self.subclass_by_index(subclass)
                elif isinstance(subclass, str):
                    tags = self.find_subclass(subclass)
                else:
                    tags = subclass
                before = dict(dxf.__dict__)
                rec = {"kind": "fast", "mapping": group_code_mapping, "arg": subclass if isinstance(subclass, (int, str)) else None,
                       "tags": list(tags) if tags is not None else None, "r12": self.r12, "recover": bool(recover),
                       "subclasses": [list(s) for s in self.subclasses], "before": before}
                hooks.loads.append(rec)
                out = o_fast(self, dxf, group_code_mapping, subclass, recover=recover, log=log)
                rec["after"] = dict(dxf.__dict__)
                rec["unprocessed"] = list(out)
                return out
            return o_fast(self, dxf, group_code_mapping, subclass, recover=recover, log=log)

        def simple(self, dxf, group_code_mapping):
            if hooks.loads is not None:
                rec = {"kind": "simple", "mapping": group_code_mapping, "subclasses": [list(s) for s in self.subclasses],
                       "before": dict(dxf.__dict__), "r12": self.r12}
                hooks.loads.append(rec)
                out = o_simple(self, dxf, group_code_mapping)
                rec["after"] = dict(dxf.__dict__)
                return out
            return o_simple(self, dxf, group_code_mapping)

        DXFNamespace._export_dxf_attribute_optional = exp
        SubclassProcessor.fast_load_dxfattribs = fast
        SubclassProcessor.simple_dxfattribs_loader = simple

    def uninstall(self):
        from ezdxf.entities.dxfns import DXFNamespace, SubclassProcessor

        if not self.installed:
            return
        DXFNamespace._export_dxf_attribute_optional, SubclassProcessor.fast_load_dxfattribs, SubclassProcessor.simple_dxfattribs_loader = self._orig
        DXFNamespace.discard = self._orig_discard
        self.installed = False


HOOKS = Hooks()


def trace_export(entity, dxfversion: str, force_optional=False):
    """export one entity through the real TagWriter; returns (text of the main entity, segments) or None when the
    entity writes nothing for that version.  segments = [(marker | None, [event, ...])] with
    event = ("attr", name, written: bool, code) | ("raw", code); raw x/y/z runs of point codes are merged like
    tag_compiler does."""
    from ezdxf.lldxf import types as T

    tr = Trace()
    w, stream = make_trace_writer(tr, dxfversion)
    w.force_optional = force_optional
    HOOKS.install()
    HOOKS.trace = tr
    try:
        entity.export_dxf(w)
    finally:
        HOOKS.trace = None
    text = stream.getvalue()
    if not text:
        return None
    items = tr.items
    # the main entity ends where the next structure tag (0, ...) starts (linked sub-entities, SEQEND)
    end_pos = len(text)
    cut = len(items)
    for i, it in enumerate(items):
        # ... or where ExtendedTags ends the subclasses: XDATA (1001) / an embedded object (101, "Embedded Object")
        if i > 0 and it[0] == "raw" and it[1] == 0:
            cut = min(cut, i)
            end_pos = it[2]
            break
        if i > 0 and it[0] == "raw" and (it[1] == 1001 or (it[1] == 101 and str(it[3]).startswith("Embedded Object"))):
            cut = min(cut, i)
    items = items[:cut]
    text = text[:end_pos]
    # merge raw coordinate runs into one compiled vertex
    merged = []
    i = 0
    while i < len(items):
        it = items[i]
        if it[0] == "raw" and it[1] == 102 and len(merged) and not any(m[0] == "marker" for m in merged) and str(it[3]).startswith("{"):
            # application data in the base class: ExtendedTags stores the group elsewhere and leaves one (102, index) tag
            j = i + 1
            while j < len(items) and not (items[j][0] == "raw" and items[j][1] == 102 and str(items[j][3]) == "}"):
                j += 1
            if j >= len(items):
                raise ValueError(f"{entity.dxftype()}: unterminated application data group in the exported stream")
            merged.append(("raw", 102))
            i = j + 1
        elif it[0] == "raw" and it[4]:
            merged.append(("raw", it[1]))
            i += 1
        elif it[0] == "raw" and it[1] in T.POINT_CODES:
            c = it[1]
            n = 1
            if i + 1 < len(items) and items[i + 1][0] == "raw" and items[i + 1][1] == c + 10:
                n = 2
                if i + 2 < len(items) and items[i + 2][0] == "raw" and items[i + 2][1] == c + 20:
                    n = 3
            if n == 1:
                raise ValueError(f"{entity.dxftype()}: x coordinate {c} without y coordinate in the exported stream")
            merged.append(("raw", c))
            i += n
        elif it[0] == "attr":
            codes = it[2]
            if len(codes) > 1:
                raise ValueError(f"{entity.dxftype()}.{it[1]}: more than one tag written for one attribute")
            merged.append(("attr", it[1], bool(codes), codes[0] if codes else None, it[4] if codes else None))
            i += 1
        elif it[0] == "marker":
            merged.append(("marker", it[1]))
            i += 1
        else:
            merged.append(("raw", it[1]))
            i += 1
    segs = [(None, [])]
    for it in merged:
        if it[0] == "marker":
            segs.append((it[1], []))
        else:
            segs[-1][1].append(it)
    return text, segs


def written_labels(seg):
    """labels (0 = marker, event i -> i + 1) of the tags a segment actually wrote, in order, with their codes"""
    marker, evs = seg
    out = []
    if marker is not None:
        out.append((0, 100))
    for i, ev in enumerate(evs):
        if ev[0] == "raw":
            out.append((i + 1, ev[1]))
        elif ev[2]:
            out.append((i + 1, ev[3]))
    return out


def trace_load(cls, text: str, segs, doc):
    """load the exported text with the real entity class; returns the list of loader calls as plan steps
    ("fast", mapping, sub, recover, drop) | ("simple", mapping) plus the raw records and the loaded entity"""
    from ezdxf.lldxf.extendedtags import ExtendedTags
    from ezdxf.entities import factory

    xt = ExtendedTags.from_text(text)
    if len(xt.subclasses) != len(segs):
        raise ValueError(f"{cls.DXFTYPE}: {len(segs)} traced subclasses, ExtendedTags found {len(xt.subclasses)}")
    ident = {}
    for k, (sub, seg) in enumerate(zip(xt.subclasses, segs)):
        labs = written_labels(seg)
        if [t.code for t in sub] != [c for _, c in labs]:
            raise ValueError(f"{cls.DXFTYPE}: subclass {k} tags {[t.code for t in sub][:12]} do not align with the trace {[c for _, c in labs][:12]}")
        for t, (lab, _) in zip(sub, labs):
            ident[id(t)] = (k, lab)
    HOOKS.install()
    HOOKS.loads = []
    HOOKS.discards = []
    try:
        ent = factory.load(xt, doc)
    finally:
        recs, HOOKS.loads = HOOKS.loads, None
        discards, HOOKS.discards = HOOKS.discards, None
    # `dxf.discard(name)` AFTER the last generic loader call (ATTRIB/ATTDEF in DXF R12 drop attribute_type, which shares
    # group code 71 with text_generation_flag in the flat R12 tag list): loading a tag into that name and deleting the name
    # afterwards is the same as ignoring the tag, so the name is handed to the model as an ignored ('*') name.  The X3
    # load stream compares the namespace the real loader builds with the model's on this normalised plan.
    dropped = {name for name, at in discards if at == len(recs)}

    def norm_mapping(m):
        if not dropped:
            return m
        out = {}
        for code, v in m.items():
            if isinstance(v, list):
                out[code] = [("*" + x if x in dropped else x) for x in v]
            else:
                out[code] = "*" + v if v in dropped else v
        return out

    steps = []
    for r in recs:
        r["mapping"] = norm_mapping(r["mapping"])
        if r["kind"] == "simple":
            steps.append(("simple", r["mapping"]))
            continue
        tags = r["tags"]
        if tags is None or len(tags) == 0:
            r["skipped"] = True
            continue
        if r["r12"]:
            sub, drop = 0, []
        else:
            ks = {ident.get(id(t), (None, None))[0] for t in tags}
            if len(ks) != 1 or None in ks:
                raise ValueError(f"{cls.DXFTYPE}: fast_load_dxfattribs got tags that are not taken from one subclass")
            sub = ks.pop()
            passed = [ident[id(t)][1] for t in tags]
            if passed != sorted(passed):
                raise ValueError(f"{cls.DXFTYPE}: tags passed to fast_load_dxfattribs are reordered")
            alllabs = [lab for lab, _ in written_labels(segs[sub])]
            drop = [lab for lab in alllabs if lab not in set(passed)]
            if isinstance(r["arg"], str):
                first = next(i for i, s in enumerate(r["subclasses"]) if len(s) and s[0].value == r["arg"])
                if first != sub:
                    raise ValueError("find_subclass did not return the first subclass of that name")
        steps.append(("fast", r["mapping"], sub, r["recover"], drop))
    return steps, recs, ent


# ------------------------------------------------------------------ Lean emission
def lean_val(v) -> str:
    from ezdxf.math import Vec3, Vec2

    if isinstance(v, bool):
        return f"(.int {int(v)})"
    if isinstance(v, int):
        return f"(.int ({v}))" if v < 0 else f"(.int {v})"
    if isinstance(v, float):
        return f"(.dbl {fbits(v)})"
    if isinstance(v, str):
        return "(.str [" + ", ".join(str(ord(c)) for c in v) + "])"
    if isinstance(v, (Vec3, Vec2)):
        v = Vec3(v)
        return f"(.pt {fbits(v.x)} {fbits(v.y)} {fbits(v.z)})"
    if isinstance(v, (bytes, bytearray)):
        return "(.bin [" + ", ".join(str(b) for b in v) + "])"
    raise ValueError(f"value {v!r} of type {type(v).__name__} has no model counterpart")


def lean_int(n: int) -> str:
    return str(n) if n >= 0 else f"({n})"


XT = {None: ".none", "point2d": ".point2d", "point3d": ".point3d", "any_point": ".anyPoint", "callback": ".callback"}


def norm_default(attr, notes, where):
    """declared default normalised to the class of the group code (cast_value); the normalisation must be
    invisible to Python's == (the model compares values of one class only)"""
    from ezdxf.lldxf.types import cast_value
    from ezdxf.lldxf import types as T

    d = attr.default
    if d is None:
        return None
    try:
        c = cast_value(attr.code, d)
    except Exception as ex:  # noqa
        notes.append(f"{where}: default {d!r} cannot be cast to the class of code {attr.code} ({type(ex).__name__})")
        return None
    if not (c == d):
        notes.append(f"{where}: default {d!r} != cast_value(default) {c!r}")
    if attr.code in T.POINT_CODES and len(d) == 2 and (attr.xtype is None or attr.xtype.name != "point2d"):
        raise ValueError(f"{where}: 2-component default {d!r} on an attribute that is not point2d (the forced default would be "
                         f"written as a 2D vertex; the model normalises defaults to Vec3)")
    return c


def mapping_key(m: dict):
    return tuple(sorted((int(c), tuple(v) if isinstance(v, list) else v) for c, v in m.items()))


def lean_mname(s: str) -> str:
    if s == "":
        raise ValueError("empty attribute name in a group code mapping")
    return f"⟨{enc_name(s)}, {'true' if s[0] == '*' else 'false'}⟩"


def lean_mapping(key) -> str:
    ents = []
    for code, v in key:
        if isinstance(v, tuple):
            ents.append(f"({lean_int(code)}, .many [{', '.join(lean_mname(x) for x in v)}])")
        else:
            ents.append(f"({lean_int(code)}, .one {lean_mname(v)})")
    return "[" + ", ".join(ents) + "]"


def ident(s: str) -> str:
    return "".join(ch if ch.isalnum() else "_" for ch in s)


# (class, version) pairs whose export_dxf raises by design
EXPORT_REFUSED = {("BLOCK_RECORD", "AC1009"): "DXF R12 has no BLOCK_RECORD table"}
# registered classes that cannot be created through the public API (loaded from files only)
NO_FACTORY = {"ACAD_TABLE"}


def collect_schemas(ctx=None):
    """run the tracer over every registered class x every version.
    returns dict with classes, mappings, notes, stats (pure data; emission is separate so that the oracle and the
    correspondence can reuse the plans)"""
    import ezdxf
    from ezdxf.entities import factory
    from ezdxf.lldxf.attributes import XType

    notes: list[str] = []
    doc = ezdxf.new("R2018")
    zoo = build_zoo(doc, notes.append)
    load_docs = {v: ezdxf.new(VNAME[v]) for v in VERSIONS}
    mappings: dict = {}  # key -> index
    classes = []
    stats = {"classes": 0, "attrs": 0, "callbacks": 0, "plans": 0, "no_instance": [], "attrs_exported": 0}
    for dxftype, cls in sorted(factory.ENTITY_CLASSES.items()):
        stats["classes"] += 1
        attrs = []
        for name, a in cls.DXFATTRIBS._attribs.items():
            if a.name != name:
                notes.append(f"{dxftype}.{name}: DXFAttr.name is {a.name!r} (alias)")
            stats["attrs"] += 1
            if a.xtype == XType.callback:
                stats["callbacks"] += 1
            attrs.append({
                "name": name, "code": int(a.code), "xtype": a.xtype.name if a.xtype else None,
                "default": norm_default(a, notes, f"{dxftype}.{name}"), "optional": bool(a.optional),
                "minver": vernum(a.dxfversion), "validator": a.validator is not None, "fixer": a.fixer is not None,
            })
        plans = []
        e = zoo.get(dxftype)
        if e is None:
            stats["no_instance"].append(dxftype)
        else:
            populate(e)
            if hasattr(e, "sat") and hasattr(e, "sab"):
                e.sat = SAT  # the R2018 instance carries SAB data; versions below R2013 export the SAT form
            for ver in VERSIONS:
                try:
                    tr = trace_export(e, ver)
                except Exception as ex:  # noqa
                    if (dxftype, ver) in EXPORT_REFUSED:
                        notes.append(f"{dxftype} {ver}: export_dxf raised {type(ex).__name__}: {str(ex)[:80]} ({EXPORT_REFUSED[(dxftype, ver)]})")
                        continue
                    raise ValueError(f"T-schema: export_dxf of the {dxftype} instance raised for {ver}: {type(ex).__name__}: {ex}")
                if tr is None:
                    continue
                text, segs = tr
                # a trace that cannot be aligned with what the loader sees is a translation failure, never skipped
                steps, _, _ = trace_load(cls, text, segs, load_docs[ver])
                psteps = []
                for st in steps:
                    key = mapping_key(st[1])
                    idx = mappings.setdefault(key, len(mappings))
                    psteps.append(("simple", idx) if st[0] == "simple" else ("fast", idx, st[2], st[3], st[4]))
                plans.append({"ver": vernum(ver), "segs": segs, "loads": psteps})
                stats["plans"] += 1
        if e is not None:
            want = [vernum(v) for v in VERSIONS if v >= cls.MIN_DXF_VERSION_FOR_EXPORT and (dxftype, v) not in EXPORT_REFUSED]
            have = [p["ver"] for p in plans]
            if want != have:
                raise ValueError(f"T-schema: {dxftype} is exportable for {want} but the instance was written for {have} only "
                                 f"(preprocess_export refused it: the zoo instance lacks required data)")
        exported = {ev[1] for p in plans for _, evs in p["segs"] for ev in evs if ev[0] == "attr"}
        stats["attrs_exported"] += len(exported)
        classes.append({"dxftype": dxftype, "attrs": attrs, "plans": plans, "min_export": vernum(cls.MIN_DXF_VERSION_FOR_EXPORT)})
    if set(stats["no_instance"]) != NO_FACTORY:
        raise ValueError(f"T-schema: no instance for {sorted(set(stats['no_instance']) - NO_FACTORY)}: a registered entity type the zoo "
                         f"(build_zoo) does not know; the statement 'for every registered entity type' would silently shrink")
    return {"classes": classes, "mappings": mappings, "notes": notes, "stats": stats}


def probe_tables():
    """T-tab part: the class cast_value chooses for every group code 0..1071 and the recover table"""
    from ezdxf.lldxf.types import cast_value
    from ezdxf.entities.dxfns import GRAPHIC_ATTRIBUTES_TO_RECOVER
    from ezdxf.math import Vec3

    obs = []
    for code in range(1072):
        try:
            v = cast_value(code, "1")
        except Exception:  # noqa  Vec3("1") raises for point codes
            v = cast_value(code, (1, 2))
        obs.append(3 if isinstance(v, Vec3) else {str: 0, int: 1, float: 2}[type(v)])
    return obs, sorted((int(c), n) for c, n in GRAPHIC_ATTRIBUTES_TO_RECOVER.items())


SRC_FILES = ["src/ezdxf/entities/dxfns.py", "src/ezdxf/lldxf/attributes.py", "src/ezdxf/lldxf/types.py",
             "src/ezdxf/entities/factory.py"]


def entity_sources(ctx):
    import glob

    repo = os.environ.get("VERIF_REPO", "/repo")
    out = []
    for p in sorted(glob.glob(os.path.join(repo, "src/ezdxf/entities/*.py"))):
        rel = os.path.relpath(p, repo)
        ctx.src(rel)
        out.append(rel)
    return out


_SCHEMA_CACHE = {}


def schemas(ctx=None):
    if "data" not in _SCHEMA_CACHE:
        _SCHEMA_CACHE["data"] = collect_schemas(ctx)
    return _SCHEMA_CACHE["data"]


def emit_lean(data) -> str:
    obs, rectbl = probe_tables()
    out = ["import EzdxfVerif.Model.Schema", "", "namespace EzdxfVerif.Gen.Schemas", "open EzdxfVerif.Schema", "",
           "set_option maxRecDepth 100000", ""]
    out.append("/-- GRAPHIC_ATTRIBUTES_TO_RECOVER (dxfns.py) -/")
    out.append("def recoverTable : List (Int × Name) := " + lean_list((f"({c}, {enc_name(n)})" for c, n in rectbl), 6))
    out.append("/-- class of cast_value(code, ·) probed for every group code 0..1071: 0 str, 1 int, 2 float, 3 Vec3 -/")
    out.append("def obsCast : List Nat := " + lean_list((str(x) for x in obs), 40))
    out.append("")
    for key, idx in sorted(data["mappings"].items(), key=lambda kv: kv[1]):
        out.append(f"def m{idx} : Mapping := {lean_mapping(key)}")
    out.append("")
    cnames = []
    for c in data["classes"]:
        nm = ident(c["dxftype"])
        alist = []
        for a in c["attrs"]:
            d = "none" if a["default"] is None else f"(some {lean_val(a['default'])})"
            alist.append(f"⟨{enc_name(a['name'])}, {lean_int(a['code'])}, {XT[a['xtype']]}, {d}, "
                         f"{'true' if a['optional'] else 'false'}, {a['minver']}⟩")
        out.append(f"/-- {c['dxftype']}: " + " ".join(a["name"] for a in c["attrs"])[:2000] + " -/")
        out.append(f"def attrs_{nm} : Schema := " + lean_list(alist, 1))
        plist = []
        for p in c["plans"]:
            segs = []
            for marker, evs in p["segs"]:
                es = ", ".join(f".attr {enc_name(ev[1])}" if ev[0] == "attr" else f".raw {lean_int(ev[1])}" for ev in evs)
                mk = "none" if marker is None else f"(some {enc_name(marker)})"
                segs.append(f"⟨{mk}, [{es}]⟩")
            loads = []
            for st in p["loads"]:
                if st[0] == "simple":
                    loads.append(f".simple m{st[1]}")
                else:
                    loads.append(f".fast m{st[1]} {st[2]} {'true' if st[3] else 'false'} [{', '.join(str(x) for x in st[4])}]")
            plist.append(f"⟨{p['ver']}, [{', '.join(segs)}],\n     [{', '.join(loads)}]⟩")
        out.append(f"def plans_{nm} : List Plan := " + lean_list(plist, 1))
        out.append(f"def c_{nm} : ClassSchema := ⟨{enc_name(c['dxftype'])}, attrs_{nm}, plans_{nm}⟩")
        out.append("")
        cnames.append(f"c_{nm}")
    out.append("/-- every class in ezdxf.entities.factory.ENTITY_CLASSES -/")
    out.append("def classes : List ClassSchema := " + lean_list(cnames, 8))
    out.append("")
    out.append("end EzdxfVerif.Gen.Schemas")
    return "\n".join(out) + "\n"


# ------------------------------------------------------------------ T-ast: payload code fingerprints
PAYLOAD_FUNCS = [
    # (lean name, source file, qualified function name)
    ("spline_export_entity", "src/ezdxf/entities/spline.py", "Spline.export_entity"),
    ("spline_export_data", "src/ezdxf/entities/spline.py", "Spline.export_spline_data"),
    ("spline_load_data", "src/ezdxf/entities/spline.py", "Spline.load_spline_data"),
    ("mesh_export_data", "src/ezdxf/entities/mesh.py", "Mesh.export_mesh_data"),
    ("mesh_export_override", "src/ezdxf/entities/mesh.py", "Mesh.export_override_data"),
    ("mesh_facelist_export", "src/ezdxf/entities/mesh.py", "FaceList.export_dxf"),
    ("mesh_edgearray_export", "src/ezdxf/entities/mesh.py", "EdgeArray.export_dxf"),
    ("mesh_load_data", "src/ezdxf/entities/mesh.py", "Mesh.load_mesh_data"),
    ("mtext_export_content", "src/ezdxf/entities/mtext.py", "export_mtext_content"),
    ("mtext_load_content", "src/ezdxf/entities/mtext.py", "MText.load_mtext_content"),
    ("dict_load", "src/ezdxf/entities/dictionary.py", "Dictionary.load_dict"),
    ("paths_export", "src/ezdxf/entities/boundary_paths.py", "BoundaryPaths.export_dxf"),
    ("src_objects_export", "src/ezdxf/entities/boundary_paths.py", "export_source_boundary_objects"),
    ("src_objects_pop", "src/ezdxf/entities/boundary_paths.py", "pop_source_boundary_objects_tags"),
    ("polyline_path_export", "src/ezdxf/entities/boundary_paths.py", "PolylinePath.export_dxf"),
    ("polyline_path_load", "src/ezdxf/entities/boundary_paths.py", "PolylinePath.load_tags"),
    ("edge_path_export", "src/ezdxf/entities/boundary_paths.py", "EdgePath.export_dxf"),
    ("line_edge_export", "src/ezdxf/entities/boundary_paths.py", "LineEdge.export_dxf"),
    ("line_edge_load", "src/ezdxf/entities/boundary_paths.py", "LineEdge.load_tags"),
    ("arc_edge_export", "src/ezdxf/entities/boundary_paths.py", "ArcEdge.export_dxf"),
    ("arc_edge_load", "src/ezdxf/entities/boundary_paths.py", "ArcEdge.load_tags"),
    ("ellipse_edge_export", "src/ezdxf/entities/boundary_paths.py", "EllipseEdge.export_dxf"),
    ("ellipse_edge_load", "src/ezdxf/entities/boundary_paths.py", "EllipseEdge.load_tags"),
    ("spline_edge_export", "src/ezdxf/entities/boundary_paths.py", "SplineEdge.export_dxf"),
    ("spline_edge_load", "src/ezdxf/entities/boundary_paths.py", "SplineEdge.load_tags"),
    ("hatch_load_paths", "src/ezdxf/entities/polygon.py", "DXFPolygon.load_paths"),
    ("hatch_load_pattern", "src/ezdxf/entities/polygon.py", "DXFPolygon.load_pattern"),
    ("hatch_load_seeds", "src/ezdxf/entities/hatch.py", "Hatch.load_seeds"),
    ("hatch_export_seeds", "src/ezdxf/entities/hatch.py", "Hatch.export_seeds"),
    ("pattern_line_export", "src/ezdxf/entities/pattern.py", "PatternLine.export_dxf"),
    ("pattern_line_load", "src/ezdxf/entities/pattern.py", "PatternLine.load_tags"),
    ("pattern_export", "src/ezdxf/entities/pattern.py", "Pattern.export_dxf"),
    ("gradient_export", "src/ezdxf/entities/gradient.py", "Gradient.export_dxf"),
    ("gradient_load", "src/ezdxf/entities/gradient.py", "Gradient.load_tags"),
    ("mline_vertex_export", "src/ezdxf/entities/mline.py", "MLineVertex.export_dxf"),
    ("mline_vertex_load", "src/ezdxf/entities/mline.py", "MLineVertex.load"),
    ("image_export_boundary", "src/ezdxf/entities/image.py", "ImageBase.export_boundary_path"),
    ("image_load_boundary", "src/ezdxf/entities/image.py", "ImageBase.load_boundary_path"),
    ("mtext_export_embedded", "src/ezdxf/entities/mtext.py", "MText.export_embedded_object"),
    ("mtext_load_columns_embedded", "src/ezdxf/entities/mtext.py", "load_columns_from_embedded_object"),
    ("ltype_export_r12", "src/ezdxf/entities/ltype.py", "LinetypePattern.export_r12_dxf"),
    ("leader_export_vertices", "src/ezdxf/entities/leader.py", "Leader.export_vertices"),
    ("leader_load_vertices", "src/ezdxf/entities/leader.py", "Leader.load_vertices"),
    ("group_export", "src/ezdxf/entities/dxfgroups.py", "DXFGroup.export_group"),
    ("group_load", "src/ezdxf/entities/dxfgroups.py", "DXFGroup.load_group"),
]


def ast_group_codes(src: str, qualname: str, consts: dict):
    """Group codes of a function in source order: the first argument of every write_tag2 / write_tag / write_vertex /
    export_dxf(code=…) call and every constant compared with `code` / `tag.code` (==, in).  Names are resolved through
    the module constants `consts`.  A change of a code, of the statement order, or a new / removed statement changes
    the list."""
    import ast

    tree = ast.parse(src)
    parts = qualname.split(".")
    node = tree
    for name in parts:
        node = next(n for n in ast.walk(node) if isinstance(n, (ast.FunctionDef, ast.ClassDef)) and n.name == name)

    def const(n):
        if isinstance(n, ast.Constant) and isinstance(n.value, int) and not isinstance(n.value, bool):
            return [n.value]
        if isinstance(n, ast.Name) and isinstance(consts.get(n.id), int):
            return [consts[n.id]]
        if isinstance(n, ast.Name) and isinstance(consts.get(n.id), (tuple, set, frozenset, list)):
            return sorted(consts[n.id])
        if isinstance(n, ast.Attribute) and isinstance(consts.get(n.attr), int):
            return [consts[n.attr]]
        if isinstance(n, (ast.Tuple, ast.Set, ast.List)):
            out = []
            for x in n.elts:
                out += const(x)
            return out
        return []

    found = []
    for n in ast.walk(node):
        if isinstance(n, ast.Call):
            fn = n.func.attr if isinstance(n.func, ast.Attribute) else (n.func.id if isinstance(n.func, ast.Name) else "")
            if fn in ("write_tag2", "write_tag", "write_vertex") and n.args:
                for c in const(n.args[0]):
                    found.append((n.lineno, n.col_offset, c))
            elif fn == "export_dxf":
                for kw in n.keywords:
                    if kw.arg == "code":
                        for c in const(kw.value):
                            found.append((n.lineno, n.col_offset, c))
            elif fn in ("tag_index", "collect_consecutive_tags", "create_vertex_array", "collect_values", "split_mtext_string",
                        "group_tags"):
                for a in list(n.args) + [kw.value for kw in n.keywords]:
                    for c in const(a):
                        found.append((n.lineno, n.col_offset, c))
        elif isinstance(n, ast.Compare):
            left = n.left
            is_code = (isinstance(left, ast.Name) and left.id == "code") or (isinstance(left, ast.Attribute) and left.attr == "code")
            if is_code:
                for cmp in n.comparators:
                    for c in const(cmp):
                        found.append((n.lineno, n.col_offset, c))
    found.sort()
    return [c for _, _, c in found]


def payload_tables(ctx):
    import importlib

    lines = ["namespace EzdxfVerif.Gen.PayloadTables", ""]
    from ezdxf.entities import polygon, dictionary, dxfgroups

    lines.append(f"/-- `PATH_CODES` of entities/polygon.py -/\ndef pathCodes : List Int := {lean_list([str(c) for c in sorted(polygon.PATH_CODES)])}")
    lines.append(f"/-- `PATTERN_DEFINITION_LINE_CODES` -/\ndef patternCodes : List Int := {lean_list([str(c) for c in sorted(polygon.PATTERN_DEFINITION_LINE_CODES)])}")
    lines.append(f"def dictKeyCode : Int := {dictionary.KEY_CODE}\ndef dictValueCode : Int := {dictionary.VALUE_CODE}")
    lines.append(f"def dictSearchCodes : List Int := {lean_list([str(c) for c in dictionary.SEARCH_CODES])}")
    srcs = []
    for name, file, qual in PAYLOAD_FUNCS:
        src = ctx.src(file)
        if file not in srcs:
            srcs.append(file)
        mod = importlib.import_module("ezdxf." + file[len("src/ezdxf/"):-3].replace("/", "."))
        consts = {k: v for k, v in vars(mod).items() if isinstance(v, (int, tuple, set, frozenset)) and not isinstance(v, bool)}
        codes = ast_group_codes(src, qual, consts)
        lines.append(f"/-- {file}: {qual} -/\ndef {name} : List Int := {lean_list([str(c) for c in codes])}")
    lines += ["", "end EzdxfVerif.Gen.PayloadTables", ""]
    ctx.write_gen("PayloadTables", "\n".join(lines), srcs)


def regenerate(ctx):
    for s in SRC_FILES:
        ctx.src(s)
    srcs = SRC_FILES + entity_sources(ctx)
    data = schemas(ctx)
    st = data["stats"]
    ctx.note(f"T-schema: {st['classes']} classes, {st['attrs']} declared attributes ({st['callbacks']} callbacks), "
             f"{st['plans']} traced (class, version) plans, {st['attrs_exported']} attributes exported through export_dxf_attribs, "
             f"{len(data['mappings'])} distinct group code mappings; no instance through the public API for {st['no_instance']}")
    for n in data["notes"][:40]:
        ctx.note("T-schema note: " + n)
    ctx.write_gen("Schemas", emit_lean(data), srcs)
    payload_tables(ctx)
    # the envelope theorems (Props section 6) are stated over C02's storage model, whose statement-order tables
    # (Gen/StorageTables.lean: export_base_class / export_dxf order, XDATA codes, ...) are extracted from the source by
    # C02's regenerate: run it here too, so that C01 builds on a fresh tree and follows the current source
    import importlib

    # Props section 9 (entity_bytes_roundtrip) is stated over C03's binary tag codec (Props/C03.lean, Gen/TagTables.lean):
    # regenerate its tables as well, same guard
    try:
        importlib.import_module("props.c03" if __name__.startswith("props.") else "c03").regenerate(ctx)
    except Exception as ex:  # noqa
        cls = type(ctx.broken[0]) if getattr(ctx, "broken", None) else None
        if cls is None:
            for name in ("runner", "harness.runner"):
                try:
                    cls = importlib.import_module(name).Broken
                    break
                except Exception:  # noqa
                    continue
        ctx.broken.append(cls("translation", "C03 generator (harness/props/c03.py regenerate -> Gen/TagTables.lean, used by Props/C01 section 9)",
                              f"{type(ex).__name__}: {str(ex)[:500]}"))
    c02 = importlib.import_module("props.c02" if __name__.startswith("props.") else "c02")
    try:
        c02.regenerate(ctx)
    except Exception as ex:  # noqa
        # C02's generator left its translated subset (its own check reports the details).  C01 needs Gen/StorageTables.lean
        # from it, which that function writes last and which cannot be produced separately (it embeds the document level
        # part).  ONE broken obligation naming the foreign generator; the rest of C01 (Lean build against the last generated
        # StorageTables, correspondence, oracle) goes on.
        broken_cls = type("Broken", (), {})
        for b in getattr(ctx, "broken", []):
            broken_cls = type(b)
            break
        else:
            import importlib as _il
            for name in ("runner", "harness.runner"):
                try:
                    broken_cls = _il.import_module(name).Broken
                    break
                except Exception:  # noqa
                    continue
        ctx.broken.append(broken_cls("translation", "C02 generator (harness/props/c02.py regenerate -> Gen/StorageTables.lean, used by Props/C01 section 6)",
                                     f"{type(ex).__name__}: {str(ex)[:500]}"))


# ====================================================================================== protocol values
def pval(v) -> str:
    from ezdxf.math import Vec3, Vec2

    if v is None:
        return "N"
    if isinstance(v, bool):
        return f"i{int(v)}"
    if isinstance(v, int):
        return f"i{v}"
    if isinstance(v, float):
        return f"d{fbits(v)}"
    if isinstance(v, str):
        return "s" + ".".join(str(ord(c)) for c in v)
    if isinstance(v, (bytes, bytearray)):
        return "b" + ".".join(str(b) for b in v)
    if isinstance(v, Vec3):
        return f"p{fbits(v.x)}.{fbits(v.y)}.{fbits(v.z)}"
    if isinstance(v, Vec2):
        return f"q{fbits(v.x)}.{fbits(v.y)}"
    if isinstance(v, (tuple, list)) or hasattr(v, "__len__"):
        v = tuple(v)
        if len(v) == 2:
            return f"q{fbits(v[0])}.{fbits(v[1])}"
        if len(v) == 3:
            return f"p{fbits(v[0])}.{fbits(v[1])}.{fbits(v[2])}"
    raise ValueError(f"no protocol form for {v!r}")


def ptag(tag) -> str:
    from ezdxf.lldxf.types import DXFVertex

    if isinstance(tag, DXFVertex):
        return f"{tag.code}:{pval(tuple(tag.value))}"
    return f"{tag.code}:{pval(tag.value)}"


def pns(d: dict) -> str:
    """namespace dict {name: value} -> sorted protocol form (ascending interned name)"""
    items = sorted((enc_name(k), v) for k, v in d.items() if v is not None)
    return ";".join(f"{k}={pval(v)}" for k, v in items)


def pmapping(m: dict) -> str:
    def nm(s):
        return f"{enc_name(s)}*" if s[0] == "*" else str(enc_name(s))

    out = []
    for code in sorted(m):
        v = m[code]
        out.append(f"{code}=" + (",".join(nm(x) for x in v) + "+" if isinstance(v, list) else nm(v)))
    return ";".join(out)


class Collector:
    """minimal AbstractTagWriter that keeps the tag objects"""

    def __new__(cls, dxfversion, force=False):
        from ezdxf.lldxf.tagwriter import AbstractTagWriter
        from ezdxf.lldxf.types import DXFTag

        class _C(AbstractTagWriter):
            def __init__(self):
                self.tags = []
                self.dxfversion = dxfversion
                self.force_optional = force
                self.write_handles = True

            def write_tag(self, tag):
                self.tags.append(tag)

            def write_tag2(self, code, value):
                self.tags.append(DXFTag(code, value))

            def write_str(self, s):
                raise NotImplementedError

        return _C()


# ====================================================================================== X1: one attribute, synthetic
def x1_cases(ctx):
    from ezdxf.lldxf.attributes import DXFAttr, DXFAttributes, DefSubclass, XType
    from ezdxf.entities.dxfentity import DXFEntity
    from ezdxf.entities.dxfns import DXFNamespace
    from ezdxf.lldxf.types import cast_value
    from ezdxf.math import Vec3

    rng = ctx.rng("x1")
    nan = float("nan")
    pools = {
        70: ([None, 0, 1, 7, -1, 32767], [None, 0, 1, 7, 256]),
        90: ([None, 0, 5, 2 ** 31 - 1], [None, 0, 5, -(2 ** 31)]),
        290: ([None, 0, 1, True], [None, 0, 1]),
        160: ([None, 0, 2 ** 40], [None, 2 ** 40, 1]),
        40: ([None, 0, 0.0, -0.0, 1.0, 1, 2.5, nan], [None, 0.0, -0.0, 1.0, 2.5, 5e-324, nan, 1 / 3]),
        1: ([None, "", "A", "0", "BYLAYER"], [None, "", "A", "0", "BYLAYER", "x" * 300]),
        8: ([None, "0"], [None, "0", "L"]),
        330: ([None, "0"], [None, "0", "FF"]),
        62: ([None, 256, 0], [None, 256, 0, 7, 257]),
        370: ([None, -1], [None, -1, -3, 13, 211]),
        48: ([None, 1.0, 1], [None, 1.0, 0.5, 1e-300]),
        420: ([None], [None, 0, 0xFFFFFF]),
        6: ([None, "BYLAYER"], [None, "BYLAYER", "bylayer", "DASHED"]),
        50: ([None, 0, 0.0], [None, 0.0, -0.0, 359.99999999999994]),
        281: ([None, 0], [None, 0, 1]),
        1070: ([None], [None, 0, -32768]),
        1040: ([None, 0.0], [None, 0.0, 2.5]),
        3: ([None, ""], [None, "", "x" * 2049 + "^"]),
        10: ([None, (0, 0, 0), (0, 0, 1), Vec3(1, 2, 3), (1.0, 2.0), (-0.0, 0.0, 0.0)],
             [None, Vec3(0, 0, 0), Vec3(0, 0, 1), Vec3(1, 2, 3), Vec3(1, 2, 0), Vec3(-0.0, 0.0, -0.0), Vec3(1, 2, -0.0),
              Vec3(nan, 1, 0)]),
        210: ([None, (0, 0, 1)], [None, Vec3(0, 0, 1), Vec3(0, 0, -1), Vec3(0.0, -0.0, 1.0)]),
        11: ([None, (1, 0, 0)], [None, Vec3(1, 0, 0), Vec3(5e-324, 1e300, -1)]),
    }
    xts = {None: 0, XType.point2d: 1, XType.point3d: 2, XType.any_point: 3}
    combos = []
    for code, (defaults, values) in pools.items():
        xtl = [None, XType.point2d, XType.point3d, XType.any_point] if code in (10, 210, 11) else [None, XType.point2d]
        for xt in xtl:
            for d in defaults:
                if isinstance(d, tuple) and len(d) == 2 and xt != XType.point2d:
                    continue  # 2-component defaults exist on point2d attributes only (checked by the tracer)
                for opt in (False, True):
                    for v in values:
                        combos.append((code, xt, d, opt, v))
    rng.shuffle(combos)
    combos = combos[: ctx.n(3000, 20000)]
    cases = []
    for code, xt, d, opt, v in combos:
        minver = rng.choice(["AC1009", "AC1009", "AC1015", "AC1021", "AC1032"])
        ver = rng.choice(VERSIONS)
        force = rng.random() < 0.2
        attr = DXFAttr(code, xtype=xt, default=d, optional=opt, dxfversion=minver)
        cls = type("Dummy", (DXFEntity,), {"DXFTYPE": "DUMMY", "DXFATTRIBS": DXFAttributes(DefSubclass(None, {"a": attr}))})
        e = cls()
        e.dxf = DXFNamespace(entity=e)
        if v is not None:
            e.dxf.set("a", v)
        w = Collector(ver, force)
        try:
            e.dxf.export_dxf_attribs(w, "a")
            impl = ptag(w.tags[0]) if w.tags else "N"
        except Exception as ex:  # noqa
            impl = "err " + type(ex).__name__
        nd = None if d is None else cast_value(code, d)
        stored = e.dxf.get("a")
        req = f"exp|{code}|{xts[xt]}|{pval(nd)}|{int(opt)}|{vernum(minver)}|{vernum(ver)}|{int(force)}|{pval(stored)}"
        ctx.hist("X1 export one attribute", value_class(code) + ("/opt" if opt else "/req") + ("/unset" if v is None else "/set"))
        nontrivial = impl == "N" or xt == XType.point2d or d is not None
        cases.append((req, impl, nontrivial))
    return cases


# ====================================================================================== X2: loaders, synthetic
NAMEPOOL = ["alpha", "beta", "gamma", "delta", "flags", "layer", "color", "*cb", "*IGNORE", "*other", "x1", "y2", "linetype"]
CODEPOOL = [1, 2, 3, 8, 6, 62, 70, 70, 71, 90, 40, 41, 10, 11, 210, 330, 370, 48, 60, 420, 430, 440, 284, 347, 290]
RECOVER_VALUES = {8: ["L1", "0"], 6: ["DASHED", "BYLAYER"], 62: [3, 256], 67: [1, 0], 370: [13, 50], 48: [2.0, 0.5], 60: [1, 0],
                  420: [255, 1], 430: ["red"], 440: [0x02000080], 284: [1, 2], 347: ["AB"], 348: ["AC"], 380: [2], 390: ["AD"]}


def rand_value(rng, code):
    from ezdxf.math import Vec3

    if code in RECOVER_VALUES:
        # always valid for the attribute validators: recover_graphic_attributes() goes through dxf.set(), whose
        # validators/fixers are outside the model
        return rng.choice(RECOVER_VALUES[code])
    vc = value_class(code)
    if vc == "point":
        return rng.choice([(1.0, 2.0), (1.0, 2.0, 3.0), (-0.0, 5e-324, 1e300), (0.5, 0.25)])
    if vc == "int":
        return rng.choice([0, 1, 2, 3, 7, 100])
    if vc == "float":
        return rng.choice([0.0, -0.0, 1.5, 1 / 3, 1e300])
    return rng.choice(["", "A", "txt", "FF", "0"])


def x2_cases(ctx):
    from ezdxf.entities import Line
    from ezdxf.entities.dxfns import SubclassProcessor
    from ezdxf.lldxf.extendedtags import ExtendedTags
    from ezdxf.lldxf.tags import Tags
    from ezdxf.lldxf.types import dxftag, DXFTag

    rng = ctx.rng("x2")
    cases = []
    base = ExtendedTags([DXFTag(0, "LINE"), DXFTag(5, "1"), DXFTag(100, "AcDbEntity"), DXFTag(8, "0")])
    for i in range(ctx.n(4000, 80000)):
        # mapping
        m = {}
        for _ in range(rng.randint(0, 6)):
            code = rng.choice(CODEPOOL)
            if rng.random() < 0.35:
                m[code] = [rng.choice(NAMEPOOL) for _ in range(rng.randint(1, 3))]
            else:
                m[code] = rng.choice(NAMEPOOL)
        codes = list(m) or [70]
        # tags
        raw = []
        for _ in range(rng.randint(0, 9)):
            code = rng.choice(codes) if rng.random() < 0.6 else rng.choice(CODEPOOL)
            raw.append((code, rand_value(rng, code)))
        kind = rng.choice(["fast", "fast", "fast-r12", "simple", "fast-recover"])
        first = rng.choice([None, None, (100, "AcDbX"), (0, "LINE")])
        if kind == "fast-r12":
            first = (0, "LINE")
        if first is not None:
            raw.insert(0, first)
        tags = [dxftag(c, v) for c, v in raw]
        pre = {}
        for _ in range(rng.randint(0, 2)):
            pre[rng.choice(["alpha", "layer", "color", "x1"])] = rng.choice([1, "s", 2.5])
        e = Line()
        e.dxf = __import__("ezdxf.entities.dxfns", fromlist=["DXFNamespace"]).DXFNamespace(entity=e)
        e.dxf.reset_handles()
        for k, v in pre.items():
            e.dxf.unprotected_set(k, v)
        rcv = kind == "fast-recover"
        rc, r12 = int(rcv), int(kind == "fast-r12")
        try:
            if kind == "fast-r12":
                proc = SubclassProcessor(ExtendedTags(tags), dxfversion="AC1009")
                unp = proc.fast_load_dxfattribs(e.dxf, m, 0, recover=rng.random() < 0.5, log=False)
            elif kind == "simple":
                proc = SubclassProcessor(ExtendedTags(tags if first == (0, "LINE") else [DXFTag(0, "LINE")] + tags), dxfversion="AC1015")
                all_tags = [t for sub in proc.subclasses for t in sub]
                proc.simple_dxfattribs_loader(e.dxf, m)
                unp = None
                tags = all_tags
            else:
                proc = SubclassProcessor(base, dxfversion="AC1015")
                unp = proc.fast_load_dxfattribs(e.dxf, m, Tags(tags), recover=rcv, log=False)
            ns = {k: v for k, v in e.dxf.all_existing_dxf_attribs().items() if k not in ("handle", "owner")}
            impl = pns(ns) + ("" if unp is None else "|" + ";".join(ptag(t) for t in unp))
        except Exception as ex:  # noqa
            impl = "err " + type(ex).__name__
        tl = ";".join(ptag(t) for t in tags)
        if kind == "simple":
            req = f"simple|{pmapping(m)}|{tl}|{pns(pre)}"
        else:
            req = f"fast|{rc}|{r12}|{pmapping(m)}|{tl}|{pns(pre)}"
        ctx.hist("X2 generic loaders", kind)
        nontrivial = any(isinstance(v, list) for v in m.values()) or any(t.code in m for t in tags)
        cases.append((req, impl, nontrivial))
    return cases


# ====================================================================================== X3: registered classes
def randomize_namespace(e, rng, keep=("handle", "owner")):
    """random state of the namespace of a real entity: every declared non-callback attribute is unset, set to its
    default, or set to a value of its class (through the public setter, validators may refuse)"""
    from ezdxf.lldxf.attributes import XType

    dxftype = e.dxftype()
    for name, a in e.DXFATTRIBS._attribs.items():
        if a.xtype == XType.callback or name in keep or a.code < 0:
            continue
        r = rng.random()
        if r < 0.25:
            if (dxftype, name) not in REQUIRED_ATTRIBS and name not in REQUIRED_NAMES:
                e.dxf.discard(name)
        elif r < 0.45 and a.default is not None:
            try:
                e.dxf.set(name, a.default)
            except Exception:  # noqa
                pass
        else:
            cands = SPECIAL_VALUES.get((dxftype, name)) or candidates(a)
            for _ in range(3):
                try:
                    e.dxf.set(name, rng.choice(cands))
                    break
                except Exception:  # noqa
                    continue


# attributes the export code of an entity reads unconditionally (a missing value is an AttributeError/DXFError in
# export_entity, i.e. not a document "reachable through the factory methods")
REQUIRED_NAMES = {"name", "layer"}
REQUIRED_ATTRIBS = {("INSERT", "name"), ("DIMENSION", "dimtype"), ("ARC_DIMENSION", "dimtype"),
                    ("LARGE_RADIAL_DIMENSION", "dimtype")}


# attributes whose exported value is computed by export_entity itself (not the generic machinery)
BESPOKE_EXPORT = {("ARC_DIMENSION", "dimtype"): "ArcDimension.export_entity rewrites dimtype (5 up to R2013, 8 from R2018) and restores it"}


def expent_line(segs) -> str:
    out = []
    for marker, evs in segs:
        items = []
        if marker is not None:
            items.append(f"0@M{enc_name(marker)}")
        for i, ev in enumerate(evs):
            if ev[0] == "raw":
                items.append(f"{i + 1}@r{ev[1]}")
            elif ev[2]:
                items.append(f"{i + 1}@{enc_name(ev[1])}:{ev[3]}:{pval(ev[4])}")
            else:
                items.append(f"{i + 1}@{enc_name(ev[1])}:N")
        out.append(";".join(items))
    return "/".join(out)


def plan_shape(segs):
    return [(m, [(e[0], e[1]) for e in evs]) for m, evs in segs]


def x3_cases(ctx):
    """real export_dxf / load of one instance per registered class with random namespaces vs. the model running the
    generated plan of that class and version"""
    import ezdxf
    from ezdxf.entities import factory
    from ezdxf.lldxf.attributes import XType
    from ezdxf.lldxf.extendedtags import ExtendedTags
    from ezdxf.lldxf.types import cast_value

    rng = ctx.rng("x3")
    data = schemas(ctx)
    doc = ezdxf.new("R2018")
    zoo = build_zoo(doc)
    for e in zoo.values():
        if hasattr(e, "sat") and hasattr(e, "sab"):
            e.sat = SAT
    load_docs = {v: ezdxf.new(VNAME[v]) for v in VERSIONS}
    exp_cases, load_cases = [], []
    shape_changes = 0
    per = ctx.n(3, 24)
    for c in data["classes"]:
        e = zoo.get(c["dxftype"])
        if e is None or not c["plans"]:
            continue
        cls = factory.ENTITY_CLASSES[c["dxftype"]]
        plans = {p["ver"]: p for p in c["plans"]}
        callbacks = [n for n, a in cls.DXFATTRIBS._attribs.items() if a.xtype == XType.callback]
        for k in range(per):
            randomize_namespace(e, rng)
            for ver in VERSIONS:
                p = plans.get(vernum(ver))
                if p is None:
                    continue
                if ctx.quick and rng.random() < 0.5 and k > 0:
                    continue
                force = rng.random() < 0.15
                try:
                    tr = trace_export(e, ver, force_optional=force)
                except Exception as ex:  # noqa
                    ctx.hist("X3 registered classes", "export raised " + type(ex).__name__)
                    continue
                if tr is None:
                    continue
                text, segs = tr
                if plan_shape(segs) != plan_shape(p["segs"]):
                    # data dependent branch in export_entity: the generated plan describes another shape
                    shape_changes += 1
                    ctx.hist("X3 registered classes", "other export shape (data dependent)")
                    continue
                # The setter stores cast_value(code, value); the one exception is a RETURN_DEFAULT fixer, which stores the
                # declared default uncast (int 1 under a float code).  Python's == and the tag writer's cast_tag_value do
                # not distinguish it from its cast, the model has one value per class: normalise.
                ns = {}
                for k2, v in e.dxf.all_existing_dxf_attribs().items():
                    if k2 in ("handle", "owner") or v is None:
                        continue
                    a = cls.DXFATTRIBS.get(k2)
                    ns[k2] = cast_value(a.code, v) if a is not None and a.code > 0 else v
                for (dt, an), _why in BESPOKE_EXPORT.items():
                    if dt == c["dxftype"]:
                        for _, evs in segs:
                            for ev in evs:
                                if ev[0] == "attr" and ev[1] == an and ev[2]:
                                    ns[an] = ev[4]
                for cb in callbacks:
                    try:
                        ns[cb] = e.dxf.get(cb)
                    except Exception:  # noqa
                        pass
                try:
                    nsline = pns(ns)
                except ValueError:
                    continue
                req = f"expent|{enc_name(c['dxftype'])}|{vernum(ver)}|{int(force)}|{nsline}"
                exp_cases.append((req, expent_line(segs), True))
                ctx.hist("X3 registered classes", "export " + VNAME[ver])
                # load side
                try:
                    xt = ExtendedTags.from_text(text)
                    subs = []
                    for sub, seg in zip(xt.subclasses, segs):
                        labs = written_labels(seg)
                        subs.append(";".join(f"{lab}@{ptag(t)}" for t, (lab, _) in zip(sub, labs)))
                    HOOKS.install()
                    HOOKS.loads = []
                    try:
                        ent = factory.load(xt, load_docs[ver])
                    finally:
                        recs, HOOKS.loads = HOOKS.loads, None
                except Exception as ex:  # noqa
                    ctx.hist("X3 registered classes", "load raised " + type(ex).__name__)
                    continue
                names = {ev[1] for _, evs in p["segs"] for ev in evs if ev[0] == "attr"}
                # the namespace right after the last generic loader call (bespoke post-processing comes later)
                after = recs[-1]["after"] if recs else {}
                got = {k2: v for k2, v in after.items() if k2 in names and v is not None}
                try:
                    resp = pns(got)
                except ValueError:
                    continue
                load_cases.append((f"loadent|{enc_name(c['dxftype'])}|{vernum(ver)}|{'/'.join(subs)}", resp, True))
                ctx.hist("X3 registered classes", "load " + VNAME[ver])
    ctx.note(f"X3: {len(exp_cases)} exports, {len(load_cases)} loads, {shape_changes} exports took a data dependent branch not described by the traced plan (skipped)")
    return exp_cases, load_cases


def x3_all(ctx):
    a, b = x3_cases(ctx)
    return a + b


# ====================================================================================== oracle on the real code
# (dxftype, attribute) pairs whose value after reload legitimately differs from the value set before: every entry
# names the code that makes it so.  Everything else that differs is reported.
BY_DESIGN = {
    # legacy elevation (group 38): dxfgfx.elevation_to_z_axis() moves it into the z-axis, never exported
    **{(t, "elevation"): "legacy group code 38, folded into z by elevation_to_z_axis(), never exported"
       for t in ("ARC", "ATTDEF", "ATTRIB", "CIRCLE", "INSERT", "SHAPE", "SOLID", "TEXT", "TRACE", "POINT", "LINE", "3DFACE")},
    ("BLOCK", "flags"): "bit 2 (has attdefs) is computed from the block content at export",
    ("MLINE", "flags"): "bit 1 (has vertices) is computed at export",
    ("TABLE", "count"): "number of entries, computed at export",
    ("WIPEOUT", "count_boundary_points"): "computed from the boundary path",
    ("IMAGE", "count_boundary_points"): "computed from the boundary path",
    ("WIPEOUT", "image_def_handle"): "a WIPEOUT has no image definition, always written as 0",
    ("WIPEOUT", "image_def_reactor_handle"): "same",
    ("INSERT", "attribs_follow"): "computed from the attached ATTRIBs",
    ("HATCH", "n_seed_points"): "number of seed points, computed", ("MPOLYGON", "n_seed_points"): "same",
    ("HATCH", "pattern_angle"): "pattern data are written for pattern fills only (solid_fill=0)",
    ("HATCH", "pattern_scale"): "same", ("HATCH", "pattern_double"): "same",
    ("MPOLYGON", "pattern_angle"): "same", ("MPOLYGON", "pattern_scale"): "same", ("MPOLYGON", "pattern_double"): "same",
    ("MPOLYGON", "hatch_style"): "not part of the MPOLYGON export",
    ("DIMENSION", "defpoint4"): "belongs to another dimension type than the exported subclass",
    ("DIMENSION", "defpoint5"): "same", ("DIMENSION", "leader_length"): "same", ("DIMENSION", "angle"): "same",
    ("DIMENSION", "defpoint2"): "same", ("DIMENSION", "defpoint3"): "same", ("DIMENSION", "oblique_angle"): "same",
    ("ARC_DIMENSION", "defpoint5"): "same", ("ARC_DIMENSION", "leader_length"): "same", ("ARC_DIMENSION", "angle"): "same",
    ("ARC_DIMENSION", "oblique_angle"): "same",
    ("LARGE_RADIAL_DIMENSION", "defpoint2"): "same", ("LARGE_RADIAL_DIMENSION", "defpoint3"): "same",
    ("LARGE_RADIAL_DIMENSION", "defpoint5"): "same", ("LARGE_RADIAL_DIMENSION", "angle"): "same",
    ("LARGE_RADIAL_DIMENSION", "oblique_angle"): "same", ("LARGE_RADIAL_DIMENSION", "leader_length"): "same",
    **{("DIMSTYLE", n + "_handle"): "resource handles are derived from the names at export and discarded after loading"
       for n in ("dimblk", "dimblk1", "dimblk2", "dimldrblk", "dimltype", "dimltex1", "dimltex2", "dimtxsty")},
    ("DIMSTYLE", "dimldrblk"): "post_load_hook() stores the default arrow name '' when no handle is present",
    ("DIMSTYLE", "dimblk"): "same", ("DIMSTYLE", "dimblk1"): "same", ("DIMSTYLE", "dimblk2"): "same",
    ("DGNUNDERLAY", "flags"): "reset_boundary_path() clears the clipping bit when there is no clipping path",
    ("DWFUNDERLAY", "flags"): "same", ("PDFUNDERLAY", "flags"): "same", ("PDFREFERENCE", "flags"): "same",
    ("SPATIAL_FILTER", "front_clipping_plane_distance"): "written only if has_front_clipping_plane",
    ("SPATIAL_FILTER", "back_clipping_plane_distance"): "written only if has_back_clipping_plane",
    ("GEODATA", "north_direction"): "discarded for GEODATA version 1 (group code clash documented in geodata.py)",
    ("ARC_DIMENSION", "dimtype"): "ArcDimension.export_entity writes the type number of the target version (5 / 8)",
    ("DIMSTYLE", "dimfit"): "obsolete variable (comment in dimstyle.py: use DIMATFIT and DIMTMOVE), in no export map",
    ("DIMSTYLE", "dimunit"): "obsolete variable (comment in dimstyle.py), in no export map",
    ("3DSOLID", "history_handle"): "the AcDb3dSolid subclass is written from DXF R2007 on (version test in export_entity)",
    ("MPOLYGON", "fill_color"): "written for versions after DXF R2000 only (explicit version test in MPolygon.export_entity)",
}

ATTR_NEVER = ("handle",)


def entity_payload(e):
    """type specific data held outside the DXF namespace, canonical and hashable"""
    t = e.dxftype()

    def fl(x):
        return ("f", fbits(x))

    def pt(p):
        return tuple(fbits(c) for c in p)

    try:
        if t == "LWPOLYLINE":
            # zero widths / bulges are not written and come back as +0.0 (theorem lwpoints_roundtrip): -0.0 == 0.0
            return tuple((fbits(p[0]), fbits(p[1])) + tuple(fbits(c) if c != 0 else 0 for c in p[2:]) for p in e.get_points("xyseb"))
        if t == "POLYLINE":
            return tuple((v.dxf.handle, pt(v.dxf.location), v.dxf.get("flags", 0), fl(v.dxf.get("bulge", 0.0)),
                          fl(v.dxf.get("start_width", 0.0)), fl(v.dxf.get("end_width", 0.0)),
                          tuple(v.dxf.get(f"vtx{i}", 0) for i in range(4))) for v in e.vertices) + (
                e.seqend.dxf.handle if e.seqend is not None else None,)
        if t == "INSERT":
            # the SEQEND of an INSERT without ATTRIBs is not part of the file
            return tuple((a.dxf.handle, a.dxf.tag, a.dxf.text) for a in e.attribs) + (
                e.seqend.dxf.handle if (e.seqend is not None and len(e.attribs)) else None,)
        if t in ("SPLINE", "HELIX"):
            return (tuple(pt(p) for p in e.control_points), tuple(fbits(k) for k in e.knots),
                    tuple(fbits(w) for w in e.weights), tuple(pt(p) for p in e.fit_points))
        if t in ("HATCH", "MPOLYGON"):
            paths = []
            for p in e.paths:
                if p.type.name == "POLYLINE":
                    paths.append(("P", p.path_type_flags, bool(p.is_closed), tuple(tuple(fbits(c) for c in v) for v in p.vertices),
                                  tuple(p.source_boundary_objects)))
                else:
                    edges = []
                    for ed in p.edges:
                        k = ed.type.name
                        if k == "LINE":
                            edges.append((k, pt(ed.start), pt(ed.end)))
                        elif k == "ARC":
                            edges.append((k, pt(ed.center), fbits(ed.radius), fbits(ed.start_angle), fbits(ed.end_angle), ed.ccw))
                        elif k == "ELLIPSE":
                            edges.append((k, pt(ed.center), pt(ed.major_axis), fbits(ed.ratio), fbits(ed.start_angle),
                                          fbits(ed.end_angle), ed.ccw))
                        else:
                            edges.append((k, ed.degree, ed.rational, ed.periodic, tuple(fbits(x) for x in ed.knot_values),
                                          tuple(pt(c) for c in ed.control_points), tuple(fbits(w) for w in ed.weights),
                                          tuple(pt(c) for c in ed.fit_points),
                                          None if ed.start_tangent is None else pt(ed.start_tangent),
                                          None if ed.end_tangent is None else pt(ed.end_tangent)))
                    paths.append(("E", p.path_type_flags, tuple(edges), tuple(p.source_boundary_objects)))
            pat = None
            if e.pattern is not None:
                pat = tuple((fbits(l.angle), pt(l.base_point), pt(l.offset), tuple(fbits(d) for d in l.dash_length_items))
                            for l in e.pattern.lines) or None  # a pattern object without lines is no pattern
            grad = None
            if e.gradient is not None:
                g = e.gradient
                grad = (g.kind, g.name, fbits(g.rotation), fbits(g.centered), fbits(g.tint), tuple(g.color1), tuple(g.color2),
                        g.aci1, g.aci2)
                if g.kind == 0:
                    grad = None  # kind 0 = "solid hatch": no gradient
            return (tuple(paths), pat, grad, tuple(pt(p) for p in e.seeds))
        if t == "MTEXT":
            return (e.text,)
        if t == "MESH":
            return (tuple(pt(v) for v in e.vertices), tuple(tuple(f) for f in e.faces), tuple(tuple(x) for x in e.edges),
                    tuple(fbits(c) for c in e.creases))
        if t == "MLINE":
            return tuple((pt(v.location), pt(v.line_direction), pt(v.miter_direction),
                          tuple(tuple(fbits(x) for x in lp) for lp in v.line_params),
                          tuple(tuple(fbits(x) for x in fp) for fp in v.fill_params)) for v in e.vertices)
        if t == "LEADER":
            return tuple(pt(v) for v in e.vertices)
        if t in ("IMAGE", "WIPEOUT"):
            return tuple(pt(v) for v in e.boundary_path)
        if t in ("PDFUNDERLAY", "DWFUNDERLAY", "DGNUNDERLAY", "PDFREFERENCE"):
            return tuple(pt(v) for v in e.boundary_path)
        if t == "LTYPE":
            # R12: the handle tag stays in the pattern tags; (74, 0) = "simple dash element" does not exist in R12
            return tuple((tg.code, tg.value) for tg in e.pattern_tags.tags if tg.code != 5 and (tg.code, tg.value) != (74, 0))
        if t == "XRECORD":
            return tuple((tg.code, tg.value if not hasattr(tg.value, "__len__") or isinstance(tg.value, (str, bytes)) else tuple(tg.value)) for tg in e.tags)
        if t in ("DICTIONARY", "ACDBDICTIONARYWDFLT"):
            return tuple(sorted((k, v if isinstance(v, str) else v.dxf.handle) for k, v in e.items()
                                if k not in ("CREATED_BY_EZDXF", "WRITTEN_BY_EZDXF")))  # ezdxf meta data, written at export
        if t == "GROUP":
            return tuple(x.dxf.handle for x in e)
        if t == "MLINESTYLE":
            return tuple((fbits(el.offset), el.color, el.linetype) for el in e.elements)
        if t in ("3DSOLID", "BODY", "REGION", "SURFACE", "EXTRUDEDSURFACE", "LOFTEDSURFACE", "REVOLVEDSURFACE", "SWEPTSURFACE"):
            return (tuple(e.sat), bytes(e.sab) if e.has_binary_data else b"")
        if t in ("MULTILEADER", "MLEADER"):
            c = e.context
            return (fbits(c.scale), pt(c.base_point), fbits(c.char_height), fbits(c.arrow_head_size),
                    None if c.mtext is None else (c.mtext.default_content, pt(c.mtext.insert), fbits(c.mtext.rotation), c.mtext.alignment),
                    tuple((pt(ld.last_leader_point) if ld.has_last_leader_line else None,
                           tuple(tuple(pt(v) for v in ln.vertices) for ln in ld.lines)) for ld in c.leaders),
                    tuple(sorted(e.arrow_heads.items())) if hasattr(e, "arrow_heads") else None)
        if t == "DIMENSION":
            return (tuple(sorted((k, repr(v)) for k, v in e.override().dimstyle_attribs.items())) if e.doc else None,)
        if t == "SORTENTSTABLE":
            return tuple(e.table.items()) if hasattr(e, "table") else None
        if t == "IMAGEDEF_REACTOR":
            return (e.dxf.get("image_handle"),)
        if t == "VISUALSTYLE":
            return tuple((tg.code, tg.value) for tg in getattr(e, "acad_xdata", []) or [])
        if t == "GEODATA":
            return (e.coordinate_system_definition, tuple(pt(v) for v in e.source_vertices), tuple(pt(v) for v in e.target_vertices),
                    tuple(tuple(f) for f in e.faces))
    except Exception as ex:  # noqa  a payload accessor that raises is itself an observation
        return ("EXC", type(ex).__name__, str(ex)[:60])
    return None


def entity_snapshot(e):
    from ezdxf.lldxf.attributes import XType

    attrs = {}
    for name, a in e.DXFATTRIBS._attribs.items():
        if a.xtype == XType.callback or name in ATTR_NEVER:
            continue
        try:
            attrs[name] = e.dxf.get_default(name)
        except Exception as ex:  # noqa
            attrs[name] = ("EXC", type(ex).__name__)
    xdata = None
    if e.xdata is not None:
        xdata = tuple(sorted((app, tuple((t.code, t.value if not hasattr(t.value, "xyz") else tuple(fbits(c) for c in t.value)) for t in tags))
                             for app, tags in e.xdata.data.items() if app != "EZDXF"))  # EZDXF = meta data with time stamps (R12)
        if not xdata:
            xdata = None
    # an EMPTY container (all XDATA / application data / reactor handles discarded) and no container at all are the same
    # state: nothing is written for either (no 1001 list, no 102 group, no {ACAD_REACTORS group), and the loader creates the
    # container only when the file holds such a group.  Observed as None in both cases (like a destroyed extension dictionary).
    appdata = None
    if e.appdata is not None:
        appdata = tuple(sorted((app, tuple((t.code, t.value) for t in tags)) for app, tags in e.appdata.data.items())) or None
    reactors = (tuple(sorted(e.reactors.get())) or None) if e.reactors is not None else None
    xdict = None
    if e.has_extension_dict:
        try:
            d = e.extension_dict.dictionary
            xdict = (d.dxf.handle, tuple(sorted((k, v if isinstance(v, str) else v.dxf.handle) for k, v in d.items())))
        except Exception as ex:  # noqa
            xdict = ("EXC", type(ex).__name__)
    return {"type": e.dxftype(), "attrs": attrs, "payload": entity_payload(e), "xdata": xdata, "appdata": appdata,
            "reactors": reactors, "xdict": xdict}


def doc_snapshot(doc):
    ents = {}
    for e in doc.entitydb.values():
        if e.is_alive and e.dxf.handle is not None:
            ents[e.dxf.handle] = entity_snapshot(e)
    spaces = {}
    for lay in doc.layouts:
        spaces["L:" + lay.name] = [e.dxf.handle for e in lay]
    for blk in doc.blocks:
        spaces["B:" + blk.name] = [e.dxf.handle for e in blk]
    tables = {}
    for tname in ("layers", "linetypes", "styles", "dimstyles", "appids", "ucs", "views", "viewports", "block_records"):
        tab = getattr(doc, tname)
        tables[tname] = sorted((e.dxf.name, e.dxf.handle) for e in tab if e.dxf.hasattr("name"))
    objects = [o.dxf.handle for o in doc.objects] if doc.dxfversion > "AC1009" else []
    layouts = [(n, doc.layouts.get(n).dxf.get("taborder")) for n in doc.layouts.names_in_taborder()]
    # what the document structure reaches (entities that were unlinked from every layout stay in the entity database
    # until purge() but are not part of the document that is written)
    reach = set(objects)
    for hs in spaces.values():
        reach.update(hs)
    for rows in tables.values():
        reach.update(h for _, h in rows)
    for blk in doc.blocks:
        for x in (blk.block, blk.endblk, blk.block_record):
            if x is not None:
                reach.add(x.dxf.handle)
    for tname in ("layers", "linetypes", "styles", "dimstyles", "appids", "ucs", "views", "viewports", "block_records"):
        reach.add(getattr(doc, tname).head.dxf.handle)
    for e in doc.entitydb.values():
        if e.is_alive and e.dxf.handle in reach and hasattr(e, "all_sub_entities"):
            reach.update(x.dxf.handle for x in e.all_sub_entities() if x is not None and x.is_alive)
    # An entity that is alive but unlinked from every layout is not written, and neither is anything it owns: its
    # extension dictionary and the objects in it (OBJECTS export since fix 42c45156c; before, they were written with a dangling
    # owner).  Determined here by walking the owner handles through the entity database (independent of the export's helper).
    from ezdxf.entities import DXFGraphic

    db = doc.entitydb
    owned_by_unlinked = set()
    for h in objects:
        cur, seen = db.get(h), set()
        while cur is not None and cur.is_alive:
            owner = cur.dxf.get("owner")
            if owner is None:
                if isinstance(cur, DXFGraphic):
                    owned_by_unlinked.add(h)
                break
            if owner in seen:
                break
            seen.add(owner)
            cur = db.get(owner)
    reach -= owned_by_unlinked
    for h, b in ents.items():
        b["_reach"] = h in reach
        if h in owned_by_unlinked:
            b["_unlinked_owner"] = True
        if b["type"] == "GROUP" and b["payload"] is not None:
            # groups drop members that left the document or live in a block definition (dxfgroups._has_valid_owner)
            inlayouts = {x for k, hs in spaces.items() if k.startswith("L:") for x in hs}
            b["payload"] = tuple(x for x in b["payload"] if x in inlayouts)
    return {"ents": ents, "spaces": spaces, "tables": tables, "objects": objects, "layouts": layouts}


def write_doc(doc, fmt: str) -> bytes:
    if fmt == "asc":
        s = io.StringIO()
        doc.write(s)
        return s.getvalue().encode(doc.output_encoding, "dxfreplace") if hasattr(doc, "output_encoding") else s.getvalue().encode("utf8")
    b = io.BytesIO()
    doc.write(b, fmt="bin")
    return b.getvalue()


def read_doc(data: bytes, fmt: str, scratch):
    import ezdxf

    fn = os.path.join(str(scratch), f"rt-{os.getpid()}.dxf")
    with open(fn, "wb") as fh:
        fh.write(data)
    try:
        return ezdxf.readfile(fn)
    finally:
        try:
            os.remove(fn)
        except OSError:
            pass


# $HANDSEED: loading allocates handles for what the file does not carry (R12 tables and block records, the SEQEND of an
# INSERT without ATTRIBs), so the next free handle moves although every written handle stays
VOLATILE = {"$TDUPDATE", "$TDUUPDATE", "$VERSIONGUID", "$FINGERPRINTGUID", "$TDCREATE", "$TDUCREATE", "$HANDSEED"}


import re as _re

STAMP = _re.compile(r"^\d+\.\d+(\.\d+)?\S* @ \d{4}-\d\d-\d\dT")


def stable_records(data: bytes, fmt: str):
    """the file as a list of (code, value) with the volatile header variables removed (harness-owned parser)"""
    import dxfparse

    tags = dxfparse.parse_binary(data) if fmt == "bin" else dxfparse.parse_ascii(data.decode("utf8", "surrogateescape"))
    out = []
    skip = False
    r12 = False
    meta = 0
    for code, value in tags:
        if isinstance(value, str):
            value = value.strip() if code not in (1, 3, 1000) else value
            k = dxfparse._cls(code)
            try:
                if k == "d":
                    value = ("f", fbits(float(value)))
                elif k in ("b", "h", "i", "q"):
                    value = int(value)
            except ValueError:
                pass
        elif isinstance(value, float):
            value = ("f", fbits(value))
        if code == 9:
            skip = value in VOLATILE
        elif code == 0:
            skip = False
        if code == 1 and value == "AC1009" and out and out[-1] == (9, "$ACADVER"):
            r12 = True
        if code == 1 and isinstance(value, str) and STAMP.match(value):
            value = "<time stamp>"
        if code == 1000 and meta:
            meta -= 1
            value = "<time stamp>"
        if code in (1000, 3) and value in ("CREATED_BY_EZDXF", "WRITTEN_BY_EZDXF"):
            meta = 1 if code == 1000 else 0
        if not skip:
            out.append((code, value))
    return out


def first_diff(a, b, path=""):
    """path and values of the first differing leaf of two nested tuples"""
    if isinstance(a, tuple) and isinstance(b, tuple):
        if len(a) != len(b):
            return f"{path}: length {len(a)} -> {len(b)}"
        for i, (x, y) in enumerate(zip(a, b)):
            if x != y:
                return first_diff(x, y, f"{path}[{i}]")
        return path
    return f"{path}: {a!r:.60} -> {b!r:.60}"


def py_equal(a, b) -> bool:
    from ezdxf.math import Vec3, Vec2

    try:
        if isinstance(a, (Vec3, Vec2)) or isinstance(b, (Vec3, Vec2)):
            return Vec3(a) == Vec3(b)
        return bool(a == b)
    except Exception:  # noqa
        return False


def attr_equal(attr, before, after) -> bool:
    """the property's predicate for one attribute: bit-exact, or equal under Python == where the writer's documented
    normalisation applies (value suppressed as equal to the default; int stored by a RETURN_DEFAULT fixer under a float
    code; z of an explicit 2D point)"""
    from ezdxf.lldxf.attributes import XType
    from ezdxf.math import Vec3

    if before is None and after is None:
        return True
    if before is None or after is None:
        return False
    if same_value(before, after):
        return True
    if attr.xtype == XType.point2d:
        try:
            b3, a3 = Vec3(before), Vec3(after)
            return fbits(b3.x) == fbits(a3.x) and fbits(b3.y) == fbits(a3.y) and a3.z == 0.0
        except Exception:  # noqa
            return False
    if not py_equal(before, after):
        return False
    if attr.default is not None and py_equal(attr.default, before):
        return True  # suppressed optional value / forced default comes back as the declared default
    if isinstance(before, int) and isinstance(after, float):
        return True
    return False


# what a DXF R12 VIEWPORT can hold: five group codes plus the MVIEW XDATA list written by Viewport.dxftags()
R12_VIEWPORT = {"center", "width", "height", "status", "id", "view_target_point", "view_direction_vector", "view_twist_angle",
                "view_height", "view_center_point", "perspective_lens_length", "front_clip_plane_z_value",
                "back_clip_plane_z_value", "render_mode", "circle_zoom", "ucs_icon", "snap_angle", "snap_base_point",
                "snap_spacing", "grid_spacing", "flags", "layer", "linetype", "color", "paperspace"}
R12_VIEWPORT_FLAGS = 0x80 | 0x100 | 0x200 | 0x400 | 0x800  # fast zoom, snap, grid, isometric snap, hide plot


def special_rule(t, name, ver, before, after):
    """(accepted, reason) for attributes whose representation is narrower than the attribute, else None"""
    if t == "LAYOUT" and name == "plot_layout_flags" and isinstance(before, int) and isinstance(after, int):
        return (before & ~1024) == (after & ~1024), "bit 1024 (model space) of plot_layout_flags is computed at export"
    if t == "VIEWPORT" and ver == "AC1009":
        if name not in R12_VIEWPORT:
            return True, "not representable in a DXF R12 VIEWPORT (five group codes + MVIEW XDATA)"
        if name == "flags" and isinstance(before, int) and isinstance(after, int):
            return (before & R12_VIEWPORT_FLAGS) == (after & R12_VIEWPORT_FLAGS), "DXF R12 MVIEW XDATA holds five of the status flags"
        if name in ("view_center_point", "snap_base_point", "snap_spacing", "grid_spacing"):
            try:
                return (fbits(before[0]) == fbits(after[0]) and fbits(before[1]) == fbits(after[1])), "2D values in the MVIEW XDATA"
            except Exception:  # noqa
                return None
    return None


def min_export_versions():
    from ezdxf.entities import factory

    return {t: c.MIN_DXF_VERSION_FOR_EXPORT for t, c in factory.ENTITY_CLASSES.items()}


def compare_docs(ctx, stream, before, after, ver: str, fmt: str, rep: dict, classes, label=""):
    """compare two snapshots; report every difference that the property does not permit"""
    minv = min_export_versions()
    nfail = 0
    for h, b in before["ents"].items():
        t = b["type"]
        a = after["ents"].get(h)
        if not b.get("_reach", True):
            ctx.hist(stream, "object owned by an unlinked entity (not written)" if b.get("_unlinked_owner")
                     else "entity not linked to the document structure")
            continue
        if a is None:
            if minv.get(t, "AC1009") > ver:
                ctx.hist(stream, "entity dropped: type newer than file version")
                continue
            if ver == "AC1009" and b.get("_kind") in ("object", "tableentry", "blockrecord"):
                ctx.hist(stream, "not represented in DXF R12")
                continue
            if b.get("_kind") == "seqend-without-attribs":
                ctx.hist(stream, "SEQEND of an INSERT without ATTRIBs is not written")
                continue
            ctx.fail(f"lost/{t}/{VNAME[ver]}", f"{label}{VNAME[ver]} {fmt}: {t}(#{h}) is missing after reload", rep)
            nfail += 1
            continue
        if a["type"] != t:
            ctx.fail(f"retyped/{t}/{a['type']}", f"{label}{VNAME[ver]} {fmt}: #{h} was {t}, reloads as {a['type']}", rep)
            continue
        cls = classes[t] if t in classes else None
        for name, v in b["attrs"].items():
            attr = cls.DXFATTRIBS.get(name) if cls else None
            if attr is None:
                continue
            if attr.dxfversion > ver:
                continue  # the permitted loss
            v2 = a["attrs"].get(name)
            if attr_equal(attr, v, v2):
                continue
            rule = special_rule(t, name, ver, v, v2)
            if rule is not None:
                if rule[0]:
                    ctx.hist(stream, "by design: " + rule[1][:50])
                    continue
            if name == "owner" and (ver == "AC1009" or v is None):
                # DXF R12 has no owner tags; an unset owner is assigned by the table / section at export
                ctx.hist(stream, "owner assigned by the container")
                continue
            if (t, name) in BY_DESIGN:
                ctx.hist(stream, "by design: " + BY_DESIGN[(t, name)][:50])
                continue
            vcls = "R12" if ver == "AC1009" else "R2000+"
            ctx.fail(f"attr/{t}/{vcls}/{name}", f"{label}{VNAME[ver]} {fmt}: {t}(#{h}).dxf.{name} = {v!r:.80} before, {v2!r:.80} after reload", rep)
            nfail += 1
        for part in ("payload", "xdata", "appdata", "reactors", "xdict"):
            if ver == "AC1009" and part in ("appdata", "reactors", "xdict") and b[part] is not None and a[part] is None:
                # DXFEntity.export_base_class writes application data, extension dictionary and reactors for DXF R2000+
                # only (DXF R12 has no 102 groups and no OBJECTS section): data the chosen version cannot represent
                ctx.hist(stream, f"{part} not represented in DXF R12")
                continue
            if b[part] != a[part]:
                ctx.fail(f"{part}/{t}/{VNAME[ver] if ver == 'AC1009' else 'R2000+'}",
                         f"{label}{VNAME[ver]} {fmt}: {t}(#{h}) {part} differs at {first_diff(b[part], a[part])}", rep)
                nfail += 1
    for k, hs in before["spaces"].items():
        hs2 = after["spaces"].get(k)
        live = [h for h in hs if h in after["ents"] or minv.get(before["ents"].get(h, {}).get("type", ""), "AC1009") <= ver]
        if hs2 is None:
            if ver == "AC1009" and k.startswith("L:") and k not in ("L:Model", "L:Layout1"):
                continue
            ctx.fail(f"space-lost/{k[:2]}/{VNAME[ver]}", f"{label}{VNAME[ver]} {fmt}: {k} is missing after reload", rep)
        elif [h for h in hs2 if h in before["ents"]] != live:
            ctx.fail(f"order/{k[:2]}/{VNAME[ver]}", f"{label}{VNAME[ver]} {fmt}: entity order of {k} differs {live[:8]} -> {hs2[:8]}", rep)
    if ver > "AC1009":
        for tname, rows in before["tables"].items():
            if not set(rows) <= set(after["tables"].get(tname, [])) if tname == "appids" else rows != after["tables"].get(tname):
                ctx.fail(f"table/{tname}", f"{label}{VNAME[ver]} {fmt}: table {tname} differs {rows[:5]} -> {after['tables'].get(tname, [])[:5]}", rep)
        live = [h for h in before["objects"] if h in after["ents"]]
        got = [h for h in after["objects"] if h in before["ents"]]
        if live != got:
            ctx.fail("order/objects", f"{label}{VNAME[ver]} {fmt}: order of the OBJECTS section differs", rep)
        if before["layouts"] != after["layouts"]:
            ctx.fail("layouts", f"{label}{VNAME[ver]} {fmt}: layouts {before['layouts']} -> {after['layouts']}", rep)
    return nfail


def tag_kinds(doc, snap):
    """mark entities that DXF R12 cannot represent (objects, table entries without handles)"""
    objs = {o.dxf.handle for o in doc.objects} if doc.dxfversion > "AC1009" else set()
    for h, b in snap["ents"].items():
        if h in objs:
            b["_kind"] = "object"
        elif b["type"] in TABLE_ENTRY_TYPES or b["type"] == "TABLE":
            b["_kind"] = "tableentry"
    for e in doc.entitydb.values():
        if e.is_alive and e.dxftype() == "INSERT" and e.seqend is not None and len(e.attribs) == 0:
            h = e.seqend.dxf.handle
            if h in snap["ents"]:
                snap["ents"][h]["_kind"] = "seqend-without-attribs"


_TOL = {}


def by_design_codes(classes):
    """(dxftype, group code) of the attributes listed in BY_DESIGN"""
    if not _TOL:
        for (t, name) in BY_DESIGN:
            cls = classes.get(t)
            a = cls.DXFATTRIBS.get(name) if cls else None
            if a is not None:
                _TOL[(t, a.code)] = True
    return _TOL


def roundtrip_check(ctx, stream, doc, ver, fmt, rep, classes, label="", second=True):
    """write -> read -> compare, then the second cycle on the bytes"""
    # A GROUP whose members were moved to different layouts (or are dead) cannot be represented in DXF: the export clears it as its first
    # step (Drawing.update_all -> groups.validate(), since fix ab6dd4053 before any section is written; until F21 was fixed the export
    # raised, see the branch below).  The comparison is defined on the state the exporter is defined on, so the same documented step is
    # applied before the snapshot; it touches invalid groups only (counted in the histogram).
    try:
        if doc.dxfversion > "AC1009":
            n0 = sum(len(list(g)) for _, g in doc.groups)
            doc.groups.validate()
            if sum(len(list(g)) for _, g in doc.groups) != n0:
                ctx.hist(stream, "invalid group (members over several layouts / dead) cleared before the snapshot, as the export does")
    except Exception:  # noqa
        pass
    before = doc_snapshot(doc)
    tag_kinds(doc, before)
    try:
        data = write_doc(doc, fmt)
    except Exception as ex:  # noqa
        if "All entities have to be in the same layout" in str(ex):
            ctx.hist(stream, "write refused: group over several layouts (C04 finding)")
            return None
        ctx.fail(f"write-raised/{type(ex).__name__}/{label}", f"{label}{VNAME[ver]} {fmt}: write raised {type(ex).__name__}: {ex}"[:300], rep)
        return None
    try:
        doc2 = read_doc(data, fmt, ctx.scratch)
    except Exception as ex:  # noqa
        ctx.fail(f"read-raised/{type(ex).__name__}/{label}", f"{label}{VNAME[ver]} {fmt}: reading the written file raised {type(ex).__name__}: {ex}"[:300], rep)
        return None
    after = doc_snapshot(doc2)
    compare_docs(ctx, stream, before, after, ver, fmt, rep, classes, label)
    if second:
        try:
            data2 = write_doc(doc2, fmt)
            r1, r2 = stable_records(data, fmt), stable_records(data2, fmt)
        except Exception as ex:  # noqa
            ctx.fail(f"second-write-raised/{type(ex).__name__}", f"{label}{VNAME[ver]} {fmt}: second write raised {type(ex).__name__}: {ex}"[:300], rep)
            return data
        if r1 != r2:
            tol = by_design_codes(classes)
            diff = None
            etype = "?"
            for i, (x, y) in enumerate(zip(r1, r2)):
                if x[0] == 0:
                    etype = x[1]
                if x != y and not (x[0] == y[0] and (etype, x[0]) in tol):
                    diff = (i, x, y)
                    break
            if diff is None and len(r1) != len(r2):
                diff = (min(len(r1), len(r2)), None, None)
            if diff is None:
                ctx.hist(stream, "second cycle differs only in by-design attributes")
                return data
            i = diff[0]
            ctx.fail(f"second-cycle/{etype}/{diff[1][0] if diff[1] else 'len'}",
                     f"{label}{VNAME[ver]} {fmt}: the second save differs from the first at tag {i} in {etype}: {diff[1]} -> {diff[2]} "
                     f"({len(r1)} vs {len(r2)} tags)", rep)
    return data


# ====================================================================================== X4: payload codecs
def x4_cases(ctx):
    from ezdxf.entities.lwpolyline import LWPolylinePoints
    from ezdxf.lldxf.types import DXFTag, DXFVertex
    from ezdxf.lldxf.tags import text_to_multi_tags, multi_tags_to_text, Tags
    from ezdxf.entities import factory
    from ezdxf.entities.subentity import entity_linker
    from ezdxf.lldxf.const import DXFStructureError

    rng = ctx.rng("x4")
    cases = []
    fl = [0.0, -0.0, 1.0, 0.5, -2.5, 5e-324, 1e300, 1 / 3]
    for i in range(ctx.n(800, 8000)):
        # LWPOLYLINE point records: export of random records, load of random tag streams
        pts = [[rng.choice(fl) for _ in range(5)] for _ in range(rng.randint(0, 5))]
        pp = LWPolylinePoints(data=pts) if pts else LWPolylinePoints()
        out = ";".join(ptag(t) for t in pp.dxftags())
        cases.append(("lwexp|" + ";".join(".".join(str(fbits(c)) for c in p) for p in pts), out, any(c != 0 for p in pts for c in p[2:])))
        ctx.hist("X4 payload codecs", "lwpolyline export")
        raw = []
        for _ in range(rng.randint(0, 10)):
            c = rng.choice([10, 10, 40, 41, 42, 42, 70, 38, 43, 210])
            if c == 10:
                raw.append(DXFVertex(10, (rng.choice(fl), rng.choice(fl)) + ((rng.choice(fl),) if rng.random() < 0.2 else ())))
            elif c == 210:
                raw.append(DXFVertex(210, (0.0, 0.0, 1.0)))
            elif c == 70:
                raw.append(DXFTag(70, rng.choice([0, 1, 128])))
            else:
                raw.append(DXFTag(c, rng.choice(fl)))
        pl, unp = LWPolylinePoints.from_tags(raw)
        resp = ";".join(".".join(str(fbits(float(c))) for c in p) for p in pl) + "|" + ";".join(ptag(t) for t in unp)
        cases.append(("lw|" + ";".join(ptag(t) for t in raw), resp, any(t.code in (40, 41, 42) for t in raw)))
        ctx.hist("X4 payload codecs", "lwpolyline load")
    # long strings
    alpha = ["a", "b", "^", "J", "\n", "^J", "ä", " "]
    for i in range(ctx.n(600, 6000)):
        n = rng.choice([0, 1, 2, 3, 5, 9, 20, 254, 255, 256, 510, 600])
        size = rng.choice([1, 2, 3, 5, 255, 255])
        t = "".join(rng.choice(alpha) for _ in range(n))
        tags = text_to_multi_tags(t, size=size)
        back = multi_tags_to_text(tags)
        resp = ";".join(".".join(str(ord(c)) for c in tg.value) for tg in tags) + "|" + ".".join(str(ord(c)) for c in back)
        cases.append((f"mtags|{size}|" + ".".join(str(ord(c)) for c in t), resp, "\n" in t or "^" in t))
        ctx.hist("X4 payload codecs", "multi tags")
    # entity linker
    kinds = ["P", "I1", "I0", "V", "A", "S", "O"]
    mk = {"P": ("POLYLINE", {}), "I1": ("INSERT", {"attribs_follow": 1}), "I0": ("INSERT", {}), "V": ("VERTEX", {}),
          "A": ("ATTRIB", {}), "S": ("SEQEND", {}), "O": ("LINE", {})}
    import itertools

    seqs = [list(t) for n in range(0, 4) for t in itertools.product(kinds, repeat=n)]
    for _ in range(ctx.n(500, 5000)):
        seq = []
        for _ in range(rng.randint(1, 4)):
            r = rng.random()
            if r < 0.35:
                seq += ["P"] + ["V"] * rng.randint(0, 3) + (["S"] if rng.random() < 0.9 else [])
            elif r < 0.6:
                seq += ["I1"] + ["A"] * rng.randint(0, 3) + (["S"] if rng.random() < 0.9 else [])
            else:
                seq.append(rng.choice(kinds))
        seqs.append(seq)
    for seq in seqs:
        ents = [factory.new(mk[k][0], dict(mk[k][1])) for k in seq]
        linker = entity_linker()
        stored = []
        try:
            for idx, e in enumerate(ents):
                if not linker(e):
                    stored.append(idx)
            ids = {id(e): i for i, e in enumerate(ents)}
            parts = []
            for idx in stored:
                e = ents[idx]
                k = seq[idx]
                if k == "P" or k == "I1":
                    subs = e.vertices if k == "P" else e.attribs
                    # a SEQEND created by the entity itself (post_bind_hook) is not part of the stream
                    se = e.seqend if (e.seqend is not None and id(e.seqend) in ids) else None
                    parts.append(f"{idx}[" + ",".join(str(ids[id(x)]) for x in subs) + "]" + (str(ids[id(se)]) if se is not None else "-"))
                else:
                    parts.append(str(idx))
            resp = ";".join(parts)
        except DXFStructureError:
            resp = "err DXFStructureError"
        cases.append(("link|" + ";".join(seq), resp, any(k in ("P", "I1") for k in seq)))
        ctx.hist("X4 payload codecs", "entity linker")
    return cases


# ====================================================================================== X5: bespoke payload codecs
PF = [0.0, -0.0, 1.0, 0.5, -2.5, 5e-324, 1e300, 1 / 3, 90.0, 270.0, 359.5, 12.125, 1e-13, -1e-12, 2e-12, 0.1]
F32 = [0.0, 0.5, 1.0, 2.5, -1.0, 0.25, 1024.0, -0.0]


def merge_points(tags):
    """what the tag compiler makes of a written tag sequence: x, y[, z] runs of a point code become one vertex"""
    from ezdxf.lldxf.types import DXFVertex, DXFTag, POINT_CODES

    out = []
    i = 0
    tags = list(tags)
    while i < len(tags):
        t = tags[i]
        if isinstance(t, DXFVertex) or t.code not in POINT_CODES:
            out.append(t)
            i += 1
            continue
        c = t.code
        comps = [t.value]
        if i + 1 < len(tags) and not isinstance(tags[i + 1], DXFVertex) and tags[i + 1].code == c + 10:
            comps.append(tags[i + 1].value)
            if i + 2 < len(tags) and not isinstance(tags[i + 2], DXFVertex) and tags[i + 2].code == c + 20:
                comps.append(tags[i + 2].value)
        if len(comps) == 1:
            raise ValueError(f"x coordinate {c} without y coordinate")
        out.append(DXFVertex(c, tuple(float(v) for v in comps)))
        i += len(comps)
    return out


def collect_tags(write, version="AC1032"):
    c = Collector(version)
    write(c)
    return merge_points(c.tags)


def ptags(tags) -> str:
    return ";".join(ptag(t) for t in tags)


def _fb(x) -> str:
    return str(fbits(float(x)))


def _p2(v) -> str:
    return f"{_fb(v[0])}.{_fb(v[1])}"


def _p3(v) -> str:
    v = tuple(v)
    return f"{_fb(v[0])}.{_fb(v[1])}.{_fb(v[2] if len(v) > 2 else 0.0)}"


def _cps(s: str) -> str:
    return ".".join(str(ord(c)) for c in s)


def mutate_tags(rng, tags, extra, p=0.5):
    """structured damage of a valid tag list: delete / duplicate / insert / swap"""
    tags = list(tags)
    if rng.random() > p:
        return tags, False
    for _ in range(rng.randint(1, 3)):
        k = rng.random()
        if k < 0.3 and tags:
            del tags[rng.randrange(len(tags))]
        elif k < 0.5 and tags:
            i = rng.randrange(len(tags))
            tags.insert(i, tags[i])
        elif k < 0.85:
            tags.insert(rng.randint(0, len(tags)), rng.choice(extra))
        elif len(tags) > 1:
            i = rng.randrange(len(tags) - 1)
            tags[i], tags[i + 1] = tags[i + 1], tags[i]
    return tags, True


def show_edge(e) -> str:
    t = type(e).__name__
    if t == "LineEdge":
        return f"L({_p2(e.start)},{_p2(e.end)})"
    if t == "ArcEdge":
        return f"A({_p2(e.center)},{_fb(e.radius)},{_fb(e.start_angle)},{_fb(e.end_angle)},{'true' if e.ccw else 'false'})"
    if t == "EllipseEdge":
        return (f"E({_p2(e.center)},{_p2(e.major_axis)},{_fb(e.ratio)},{_fb(e.start_angle)},{_fb(e.end_angle)},"
                f"{'true' if e.ccw else 'false'})")
    st = "N" if e.start_tangent is None else _p2(e.start_tangent)
    et = "N" if e.end_tangent is None else _p2(e.end_tangent)
    return (f"S({int(e.degree)},{int(e.rational)},{int(e.periodic)},[{','.join(_fb(k) for k in e.knot_values)}],"
            f"[{','.join(_p2(c) for c in e.control_points)}],[{','.join(_fb(w) for w in e.weights)}],"
            f"[{','.join(_p2(c) for c in e.fit_points)}],{st},{et})")


def show_path(p) -> str:
    hs = ",".join(_cps(h) for h in p.source_boundary_objects)
    if type(p).__name__ == "PolylinePath":
        vs = ",".join(f"{_fb(x)}.{_fb(y)}.{_fb(b)}" for x, y, b in p.vertices)
        return f"P({int(p.path_type_flags)},{int(p.is_closed)},[{vs}],[{hs}])"
    return f"G({int(p.path_type_flags)},[{','.join(show_edge(e) for e in p.edges)}],[{hs}])"


def random_paths(rng):
    from ezdxf.entities.boundary_paths import BoundaryPaths, PolylinePath, EdgePath, LineEdge, ArcEdge, EllipseEdge, SplineEdge
    from ezdxf.math import Vec2

    f = lambda: rng.choice(PF)
    v2 = lambda: Vec2(f(), f())
    paths = []
    for _ in range(rng.randint(0, 3)):
        hs = [format(rng.randint(1, 0xFFFF), "X") for _ in range(rng.choice([0, 0, 1, 3]))]
        if rng.random() < 0.45:
            p = PolylinePath()
            nb = rng.random() < 0.5
            p.set_vertices([(f(), f(), rng.choice([0.0, -0.0, 0.0]) if nb else f()) for _ in range(rng.randint(0, 4))],
                           is_closed=rng.random() < 0.7)
            p.path_type_flags = rng.choice([2, 3, 7, 19, 2 | 16, 3])
        else:
            p = EdgePath()
            p.path_type_flags = rng.choice([0, 1, 4, 5, 16, 1])
            for _ in range(rng.randint(0, 4)):
                k = rng.randint(1, 4)
                if k == 1:
                    e = LineEdge()
                    e.start, e.end = v2(), v2()
                elif k == 2:
                    e = ArcEdge()
                    e.center, e.radius, e.start_angle, e.end_angle, e.ccw = v2(), f(), f(), f(), rng.random() < 0.5
                elif k == 3:
                    e = EllipseEdge()
                    e.center, e.major_axis, e.ratio = v2(), v2(), f()
                    e.start_angle, e.end_angle, e.ccw = f(), f(), rng.random() < 0.5
                else:
                    e = SplineEdge()
                    e.degree, e.periodic = rng.choice([1, 2, 3, 5]), rng.choice([0, 1])
                    n = rng.randint(0, 4)
                    e.control_points = [v2() for _ in range(n)]
                    e.knot_values = [f() for _ in range(rng.choice([0, n + 4, 2, 1]) if rng.random() < 0.15 else n + e.degree + 1)]
                    if rng.random() < 0.4:
                        e.weights = [f() for _ in range(n if rng.random() < 0.85 else n + 1)]
                    if rng.random() < 0.4:
                        e.fit_points = [v2() for _ in range(rng.randint(1, 3))]
                    if rng.random() < 0.3:
                        e.start_tangent = v2()
                    if rng.random() < 0.3:
                        e.end_tangent = v2()
                    e.rational = rng.choice([0, 1])
                p.edges.append(e)
        p.source_boundary_objects = hs
        paths.append(p)
    return BoundaryPaths(paths)


def x5_cases(ctx):
    from ezdxf.lldxf.types import DXFTag, DXFVertex
    from ezdxf.lldxf.tags import Tags
    from ezdxf.entities import Spline, Mesh, MText, Dictionary, Hatch
    from ezdxf.entities.mtext import export_mtext_content
    from ezdxf.entities.boundary_paths import BoundaryPaths
    from ezdxf.entities.pattern import Pattern, PatternLine
    from ezdxf.lldxf.packedtags import VertexArray
    from ezdxf.math import Vec2, Vec3

    rng = ctx.rng("x5")
    cases = []
    S = "X5 payload codecs"
    f = lambda: rng.choice(PF)
    v3 = lambda: (f(), f(), f())
    attr_pool = [DXFTag(70, 8), DXFTag(71, 3), DXFTag(42, 1e-9), DXFTag(43, 1e-10), DXFVertex(12, (0.0, 0.0, 0.0)),
                 DXFVertex(12, (1.0, 0.0, 0.0)), DXFVertex(13, (1e-13, -0.0, 5e-324)), DXFVertex(13, (2e-12, 0.0, 0.0)),
                 DXFVertex(210, (0.0, 0.0, 1.0)), DXFTag(100, "AcDbSpline"), DXFTag(44, 0.5)]

    # ---- SPLINE
    for _ in range(ctx.n(250, 2500)):
        e = Spline()
        e.knots = [f() for _ in range(rng.randint(0, 5))]
        e.weights = [f() for _ in range(rng.choice([0, 0, 1, 2, 3]))]
        e.control_points = [v3() for _ in range(rng.randint(0, 4))]
        e.fit_points = [v3() for _ in range(rng.choice([0, 0, 1, 3]))]
        a1 = [rng.choice(attr_pool) for _ in range(rng.randint(0, 3))]
        a2 = [rng.choice(attr_pool) for _ in range(rng.randint(0, 4))]
        data = collect_tags(lambda w: (w.write_tag2(72, e.knot_count()), w.write_tag2(73, e.control_point_count()),
                                       w.write_tag2(74, e.fit_point_count())))
        body = collect_tags(lambda w: e.export_spline_data(w))
        tags, mut = mutate_tags(rng, a1 + data + a2 + body, attr_pool + [DXFTag(40, 2.0), DXFTag(41, 3.0), DXFVertex(10, (1.0, 2.0)),
                                                                           DXFVertex(11, (1.0, 2.0, 3.0))], p=0.4)
        e2 = Spline()
        rest = list(e2.load_spline_data(Tags(tags)))
        out = collect_tags(lambda w: (w.write_tag2(72, e2.knot_count()), w.write_tag2(73, e2.control_point_count()),
                                      w.write_tag2(74, e2.fit_point_count()), e2.export_spline_data(w)))
        resp = (f"k[{','.join(_fb(k) for k in e2.knots)}] w[{','.join(_fb(k) for k in e2.weights)}] "
                f"c[{','.join(_p3(c) for c in e2.control_points)}] f[{','.join(_p3(c) for c in e2.fit_points)}]|{ptags(rest)}|{ptags(out)}")
        cases.append(("pspl|" + ptags(tags), resp, bool(len(e.knots) or len(e.control_points) or mut)))
        ctx.hist(S, "spline" + ("/damaged" if mut else ""))

    # ---- MESH
    for _ in range(ctx.n(250, 2500)):
        m = Mesh()
        nv = rng.randint(0, 5)
        m._vertices = VertexArray(data=[v3() for _ in range(nv)]) if nv else VertexArray()
        faces = [[rng.choice([0, 1, 2, 255, 256, 70000]) for _ in range(rng.randint(1, 5))] for _ in range(rng.randint(0, 4))]
        m._faces.set_data(faces)
        ne = rng.randint(0, 3)
        m._edges.set_data([(rng.randint(0, 9), rng.randint(0, 9)) for _ in range(ne)])
        m.creases = [rng.choice(F32) for _ in range(rng.choice([ne, ne, 0, ne + 2, max(ne - 1, 0)]))]
        pre = [DXFTag(100, "AcDbSubDMesh"), DXFTag(71, 2), DXFTag(72, 0), DXFTag(91, rng.choice([0, 3]))][: rng.randint(0, 4)]
        body = collect_tags(lambda w: (m.export_mesh_data(w), m.export_override_data(w)))
        post = [DXFTag(90, 7)] * rng.choice([0, 0, 1])
        tags, mut = mutate_tags(rng, pre + body + post, [DXFTag(90, 0), DXFTag(90, 2), DXFTag(92, 1), DXFTag(93, 2), DXFTag(94, 0),
                                                          DXFTag(95, 1), DXFTag(140, 0.5), DXFVertex(10, (1.0, 2.0, 3.0)), DXFTag(91, 1)], p=0.45)
        m2 = Mesh()
        work = Tags(tags)
        try:
            m2.load_mesh_data(work, "ABC")
            out = collect_tags(lambda w: (m2.export_mesh_data(w), m2.export_override_data(w)))
            resp = (f"v[{','.join(_p3(c) for c in m2.vertices)}] f[{';'.join(','.join(str(int(i)) for i in fc) for fc in m2.faces)}] "
                    f"e[{','.join(str(int(i)) for i in m2._edges.values)}] c[{','.join(_fb(c) for c in m2.creases)}]|{ptags(work)}|{ptags(out)}")
        except Exception as ex:  # DXFStructureError: missing count tag
            resp = "err"
        cases.append(("pmesh|" + ptags(tags), resp, bool(nv or faces or mut)))
        ctx.hist(S, "mesh" + ("/damaged" if mut else ""))

    # ---- MTEXT content
    alpha = ["a", "b", "^", "J", "\n", "\r", "\\", "P", "ä", " ", "^I", "\r\n", "€"]
    for _ in range(ctx.n(200, 2000)):
        n = rng.choice([0, 1, 2, 5, 20, 248, 249, 250, 251, 499, 500, 501, 750, 1003])
        t = "".join(rng.choice(alpha) for _ in range(n))
        if rng.random() < 0.5 and n >= 249:
            k = rng.choice([249, 250, 499, 500])
            t = t[:k - 1] + "^" * rng.randint(1, 3) + t[k:]
        out = collect_tags(lambda w: export_mtext_content(t, w))
        cases.append(("pmtextexp|" + _cps(t), ptags(out), len(t) >= 249 or "\n" in t or "^" in t))
        ctx.hist(S, "mtext export")
        pre = [DXFVertex(10, (1.0, 2.0, 3.0)), DXFTag(40, 2.5), DXFTag(71, 1)][: rng.randint(0, 3)]
        post = [DXFTag(7, "Standard"), DXFTag(73, 1), DXFTag(44, 1.0)][: rng.randint(0, 3)]
        tags, mut = mutate_tags(rng, pre + out + post, [DXFTag(1, "tail"), DXFTag(3, "part^"), DXFTag(3, ""), DXFTag(1, "x\ny\r"), DXFTag(7, "S")], p=0.4)
        e2 = MText()
        rest = list(e2.load_mtext_content(Tags(tags)))
        out2 = collect_tags(lambda w: export_mtext_content(e2.text, w))
        cases.append(("pmtext|" + ptags(tags), f"{_cps(e2.text)}|{ptags(rest)}|{ptags(out2)}", True))
        ctx.hist(S, "mtext load" + ("/damaged" if mut else ""))

    # ---- DICTIONARY
    keys = ["A", "B", "ACAD_GROUP", "k" * 3, "", "Ä", "A", "b"]
    for _ in range(ctx.n(200, 2000)):
        d = Dictionary()
        d._value_code = rng.choice([350, 350, 360])
        for _ in range(rng.randint(0, 5)):
            d._data[rng.choice(keys[:4] + keys[5:])] = format(rng.randint(1, 0xFFF), "X")
        body = collect_tags(lambda w: d.export_dict(w))
        pre = [DXFTag(280, 1), DXFTag(281, 1)][: rng.randint(0, 2)]
        tags, mut = mutate_tags(rng, pre + body, [DXFTag(3, ""), DXFTag(3, "A"), DXFTag(350, "FF"), DXFTag(360, "EE"), DXFTag(350, ""),
                                                  DXFTag(280, 0), DXFTag(3, "Z")], p=0.5)
        d2 = Dictionary()
        d2.load_dict(tags)
        out = collect_tags(lambda w: d2.export_dict(w))
        resp = f"{d2._value_code} " + ",".join(f"{_cps(k)}={_cps(v)}" for k, v in d2._data.items()) + "|" + ptags(out)
        cases.append(("pdict|" + ptags(tags), resp, bool(d._data) or mut))
        ctx.hist(S, "dictionary" + ("/damaged" if mut else ""))

    # ---- HATCH / MPOLYGON boundary paths
    path_extra = [DXFTag(97, 0), DXFTag(97, 2), DXFTag(330, "1F"), DXFTag(72, 0), DXFTag(72, 5), DXFTag(72, 1), DXFTag(72, 2), DXFTag(42, 0.5),
                  DXFVertex(10, (1.0, 2.0)), DXFVertex(11, (3.0, 4.0)), DXFTag(73, 0), DXFTag(92, 1), DXFTag(92, 2), DXFTag(93, 1),
                  DXFTag(40, 2.0), DXFTag(50, 10.0), DXFTag(51, 20.0), DXFVertex(12, (1.0, 0.0)), DXFTag(94, 2)]
    for _ in range(ctx.n(500, 5000)):
        bp = random_paths(rng)
        hatch = rng.random() < 0.7
        ver = rng.choice(["AC1015", "AC1018", "AC1024", "AC1032"])
        try:
            body = collect_tags(lambda w: bp.export_dxf(w, "HATCH" if hatch else "MPOLYGON"), ver)[1:]
        except Exception:  # DXFValueError of SplineEdge.export_dxf: build the tags without that check
            ctx.hist(S, "paths/export raises")
            continue
        tags, mut = mutate_tags(rng, body, path_extra, p=0.4)
        if not tags or tags[0].code != 92:
            mut = True
        try:
            if not tags or tags[0].code != 92:
                raise AssertionError
            b2 = BoundaryPaths.load_tags(Tags(tags))
            shown = " ".join(show_path(p) for p in b2.paths)
            try:
                out = ptags(collect_tags(lambda w: b2.export_dxf(w, "HATCH" if hatch else "MPOLYGON"), ver)[1:])
            except Exception:
                out = "raises"
            resp = shown + "|" + out
        except Exception:
            resp = "err"
        if not tags or tags[0].code != 92:
            # BoundaryPaths.load_tags asserts a leading 92 tag; the model of the group split simply skips what is in front
            ctx.hist(S, "paths/no leading 92 (skipped)")
        else:
            cases.append((f"ppaths|{1 if ver >= 'AC1024' else 0}|{1 if hatch else 0}|" + ptags(tags), resp, bool(len(bp.paths)) or mut))
            ctx.hist(S, "paths" + ("/damaged" if mut else "") + ("" if hatch else "/mpolygon"))
        # the entity level: count tag 91, PATH_CODES run, what stays for the attribute loader
        pre = [DXFTag(100, "AcDbHatch"), DXFVertex(10, (0.0, 0.0, 0.0)), DXFVertex(210, (0.0, 0.0, 1.0)), DXFTag(2, "SOLID"), DXFTag(70, 1),
               DXFTag(71, 0)][1: rng.randint(1, 6)]
        post = [DXFTag(75, 1), DXFTag(76, 1), DXFTag(47, 0.5), DXFTag(98, 1), DXFVertex(10, (1.0, 1.0))][: rng.randint(0, 5)]
        full, mut2 = mutate_tags(rng, pre + [DXFTag(91, len(bp.paths))] + body + post, path_extra + [DXFTag(91, 0), DXFTag(75, 0)], p=0.3)
        h = Hatch()
        try:
            rest = h.load_paths(Tags(full))
            resp = " ".join(show_path(p) for p in h.paths) + "|" + ptags(rest)
        except Exception:
            resp = "err"
        cases.append(("phatch|" + ptags(full), resp, True))
        ctx.hist(S, "hatch load_paths" + ("/damaged" if mut2 else ""))

    # ---- the whole AcDbHatch subclass: load_paths, load_gradient, load_pattern, load_seeds in the order of load_dxf_attribs
    for _ in range(ctx.n(250, 2500)):
        bp = random_paths(rng)
        ver = rng.choice(["AC1015", "AC1018", "AC1024", "AC1032"])
        try:
            body = collect_tags(lambda w: bp.export_dxf(w, "HATCH"), ver)
        except Exception:
            continue
        a1 = [DXFVertex(10, (0.0, 0.0, 0.0)), DXFVertex(210, (0.0, 0.0, 1.0)), DXFTag(2, "ANSI31"), DXFTag(70, 0), DXFTag(71, 0)][: rng.randint(0, 5)]
        a2 = [DXFTag(75, 1), DXFTag(76, 1)]
        patpart = []
        if rng.random() < 0.5:
            pat = Pattern([PatternLine(f(), (f(), f()), (f(), f()), [f() for _ in range(rng.randint(0, 3))]) for _ in range(rng.randint(0, 3))])
            patpart = [DXFTag(52, 0.0), DXFTag(41, 1.0), DXFTag(77, 0)] + collect_tags(lambda w: pat.export_dxf(w, force=True))
        hh = Hatch()
        hh.seeds = [(f(), f()) for _ in range(rng.randint(0, 3))]
        seedpart = collect_tags(lambda w: hh.export_seeds(w))
        grad = [DXFTag(450, 1), DXFTag(451, 0), DXFTag(460, 0.0), DXFTag(461, 0.0), DXFTag(452, 0), DXFTag(462, 1.0), DXFTag(453, 2), DXFTag(463, 0.0),
                DXFTag(63, 5), DXFTag(421, 255), DXFTag(463, 1.0), DXFTag(63, 2), DXFTag(421, 16776960), DXFTag(470, "LINEAR")] if rng.random() < 0.4 else []
        mpoly = rng.random() < 0.3
        if mpoly:
            # the tag order of MPolygon.export_entity: pattern lines behind annotated_boundary / pixel_size, no seed points
            try:
                body = collect_tags(lambda w: bp.export_dxf(w, "MPOLYGON"), ver)
            except Exception:
                continue
            lines = [t for t in patpart if t.code not in (52, 41, 77)]
            arranged = (a1 + body + [DXFTag(76, 1)] + [t for t in patpart if t.code in (52, 41, 77)] + [DXFTag(73, 0), DXFTag(47, 0.5)] + lines
                        + [DXFTag(63, 3), DXFVertex(11, (0.0, 0.0, 0.0)), DXFTag(99, 0)][: rng.randint(0, 3)] + grad)
        else:
            arranged = a1 + body + a2 + patpart + [DXFTag(47, 0.5)] + seedpart + grad
        full, mut = mutate_tags(rng, arranged,
                                path_extra + [DXFTag(91, 0), DXFTag(78, 1), DXFTag(98, 0), DXFTag(450, 0), DXFTag(53, 45.0), DXFTag(49, 1.0), DXFTag(47, 1.0)], p=0.35)
        h = Hatch()
        try:
            work = Tags(full)
            work = h.load_paths(work)
            # load_gradient: everything from the 450 tag on (Gradient.load_tags is not modelled: the tags are compared)
            try:
                gi = work.tag_index(450)
                gtags = list(work[gi:])
            except Exception:
                gtags = []
            work = h.load_gradient(work)
            work = h.load_pattern(work)
            work = h.load_seeds(work)
            pshow = "N" if h.pattern is None else " ".join(
                f"{_fb(l.angle)},{_p2(l.base_point)},{_p2(l.offset)},[{','.join(_fb(x) for x in l.dash_length_items)}]" for l in h.pattern.lines)
            resp = (" ".join(show_path(p) for p in h.paths) + "|" + ptags(gtags) + "|" + pshow + "|" + ",".join(_p2(sd) for sd in h.seeds)
                    + "|" + ptags(work))
        except Exception:
            resp = "err"
        cases.append(("phatchall|" + ptags(full), resp, True))
        ctx.hist(S, ("mpolygon" if mpoly else "hatch") + " subclass" + ("/damaged" if mut else ""))

    # ---- HATCH gradient data
    from ezdxf.entities.gradient import Gradient
    from ezdxf.colors import rgb2int

    for _ in range(ctx.n(150, 1500)):
        g = Gradient()
        g.kind = rng.choice([0, 1])
        g.rotation, g.centered, g.tint = rng.choice([0.0, 30.0, 33.3, 45.0, 60.0, 123.456, 359.5, 0.1]), rng.choice([0.0, 1.0, 0.5]), rng.choice([0.0, 0.25])
        g.one_color = rng.choice([0, 1])
        g.name = rng.choice(["LINEAR", "SPHERICAL", "CURVED", ""])
        g.number_of_colors = rng.choice([2, 2, 2, 1, 0])
        g.color1, g.color2 = tuple(rng.randint(0, 255) for _ in range(3)), tuple(rng.randint(0, 255) for _ in range(3))
        g.aci1, g.aci2 = rng.choice([None, 1, 7]), rng.choice([None, 5, 256])
        body = collect_tags(lambda w: g.export_dxf(w))
        tags, mut = mutate_tags(rng, body, [DXFTag(63, 3), DXFTag(421, 255), DXFTag(421, -1), DXFTag(460, 1.0), DXFTag(470, "X"), DXFTag(453, 1), DXFTag(450, 0)], p=0.4)
        try:
            g2 = Gradient.load_tags(Tags(tags))
            so = lambda o: "N" if o is None else str(int(o))
            out = collect_tags(lambda w: g2.export_dxf(w))
            resp = (f"{int(g2.kind)},{_fb(g2.rotation)},{_fb(g2.centered)},{int(g2.one_color)},{_fb(g2.tint)},{_cps(g2.name)},{int(g2.number_of_colors)},"
                    f"{so(g2.aci1)},{rgb2int(g2.color1)},{so(g2.aci2)},{rgb2int(g2.color2)}|{ptags(out)}")
        except (AssertionError, IndexError):
            resp = "err"
        cases.append(("pgrad|" + ptags(tags), resp, True))
        ctx.hist(S, "gradient" + ("/damaged" if mut else ""))

    # ---- VIEWPORT frozen layers: names -> 331 handles through the LAYER table, and back in post_load_hook
    import ezdxf
    from ezdxf.entities.viewport import Viewport
    from ezdxf.lldxf.validator import make_table_key

    vdoc = ezdxf.new("R2010")
    lnames = ["Alpha", "beta", "GAMMA", "d e", "0"]
    for nm in lnames[:-1]:
        vdoc.layers.add(nm)
    tbl = ";".join(f"{_cps(make_table_key(l.dxf.name))},{_cps(l.dxf.name)},{_cps(l.dxf.handle)}" for l in vdoc.layers)
    for _ in range(ctx.n(100, 1000)):
        names = [rng.choice(["Alpha", "ALPHA", "beta", "Beta", "gamma", "d e", "0", "unknown", "x"]) for _ in range(rng.randint(0, 5))]
        vp = Viewport.new(dxfattribs={"center": (0, 0), "width": 1, "height": 1}, doc=vdoc)
        vp.frozen_layers = list(names)
        body = [t for t in collect_tags(lambda w: vp.export_entity(w), "AC1024") if t.code == 331]
        pre = [DXFVertex(10, (0.0, 0.0, 0.0)), DXFTag(40, 1.0), DXFTag(41, 1.0), DXFTag(68, 2)][: rng.randint(0, 4)]
        tags, mut = mutate_tags(rng, pre + body + [DXFTag(90, 0), DXFTag(1, "")][: rng.randint(0, 2)],
                                [DXFTag(331, "FFFF"), DXFTag(331, vdoc.layers.get("0").dxf.handle), DXFTag(90, 1)], p=0.3)
        v2 = Viewport()
        rest = v2.load_frozen_layer_handles(Tags(tags))
        v2.post_load_hook(vdoc)
        cases.append((f"pfrozen|{tbl}|{';'.join(_cps(n) for n in names)}|{ptags(tags)}",
                      ptags(body) + "|" + ",".join(_cps(n) for n in v2.frozen_layers) + "|" + ptags(rest), True))
        ctx.hist(S, "frozen layers" + ("/damaged" if mut else ""))

    # ---- MTEXT columns in the embedded object (DXF R2018)
    from ezdxf.entities.mtext import MTextColumns, ColumnType, load_columns_from_embedded_object
    from ezdxf.entities import MText as _MT

    for _ in range(ctx.n(150, 1500)):
        mt = _MT()
        cols = MTextColumns()
        cols.column_type = rng.choice([ColumnType.STATIC, ColumnType.DYNAMIC])
        cols.auto_height = rng.random() < 0.5
        cols.reversed_column_flow = rng.random() < 0.3
        nh = rng.choice([0, 0, 2, 3])
        cols.heights = [rng.choice([1.0, 2.5, 0.0, 10.0]) for _ in range(nh)]
        cols.count = rng.choice([1, 2, 3]) if not (nh == 0 and rng.random() < 0.3) else 0
        cols.defined_height, cols.width, cols.gutter_width, cols.total_height = f(), f(), f(), f()
        # without heights a zero count is recomputed from the widths (a double computation the model takes as a
        # parameter): keep total_width at 0.0 there, the recomputation then leaves the count at 0
        dyn_auto = cols.column_type == ColumnType.DYNAMIC and cols.auto_height
        cols.total_width = 0.0 if (nh == 0 and (cols.count == 0 or dyn_auto)) else f()
        mt._columns = cols
        mt.dxf.text_direction, mt.dxf.insert, mt.dxf.width = (1.0, 0.0, 0.0), (f(), f(), f()), rng.choice([0.0, 2.5, 10.0])
        body = collect_tags(lambda w: mt.export_embedded_object(w))
        has = [rng.random() < 0.5 for _ in range(3)]
        tags, mut = mutate_tags(rng, body, [DXFTag(46, 3.0), DXFTag(72, 2), DXFTag(73, 1), DXFTag(71, 2), DXFTag(44, 1.0), DXFVertex(10, (0.0, 1.0, 0.0))], p=0.3)
        if mut and not any(t.code == 46 for t in tags):
            tags = [t for t in tags if t.code != 42] + [DXFTag(42, 0.0)]
        m2 = _MT()
        if has[0]:
            m2.dxf.text_direction = (0.0, 1.0, 0.0)
        if has[1]:
            m2.dxf.insert = (9.0, 9.0, 9.0)
        if has[2]:
            m2.dxf.width = 7.0
        before = (m2.dxf.get("text_direction"), m2.dxf.get("insert"), m2.dxf.get("width"))
        try:
            c2 = load_columns_from_embedded_object(m2.dxf, Tags(tags))
        except ValueError:
            continue
        o = lambda was, now, fn: "N" if was is not None else ("N" if now is None else fn(now))
        resp = (f"{int(c2.column_type)},{int(c2.count)},{'true' if c2.auto_height else 'false'},{'true' if c2.reversed_column_flow else 'false'},"
                f"{_fb(c2.defined_height)},{_fb(c2.width)},{_fb(c2.gutter_width)},{_fb(c2.total_width)},{_fb(c2.total_height)},"
                f"[{','.join(_fb(h) for h in c2.heights)}]|{o(before[0], m2.dxf.get('text_direction'), _p3)}|{o(before[1], m2.dxf.get('insert'), _p3)}|"
                f"{o(before[2], m2.dxf.get('width'), _fb)}")
        cases.append((f"pcols|{int(has[0])}|{int(has[1])}|{int(has[2])}|" + ptags(tags), resp, True))
        ctx.hist(S, "mtext columns" + ("/damaged" if mut else ""))

    # ---- LTYPE pattern tags written for DXF R12
    from ezdxf.entities.ltype import LinetypePattern

    for _ in range(ctx.n(120, 1200)):
        es = [rng.choice([0.5, -0.25, 0.0, 1.0, -2.5]) for _ in range(rng.randint(0, 5))]
        ptn = [DXFTag(72, 65), DXFTag(73, len(es)), DXFTag(40, float(sum(abs(x) for x in es)))]
        for x in es:
            ptn += [DXFTag(49, x), DXFTag(74, rng.choice([0, 0, 2]))]
            if ptn[-1].value == 2:
                ptn += [DXFTag(75, 0), DXFTag(340, "1F"), DXFTag(46, 1.0), DXFTag(50, 0.0), DXFTag(44, 0.0), DXFTag(45, 0.0), DXFTag(9, "TXT")]
        tags, mut = mutate_tags(rng, ptn, [DXFTag(49, 3.0), DXFTag(40, 9.0), DXFTag(74, 0), DXFTag(73, 7)], p=0.4)
        if not any(t.code == 40 for t in tags) and not any(t.code == 49 for t in tags):
            tags.append(DXFTag(49, 1.0))  # `sum()` of no element is the int 0: not a value of the group code class
        out = collect_tags(lambda w: LinetypePattern(Tags(tags)).export_r12_dxf(w))
        cases.append(("pltr12|" + ptags(tags), ptags(out), True))
        ctx.hist(S, "ltype r12" + ("/damaged" if mut else ""))

    # ---- seed points, pattern lines
    for _ in range(ctx.n(150, 1500)):
        h = Hatch()
        h.seeds = [(f(), f()) for _ in range(rng.randint(0, 4))]
        body = collect_tags(lambda w: h.export_seeds(w))
        pre = [DXFTag(75, 1), DXFTag(76, 1), DXFTag(47, 0.25)][: rng.randint(0, 3)]
        post = [DXFTag(450, 1), DXFTag(451, 0), DXFTag(460, 0.0)][: rng.choice([0, 0, 1, 3])]
        tags, mut = mutate_tags(rng, pre + body + post, [DXFTag(98, 2), DXFVertex(10, (5.0, 6.0)), DXFTag(47, 1.0), DXFTag(20, 1.0)], p=0.4)
        h2 = Hatch()
        rest = h2.load_seeds(Tags(tags))
        out = collect_tags(lambda w: h2.export_seeds(w))
        cases.append(("pseeds|" + ptags(tags), ",".join(_p2(sd) for sd in h2.seeds) + "|" + ptags(rest) + "|" + ptags(out), True))
        ctx.hist(S, "seeds" + ("/damaged" if mut else ""))
        pat = Pattern([PatternLine(f(), (f(), f()), (f(), f()), [f() for _ in range(rng.randint(0, 4))]) for _ in range(rng.randint(0, 3))])
        body = collect_tags(lambda w: pat.export_dxf(w))[1:]
        tags, mut = mutate_tags(rng, body, [DXFTag(53, 45.0), DXFTag(49, 1.0), DXFTag(43, 2.0), DXFTag(79, 0), DXFTag(46, -1.0)], p=0.4)
        p2 = Pattern.load_tags(Tags(tags))
        out = collect_tags(lambda w: p2.export_dxf(w))[1:]
        shown = " ".join(f"{_fb(l.angle)},{_p2(l.base_point)},{_p2(l.offset)},[{','.join(_fb(x) for x in l.dash_length_items)}]" for l in p2.lines)
        cases.append(("ppat|" + ptags(tags), shown + "|" + ptags(out), True))
        ctx.hist(S, "pattern" + ("/damaged" if mut else ""))
    # ---- LEADER vertices, GROUP handles, IMAGE boundary, MLINE vertices
    from ezdxf.entities import Leader, MLine
    from ezdxf.entities.mline import MLineVertex
    from ezdxf.entities.image import Image

    class _E:  # stand-in for a group member (export_group reads entity.dxf.handle only)
        def __init__(self, h):
            self.dxf = type("D", (), {"handle": h})()

    from ezdxf.entities.dxfgroups import DXFGroup

    for _ in range(ctx.n(120, 1200)):
        ld = Leader()
        ld.vertices = [Vec3(v3()) for _ in range(rng.randint(0, 5))]
        body = collect_tags(lambda w: ld.export_vertices(w))
        pre = [DXFTag(3, "Standard"), DXFTag(71, 1), DXFTag(72, 0)][: rng.randint(0, 3)]
        post = [DXFTag(340, "0"), DXFVertex(210, (0.0, 0.0, 1.0)), DXFVertex(213, (1.0, 0.0, 0.0))][: rng.randint(0, 3)]
        tags, mut = mutate_tags(rng, pre + body + post, [DXFTag(76, 9), DXFVertex(10, (1.0, 2.0, 3.0)), DXFVertex(10, (4.0, 5.0, -6.0)), DXFTag(40, 1.0)], p=0.4)
        l2 = Leader()
        rest = list(l2.load_vertices(Tags(tags)))
        out = collect_tags(lambda w: l2.export_vertices(w))
        cases.append(("pleader|" + ptags(tags), ",".join(_p3(v) for v in l2.vertices) + "|" + ptags(rest) + "|" + ptags(out), True))
        ctx.hist(S, "leader" + ("/damaged" if mut else ""))

        g = DXFGroup()
        hs = [format(rng.randint(1, 40), "X") for _ in range(rng.randint(0, 6))]
        g._data = [_E(h) for h in hs]
        body = collect_tags(lambda w: g.export_group(w))
        tags, mut = mutate_tags(rng, [DXFTag(300, "d"), DXFTag(70, 0), DXFTag(71, 1)][: rng.randint(0, 3)] + body,
                                [DXFTag(340, "1"), DXFTag(340, "2A"), DXFTag(70, 1)], p=0.4)
        g2 = DXFGroup()
        g2._handles = {}
        g2.load_group(tags)
        got = list(g2._handles.keys())
        g2._data = [_E(h) for h in got]
        out = collect_tags(lambda w: g2.export_group(w))
        cases.append(("pgroup|" + ptags(tags), ",".join(_cps(h) for h in got) + "|" + ptags(out), True))
        ctx.hist(S, "group" + ("/damaged" if mut else ""))

        im = Image()
        im._boundary_path = [Vec2(f(), f()) for _ in range(rng.randint(0, 5))]
        body = collect_tags(lambda w: im.export_boundary_path(w))
        pre = [DXFTag(90, 0), DXFVertex(10, (0.0, 0.0, 0.0)), DXFVertex(13, (640.0, 320.0)), DXFTag(91, len(im._boundary_path))][: rng.randint(0, 4)]
        tags, mut = mutate_tags(rng, pre + body + [DXFTag(290, 1)] * rng.choice([0, 1]), [DXFVertex(14, (1.0, 2.0)), DXFTag(71, 2), DXFVertex(14, (1.0, 2.0, 3.0))], p=0.4)
        work = Tags(tags)
        im2 = Image()
        im2.load_boundary_path(work.pop_tags(codes=(14,)))
        out = collect_tags(lambda w: im2.export_boundary_path(w))
        cases.append(("pimage|" + ptags(tags), ",".join(_p2(v) for v in im2._boundary_path) + "|" + ptags(work) + "|" + ptags(out), True))
        ctx.hist(S, "image boundary" + ("/damaged" if mut else ""))

        ml = MLine()
        for _ in range(rng.randint(0, 3)):
            n = rng.randint(0, 3)
            ml.vertices.append(MLineVertex.new(v3(), v3(), v3(), [tuple(f() for _ in range(rng.randint(0, 3))) for _ in range(n)],
                                               [tuple(f() for _ in range(rng.randint(0, 3))) for _ in range(n)]))
        body = collect_tags(lambda w: ml.export_vertices(w))
        tags, mut = mutate_tags(rng, [DXFTag(2, "Standard"), DXFTag(40, 1.0), DXFTag(72, 2)][: rng.randint(0, 3)] + body,
                                [DXFTag(74, 0), DXFTag(74, 2), DXFTag(75, 1), DXFTag(41, 0.5), DXFTag(42, 0.25), DXFVertex(11, (1.0, 1.0, 1.0)),
                                 DXFVertex(12, (0.0, 1.0, 0.0))], p=0.4)
        m2 = MLine()
        m2.load_vertices(Tags(tags))
        sll = lambda ll: ";".join(",".join(_fb(x) for x in l) for l in ll)
        shown = " ".join(f"{_p3(v.location)},{_p3(v.line_direction)},{_p3(v.miter_direction)},[{sll(v.line_params)}],[{sll(v.fill_params)}]" for v in m2.vertices)
        out = collect_tags(lambda w: m2.export_vertices(w))
        cases.append(("pmline|" + ptags(tags), shown + "|" + ptags(out), True))
        ctx.hist(S, "mline" + ("/damaged" if mut else ""))
    return cases


# ====================================================================================== X6: envelope of API-built typed entities
def x6_cases(ctx):
    """The envelope theorems (Props section 6) are stated over C02's storage model, which C02 ties to the source with unknown
    (tag storage) entities.  Here the same model (driver C02, op `rt` = export(load t)) is run on the exported tags of TYPED entities
    built through the API with random application data, reactors, extension dictionary and XDATA, against the real
    load (factory.load + post_load_hook) -> export_dxf of the typed entity: both must return the exported tags unchanged."""
    import importlib

    import ezdxf
    from ezdxf.entities import factory
    from ezdxf.lldxf.extendedtags import ExtendedTags
    from ezdxf.lldxf.tagwriter import TagWriter

    c02 = importlib.import_module("props.c02" if __name__.startswith("props.") else "c02")
    from leanfmt import cps

    rng = ctx.rng("x6")
    doc = ezdxf.new("R2010")
    msp = doc.modelspace()
    doc.blocks.new("B1")
    S = "X6 envelope of typed entities"

    def text_of(e):
        st = io.StringIO()
        e.export_dxf(TagWriter(st, dxfversion="AC1024"))
        return st.getvalue()

    def pairs(text):
        lines = text.split("\n")
        return [(int(lines[i]), lines[i + 1]) for i in range(0, len(lines) - 1, 2)]

    builders = [
        lambda: msp.add_line((0, 0), (1, 1)), lambda: msp.add_circle((1, 2), 3.5), lambda: msp.add_arc((0, 0), 1, 10, 200),
        lambda: msp.add_point((1, 2, 3)), lambda: msp.add_text("abc"), lambda: msp.add_mtext("x" * 300),
        lambda: msp.add_lwpolyline([(0, 0), (1, 0, 0.1, 0.2, 0.5), (1, 1)]), lambda: msp.add_ellipse((0, 0), (2, 0), 0.5),
        lambda: msp.add_blockref("B1", (1, 1)), lambda: msp.add_3dface([(0, 0), (1, 0), (1, 1), (0, 1)]),
        lambda: msp.add_spline(fit_points=[(0, 0), (1, 1), (2, 0)]), lambda: msp.add_solid([(0, 0), (1, 0), (1, 1)]),
    ]
    xd_pool = [(1000, "text"), (1070, 7), (1040, 2.5), (1071, 123456), (1002, "{"), (1002, "}"), (1005, "FF"), (1000, "")]
    ad_pool = [(1, "one"), (40, 1.5), (70, 3), (330, "1A"), (100, "looks like a marker"), (102, "nested?")]
    cases = []
    for i in range(ctx.n(240, 2400)):
        e = builders[i % len(builders)]()
        alive = []
        for k in range(rng.choice([0, 0, 1, 2])):
            e.set_app_data(rng.choice(["MYAPP", "OTHER", "EZDXF"]) + str(k), [rng.choice(ad_pool[:4] + ad_pool[4:5]) for _ in range(rng.randint(1, 3))])
        if rng.random() < 0.4:
            e.set_reactors([format(rng.randint(1, 0xFFFF), "X") for _ in range(rng.randint(1, 4))])
        if rng.random() < 0.4:
            xd = e.new_extension_dict()
            alive.append(xd.dictionary.dxf.handle)
        for k in range(rng.choice([0, 0, 1, 2])):
            e.set_xdata(["APPA", "APPB", "ACAD"][k] if rng.random() < 0.8 else "APPA", [rng.choice(xd_pool) for _ in range(rng.randint(0, 4))])
        try:
            t1 = text_of(e)
            e2 = factory.load(ExtendedTags.from_text(t1), doc)
            e2.post_load_hook(doc)
            t2 = text_of(e2)
            e3 = factory.load(ExtendedTags.from_text(t2), doc)
            e3.post_load_hook(doc)
            t3 = text_of(e3)
            resp = "ok " + c02.enc_tags(pairs(t2)) + "|ok " + c02.enc_tags(pairs(t3))
        except Exception as ex:  # noqa
            resp = f"err other:{type(ex).__name__}"
        req = f"rt|{','.join(cps(h) for h in alive)}|{c02.enc_tags(pairs(t1))}"
        cases.append((req, resp, bool(alive) or "102" in t1 or "1001" in t1))
        ctx.hist(S, e.dxftype())
        if resp.startswith("ok") and pairs(t2) != pairs(t1):
            ctx.fail(f"envelope/{e.dxftype()}", f"export -> load -> export of a typed {e.dxftype()} with envelope changed the tags: "
                     f"{[p for p in pairs(t1) if p not in pairs(t2)][:6]} -> {[p for p in pairs(t2) if p not in pairs(t1)][:6]}", {"op": "x6", "i": i})
    return cases


# ====================================================================================== X7: stripped plans, payloads of other sizes
def strip_segs(segs, steps):
    """remove from the traced segments the raw events that the entity's own loader dropped before fast_load_dxfattribs
    (labels = event index + 1, per subclass) and print them like expent_line with labels renumbered"""
    drops = {}
    for st in steps:
        if st[0] == "fast":
            drops.setdefault(st[2], set()).update(st[4])
    out = []
    for k, (marker, evs) in enumerate(segs):
        kept = [ev for i, ev in enumerate(evs) if (i + 1) not in drops.get(k, ())]
        out.append((marker, kept))
    return out


def x7_cases(ctx):
    """Props section 8 states the attribute theorems for `stripPlan p` (the traced plan without the payload tags of the
    traced instance) and claims that it describes the entity for a payload of ANY size.  Here instances with payloads of
    other sizes than the traced one are exported by the real code, the tags the real loader drops are removed from the
    trace, and what remains (attribute tags with values, raw tags that stay) is compared with the model's export on the
    stripped plan."""
    import ezdxf
    from ezdxf.entities import factory
    from ezdxf.lldxf.types import cast_value
    from ezdxf.math import Vec3

    rng = ctx.rng("x7")
    data = schemas(ctx)
    doc = ezdxf.new("R2018")
    zoo = build_zoo(doc)
    load_docs = {v: ezdxf.new(VNAME[v]) for v in VERSIONS}
    f = lambda: rng.choice([0.0, 1.0, 2.5, -3.0, 0.5, 10.0])

    def m_spline(e):
        n = rng.randint(0, 9)
        e.control_points = [(f(), f(), f()) for _ in range(n)]
        e.knots = sorted(f() for _ in range(rng.choice([0, n + 4])))
        e.weights = [1.0 + abs(f()) for _ in range(rng.choice([0, n]))]
        e.fit_points = [(f(), f(), f()) for _ in range(rng.choice([0, 3, 6]))]

    def m_mesh(e):
        with e.edit_data() as md:
            nv = rng.randint(3, 8)
            md.vertices = [(f(), f(), f()) for _ in range(nv)]
            md.faces = [[rng.randrange(nv) for _ in range(rng.randint(3, 5))] for _ in range(rng.randint(1, 5))]
            md.edges = [(rng.randrange(nv), rng.randrange(nv)) for _ in range(rng.randint(0, 4))]
            md.edge_crease_values = [rng.choice(F32) for _ in range(len(md.edges))]

    def m_mtext(e):
        e.text = "".join(rng.choice(["a", "b ", "^", "\\P", "ä"]) for _ in range(rng.choice([0, 3, 249, 250, 251, 700])))

    def m_leader(e):
        e.vertices = [Vec3(f(), f(), f()) for _ in range(rng.randint(2, 7))]

    def m_image(e):
        e.set_boundary_path([(f(), f()) for _ in range(rng.randint(2, 7))])

    def m_hatch(e):
        e.paths.clear()
        for _ in range(rng.randint(1, 3)):
            if rng.random() < 0.5:
                e.paths.add_polyline_path([(f(), f(), rng.choice([0, 0, 0.5])) for _ in range(rng.randint(2, 5))], is_closed=rng.random() < 0.5)
            else:
                ep = e.paths.add_edge_path()
                for _ in range(rng.randint(1, 3)):
                    ep.add_line((f(), f()), (f(), f()))
                if rng.random() < 0.5:
                    ep.add_arc((f(), f()), radius=2.0, start_angle=0, end_angle=90, ccw=rng.random() < 0.5)
        if rng.random() < 0.5:
            e.set_seed_points([(f(), f()) for _ in range(rng.randint(1, 3))])

    def m_mpolygon(e):
        e.paths.clear()
        for _ in range(rng.randint(1, 3)):
            e.paths.add_polyline_path([(f(), f(), rng.choice([0, 0, 0.5])) for _ in range(rng.randint(2, 5))], is_closed=rng.random() < 0.5)

    mutators = {"SPLINE": m_spline, "MESH": m_mesh, "MTEXT": m_mtext, "LEADER": m_leader, "IMAGE": m_image, "HATCH": m_hatch,
                "MPOLYGON": m_mpolygon}
    cases = []
    S = "X7 stripped plans"
    for c in data["classes"]:
        mut = mutators.get(c["dxftype"])
        e = zoo.get(c["dxftype"])
        if mut is None or e is None:
            continue
        cls = factory.ENTITY_CLASSES[c["dxftype"]]
        plans = {p["ver"]: p for p in c["plans"]}
        fill0 = None
        if c["dxftype"] == "MPOLYGON":
            # MPolygon.export_entity writes the pattern attributes only for solid_fill == 0: stay (mostly) in the traced branch
            traced = {ev[1] for p in c["plans"] for _, evs in p["segs"] for ev in evs if ev[0] == "attr"}
            fill0 = 0 if "pattern_angle" in traced else 1
        for k in range(ctx.n(6, 40)):
            try:
                mut(e)
            except Exception as ex:  # noqa
                ctx.hist(S, f"{c['dxftype']}: mutator raised {type(ex).__name__}")
                continue
            randomize_namespace(e, rng)
            if fill0 is not None and rng.random() < 0.7:
                e.dxf.solid_fill = fill0  # the export shape of HATCH / MPOLYGON depends on it: mostly keep the traced branch
            for ver in VERSIONS:
                if vernum(ver) not in plans or (ctx.quick and rng.random() < 0.4):
                    continue
                try:
                    tr = trace_export(e, ver)
                    if tr is None:
                        continue
                    text, segs = tr
                    steps, recs, ent = trace_load(cls, text, segs, load_docs[ver])
                except Exception as ex:  # noqa
                    ctx.hist(S, f"{c['dxftype']}: trace raised {type(ex).__name__}")
                    continue
                ns = {}
                for k2, v in e.dxf.all_existing_dxf_attribs().items():
                    if k2 in ("handle", "owner") or v is None:
                        continue
                    a = cls.DXFATTRIBS.get(k2)
                    ns[k2] = cast_value(a.code, v) if a is not None and a.code > 0 else v
                try:
                    nsline = pns(ns)
                except ValueError:
                    continue
                stripped = strip_segs(segs, steps)
                pl = plans[vernum(ver)]
                if plan_shape(stripped) != plan_shape(strip_segs(pl["segs"], pl["loads"])):
                    # a data dependent branch of export_entity (MPOLYGON / HATCH write the pattern attributes only for
                    # solid_fill == 0): the generated plan describes the other shape, as in X3
                    ctx.hist(S, c["dxftype"] + ": other export shape (data dependent, skipped)")
                    continue
                cases.append((f"expents|{enc_name(c['dxftype'])}|{vernum(ver)}|0|{nsline}", expent_line(stripped), True))
                ctx.hist(S, c["dxftype"])
    return cases


def correspond(ctx):
    ctx.correspond("X1 export one attribute", "C01", x1_cases(ctx), build=DRIVER_DEPS)
    ctx.correspond("X2 generic loaders", "C01", x2_cases(ctx), build=DRIVER_DEPS)
    exp_cases, load_cases = x3_cases(ctx)
    ctx.correspond("X3 registered classes", "C01", exp_cases + load_cases, build=DRIVER_DEPS)
    ctx.correspond("X4 payload codecs", "C01", x4_cases(ctx), build=DRIVER_DEPS)
    ctx.correspond("X5 payload codecs", "C01", x5_cases(ctx), build=DRIVER_DEPS)
    ctx.correspond("X7 stripped plans", "C01", x7_cases(ctx), build=DRIVER_DEPS)
    ctx.correspond("X6 envelope of typed entities", "C02", x6_cases(ctx), build=["EzdxfVerif.Model.Storage", "Drivers.Proto"])
    # the generated plans against the model's own well-formedness (coverage numbers for the evidence)
    data = schemas(ctx)
    reqs = []
    for c in data["classes"]:
        for p in c["plans"]:
            reqs.append(f"wf|{enc_name(c['dxftype'])}|{p['ver']}")
    outs = ctx.driver("C01", reqs, build=DRIVER_DEPS)
    bad = [r.split("|")[1:] for r, o in zip(reqs, outs) if not o.startswith("true")]
    nexp = sum(int(o.split("exp=")[1].split()[0]) for o in outs if "exp=" in o)
    ctx.note(f"wfPlan: {len(reqs) - len(bad)} of {len(reqs)} (class, version) plans well-formed; not well-formed: "
             + ", ".join(f"{dec_name(int(d))}/{v}" for d, v in bad) + f"; attribute exports covered by the theorems: {nexp}")


# ====================================================================================== O1: attribute sweep on zoo documents
def classes_by_type():
    from ezdxf.entities import factory

    return dict(factory.ENTITY_CLASSES)


def populate_single(e, j: int):
    """set only the j-th settable attribute (mod count) of the entity, unset the other optional ones"""
    from ezdxf.lldxf.attributes import XType

    dxftype = e.dxftype()
    names = [n for n, a in e.DXFATTRIBS._attribs.items()
             if a.xtype != XType.callback and a.code > 0 and not is_structural(dxftype, n) and n not in ("handle", "owner")]
    if not names:
        return None
    name = names[j % len(names)]
    a = e.DXFATTRIBS.get(name)
    cands = SPECIAL_VALUES.get((dxftype, name)) or candidates(a)
    docver = e.doc.dxfversion if e.doc is not None else "AC1032"
    for i in range(len(cands)):
        v = text_for_version(cands[(i + j // len(names)) % len(cands)], docver)
        if a.default is not None and v == a.default:
            continue
        try:
            e.dxf.set(name, v)
            return name
        except Exception:  # noqa
            continue
    return None


def o1_zoo(ctx, classes, small=False):
    import ezdxf

    stream = "O1 attribute sweep"
    rng = ctx.rng("o1")
    plan = []
    salts = 1 if small else ctx.n(2, 16)
    for ver in VERSIONS:
        for salt in range(salts):
            for fmt in ("asc", "bin"):
                if ctx.quick and fmt == "bin" and salt > 0:
                    continue
                plan.append((ver, fmt, "all", salt))
    nsingle = 2 if small else ctx.n(6, 110)
    js = list(range(nsingle)) if not ctx.quick else sorted(rng.sample(range(110), nsingle))
    for ver in VERSIONS:
        for j in js:
            plan.append((ver, "asc" if (j % 2 == 0 or ctx.quick) else "bin", "single", j))
    for ver, fmt, mode, k in plan:
        doc = ezdxf.new(VNAME[ver])
        zoo = build_zoo(doc)
        nset = 0
        for i, (t, e) in enumerate(sorted(zoo.items())):
            if mode == "all":
                nset += len(populate(e, k + i))
            elif populate_single(e, k) is not None:
                nset += 1
        rep = {"op": "zoo", "version": ver, "fmt": fmt, "mode": mode, "k": k}
        ctx.count(stream, (ver, fmt, mode, k), True)
        ctx.hist(stream, f"{mode} {VNAME[ver]} {fmt}")
        ctx.hist(stream, "attributes set", nset)
        # "all" sets every attribute of every entity at once, including combinations the by-design table explains per
        # attribute only: the byte level second cycle is checked on the single-attribute and whole-document streams
        roundtrip_check(ctx, stream, doc, ver, fmt, rep, classes, label=f"zoo[{mode} {k}] ", second=(mode == "single"))


# ====================================================================================== O2: whole documents
LONG_TEXTS = ["", "x", "a" * 249, "b" * 250, "c" * 251, "d" * 249 + "^", "e" * 249 + "^J", "f" * 500 + "^" + "g" * 10,
              "h" * 2048, "i" * 2049, "j" * 2050, "k" * 2049 + "^", "l" * 5000, "caret ^ and ^J and ^M", "\\P\\fArial|b0;text{\\C1;red}",
              "ä€ß中" * 70, "%%c %%d", "line1\\Pline2", "m" * 250 + "^" * 5]


def build_rich(doc, rng, ver):
    """type-rich content through the public factory API"""
    import ezdxf
    from ezdxf.math import Vec2

    msp = doc.modelspace()
    r2000 = ver > "AC1009"
    texts = [text_for_version(t, ver) for t in LONG_TEXTS]  # characters outside the file encoding are C09's subject
    fl = [0.0, -0.0, 0.5, 1.0, -2.25, 1 / 3, 1e-9, 123456.789, 5e-324]
    rp = lambda: (rng.choice(fl) * 10, rng.choice(fl) * 10)  # noqa
    rp3 = lambda: (rng.choice(fl) * 10, rng.choice(fl) * 10, rng.choice(fl))  # noqa
    ents = []
    blk = doc.blocks.new("RICHBLK")
    blk.add_attdef("T1", (0, 0), "dflt")
    blk.add_line((0, 0), (1, 1))
    for _ in range(rng.randint(1, 3)):
        ins = msp.add_blockref("RICHBLK", rp(), dxfattribs={"xscale": rng.choice([1, 2, -1]), "rotation": rng.choice([0, 30, 90])})
        for k in range(rng.randint(0, 3)):
            ins.add_attrib("T%d" % k, rng.choice(texts)[:200], rp())
        ents.append(ins)
    for _ in range(rng.randint(1, 3)):
        pl = msp.add_polyline2d([rp() for _ in range(rng.randint(2, 5))], format="xy")
        for v in pl.vertices:
            v.dxf.bulge = rng.choice([0, 0.5, -1.0])
            v.dxf.start_width = rng.choice([0, 0.1])
        ents.append(pl)
    ents.append(msp.add_polyline3d([rp3() for _ in range(rng.randint(2, 4))]))
    mesh = msp.add_polymesh((rng.randint(2, 3), rng.randint(2, 3)))
    ents.append(mesh)
    pf = msp.add_polyface()
    pf.append_face([(0, 0, 0), (1, 0, 0), (1, 1, 0), (0, 1, rng.choice(fl))])
    ents.append(pf)
    ents.append(msp.add_text(rng.choice(texts)[:255], dxfattribs={"height": rng.choice([0.5, 2.5]), "rotation": rng.choice(fl)}))
    if r2000:
        for _ in range(rng.randint(1, 4)):
            pts = [(rng.choice(fl), rng.choice(fl), rng.choice([0.0, 0.0, 0.3, -0.0]), rng.choice([0.0, 0.0, 0.2, -0.0]),
                    rng.choice([0.0, 0.0, 0.5, -1.0, -0.0])) for _ in range(rng.randint(1, 6))]
            ents.append(msp.add_lwpolyline(pts, format="xyseb", close=rng.random() < 0.5))
        for _ in range(rng.randint(1, 3)):
            n = rng.randint(4, 7)
            sp = msp.add_spline()
            sp.control_points = [rp3() for _ in range(n)]
            sp.knots = sorted(rng.choice([0.0, 0.25, 0.5, 1.0, 2.0]) for _ in range(n + 4))
            if rng.random() < 0.5:
                sp.weights = [rng.choice([1.0, 0.5, 2.0]) for _ in range(n)]
            if rng.random() < 0.3:
                sp.fit_points = [rp3() for _ in range(3)]
            ents.append(sp)
        for _ in range(rng.randint(1, 3)):
            h = msp.add_hatch(color=rng.randint(1, 7))
            h.paths.add_polyline_path([(0, 0, rng.choice([0, 0.5])), (3, 0), (3, 3, -0.4), (0, 3)], is_closed=rng.random() < 0.8)
            if rng.random() < 0.7:
                ep = h.paths.add_edge_path()
                ep.add_line(rp(), rp())
                ep.add_arc(rp(), radius=1.5, start_angle=rng.choice([0, 30.5]), end_angle=rng.choice([90, 270]), ccw=rng.random() < 0.5)
                ep.add_ellipse(rp(), major_axis=(2, 0), ratio=0.5, start_angle=0, end_angle=rng.choice([180, 360]), ccw=rng.random() < 0.5)
                ep.add_spline(control_points=[(0, 0), (1, 1), (2, 0), (3, 1)], knot_values=[0, 0, 0, 0, 1, 1, 1, 1], degree=3,
                              periodic=0)
                if rng.random() < 0.4:
                    # explicit tangents: SplineEdge.export_dxf() computes missing ones from the fit points ("required")
                    ep.add_spline(fit_points=[(0, 0), (1, 2), (2, 0)], control_points=[(0, 0), (1, 2), (2, 0), (3, 3)],
                                  knot_values=[0, 0, 0, 0, 1, 1, 1, 1], weights=[1, 2, 1, 1], degree=3,
                                  start_tangent=(1, 2), end_tangent=(1, -2))
            if rng.random() < 0.5:
                # associative hatch: source boundary objects (97 n, 330 …) on the first path, further paths behind it
                src = [x for x in ents if x.is_alive and x.dxftype() in ("LINE", "CIRCLE", "ARC", "LWPOLYLINE", "SPLINE", "ELLIPSE")]
                if src:
                    rng.shuffle(src)
                    h.associate(h.paths[0], src[: rng.randint(1, 3)])
                    if rng.random() < 0.5:
                        h.paths.add_polyline_path([(5, 5), (6, 5), (6, 6, rng.choice([0, 0.25]))], is_closed=True, flags=16)
                    if len(h.paths) > 1 and rng.random() < 0.5:
                        h.associate(h.paths[-1], src[-1:])
            k = rng.random()
            if k < 0.35:
                h.set_pattern_fill("ANSI31", scale=rng.choice([0.5, 1.0]), angle=rng.choice([0, 45]))
            elif k < 0.6 and ver >= "AC1018":
                h.set_gradient(color1=(10, 20, 30), color2=(200, 100, 0), rotation=rng.choice([0, 33.3]), centered=rng.choice([0.0, 1.0]),
                               one_color=int(rng.random() < 0.3), name=rng.choice(["LINEAR", "SPHERICAL"]))
                h.gradient.aci1, h.gradient.aci2 = rng.choice([None, None, 1]), rng.choice([None, 5, 30])
            if rng.random() < 0.3:
                h.set_seed_points([rp(), rp()])
            ents.append(h)
        for _ in range(rng.randint(2, 5)):
            mt = msp.add_mtext(rng.choice(texts), dxfattribs={"char_height": rng.choice([0.7, 2.5]), "width": rng.choice([0, 30.0]),
                                                                  "attachment_point": rng.randint(1, 9)})
            ents.append(mt)
        m = msp.add_mesh()
        with m.edit_data() as md:
            md.vertices = [(0, 0, 0), (1, 0, 0), (1, 1, 0), (0, 1, 0), (0.5, 0.5, rng.choice(fl))]
            md.faces = [(0, 1, 4), (1, 2, 4), (2, 3, 4), (3, 0, 4)]
            md.add_edge_crease(0, 1, rng.choice([0.0, 1.0, 3.0]))
            md.add_edge_crease(1, 2, 0.5)
        ents.append(m)
        # distinct consecutive vertices (generate_geometry() divides by the segment length)
        mlv = [(0.0, 0.0, 0.0), (3.0, rng.choice([0.0, 0.5]), 0.0), (3.0, 3.0, 0.0), (rng.choice([0.0, -1.0]), 3.0, 0.0)][: rng.randint(2, 4)]
        ents.append(msp.add_mline(mlv, close=(len(mlv) > 2 and rng.random() < 0.3)))
        ents.append(msp.add_leader([rp() for _ in range(rng.randint(2, 4))]))
        from ezdxf.render import mleader as _mld

        ml = msp.add_multileader_mtext("Standard")
        ml.set_content(rng.choice(texts)[:300] or "x")
        ml.add_leader_line(_mld.ConnectionSide.left, [Vec2(rp()), Vec2(rp())])
        if rng.random() < 0.5:
            ml.add_leader_line(_mld.ConnectionSide.right, [Vec2(rp())])
        ml.build(Vec2(5, 5))
        ents.append(ml.multileader)
        for fn in (lambda: msp.add_linear_dim((0, 3), (0, 0), (5, 0), angle=rng.choice([0, 30])),
                   lambda: msp.add_aligned_dim((0, 0), (3, 4), 1),
                   lambda: msp.add_radius_dim((0, 0), radius=3, angle=rng.choice([10, 200])),
                   lambda: msp.add_angular_dim_cra((0, 0), 3, 10, 80, 2)):
            if rng.random() < 0.6:
                d = fn()
                d.render()
                ents.append(d.dimension)
        imgdef = doc.add_image_def("pic%d.png" % rng.randint(0, 9), (640, 480))
        img = msp.add_image(imgdef, rp(), (6.4, 4.8), rotation=rng.choice([0, 15]))
        if rng.random() < 0.5:
            img.set_boundary_path([(0, 0), (100, 0), (100, 100), (0, 100)])
        ents.append(img)
        ents.append(msp.add_ellipse(rp(), (3, 1), rng.choice([0.3, 1.0]), 0, rng.choice([3.14, 6.283185307179586])))
        # groups, layouts, objects
        g = doc.groups.new("G%d" % rng.randint(0, 99))
        g.set_data(rng.sample(ents, min(3, len(ents))))
        if rng.random() < 0.6:
            lay = doc.layouts.new("Rich Layout %d" % rng.randint(0, 9))
            lay.add_line((0, 0), (1, 1))
            lay.add_viewport((3, 3), (4, 4), (0, 0), 10)
        xr = doc.rootdict.add_xrecord("RICH_XREC")
        xr.reset([(1, rng.choice(texts)[:255]), (40, rng.choice(fl)), (90, rng.randint(-5, 5)), (10, (1.0, 2.0, 3.0)), (330, "1F")])
        doc.rootdict.add_dict_var("RICH_VAR", "value")
    for e in rng.sample(ents, min(len(ents), 6)):
        k = rng.random()
        if k < 0.35:
            doc.appids.add("RICHAPP") if "RICHAPP" not in doc.appids else None
            e.set_xdata("RICHAPP", [(1000, rng.choice(texts)[:255]), (1002, "{"), (1040, rng.choice(fl)), (1070, rng.randint(-9, 9)),
                                    (1071, 2 ** 31 - 1), (1010, (1.0, -0.0, 3.5)), (1002, "}"), (1005, "1F"), (1004, b"\x00\x01\xfe\xff")])
        elif k < 0.55 and r2000:
            e.set_app_data("RICHAPPDATA", [(1, "appdata"), (70, 7)])
        elif k < 0.75 and r2000:
            e.append_reactor_handle(ents[0].dxf.handle)
        elif r2000:
            xd = e.new_extension_dict()
            xd.add_dictionary_var("XV", "xdict value")
    # tables
    doc.layers.add("RICH LAYER", color=rng.randint(1, 255), linetype="CONTINUOUS")
    doc.linetypes.add("RICHLT", [0.6, 0.5, -0.1], description="rich . . .")
    doc.styles.add("RICHSTYLE", font="arial.ttf")
    ds = doc.dimstyles.new("RICHDIM")
    ds.dxf.dimtxt = rng.choice([0.5, 2.5])
    ds.dxf.dimpost = rng.choice(["", "<> mm"])
    ds.dxf.dimscale = rng.choice([1.0, 100.0])
    doc.ucs.new("RICHUCS")
    doc.views.new("RICHVIEW")
    return ents


class _Timeout(Exception):
    pass


def _on_alarm(signum, frame):
    raise _Timeout()


def o2_documents(ctx, classes, small=False):
    import random
    import ezdxf
    from gen.dochist import Runner, gen_rich

    stream = "O2 whole documents"
    rng = ctx.rng("o2")
    for i in range(7 if small else ctx.n(28, 1400)):
        ver = VERSIONS[i % 7]
        seed = rng.randrange(1 << 30)
        fmt = "asc" if (i // 7) % 2 == 0 else "bin"
        r = random.Random(seed)
        doc = ezdxf.new(VNAME[ver])
        rep = {"op": "rich", "version": ver, "fmt": fmt, "seed": seed}
        try:
            build_rich(doc, r, ver)
        except Exception as ex:  # noqa  a factory call refusing its arguments is not a round trip problem
            ctx.note(f"O2: build_rich {VNAME[ver]} seed {seed}: {type(ex).__name__} {str(ex)[:80]}")
            ctx.hist(stream, "generator exception")
            continue
        ctx.count(stream, ("rich", ver, fmt, seed), True)
        ctx.hist(stream, f"type-rich {VNAME[ver]} {fmt}")
        roundtrip_check(ctx, stream, doc, ver, fmt, rep, classes, label="rich ")
    for i in range(7 if small else ctx.n(42, 2100)):
        ver = VERSIONS[i % 7]
        seed = rng.randrange(1 << 30)
        fmt = "asc" if (i // 7) % 2 == 0 else "bin"
        hr = random.Random(seed)
        length = hr.choice([8, 16, 30])
        run = Runner(VNAME[ver])
        choose = gen_rich(hr)
        ops = []
        signal.signal(signal.SIGALRM, _on_alarm)
        try:
            for _ in range(length):
                op = choose(run)
                if op[0] in ("reload", "reactor", "audit"):
                    continue
                if ver == "AC1009" and op[0] in ("newlayout", "dellayout", "renlayout", "activate"):
                    continue
                signal.alarm(5)  # same watchdog as C04: a few generated operations are known not to terminate
                try:
                    run.apply(op)
                finally:
                    signal.alarm(0)
                ops.append(op[0])
        except _Timeout:
            ctx.hist(stream, "history watchdog skip")
            continue
        except Exception as ex:  # noqa
            ctx.hist(stream, "history exception " + type(ex).__name__)
            continue
        for o in ops:
            ctx.hist(stream, "op " + o)
        ctx.count(stream, ("history", ver, fmt, seed), True)
        rep = {"op": "history", "version": ver, "fmt": fmt, "seed": seed, "length": length}
        roundtrip_check(ctx, stream, run.doc, ver, fmt, rep, classes, label="history ")


# ====================================================================================== O3: with and without C-extensions
CHILD = r'''
import sys, os, json, random, pathlib, tempfile
sys.path.insert(0, os.path.join(os.environ["VERIF_REPO_"], "src")); sys.path.insert(0, os.environ["VERIF_HARNESS_"]); sys.path.insert(0, os.path.join(os.environ["VERIF_HARNESS_"], "props"))
import ezdxf, c01
from ezdxf import options


class MiniCtx:
    quick = True
    tier = "quick"

    def __init__(self, seed, scratch):
        self.seed, self.scratch, self.fails, self.counts = seed, pathlib.Path(scratch), [], {}

    def n(self, q, t):
        return q

    def rng(self, salt=""):
        return random.Random(f"{self.seed}/C01-child/{salt}")

    def hist(self, *a, **k):
        pass

    def note(self, s):
        pass

    def count(self, stream, case, nontrivial=True, sample=None):
        self.counts[stream] = self.counts.get(stream, 0) + 1

    def fail(self, key, what, rep):
        if not any(f[0] == key for f in self.fails):
            self.fails.append((key, what, rep))


with tempfile.TemporaryDirectory(dir=os.environ["C01_SCRATCH"]) as tmp:
    ctx = MiniCtx(sys.argv[1], tmp)
    classes = c01.classes_by_type()
    c01.o1_zoo(ctx, classes, small=True)
    c01.o2_documents(ctx, classes, small=True)
    print(json.dumps({"cext": bool(getattr(options, "use_c_ext", False)), "counts": ctx.counts, "fails": ctx.fails}, default=str))
'''


def o3_cext(ctx):
    """the same round trip predicate in a process that runs the pure Python implementation (EZDXF_DISABLE_C_EXT=1).
    Bytes are NOT compared across the two modes: computed geometry (dimension rendering, MLINE/HELIX construction) differs
    in the last bit between the Cython and the Python math kernels, which is C10's subject."""
    import json

    stream = "O3 without C-extensions"
    repo = os.environ.get("VERIF_REPO", "/repo")
    env = dict(os.environ)
    env["VERIF_REPO_"] = repo
    env["VERIF_HARNESS_"] = os.path.dirname(os.path.dirname(os.path.abspath(__file__)))
    env["EZDXF_DISABLE_C_EXT"] = "1"
    env["C01_SCRATCH"] = str(ctx.scratch)
    r = subprocess.run([sys.executable, "-c", CHILD, str(ctx.seed)], env=env, capture_output=True, text=True, timeout=1500)
    if r.returncode != 0:
        ctx.fail("cext/child-failed", f"round trip run without C-extensions failed: {r.stderr[-400:]}", {"op": "cext"})
        return
    res = json.loads(r.stdout.strip().splitlines()[-1])
    from ezdxf import options

    ctx.note(f"O3: this process use_c_ext={getattr(options, 'use_c_ext', None)}, child use_c_ext={res['cext']}, child documents {res['counts']}")
    for st, n in res["counts"].items():
        for i in range(n):
            ctx.count(stream, (st, i), True)
    for key, what, rep in res["fails"]:
        ctx.fail(key, "[EZDXF_DISABLE_C_EXT=1] " + what, rep)


# ====================================================================================== O4: probes for the tier-2 statements
def o4_probes(ctx):
    from ezdxf.lldxf.tags import text_to_multi_tags, multi_tags_to_text

    stream = "O4 long string tags"
    rng = ctx.rng("o4")
    texts = ["", "a^Jb", "^J", "a\nb", "^\nJ", "x" * 255 + "^J", "x" * 254 + "^" + "J", "^^J", "^J" * 200]
    alpha = ["a", "^", "J", "\n", " ", "ä"]
    for _ in range(ctx.n(400, 4000)):
        texts.append("".join(rng.choice(alpha) for _ in range(rng.choice([1, 3, 8, 260, 520]))))
    for t in texts:
        ctx.count(stream, t, "^" in t or "\n" in t)
        back = multi_tags_to_text(text_to_multi_tags(t))
        if back != t:
            kind = "literal-caretJ" if "^J" in t else "other"
            ctx.fail(f"multitags/{kind}/{t[:20]!r}", f"multi_tags_to_text(text_to_multi_tags({t[:40]!r})) = {back[:40]!r}", {"op": "multitags", "text": t})


# ====================================================================================== O5: payload codecs, real writer -> real loader
def o5_one(ctx, kind: str, seed: int, report=True):
    """one payload of `kind` generated from `seed`: real export -> real load, compared with what the property allows
    (documented canonical forms only).  Returns None or (what, detail)."""
    import copy
    import random
    from ezdxf.lldxf.types import DXFTag
    from ezdxf.lldxf.tags import Tags
    from ezdxf.entities import Spline, Mesh, MText, Dictionary, Hatch
    from ezdxf.entities.mtext import export_mtext_content
    from ezdxf.entities.boundary_paths import BoundaryPaths
    from ezdxf.entities.pattern import Pattern, PatternLine
    from ezdxf.lldxf.packedtags import VertexArray

    rng = random.Random(seed)
    f = lambda: rng.choice(PF)
    v3 = lambda: (f(), f(), f())
    if kind == "SPLINE":
        e = Spline()
        e.knots = [f() for _ in range(rng.randint(0, 6))]
        e.weights = [f() for _ in range(rng.choice([0, 1, 2, 4]))]
        e.control_points = [v3() for _ in range(rng.randint(0, 5))]
        e.fit_points = [v3() for _ in range(rng.choice([0, 1, 3]))]
        tags = ([DXFTag(100, "AcDbSpline"), DXFTag(70, 8), DXFTag(71, 3)]
                + collect_tags(lambda w: (w.write_tag2(72, e.knot_count()), w.write_tag2(73, e.control_point_count()),
                                          w.write_tag2(74, e.fit_point_count()), w.write_tag2(42, 1e-9), e.export_spline_data(w))))
        e2 = Spline()
        rest = list(e2.load_spline_data(Tags(tags)))
        want = ([_fb(k) for k in e.knots], [_fb(k) for k in e.weights], [_p3(c) for c in e.control_points], [_p3(c) for c in e.fit_points])
        got = ([_fb(k) for k in e2.knots], [_fb(k) for k in e2.weights], [_p3(c) for c in e2.control_points], [_p3(c) for c in e2.fit_points])
        if want != got:
            return "SPLINE payload", f"{want} -> {got}"
        if [t.code for t in rest] != [100, 70, 71, 72, 73, 74, 42]:
            return "SPLINE attribute tags", f"codes left for the attribute loader: {[t.code for t in rest]}"
    elif kind == "MESH":
        m = Mesh()
        nv = rng.randint(1, 5)
        m._vertices = VertexArray(data=[v3() for _ in range(nv)])
        faces = [[rng.choice([0, 1, 2, 255, 256, 70000]) for _ in range(rng.randint(1, 6))] for _ in range(rng.randint(1, 4))]
        m._faces.set_data(faces)
        ne = rng.randint(0, 4)
        edges = [(rng.randint(0, 9), rng.randint(0, 9)) for _ in range(ne)]
        m._edges.set_data(edges)
        cr = [rng.choice(F32) for _ in range(rng.choice([ne, ne, 0, ne + 2, max(ne - 1, 0)]))]
        m.creases = cr
        tags = [DXFTag(100, "AcDbSubDMesh"), DXFTag(71, 2), DXFTag(72, 0), DXFTag(91, 0)] + collect_tags(
            lambda w: (m.export_mesh_data(w), m.export_override_data(w)))
        m2 = Mesh()
        work = Tags(tags)
        m2.load_mesh_data(work, "ABC")
        want_cr = (cr[:ne] + [0.0] * max(ne - len(cr), 0))
        want = ([_p3(v) for v in m.vertices], [list(fc) for fc in faces], [i for ed in edges for i in ed], [_fb(c) for c in want_cr])
        got = ([_p3(v) for v in m2.vertices], [list(fc) for fc in m2.faces], list(m2._edges.values), [_fb(c) for c in m2.creases])
        if want != got:
            return "MESH payload", f"{want} -> {got}"
        if [t.code for t in work] != [100, 71, 72, 91, 90]:
            return "MESH attribute tags", f"codes left for the attribute loader: {[t.code for t in work]}"
    elif kind == "MTEXT":
        alpha = ["a", "b", "^", "J", "\n", "\r", "\\", "P", "ä", " ", "^I", "\r\n", "€", "中"]
        n = rng.choice([0, 1, 2, 5, 20, 248, 249, 250, 251, 499, 500, 501, 750, 1003, 2049])
        t = "".join(rng.choice(alpha) for _ in range(n))
        if rng.random() < 0.5 and n >= 249:
            k = rng.choice([249, 250, 499, 500])
            t = t[:k - 1] + "^" * rng.randint(1, 3) + t[k:]
        tags = [DXFTag(40, 2.5)] + collect_tags(lambda w: export_mtext_content(t, w)) + [DXFTag(7, "Standard")]
        if any(len(tg.value) > 250 for tg in tags if tg.code in (1, 3)):
            return "MTEXT chunk longer than 250 characters", repr(t[:60])
        e2 = MText()
        rest = list(e2.load_mtext_content(Tags(tags)))
        want = t.replace("\r", "").replace("\n", "\\P")
        if e2.text != want:
            i = next((i for i, (a, b) in enumerate(zip(e2.text, want)) if a != b), min(len(want), len(e2.text)))
            return "MTEXT text", f"length {len(want)} -> {len(e2.text)}, first difference at {i}: {want[i-3:i+3]!r} -> {e2.text[i-3:i+3]!r}"
        if [tg.code for tg in rest] != [40, 7]:
            return "MTEXT attribute tags", str([tg.code for tg in rest])
    elif kind == "DICTIONARY":
        d = Dictionary()
        d._value_code = rng.choice([350, 350, 360])
        for _ in range(rng.randint(0, 6)):
            d._data[rng.choice(["A", "B", "ACAD_GROUP", "kkk", "", "Ä", "b", "a b"])] = format(rng.randint(1, 0xFFF), "X")
        tags = [DXFTag(280, 1), DXFTag(281, 1)] + collect_tags(lambda w: d.export_dict(w))
        d2 = Dictionary()
        d2.load_dict(tags)
        if list(d2._data.items()) != list(d._data.items()):
            return "DICTIONARY entries", f"{list(d._data.items())} -> {list(d2._data.items())}"
        if d._data and d2._value_code != d._value_code:
            return "DICTIONARY value code", f"{d._value_code} -> {d2._value_code}"
    elif kind in ("HATCH", "MPOLYGON"):
        bp = random_paths(rng)
        if not len(bp.paths):
            return None
        ver = rng.choice(["AC1015", "AC1018", "AC1024", "AC1032"])
        try:
            body = collect_tags(lambda w: bp.export_dxf(w, kind), ver)
        except Exception:
            return None  # SplineEdge.export_dxf refuses inconsistent data (DXFValueError)
        # what the property allows to differ: `bp` is shown AFTER the export (required tangents, rational flag are set by
        # the writer), all-zero bulges come back as 0.0, clockwise arcs are stored as 360 - angle (exact for the angles used
        # here?) -> computed with the same float expression, MPOLYGON polyline paths have no source boundary objects
        want = []
        for pth in bp.paths:
            q = copy.deepcopy(pth)
            if type(q).__name__ == "PolylinePath":
                if not any(b for _, _, b in q.vertices):
                    q.vertices = [(x, y, 0.0) for x, y, _ in q.vertices]
                if kind == "MPOLYGON":
                    q.source_boundary_objects = []
            else:
                for ed in q.edges:
                    if type(ed).__name__ in ("ArcEdge", "EllipseEdge") and not ed.ccw:
                        ed.start_angle, ed.end_angle = 360.0 - (360.0 - ed.start_angle), 360.0 - (360.0 - ed.end_angle)
            want.append(show_path(q))
        pre = [DXFTag(100, "AcDbHatch"), DXFTag(2, "SOLID"), DXFTag(70, 1), DXFTag(71, 1)]
        post = [DXFTag(75, 1), DXFTag(76, 1), DXFTag(98, 0)] if kind == "HATCH" else [DXFTag(76, 1), DXFTag(73, 0), DXFTag(47, 1.0)]
        h = Hatch()
        rest = h.load_paths(Tags(pre[1:] + body + post))
        got = [show_path(pth) for pth in h.paths]
        if got != want:
            j = next((j for j, (a, b) in enumerate(zip(got, want)) if a != b), min(len(got), len(want)))
            return f"{kind} boundary paths", (f"{len(want)} paths -> {len(got)}; path {j}: {(want[j] if j < len(want) else '-')[:200]} -> "
                                               f"{(got[j] if j < len(got) else '-')[:200]}")
        if [tg.code for tg in rest] != [tg.code for tg in pre[1:] + post]:
            return f"{kind} attribute tags", f"left for the attribute loader: {[tg.code for tg in rest]}"
        # second cycle: what came back is written and read again without any further change
        body2 = collect_tags(lambda w: h.paths.export_dxf(w, kind), ver)
        h2 = Hatch()
        h2.load_paths(Tags(pre[1:] + body2 + post))
        got2 = [show_path(pth) for pth in h2.paths]
        if got2 != got:
            j = next((j for j, (a, b) in enumerate(zip(got2, got)) if a != b), min(len(got), len(got2)))
            return f"{kind} boundary paths, second cycle", f"path {j}: {(got[j] if j < len(got) else '-')[:200]} -> {(got2[j] if j < len(got2) else '-')[:200]}"
    elif kind == "GRADIENT":
        import math
        from ezdxf.entities.gradient import Gradient

        g = Gradient()
        g.rotation = rng.choice([0.0, 30.0, 33.3, 45.0, 60.0, 123.456, 359.5, 0.1, 270.0])
        g.centered, g.tint, g.one_color = rng.choice([0.0, 1.0]), rng.choice([0.0, 0.25]), rng.choice([0, 1])
        g.name = rng.choice(["LINEAR", "SPHERICAL", "CURVED"])
        g.color1, g.color2 = tuple(rng.randint(0, 255) for _ in range(3)), tuple(rng.randint(0, 255) for _ in range(3))
        g.aci1, g.aci2 = rng.choice([None, 1, 7]), rng.choice([None, 5, 256])
        tags = collect_tags(lambda w: g.export_dxf(w))
        g2 = Gradient.load_tags(Tags(tags))
        # the file holds radians: the rotation that comes back is degrees(radians(r)) (one ulp off for some values, stable afterwards)
        want = (g.kind, fbits(math.degrees(math.radians(g.rotation))), g.centered, g.tint, g.one_color, g.name, tuple(g.color1), tuple(g.color2), g.aci1, g.aci2)
        got = (g2.kind, fbits(g2.rotation), g2.centered, g2.tint, g2.one_color, g2.name, tuple(g2.color1), tuple(g2.color2), g2.aci1, g2.aci2)
        if want != got:
            return "HATCH gradient", f"{want} -> {got}"
        g3 = Gradient.load_tags(Tags(collect_tags(lambda w: g2.export_dxf(w))))
        if fbits(g3.rotation) != fbits(g2.rotation):
            return "HATCH gradient rotation, second cycle", f"{g2.rotation!r} -> {g3.rotation!r}"
    elif kind == "SEEDS":
        h = Hatch()
        h.seeds = [(f(), f()) for _ in range(rng.randint(0, 5))]
        tags = [DXFTag(75, 1), DXFTag(47, 0.25)] + collect_tags(lambda w: h.export_seeds(w))
        h2 = Hatch()
        rest = h2.load_seeds(Tags(tags))
        if [_p2(x) for x in h2.seeds] != [_p2(x) for x in h.seeds] or [tg.code for tg in rest] != [75, 47]:
            return "HATCH seed points", f"{h.seeds} -> {h2.seeds}, rest {[tg.code for tg in rest]}"
    elif kind == "PATTERN":
        pat = Pattern([PatternLine(f(), (f(), f()), (f(), f()), [f() for _ in range(rng.randint(0, 5))]) for _ in range(rng.randint(1, 4))])
        tags = [DXFTag(76, 1), DXFTag(52, 0.0)] + collect_tags(lambda w: pat.export_dxf(w)) + [DXFTag(47, 1.0), DXFTag(98, 0)]
        h = Hatch()
        rest = h.load_pattern(Tags(tags))
        shw = lambda pp: [(_fb(l.angle), _p2(l.base_point), _p2(l.offset), [_fb(x) for x in l.dash_length_items]) for l in pp.lines]
        if h.pattern is None or shw(h.pattern) != shw(pat) or [tg.code for tg in rest] != [76, 52, 47, 98]:
            return "HATCH pattern lines", f"{shw(pat)} -> {None if h.pattern is None else shw(h.pattern)}, rest {[tg.code for tg in rest]}"
    return None


O5_KINDS = ["SPLINE", "MESH", "MTEXT", "DICTIONARY", "HATCH", "HATCH", "MPOLYGON", "SEEDS", "PATTERN", "GRADIENT"]


def o5_payload(ctx):
    stream = "O5 payload codecs on the real code"
    rng = ctx.rng("o5")
    for i in range(ctx.n(900, 9000)):
        kind = O5_KINDS[i % len(O5_KINDS)]
        seed = rng.randrange(1 << 30)
        ctx.count(stream, (kind, seed), True)
        ctx.hist(stream, kind)
        try:
            r = o5_one(ctx, kind, seed)
        except Exception as ex:  # an exception escaping from writer or loader of a valid payload
            r = (f"{kind}: {type(ex).__name__}", str(ex)[:200])
        if r is not None:
            ctx.fail(f"payload-codec/{kind}/{r[0]}", f"real export -> real load of a random {kind} payload (seed {seed}): {r[0]}: {r[1]}",
                     {"op": "o5", "kind": kind, "seed": seed})


def oracle(ctx):
    classes = classes_by_type()
    o1_zoo(ctx, classes)
    o2_documents(ctx, classes)
    o3_cext(ctx)
    o4_probes(ctx)
    o5_payload(ctx)


def replay(ctx, rep):
    import random
    import ezdxf

    classes = classes_by_type()
    n0 = 0
    for f in rep.get("failing_inputs", []):
        r = f["replay"]
        before = len(ctx.failures)
        if r.get("op") == "zoo":
            doc = ezdxf.new(VNAME[r["version"]])
            zoo = build_zoo(doc)
            for i, (t, e) in enumerate(sorted(zoo.items())):
                if r["mode"] == "all":
                    populate(e, r["k"] + i)
                else:
                    populate_single(e, r["k"])
            roundtrip_check(ctx, "replay", doc, r["version"], r["fmt"], r, classes)
        elif r.get("op") == "rich":
            doc = ezdxf.new(VNAME[r["version"]])
            build_rich(doc, random.Random(r["seed"]), r["version"])
            roundtrip_check(ctx, "replay", doc, r["version"], r["fmt"], r, classes)
        elif r.get("op") == "history":
            from gen.dochist import Runner, gen_rich
            hr = random.Random(r["seed"])
            length = hr.choice([8, 16, 30])
            run = Runner(VNAME[r["version"]])
            choose = gen_rich(hr)
            for _ in range(length):
                op = choose(run)
                if op[0] in ("reload", "reactor", "audit"):
                    continue
                if r["version"] == "AC1009" and op[0] in ("newlayout", "dellayout", "renlayout", "activate"):
                    continue
                run.apply(op)
            roundtrip_check(ctx, "replay", run.doc, r["version"], r["fmt"], r, classes)
        elif r.get("op") == "x6":
            x6_cases(ctx)  # deterministic per seed: reports the same key again when the typed entity still changes
        elif r.get("op") == "o5":
            res = o5_one(ctx, r["kind"], r["seed"])
            if res is not None:
                ctx.fail(f["key"], f"still fails: {res[0]}: {res[1]}", r)
        elif r.get("op") == "multitags":
            from ezdxf.lldxf.tags import text_to_multi_tags, multi_tags_to_text
            if multi_tags_to_text(text_to_multi_tags(r["text"])) != r["text"]:
                ctx.fail(f["key"], "still fails", r)
        n0 += 1 if any(x.key == f["key"] for x in ctx.failures[before:]) else 0
    bad = [x.key for x in ctx.failures]
    still = [f["key"] for f in rep.get("failing_inputs", []) if f["key"] in bad]
    return (not still, "; ".join(still[:10]) or "all recorded failing inputs pass now")

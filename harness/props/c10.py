"""C10  Cython accelerated math equals the pure-Python implementation (DESIGN.md section 7, C10).

regenerate : BOTH twins of every translatable kernel -> Gen/{Vector,Matrix44}{Py,Pyx}.lean (shared with C11) and
             Gen/Twins{Py,Pyx}.lean (further Vec2/Vec3 kernels, Bezier4P/Bezier3P, construct helpers)
prove      : Props/C10.lean  twin_<f> : Py.f = Pyx.f  for all rational arguments
correspond : the kernels of Gen/Twins*.lean against both implementations (ties the translation to the code)
oracle     : differential test of EVERY public method/operator of each twin pair on value classes
"""
from __future__ import annotations

import math
import os
import sys
from fractions import Fraction as Fr

from props import c11

ID = "C10"
LEAN_MODULES = ["EzdxfVerif.Props.C10"]
GEN = ["VectorPy", "VectorPyx", "Matrix44Py", "Matrix44Pyx", "TwinsPy", "TwinsPyx"]
DRIVER_DEPS = ["EzdxfVerif.Model.Rat3", "Drivers.Proto"] + [f"EzdxfVerif.Gen.{g}" for g in GEN]

SRC = {
    "py": {"vector": "src/ezdxf/math/_vector.py", "matrix": "src/ezdxf/math/_matrix44.py",
           "bez4": "src/ezdxf/math/_bezier4p.py", "bez3": "src/ezdxf/math/_bezier3p.py",
           "construct": "src/ezdxf/math/_construct.py"},
    "pyx": {"vector": "src/ezdxf/acc/vector.pyx", "matrix": "src/ezdxf/acc/matrix44.pyx",
            "bez4": "src/ezdxf/acc/bezier4p.pyx", "bez3": "src/ezdxf/acc/bezier3p.pyx",
            "construct": "src/ezdxf/acc/construct.pyx"},
}
PXD = ["src/ezdxf/acc/vector.pxd", "src/ezdxf/acc/matrix44.pxd", "src/ezdxf/acc/constants.h"]

A, B = ("self", "v3", "a"), ("other", "v3", "b")
A2, B2 = ("self", "v2", "a"), ("other", "v2", "b")
P3 = [(f"p{i}", "v3") for i in range(4)]
P2 = [(f"p{i}", "v2") for i in range(4)]
Q2 = [("a", "v2"), ("b", "v2"), ("c", "v2"), ("d", "v2")]
Q3 = [("a", "v3"), ("b", "v3"), ("c", "v3"), ("d", "v3")]


def twin_kernels(pyx: bool):
    """(module key, lean name, qualname or None, params, kwargs) — identical lists for both twins"""
    fac = "factor" if pyx else "other"
    k = [
        # further vector kernels (the basic ones are in Gen/Vector*.lean, see props/c11.py)
        ("vector", "v3bool", "Vec3.__bool__", [A], {}),
        ("vector", "v3truediv", "Vec3.__truediv__", [A, (fac, "rat", "k")], {}),
        ("vector", "v3rmul", "Vec3.__rmul__", [A, (fac, "rat", "k")], {}),
        ("vector", "v3radd", "Vec3.__radd__", [A, B], {}),
        ("vector", "v3xy", "Vec3.xy", [A], {}),
        ("vector", "v3vec2", "Vec3.vec2", [A], {}),
        ("vector", "v3replaceX", "Vec3.replace", [A, ("x", "rat")], {}),
        ("vector", "v3fromAngle", "Vec3.from_angle", [("angle", "angle"), ("length", "rat")], {}),
        ("vector", "v3magnitude", "Vec3.magnitude", [A], {}),
        ("vector", "v3magnitudeXY", "Vec3.magnitude_xy", [A], {}),
        ("vector", "v3isParallel", "Vec3.is_parallel", [A, B], {}),
        ("vector", "modDistance", "distance", [("p1", "v3", "a"), ("p2", "v3", "b")], {}),
        ("vector", "modLerp", "lerp", [("p1", "v3", "a"), ("p2", "v3", "b"), ("factor", "rat", "t")], {}),
        ("vector", "v2bool", "Vec2.__bool__", [A2], {}),
        ("vector", "v2isnull", "Vec2.is_null", [A2], {}),
        ("vector", "v2truediv", "Vec2.__truediv__", [A2, (fac, "rat", "k")], {}),
        ("vector", "v2rmul", "Vec2.__rmul__", [A2, (fac, "rat", "k")], {}),
        ("vector", "v2normalize", "Vec2.normalize", [A2], {}),
        ("vector", "v2project", "Vec2.project", [A2, B2], {}),
        ("vector", "v2distance", "Vec2.distance", [A2, B2], {}),
        ("vector", "v2magnitude", "Vec2.magnitude", [A2], {}),
        ("vector", "v2vec3", "Vec2.vec3", [A2], {}),
        ("vector", "v2fromAngle", "Vec2.from_angle", [("angle", "angle"), ("length", "rat")], {}),
        # Bezier curves (construction + evaluation in one expression)
        ("bez4", "bez4Point", None, P3 + [("t", "rat")], {"expr": "Bezier4P((p0, p1, p2, p3)).point(t)"}),
        ("bez4", "bez4Tangent", None, P3 + [("t", "rat")], {"expr": "Bezier4P((p0, p1, p2, p3)).tangent(t)"}),
        ("bez4", "bez4ControlPoints", None, P3, {"expr": "Bezier4P((p0, p1, p2, p3)).control_points"}),
        ("bez4", "bez4Reverse", None, P3, {"expr": "Bezier4P((p0, p1, p2, p3)).reverse().control_points"}),
        ("bez4", "bez4Transform", None, P3 + [("m", "m44")], {"expr": "Bezier4P((p0, p1, p2, p3)).transform(m).control_points"}),
        ("bez4", "bez4Approx4", None, P3, {"expr": "tuple(Bezier4P((p0, p1, p2, p3)).approximate(4))"}),
        ("bez4", "bez4Point2d", None, P2 + [("t", "rat")], {"expr": "Vec3(Bezier4P((p0, p1, p2, p3)).point(t))"}),
        ("bez3", "bez3Point", None, P3[:3] + [("t", "rat")], {"expr": "Bezier3P((p0, p1, p2)).point(t)"}),
        ("bez3", "bez3Tangent", None, P3[:3] + [("t", "rat")], {"expr": "Bezier3P((p0, p1, p2)).tangent(t)"}),
        ("bez3", "bez3ControlPoints", None, P3[:3], {"expr": "Bezier3P((p0, p1, p2)).control_points"}),
        ("bez3", "bez3Reverse", None, P3[:3], {"expr": "Bezier3P((p0, p1, p2)).reverse().control_points"}),
        ("bez3", "bez3Transform", None, P3[:3] + [("m", "m44")], {"expr": "Bezier3P((p0, p1, p2)).transform(m).control_points"}),
        ("bez3", "bez3Approx4", None, P3[:3], {"expr": "tuple(Bezier3P((p0, p1, p2)).approximate(4))"}),
        ("bez3", "bez3Point2d", None, P2[:3] + [("t", "rat")], {"expr": "Vec3(Bezier3P((p0, p1, p2)).point(t))"}),
        # 2-D / 3-D construction helpers
        ("construct", "lineLine", None, Q2 + [("virtual", "bool"), ("abs_tol", "rat")],
         {"expr": "intersection_line_line_2d((a, b), (c, d), virtual, abs_tol)"}),
        ("construct", "clockwise3", None, Q2[:3], {"expr": "has_clockwise_orientation((a, b, c))"}),
        ("construct", "clockwise4", None, Q2, {"expr": "has_clockwise_orientation((a, b, c, d))"}),
        ("construct", "rayRay", None, Q3 + [("abs_tol", "rat")], {"expr": "intersection_ray_ray_3d((a, b), (c, d), abs_tol)"}),
    ]
    return k


def regenerate(ctx):
    from translate.py2lean import Program, translate, lean_file

    c11.regenerate(ctx)  # Gen/Vector*.lean, Gen/Matrix44*.lean (and Ucs*.lean): identical text, written once
    for twin, suffix in (("py", "Py"), ("pyx", "Pyx")):
        src = SRC[twin]
        prog = Program(ctx.src)
        prog.link("ezdxf.math", [src["vector"], src["matrix"]])
        defs, extra = [], ""
        for key, lean_name, qual, params, kw in twin_kernels(twin == "pyx"):
            d = translate(prog, src[key], qual, params, lean_name=lean_name, **kw)
            defs.append(d)
            if d.sqrt_params:
                extra += d.sqrt_wrapper() + "\n"
        srcs = sorted(set(src.values())) + (PXD if twin == "pyx" else [])
        ctx.write_gen(f"Twins{suffix}", lean_file(f"EzdxfVerif.Gen.Twins{suffix}", defs, extra=extra), srcs)

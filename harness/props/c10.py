"""C10  Cython accelerated math equals the pure-Python implementation (DESIGN.md section 7, C10).

regenerate : BOTH twins of every translatable kernel -> Gen/{Vector,Matrix44}{Py,Pyx}.lean (shared with C11) and
             Gen/Twins{Py,Pyx}.lean (further Vec2/Vec3 kernels, Bezier4P/Bezier3P, construct helpers);
             loops (props/c10_loops.py): loop bodies/tests of both twins -> Gen/TwinLoops{Py,Pyx}.lean + pinned loop skeletons
prove      : Props/C10.lean  twin_<f> : Py.f = Pyx.f  for all rational arguments
correspond : the kernels of Gen/Twins*.lean against both implementations (ties the translation to the code)
oracle     : differential test of EVERY public method/operator of each twin pair on value classes
"""
from __future__ import annotations

import math
import os
import sys
from fractions import Fraction as Fr

from props import c11
from props import c10_loops

ID = "C10"
LEAN_MODULES = ["EzdxfVerif.Props.C10", "EzdxfVerif.Props.C10Flat"]  # C10Flat imports Props/C14 read-only (twins_agree for the flattening loops)
GEN = ["VectorPy", "VectorPyx", "Matrix44Py", "Matrix44Pyx", "TwinsPy", "TwinsPyx", "TwinLoopsPy", "TwinLoopsPyx"]
DRIVER_DEPS = ["EzdxfVerif.Model.Rat3", "EzdxfVerif.Model.TwinLoops", "Drivers.Proto"] + [f"EzdxfVerif.Gen.{g}" for g in GEN]

SRC = {
    "py": {"vector": "src/ezdxf/math/_vector.py", "matrix": "src/ezdxf/math/_matrix44.py",
           "bez4": "src/ezdxf/math/_bezier4p.py", "bez3": "src/ezdxf/math/_bezier3p.py",
           "construct": "src/ezdxf/math/_construct.py"},
    "pyx": {"vector": "src/ezdxf/acc/vector.pyx", "matrix": "src/ezdxf/acc/matrix44.pyx",
            "bez4": "src/ezdxf/acc/bezier4p.pyx", "bez3": "src/ezdxf/acc/bezier3p.pyx",
            "construct": "src/ezdxf/acc/construct.pyx"},
}
PXD = ["src/ezdxf/acc/vector.pxd", "src/ezdxf/acc/matrix44.pxd", "src/ezdxf/acc/constants.h"]

A, B = ("self", "v3", "a"), ("other", "v3", "b")
A2, B2 = ("self", "v2", "a"), ("other", "v2", "b")
P3 = [(f"p{i}", "v3") for i in range(4)]
P2 = [(f"p{i}", "v2") for i in range(4)]
Q2 = [("a", "v2"), ("b", "v2"), ("c", "v2"), ("d", "v2")]
Q3 = [("a", "v3"), ("b", "v3"), ("c", "v3"), ("d", "v3")]


def twin_kernels(pyx: bool):
    """(module key, lean name, qualname or None, params, kwargs) — identical lists for both twins"""
    fac = "factor" if pyx else "other"
    k = [
        # further vector kernels (the basic ones are in Gen/Vector*.lean, see props/c11.py)
        ("vector", "v3bool", "Vec3.__bool__", [A], {}),
        ("vector", "v3truediv", "Vec3.__truediv__", [A, (fac, "rat", "k")], {}),
        ("vector", "v3rmul", "Vec3.__rmul__", [A, (fac, "rat", "k")], {}),
        ("vector", "v3radd", "Vec3.__radd__", [A, B], {}),
        ("vector", "v3xy", "Vec3.xy", [A], {}),
        ("vector", "v3vec2", "Vec3.vec2", [A], {}),
        ("vector", "v3replaceX", "Vec3.replace", [A, ("x", "rat")], {}),
        ("vector", "v3fromAngle", "Vec3.from_angle", [("angle", "angle"), ("length", "rat")], {}),
        ("vector", "v3magnitude", "Vec3.magnitude", [A], {}),
        ("vector", "v3magnitudeXY", "Vec3.magnitude_xy", [A], {}),
        ("vector", "v3isParallel", "Vec3.is_parallel", [A, B], {}),
        ("vector", "modDistance", "distance", [("p1", "v3", "a"), ("p2", "v3", "b")], {}),
        ("vector", "modLerp", "lerp", [("p1", "v3", "a"), ("p2", "v3", "b"), ("factor", "rat", "t")], {}),
        ("vector", "v2bool", "Vec2.__bool__", [A2], {}),
        ("vector", "v2isnull", "Vec2.is_null", [A2], {}),
        ("vector", "v2truediv", "Vec2.__truediv__", [A2, (fac, "rat", "k")], {}),
        ("vector", "v2rmul", "Vec2.__rmul__", [A2, (fac, "rat", "k")], {}),
        ("vector", "v2normalize", "Vec2.normalize", [A2], {}),
        ("vector", "v2project", "Vec2.project", [A2, B2], {}),
        ("vector", "v2distance", "Vec2.distance", [A2, B2], {}),
        ("vector", "v2magnitude", "Vec2.magnitude", [A2], {}),
        ("vector", "v2vec3", "Vec2.vec3", [A2], {}),
        ("vector", "v2fromAngle", "Vec2.from_angle", [("angle", "angle"), ("length", "rat")], {}),
        # Bezier curves (construction + evaluation in one expression)
        ("bez4", "bez4Point", None, P3 + [("t", "rat")], {"expr": "Bezier4P((p0, p1, p2, p3)).point(t)"}),
        ("bez4", "bez4Tangent", None, P3 + [("t", "rat")], {"expr": "Bezier4P((p0, p1, p2, p3)).tangent(t)"}),
        ("bez4", "bez4ControlPoints", None, P3, {"expr": "Bezier4P((p0, p1, p2, p3)).control_points"}),
        ("bez4", "bez4Reverse", None, P3, {"expr": "Bezier4P((p0, p1, p2, p3)).reverse().control_points"}),
        ("bez4", "bez4Transform", None, P3 + [("m", "m44")], {"expr": "Bezier4P((p0, p1, p2, p3)).transform(m).control_points"}),
        ("bez4", "bez4Approx4", None, P3, {"expr": "tuple(Bezier4P((p0, p1, p2, p3)).approximate(4))"}),
        ("bez4", "bez4Point2d", None, P2 + [("t", "rat")], {"expr": "Vec3(Bezier4P((p0, p1, p2, p3)).point(t))"}),
        ("bez3", "bez3Point", None, P3[:3] + [("t", "rat")], {"expr": "Bezier3P((p0, p1, p2)).point(t)"}),
        ("bez3", "bez3Tangent", None, P3[:3] + [("t", "rat")], {"expr": "Bezier3P((p0, p1, p2)).tangent(t)"}),
        ("bez3", "bez3ControlPoints", None, P3[:3], {"expr": "Bezier3P((p0, p1, p2)).control_points"}),
        ("bez3", "bez3Reverse", None, P3[:3], {"expr": "Bezier3P((p0, p1, p2)).reverse().control_points"}),
        ("bez3", "bez3Transform", None, P3[:3] + [("m", "m44")], {"expr": "Bezier3P((p0, p1, p2)).transform(m).control_points"}),
        ("bez3", "bez3Approx4", None, P3[:3], {"expr": "tuple(Bezier3P((p0, p1, p2)).approximate(4))"}),
        ("bez3", "bez3Point2d", None, P2[:3] + [("t", "rat")], {"expr": "Vec3(Bezier3P((p0, p1, p2)).point(t))"}),
        # 2-D / 3-D construction helpers
        ("construct", "lineLine", None, Q2 + [("virtual", "bool"), ("abs_tol", "rat")],
         {"expr": "intersection_line_line_2d((a, b), (c, d), virtual, abs_tol)"}),
        ("construct", "clockwise3", None, Q2[:3], {"expr": "has_clockwise_orientation((a, b, c))"}),
        ("construct", "clockwise4", None, Q2, {"expr": "has_clockwise_orientation((a, b, c, d))"}),
        ("construct", "rayRay", None, Q3 + [("abs_tol", "rat")], {"expr": "intersection_ray_ray_3d((a, b), (c, d), abs_tol)"}),
    ]
    return k


def regenerate(ctx):
    from translate.py2lean import Program, translate, lean_file

    c11.regenerate(ctx)  # Gen/Vector*.lean, Gen/Matrix44*.lean (and Ucs*.lean): identical text, written once
    from props import c14
    c14.regenerate(ctx)  # Gen/FlattenKernels.lean: Props/C10Flat.lean instantiates C14's twins_agree (read-only import) with C10's translated kernels
    for twin, suffix in (("py", "Py"), ("pyx", "Pyx")):
        src = SRC[twin]
        prog = Program(ctx.src)
        prog.link("ezdxf.math", [src["vector"], src["matrix"]])
        defs, extra = [], ""
        for key, lean_name, qual, params, kw in twin_kernels(twin == "pyx"):
            d = translate(prog, src[key], qual, params, lean_name=lean_name, **kw)
            defs.append(d)
            if d.sqrt_params:
                extra += d.sqrt_wrapper() + "\n"
        srcs = sorted(set(src.values())) + (PXD if twin == "pyx" else [])
        ctx.write_gen(f"Twins{suffix}", lean_file(f"EzdxfVerif.Gen.Twins{suffix}", defs, extra=extra), srcs)
    # loops (session 3): loop bodies / tests cut out of both twins, skeleton text compared with the pinned one
    _, problems = c10_loops.regenerate_loops(ctx)
    # a changed pinned text / failed cut is a BROKEN OBLIGATION, not yet a violation: it is recorded with its diff, and oracle() searches
    # the real twins for a concrete failing input of the named function (ctx.c10_suspects -> targeted, boosted plans)
    from runner import Broken
    ctx.c10_suspects = []
    for suspect, text in problems:
        lines = text.split("\n")
        diff = " | ".join(ln for ln in lines[1:] if ln[:1] in "+-" and not ln.startswith(("---", "+++")))[:220]
        ctx.broken.append(Broken("translation", f"pinned loop text of {suspect}", lines[0][:200] + (" :: " + diff if diff else "") + "\n" + text))
        ctx.c10_suspects.append(suspect)


# ================================================================================================ twins on the real code
RULE = (
    "prove: twin_<f> : Py.f = Pyx.f for every kernel translated from both twins (Gen regenerated each run). "
    "correspondence X1/X2: the kernels of Gen/Twins*.lean (Vec2/Vec3 extras, Bezier4P/3P construction+point/tangent/"
    "control_points/reverse/transform/approximate, line-line, clockwise, ray-ray) evaluated in Lean vs BOTH implementations on "
    "dyadic inputs (exact) or with stated relative tolerance (sqrt/division kernels). "
    "oracle D: differential test C-extension (ezdxf.acc.*) vs pure Python (ezdxf.math._*, render._linetypes, linalg._*) of "
    "every public name found by dir() on either twin of Vec2, Vec3, Matrix44, Bezier4P, Bezier3P, Basis, Evaluator, "
    "_LineTypeRenderer and of the module functions (construct, bezier4p, vector, mapbox_earcut, np_support): argument tuples "
    "from value classes (0, -0.0, 1e-13..1e-300, 1e16..1e300, dyadic, mixed magnitudes, collinear/degenerate, Vec2/Vec3/tuple/"
    "list inputs, wrong arity and type); equal = same exception TYPE or values within 4 ulp (exact for bool/int/str), same "
    "hash/eq/repr/bool/len/iteration; a public name present in one twin only or not exercised is itself reported. "
    "non-trivial = result is not an exception in both twins; distinct by hash of (call, arguments). "
    "LOOPS (session 3): regenerate cuts every loop body and loop test of Basis.find_span / basis_funcs / span_weighting / "
    "basis_funcs_derivatives (first loop), Evaluator.point / derivative, _LineTypeRenderer._render_dashes / line_segment, "
    "has_clockwise_orientation (construct both twins, np_support) and Lib/bisect.py out of the current source "
    "(harness/translate/py2lean_c10.py) -> Gen/TwinLoops{Py,Pyx}.lean; the remaining loop skeleton of each function is compared "
    "with the pinned text harness/props/c10_skeletons.json that Model/TwinLoops.lean models; banded LU and the rest of A2.3 are "
    "checked to be the same loop text in both twins (up to the rewrites listed in c10_loops.DERIV_REWRITES); every function of the "
    "two earcut modules is checked to be the same text up to c10_loops.EARCUT_TOKENS or to have its pinned diff. prove: twin_<kernel> "
    "for every cut, twin_<loop> for every loop via the generic lemmas of Lemmas/TwinLoops.lean. correspondence X3/X4: the "
    "instantiated loops vs BOTH implementations (find_span, basis_funcs, basis_vector, Evaluator.point, Evaluator.derivative given "
    "the implementation's derivative table, consecutive line_segment calls of one renderer, clockwise tests), dyadic inputs. "
    "oracle: every public name of every module of the package ezdxf.acc is enumerated from the LIVE modules (pkgutil + dir()); a "
    "module without registered twin, a name without twin, and a name with neither theorem nor differential stream is reported "
    "(evidence: coverage.api_inventory). "
    "GROWTH ROUND 2: further cuts + skeletons: earcut (ear bounding box, blocked-ear tests, hole sort key, signed_area; identity of the other functions after "
    "justified rewrites), banded LU (lu_decompose / solve_vector_banded_matrix, pivoting and singular matrices in X4), the whole of A2.3 "
    "(basis_funcs_derivatives) and Evaluator.derivative on top of it, cubic_bezier_arc_parameters (ceil/tan/cos/sin/pi as parameters; X4 feeds libm's values "
    "at the model's exact angles), is_point_in_polygon_2d (any polygon), approximate(n)/approximated_length(n), flattening via C14.twins_agree "
    "(Props/C10Flat.lean, second Lean module). "
    "BROKEN PINNED TEXT / CUT (follow-up): regenerate records the diff as a broken obligation naming the function, and the oracle then SEARCHES the "
    "real twins with the boosted plans of that function (SEARCH_PLANS); a concrete failing input becomes the replay, only otherwise the line ends "
    "with no-failing-input-found. Always-on targeted plans: diff_earcut_holes (several holes with tied sort keys: equal leftmost x in every y "
    "order, rings started at any vertex, steiner points), diff_linetypes_far (short segments at |coordinate| 1e5..1e9 rendered by consecutive "
    "calls of one renderer), diff_aliasing (every public callable of Matrix44 that can return a Matrix44/list/array, list builders of Vec2/Vec3, "
    "Bezier control_points/approximate/flattening: `result is argument`, mutate result -> argument changed?, mutate argument -> result changed?)."
)
TRUSTED_BASE = [
    "py2lean translator + pyx pre-pass (cross-checked by the correspondence stream of C10 and C11 on every run)",
    "the differential oracle compares observable results only; CPython/Cython calling conventions are taken as they are",
    "loops: Model/TwinLoops.lean is a hand written reading of the pinned loop skeletons (iteration order, which array cell a kernel "
    "reads/writes, list building); tied by the pinned-text comparison on every run and by correspondence X3/X4 against both twins",
    "bisect.bisect_right: the C accelerator _bisect is taken to be Lib/bisect.py (whose loop is the one translated)",
    "earcut ring surgery: equal source text (after the cuts and justified rewrites) is taken to mean equal behaviour; banded LU and A2.3 are modelled "
    "now (pinned skeletons + X4), their text identity checks stay as a second tie (numpy float64 cells vs C doubles: IEEE binary64 in both; the "
    "ZeroDivisionError difference of numpy scalars was defect D14, fixed)",
    "Props/C10Flat.lean imports Props/C14 and Model/Flatten read-only: C14's bezierFlat is the loop model of Bezier flattening (tied by C14's own "
    "correspondence); Gen/FlattenKernels.lean is regenerated by c14.regenerate inside C10's regenerate step",
    "py2lean_c10 wraps (does not edit) py2lean: n-ary min/max as the left fold of the binary form; parenthesises `.ok decide (p)` leaves",
]
ASSUMPTIONS = [
    "finite doubles only (NaN/inf arguments are not part of the value classes)",
    "4 ulp tolerance for float results of the two twins (different association order / sqrt vs pow / hypot)",
    "loop theorems are over the rationals; array reads outside an array (span outside the knot vector: IndexError in Python, foreign "
    "memory in C) are outside the model (0); while loops carry fuel, both twins get the same fuel",
    "twin_binomial: k <= 18 (size of the FACTORIAL table; the Cython Basis limits the order to 11)",
]
OPEN = [
    "object identity / aliasing is NOT a statement of the twin_<f> theorems: they are value equalities over immutable rational models (e.g. "
    "Matrix44.chain translated for 1, 2, 3 arguments proves the value only; `chain(m) is m` cannot be expressed). It is covered by the aliasing "
    "probe of the differential oracle (diff_aliasing), which is a test, not a proof",
    "earcut: `signed_area` is modelled (twin_signedArea), the bodies that differ in text (ear bounding box min/max nesting, blocked-ear tests of "
    "is_ear / is_ear_hashed, hole sort key) are kernels proved equal; after these cuts and five rewrites that are each justified by a mechanical check "
    "28 of the 29 functions are the same text (for `earcut` itself: early return for an empty exterior - linked_list([]) is executed -, setup block moved across "
    "literal initialisations, `if holes` vs `len(holes) > 0`); no Lean model of the ring surgery (C19 has one for the Python twin): equal text is taken to mean equal behaviour",
    "banded LU, A2.3, cubic_bezier_arc_parameters, is_point_in_polygon_2d, approximate/approximated_length: proved through hand written loop skeletons "
    "(Model/TwinLoops.lean) that are tied by pinned skeleton text + correspondence X3/X4, not by a translated loop",
    "flattening (Props/C10Flat.lean): the loop structure is C14's model (bezierFlat/stackSub/recSub, tied to the source by C14); C10 contributes the "
    "translated point / distance / mid-parameter arithmetic of both twins and instantiates C14.twins_agree; the end-of-curve snapping tolerances are C14's "
    "decimal constants (1e-9, 0 / 1e-9, 1e-12), the translated tests use the exact doubles; the result is 'same vertices or RecursionError' for segments < 10^9",
    "Evaluator.derivative: twin_evalDerivative_closed has no parameter left (math.factorial binomials vs the FACTORIAL table) for derivative orders n <= 18, the table range",
    "cubic_bezier_from_arc: twin_fromArc assumes math.radians(x) = x * (pi/180) (hypothesis) and has no correspondence stream of its own (pinned skeleton; "
    "its parts arc_angle_span_deg and cubic_bezier_arc_parameters are corresponded)",
    "cubic_bezier_from_ellipse, mercator functions, perspective matrices, rotate/angle (atan2/acos), argument coercion, float rounding: differential only",
]


def fr(x) -> str:
    return c11.fr(x)


def frs(xs) -> str:
    return c11.frs(xs)


class Impl:
    """all objects of one implementation"""

    def __init__(self, twin: str):
        import importlib
        self.twin = twin
        imp = importlib.import_module
        if twin == "pyx":
            self.vector, self.matrix = imp("ezdxf.acc.vector"), imp("ezdxf.acc.matrix44")
            self.bez4, self.bez3 = imp("ezdxf.acc.bezier4p"), imp("ezdxf.acc.bezier3p")
            self.bspline, self.construct = imp("ezdxf.acc.bspline"), imp("ezdxf.acc.construct")
            self.earcut, self.linetypes = imp("ezdxf.acc.mapbox_earcut"), imp("ezdxf.acc.linetypes")
            self.np_support = imp("ezdxf.acc.np_support")
        else:
            self.vector, self.matrix = imp("ezdxf.math._vector"), imp("ezdxf.math._matrix44")
            self.bez4, self.bez3 = imp("ezdxf.math._bezier4p"), imp("ezdxf.math._bezier3p")
            self.bspline, self.construct = imp("ezdxf.math._bspline"), imp("ezdxf.math._construct")
            self.earcut, self.linetypes = imp("ezdxf.math._mapbox_earcut"), imp("ezdxf.render._linetypes")
            self.np_support = None
        self.V3, self.V2, self.M = self.vector.Vec3, self.vector.Vec2, self.matrix.Matrix44
        self.B4, self.B3 = self.bez4.Bezier4P, self.bez3.Bezier3P
        self.Basis, self.Evaluator = self.bspline.Basis, self.bspline.Evaluator
        self.LTR = self.linetypes._LineTypeRenderer
        self.classes = {"Vec3": self.V3, "Vec2": self.V2, "Matrix44": self.M, "Bezier4P": self.B4, "Bezier3P": self.B3,
                        "Basis": self.Basis, "Evaluator": self.Evaluator, "_LineTypeRenderer": self.LTR}


# ------------------------------------------------------------------------------------------------ correspondence
def _ok(vals, tag="") -> str:
    return c11._ok(vals, tag)


def impl_kernel(im: Impl, k: str, a: list) -> str:
    pl = c11.parse_list
    V3, V2, M = im.V3, im.V2, im.M
    v3 = lambda s: V3(*pl(s))
    v2 = lambda s: V2(*pl(s))
    f = lambda s: float(Fr(s))
    b = lambda x: "T" if x else "F"
    try:
        if k == "v3bool": return "ok " + b(bool(v3(a[0])))
        if k == "v3truediv": return _ok(v3(a[0]) / f(a[1]))
        if k == "v3rmul": return _ok(f(a[1]) * v3(a[0]))
        if k == "v3radd": return _ok(tuple(pl(a[1])) + v3(a[0]))
        if k == "v3xy": return _ok(v3(a[0]).xy)
        if k == "v3vec2": return _ok(v3(a[0]).vec2)
        if k == "v3replaceX": return _ok(v3(a[0]).replace(x=f(a[1])))
        if k == "v3fromAngle": return _ok(V3.from_angle(f(a[3]), f(a[0])))
        if k == "v3magnitude": return _ok([v3(a[0]).magnitude])
        if k == "v3magnitudeXY": return _ok([v3(a[0]).magnitude_xy])
        if k == "v3isParallel": return "ok " + b(v3(a[0]).is_parallel(v3(a[1])))
        if k == "modDistance": return _ok([im.vector.distance(v3(a[0]), v3(a[1]))])
        if k == "modLerp": return _ok(im.vector.lerp(v3(a[0]), v3(a[1]), f(a[2])))
        if k == "v2bool": return "ok " + b(bool(v2(a[0])))
        if k == "v2isnull": return "ok " + b(v2(a[0]).is_null)
        if k == "v2truediv": return _ok(v2(a[0]) / f(a[1]))
        if k == "v2rmul": return _ok(f(a[1]) * v2(a[0]))
        if k == "v2normalize": return _ok(v2(a[0]).normalize())
        if k == "v2project": return _ok(v2(a[0]).project(v2(a[1])))
        if k == "v2distance": return _ok([v2(a[0]).distance(v2(a[1]))])
        if k == "v2magnitude": return _ok([v2(a[0]).magnitude])
        if k == "v2vec3": return _ok(v2(a[0]).vec3)
        if k == "v2fromAngle": return _ok(V2.from_angle(f(a[3]), f(a[0])))
        flat = lambda pts: [c for p in pts for c in (list(p) + [0.0])[:3]]
        if k.startswith("bez4"):
            two = k.endswith("2d")
            pts = [(v2 if two else v3)(s) for s in a[:4]]
            c = im.B4(pts)
            if k in ("bez4Point", "bez4Point2d"): return _ok((list(c.point(f(a[4]))) + [0.0])[:3])
            if k == "bez4Tangent": return _ok(c.tangent(f(a[4])))
            if k == "bez4ControlPoints": return _ok(flat(c.control_points))
            if k == "bez4Reverse": return _ok(flat(c.reverse().control_points))
            if k == "bez4Transform": return _ok(flat(c.transform(M(pl(a[4]))).control_points))
            if k == "bez4Approx4": return _ok(flat(c.approximate(4)))
        if k.startswith("bez3"):
            two = k.endswith("2d")
            pts = [(v2 if two else v3)(s) for s in a[:3]]
            c = im.B3(pts)
            if k in ("bez3Point", "bez3Point2d"): return _ok((list(c.point(f(a[3]))) + [0.0])[:3])
            if k == "bez3Tangent": return _ok(c.tangent(f(a[3])))
            if k == "bez3ControlPoints": return _ok(flat(c.control_points))
            if k == "bez3Reverse": return _ok(flat(c.reverse().control_points))
            if k == "bez3Transform": return _ok(flat(c.transform(M(pl(a[3]))).control_points))
            if k == "bez3Approx4": return _ok(flat(c.approximate(4)))
        if k == "lineLine":
            r = im.construct.intersection_line_line_2d((v2(a[0]), v2(a[1])), (v2(a[2]), v2(a[3])), a[4] == "T", f(a[5]))
            return "ok none;" if r is None else _ok(r, "some;")
        if k == "clockwise3": return "ok " + b(im.construct.has_clockwise_orientation([v2(s) for s in a[:3]]))
        if k == "clockwise4": return "ok " + b(im.construct.has_clockwise_orientation([v2(s) for s in a[:4]]))
        if k == "rayRay":
            r = im.construct.intersection_ray_ray_3d((v3(a[0]), v3(a[1])), (v3(a[2]), v3(a[3])), f(a[4]))
            return _ok([c for p in r for c in p], f"{len(r)};")
        raise KeyError(k)
    except ZeroDivisionError:
        return "err ZeroDivisionError"
    except (TypeError, ValueError, IndexError) as e:
        return "err " + type(e).__name__


_P2 = lambda k: f"1/{1 << k}"


def kernel_cases(ctx, twin: str):
    """yield (mode, kernel, lean_args, impl_args, tol, nontrivial); mode 'x' exact / 't' tolerant"""
    g = c11.G(ctx.rng(f"kern/{twin}"))
    r = g.r
    rel = lambda k, fl: f"rel:{_P2(k)}:{fr(fl)}"
    for _ in range(ctx.n(150, 2000)):
        e = g.mag()
        a, b = g.v3(e), g.v3(e)
        p, q = g.v2(e), g.v2(e)
        nt = c11._nz(a)
        am = max([abs(x) for x in a + b] + [Fr(1, 2 ** 80)])
        pm = max([abs(x) for x in p + q] + [Fr(1, 2 ** 80)])
        k = g.dy(r.choice([-3, 0, 3]))
        tiny = r.choice([a, (0, 0, 0), (Fr(1, 10 ** 13), 0, 0), (0, Fr(-1, 10 ** 12), 0), (Fr(2, 10 ** 12), 0, 0), (0, 0, Fr(1, 10 ** 11))])
        yield "x", "v3bool", [frs(tiny)], None, None, True
        yield "x", "v2bool", [frs(tiny[:2])], None, None, True
        yield "x", "v2isnull", [frs(tiny[:2])], None, None, True
        yield "t", "v3truediv", [frs(a), fr(k)], None, rel(50, am / max(abs(k), Fr(1, 2 ** 60)) if k else am), nt
        yield "t", "v2truediv", [frs(p), fr(k)], None, rel(50, pm / max(abs(k), Fr(1, 2 ** 60)) if k else pm), nt
        yield "x", "v3rmul", [frs(a), fr(k)], None, None, nt
        yield "x", "v2rmul", [frs(p), fr(k)], None, None, nt
        yield "x", "v3radd", [frs(a), frs(b)], None, None, nt
        yield "x", "v3xy", [frs(a)], None, None, nt
        yield "x", "v3vec2", [frs(a)], None, None, nt
        yield "x", "v2vec3", [frs(p)], None, None, nt
        yield "x", "v3replaceX", [frs(a), fr(k)], None, None, nt
        yield "x", "modLerp", [frs(a), frs(b), fr(r.choice([Fr(0), Fr(1), Fr(1, 2), g.dy(-3, 3)]))], None, None, nt
        ang = r.uniform(-7, 7)
        ln = float(g.dy(r.choice([-3, 0, 3]), 6))
        c, s = Fr(math.cos(ang)), Fr(math.sin(ang))
        yield "t", "v3fromAngle", [fr(ln), fr(c), fr(s)], [fr(ln), fr(c), fr(s), fr(ang)], rel(50, abs(Fr(ln))), True
        yield "t", "v2fromAngle", [fr(ln), fr(c), fr(s)], [fr(ln), fr(c), fr(s), fr(ang)], rel(50, abs(Fr(ln))), True
        yield "t", "v3magnitude", [frs(a)], None, rel(48, am), nt
        yield "t", "v3magnitudeXY", [frs(a)], None, rel(48, am), nt
        yield "t", "v2magnitude", [frs(p)], None, rel(48, pm), nt
        yield "t", "modDistance", [frs(a), frs(b)], None, rel(46, am), nt
        yield "t", "v2distance", [frs(p), frs(q)], None, rel(46, pm), nt
        yield "t", "v2normalize", [frs(p)], None, rel(46, Fr(1, 4)), c11._nz(p)
        yield "t", "v2project", [frs(p), frs(q)], None, rel(44, pm), c11._nz(p)
        # parallel / anti-parallel / clearly not parallel (the decision band of isclose is avoided)
        sc = g.dy(r.choice([-2, 0, 4]), 5, nonzero=True)
        par = tuple(x * sc for x in a) if r.random() < 0.5 else b
        if any(a) and any(par):
            yield "x", "v3isParallel", [frs(a), frs(par)], None, None, True
    for _ in range(ctx.n(150, 2000)):
        e = r.choice([-6, 0, 0, 6])
        pts = [g.v3(e, special=False) for _ in range(4)]
        if r.random() < 0.2:
            pts[1] = pts[0]
        if r.random() < 0.1:
            pts = [pts[0]] * 4
        t = r.choice([Fr(0), Fr(1), Fr(1, 2), Fr(1, 4), Fr(3, 8), Fr(15, 16), Fr(-1, 8), Fr(9, 8), Fr(1, 1024)])
        P = [frs(x) for x in pts]
        m = frs(g.affine(0, 3))
        for k in ("bez4Point", "bez4Tangent"):
            yield "x", k, P + [fr(t)], None, None, 0 < t < 1
        yield "x", "bez4Point2d", [frs(x[:2]) for x in pts] + [fr(t)], None, None, 0 < t < 1
        yield "x", "bez3Point2d", [frs(x[:2]) for x in pts[:3]] + [fr(t)], None, None, 0 < t < 1
        for k in ("bez3Point", "bez3Tangent"):
            yield "x", k, P[:3] + [fr(t)], None, None, 0 < t < 1
        for k in ("ControlPoints", "Reverse", "Approx4"):
            yield "x", "bez4" + k, P, None, None, True
            yield "x", "bez3" + k, P[:3], None, None, True
        yield "x", "bez4Transform", P + [m], None, None, True
        yield "x", "bez3Transform", P[:3] + [m], None, None, True
    for _ in range(ctx.n(150, 2000)):
        e = r.choice([-6, 0, 0, 6])
        a, b, c, d = (g.v2(e) for _ in range(4))
        if r.random() < 0.2:
            d = (c[0] + (b[0] - a[0]), c[1] + (b[1] - a[1]))  # parallel
        if r.random() < 0.1:
            c, d = a, b  # coincident
        den = (d[1] - c[1]) * (b[0] - a[0]) - (d[0] - c[0]) * (b[1] - a[1])
        tol = r.choice([Fr(1e-10), Fr(0), Fr(1, 2)])
        if abs(den) != tol:
            mx = max([abs(x) for x in a + b + c + d] + [Fr(1, 2 ** 80)])
            yield "t", "lineLine", [frs(a), frs(b), frs(c), frs(d), r.choice("TF"), fr(tol)], None, rel(44, mx), den != 0
        yield "x", "clockwise3", [frs(a), frs(b), frs(c)], None, None, True
        yield "x", "clockwise4", [frs(a), frs(b), frs(c), frs(r.choice([d, a]))], None, None, True
    for _ in range(ctx.n(100, 1500)):
        # rays: intersecting (common point), skew with a clear gap, parallel
        o1, o2, x = g.v3(0, special=False), g.v3(0, special=False), g.v3(0, special=False)
        kind = r.randrange(3)
        if kind == 0:
            p1, p2 = x, x
        elif kind == 1:
            p1, p2 = g.v3(0, special=False), g.v3(0, special=False)
        else:
            p1 = g.v3(0, special=False)
            p2 = tuple(o2[i] + 2 * (p1[i] - o1[i]) for i in range(3))
        if p1 == o1 or p2 == o2:
            continue
        mx = max([abs(t) for t in o1 + o2 + p1 + p2])
        yield "t", "rayRay", [frs(o1), frs(p1), frs(o2), frs(p2), fr(Fr(1e-10))], None, rel(36, mx), True


def correspond(ctx):
    twins = ["py", "pyx"] if c11.have_cext() else ["py"]
    if len(twins) == 1:
        ctx.note("C extensions are not importable: Cython twin is proved about but not corresponded")
    exact, tolerant = [], []
    for t in twins:
        im = Impl(t)
        for mode, k, la, ia, tol, nt in kernel_cases(ctx, t):
            val = impl_kernel(im, k, ia if ia is not None else la)
            stream = "X1 exact kernels" if mode == "x" else "X2 tolerant kernels"
            ctx.hist(stream, f"{t}:{k}")
            if val.startswith("err"):
                ctx.hist(stream, "result:" + val)
            if mode == "x":
                exact.append((f"x|{t}|{k}|" + "|".join(la), val, nt))
            else:
                tolerant.append((f"t|{t}|{k}|" + "|".join(la) + f"|{val}|{tol}", "agree", nt))
    ctx.correspond("X1 exact kernels", "C10", exact, build=DRIVER_DEPS)
    ctx.correspond("X2 tolerant kernels", "C10", tolerant, build=DRIVER_DEPS)
    c10_loops.correspond_loops(ctx, Impl, twins, DRIVER_DEPS)


# ================================================================================================ differential oracle
import struct as _struct


def _ulps(a: float, b: float) -> float:
    if a == b:
        return 0
    if math.isnan(a) or math.isnan(b):
        return 0 if (math.isnan(a) and math.isnan(b)) else float("inf")
    if math.isinf(a) or math.isinf(b):
        return float("inf")
    ia = _struct.unpack("<q", _struct.pack("<d", a))[0]
    ib = _struct.unpack("<q", _struct.pack("<d", b))[0]
    if ia < 0:
        ia = -(ia & 0x7FFFFFFFFFFFFFFF)
    if ib < 0:
        ib = -(ib & 0x7FFFFFFFFFFFFFFF)
    return abs(ia - ib)


ULP = 4
ANGLE_ULP = 1 << 27  # acos(dot) of nearly (anti)parallel unit vectors amplifies 1 ulp of the dot product to ~1.5e-8 rad


class Canon:
    """canonical, implementation independent form of a result"""

    BOTH = None

    def __init__(self, im: Impl):
        self.im = im
        if Canon.BOTH is None:
            a, b = Impl("py"), Impl("pyx")
            Canon.BOTH = {"V3": (a.V3, b.V3), "V2": (a.V2, b.V2), "M": (a.M, b.M), "B": (a.B4, a.B3, b.B4, b.B3)}

    def __call__(self, v, depth=0):
        import numpy as np
        im = self.im
        if depth > 6:
            return ("deep",)
        if v is None or isinstance(v, (bool, str)):
            return ("atom", type(v).__name__, v)
        if isinstance(v, (int, np.integer)) and not isinstance(v, bool):
            return ("num", "int", float(v)) if abs(int(v)) < 2 ** 53 else ("atom", "int", int(v))
        if isinstance(v, (float, np.floating)):
            return ("num", "float", float(v))
        B = Canon.BOTH
        if isinstance(v, B["V3"]):
            return ("vec", "Vec3", (float(v.x), float(v.y), float(v.z)))
        if isinstance(v, B["V2"]):
            return ("vec", "Vec2", (float(v.x), float(v.y)))
        if isinstance(v, B["M"]):
            return ("mat", tuple(float(x) for x in v))
        if isinstance(v, B["B"]):
            return ("bez", type(v).__name__, tuple(self(p, depth + 1) for p in v.control_points))
        if isinstance(v, np.ndarray):
            return ("seq", "ndarray", tuple(self(x, depth + 1) for x in v.tolist()))
        if isinstance(v, (tuple, list)):
            return ("seq", type(v).__name__, tuple(self(x, depth + 1) for x in v))
        if isinstance(v, type):
            return ("atom", "type", v.__name__)
        if hasattr(v, "__next__") or type(v).__name__ in ("generator", "map", "zip", "list_iterator", "tuple_iterator"):
            out = []
            for i, x in enumerate(v):
                if i > 5000:
                    out.append(("truncated",))
                    break
                out.append(x)
            return ("seq", "iterator", tuple(self(x, depth + 1) for x in out))
        return ("obj", type(v).__name__)


def _finite(x):
    return not (math.isnan(x) or math.isinf(x))


def _cmp_floats(xs, ys, ulp, path, out):
    """components of one vector / matrix: equal within `ulp` ulps of the component OR of the largest component"""
    scale = max([abs(t) for t in list(xs) + list(ys) if _finite(t)] + [0.0])
    for i, (x, y) in enumerate(zip(xs, ys)):
        if not _finite(x) or not _finite(y):
            if _finite(x) != _finite(y):
                out.append(("overflow", f"{path}[{i}]: py {x!r} / C {y!r}"))
            continue
        if _ulps(x, y) > ulp and abs(x - y) > ulp * 2.0 ** -52 * scale:
            out.append(("value", f"{path}[{i}]: py {x!r} / C {y!r} ({_ulps(x, y):.3g} ulp)"))


def compare(a, b, ulp=ULP, path=""):
    """-> list of (category, detail); categories: value, overflow, type, container, exception, exc-vs-value, shape"""
    if a[0] == "exc" or b[0] == "exc":
        if a[0] == "exc" and b[0] == "exc":
            return [] if a[1] == b[1] else [("exception", f"{path}: py raises {a[1]}, C raises {b[1]}")]
        return [("exc-vs-value", f"{path}: py {_brief(a)} / C {_brief(b)}")]
    if a[0] == "num" and b[0] == "num":
        out = []
        _cmp_floats([a[2]], [b[2]], ulp, path, out)
        if not out and a[1] != b[1]:
            out.append(("type", f"{path}: py {a[1]} / C {b[1]}"))
        return out
    if a[0] == "vec" and b[0] == "vec":
        out = []
        ca, cb = a[2] + (0.0,) * (3 - len(a[2])), b[2] + (0.0,) * (3 - len(b[2]))
        _cmp_floats(ca, cb, ulp, path, out)
        if a[1] != b[1]:
            out.append(("type", f"{path}: py {a[1]} / C {b[1]}"))
        return out
    if a[0] != b[0]:
        return [("shape", f"{path}: py {_brief(a)} / C {_brief(b)}")]
    if a[0] == "mat":
        out = []
        _cmp_floats(a[1], b[1], ulp, path, out)
        return out
    if a[0] in ("seq", "bez"):
        out = []
        if a[0] == "seq" and a[1] != b[1]:
            out.append(("container", f"{path}: py {a[1]} / C {b[1]}"))
        if len(a[2]) != len(b[2]):
            out.append(("shape", f"{path}: py length {len(a[2])} / C length {len(b[2])}"))
            return out
        if a[2] and all(x[0] == "num" for x in a[2]) and all(y[0] == "num" for y in b[2]):
            _cmp_floats([x[2] for x in a[2]], [y[2] for y in b[2]], ulp, path, out)  # a list of floats is one vector
            return out
        for i, (x, y) in enumerate(zip(a[2], b[2])):
            out += compare(x, y, ulp, f"{path}[{i}]")
            if len(out) > 6:
                break
        return out
    if a != b:
        return [("value", f"{path}: py {_brief(a)} / C {_brief(b)}")]
    return []


def _brief(c) -> str:
    s = repr(c)
    return s if len(s) < 160 else s[:157] + "..."


# ---- argument specs: implementation independent descriptions, built per twin
def build(spec, im: Impl):
    import numpy as np
    k = spec[0].rstrip("!")
    if k == "raw":
        return spec[1]
    if k == "V3":
        return im.V3(*spec[1])
    if k == "V2":
        return im.V2(*spec[1])
    if k == "M":
        return im.M(list(spec[1]))
    if k == "seq":
        return [build(s, im) for s in spec[1]]
    if k == "tup":
        return tuple(build(s, im) for s in spec[1])
    if k == "B4":
        return im.B4([build(s, im) for s in spec[1]])
    if k == "B3":
        return im.B3([build(s, im) for s in spec[1]])
    if k == "basis":
        return im.Basis(list(spec[1]), spec[2], spec[3], list(spec[4]) if spec[4] is not None else None)
    if k == "eval":
        return im.Evaluator(build(spec[1], im), [build(s, im) for s in spec[2]])
    if k == "ltr":
        return im.LTR(list(spec[1]))
    if k == "np":
        return np.array(spec[1], dtype=np.float64)
    if k == "cls":
        return im.classes[spec[1]]
    raise KeyError(k)


def R(v):
    return ("raw", v)


def RX(v):
    """an argument outside the documented types / arity (family `coerce`)"""
    return ("raw!", v)


def noncanonical(specs) -> bool:
    for s in specs:
        if isinstance(s, tuple) and s and isinstance(s[0], str):
            if s[0].endswith("!"):
                return True
            if any(isinstance(t, (list, tuple)) and noncanonical(t if isinstance(t, list) else [t]) for t in s[1:]):
                return True
    return False


SCALARS = [0.0, -0.0, 1.0, -1.0, 0.5, 3.0, -2.25, 1e-13, -1e-12, 1e-9, 1e-100, 1e16, -1e16, 1e100, 7, -3, 0]


class DiffGen:
    """value classes for the differential test"""

    def __init__(self, rng):
        self.r = rng
        self.g = c11.G(rng)
        self.allow_1e300 = False  # only the plain vector plan uses magnitudes whose squares over/underflow

    def scalar(self):
        r = self.r
        return r.choice(SCALARS) if r.random() < 0.5 else float(self.g.dy(r.choice([-20, -3, 0, 0, 3, 20])))

    def comps(self, n):
        r = self.r
        c = r.random()
        if c < 0.12:
            return tuple(r.choice([0.0, -0.0]) for _ in range(n))
        if c < 0.2:
            v = [0.0] * n
            v[r.randrange(n)] = r.choice([1.0, -1.0, 2.0])
            return tuple(v)
        if c < 0.3:
            return tuple(r.choice([1e-13, -1e-13, 1e-12, 2e-12, 1e-300, 0.0]) for _ in range(n))
        if c < 0.38:
            return tuple(r.choice([1e16, -1e16, 1e100, 1.0, 1e-16]) for _ in range(n))
        if c < 0.43 and self.allow_1e300:
            return tuple(r.choice([1e300, -1e300, 1e200, 1e-200]) for _ in range(n))
        e = r.choice([-20, -3, 0, 0, 0, 3, 20])
        return tuple(float(self.g.dy(e)) for _ in range(n))

    def vec_input(self, dim=3, allow_bad=True):
        """a vector argument: the documented class (canonical) or another accepted / unaccepted form (tagged `!`)"""
        r = self.r
        c = r.random()
        v = self.comps(dim)
        if c < 0.45:
            return ("V3", v) if dim == 3 else ("V2", v)
        if c < 0.55:
            return ("V2!", v[:2]) if dim == 3 else ("V3!", v + (self.scalar(),))
        if c < 0.7:
            return RX(tuple(v))
        if c < 0.78:
            return RX(list(v))
        if c < 0.86:
            return RX(tuple(v[:2])) if dim == 3 else RX(tuple(v) + (1.0,))
        if not allow_bad:
            return ("V3", v) if dim == 3 else ("V2", v)
        return r.choice([RX(()), RX((1.0,)), RX((1.0, 2.0, 3.0, 4.0)), RX(None), RX(5.0), RX(7), RX([1.0])])

    def v3(self):
        return ("V3", self.comps(3))

    def v2(self):
        return ("V2", self.comps(2))

    def related(self, spec):
        """a vector related to the given one: equal, scaled, negated, perpendicular-ish, nearly equal"""
        r = self.r
        v = spec[1]
        c = r.random()
        if c < 0.2:
            w = v
        elif c < 0.4:
            k = r.choice([2.0, -1.0, 0.5, -3.0, 1e-3])
            w = tuple(x * k for x in v)
        elif c < 0.6:
            w = tuple(x * (1 + r.choice([1e-10, 1e-9, 2e-9, -1e-12])) + r.choice([0.0, 1e-12, 1e-13]) for x in v)
        elif c < 0.7 and len(v) >= 2:
            w = (-v[1], v[0]) + tuple(v[2:])
        else:
            w = self.comps(len(v))
        return (spec[0], w)

    def matrix(self):
        r = self.r
        c = r.random()
        if c < 0.5:
            return ("M", tuple(float(x) for x in self.g.affine(r.choice([-6, 0, 6]), 4)))
        if c < 0.7:
            return ("M", tuple(float(x) for x in self.g.general(4)))
        if c < 0.8:
            return ("M", tuple(float(x) for x in self.g.singular()))
        if c < 0.9:
            return ("M", tuple(float(x) for x in self.g.wellcond()))
        return ("M", tuple(r.choice([0.0, -0.0, 1.0, -1.0, 0.5, 3.0, 1e-13, 1e-9, 1e9, -1e16, 7]) for _ in range(16)))

    def angle(self):
        return self.r.choice([0.0, math.pi / 2, math.pi, -math.pi, 2 * math.pi, 1e-9, 100.0, -0.0, self.r.uniform(-7, 7), 45, 720.0])


class Diff:
    """runs one call on both twins and records differences"""

    def __init__(self, seed, quick):
        import random
        self.py, self.cx = Impl("py"), Impl("pyx")
        self.rng = random.Random(f"{seed}/C10/diff")
        self.gen = DiffGen(self.rng)
        self.quick = quick
        self.fails, self.counts, self.covered = [], {}, set()
        self.per_key = {}

    def call(self, label: str, specs, fn, ulp=ULP, cover=None):
        """label = 'Class.method' (or 'module.func'); specs = argument specs; fn(im, *built) -> result"""
        self.covered.add(cover or label)
        res = []
        for im in (self.py, self.cx):
            try:
                args = [build(s, im) for s in specs]
                c = Canon(im)(fn(im, *args))
            except Exception as e:  # noqa
                c = ("exc", type(e).__name__)
            res.append(c)
        cnt = self.counts.setdefault("D " + label.split(".")[0], [0, 0])
        cnt[0] += 1
        cnt[1] += 0 if (res[0][0] == "exc" and res[1][0] == "exc") else 1
        nc = noncanonical(specs)
        for cat, detail in compare(res[0], res[1], ulp):
            if (label, cat) in REPRESENTATIONAL or (label.split("/")[0], cat) in REPRESENTATIONAL:
                self.per_key["representational/" + label.split("/")[0] + "/" + cat] = self.per_key.get("representational/" + label.split("/")[0] + "/" + cat, 0) + 1
                continue
            key = f"{'coerce' if nc else 'diff'}/{label}/{cat}"
            n = self.per_key.get(key, 0)
            self.per_key[key] = n + 1
            if n < 3:
                self.fails.append({"key": f"{key}/{n}", "what": f"{label}({_specs_brief(specs)}) {detail}",
                                   "replay": {"op": "diff", "label": label, "specs": _jsonable(specs)}})

    def note_fail(self, key, what):
        n = self.per_key.get(key, 0)
        self.per_key[key] = n + 1
        if n < 3:
            self.fails.append({"key": f"{key}/{n}", "what": what, "replay": {"op": "note"}})


# differences of representation only (explained in the report, excluded precisely by (label, category))
REPRESENTATIONAL = {}
for _c in ("Bezier4P", "Bezier3P"):
    for _m in ("point", "tangent", "control_points", "reverse", "approximate", "flattening", "start_end", "__reduce__", "__init__", "transform",
               "start_point", "end_point"):
        # the Cython curves store Vec3 and always return Vec3; the Python curves return the type of their definition
        # points (Vec2 in -> Vec2 out).  Values are compared with z = 0.
        REPRESENTATIONAL[(f"{_c}.{_m}", "type")] = "Vec2 definition points give Vec2 results in Python, Vec3 (z=0) in Cython"


def _jsonable(x):
    if isinstance(x, (list, tuple)):
        return [_jsonable(t) for t in x]
    if isinstance(x, (int, float, str, bool)) or x is None:
        return x
    return repr(x)


def _specs_brief(specs) -> str:
    def one(s):
        if s[0] == "raw":
            return repr(s[1])
        if s[0] in ("V3", "V2"):
            return f"{s[0]}{s[1]!r}"
        if s[0] == "M":
            return "M" + repr(tuple(s[1]))[:90]
        return s[0] + "(" + ", ".join(one(t) if isinstance(t, tuple) and t and isinstance(t[0], str) else repr(t)[:60] for t in s[1:]) [:200] + ")"
    return ", ".join(one(s) for s in specs)[:420]


# ---------------------------------------------------------------------------------------------- per class plans
def diff_vectors(d: Diff, n: int):
    g = d.gen
    r = d.rng
    g.allow_1e300 = True
    for cls, dim, mk in (("Vec3", 3, g.v3), ("Vec2", 2, g.v2)):
        C = lambda im, cls=cls: im.classes[cls]
        for _ in range(n):
            a = mk()
            b = g.related(a)
            o = g.vec_input(dim)  # operand in any accepted / unaccepted form
            k = g.scalar()
            # construction from every input form and arity
            d.call(f"{cls}.__init__", [o], lambda im, x: C(im)(x), cover=f"{cls}.__init__")
            nargs = r.choice([0, 1, 2, 3, 4])
            ok_arity = nargs in ((0, 2, 3) if cls == "Vec3" else (0, 2))
            args = [(R if ok_arity else RX)(g.scalar()) for _ in range(nargs)]
            d.call(f"{cls}.__init__/args", args, lambda im, *xs: C(im)(*xs), cover=f"{cls}.__init__")
            # operators
            for name, fn in (("__add__", lambda im, x, y: x + y), ("__sub__", lambda im, x, y: x - y),
                             ("__radd__", lambda im, x, y: y + x), ("__rsub__", lambda im, x, y: y - x),
                             ("__eq__", lambda im, x, y: x == y), ("__lt__", lambda im, x, y: x < y),
                             ("dot", lambda im, x, y: x.dot(y)), ("distance", lambda im, x, y: x.distance(y)),
                             ("lerp", lambda im, x, y: x.lerp(y)), ("isclose", lambda im, x, y: x.isclose(y)),
                             ("project", lambda im, x, y: list(x.project(y)) + [max(abs(float(t)) for t in y)]),  # last entry = scale of the operand
                             ("angle_between", lambda im, x, y: [x.angle_between(y), math.pi])):  # absolute tolerance on the scale of pi, see ANGLE_ULP
                u = ANGLE_ULP if name == "angle_between" else ULP
                d.call(f"{cls}.{name}", [a, b], fn, ulp=u)
                d.call(f"{cls}.{name}/input-forms", [a, o], fn, ulp=u, cover=f"{cls}.{name}")
            d.call(f"{cls}.lerp/factor", [a, b, R(k)], lambda im, x, y, t: x.lerp(y, t), cover=f"{cls}.lerp")
            d.call(f"{cls}.isclose/tol", [a, b, R(r.choice([1e-9, 1e-6, 0.0, 0.5])), R(r.choice([1e-12, 0.0, 1e-3]))],
                   lambda im, x, y, rt, at: x.isclose(y, rel_tol=rt, abs_tol=at), cover=f"{cls}.isclose")
            for name, fn in (("__mul__", lambda im, x, t: x * t), ("__rmul__", lambda im, x, t: t * x),
                             ("__truediv__", lambda im, x, t: x / t), ("__rtruediv__", lambda im, x, t: t / x),
                             ("normalize", lambda im, x, t: x.normalize(t)), ("rotate", lambda im, x, t: x.rotate(t)),
                             ("rotate_deg", lambda im, x, t: x.rotate_deg(t)), ("round", lambda im, x, t: x.round(int(t) % 5) if abs(t) < 1e9 else x.round()),
                             ("__getitem__", lambda im, x, t: x[int(t)] if abs(t) < 100 else x[0])):
                d.call(f"{cls}.{name}", [a, R(k)], fn)
            d.call(f"{cls}.__mul__/bad", [a, r.choice([(a[0] + "!", a[1]), RX((1, 2))])], lambda im, x, t: x * t, cover=f"{cls}.__mul__")
            d.call(f"{cls}.__getitem__/slice", [a], lambda im, x: x[0:2], cover=f"{cls}.__getitem__")
            for name, fn in (("__neg__", lambda im, x: -x), ("__abs__", lambda im, x: abs(x)), ("__bool__", lambda im, x: bool(x)),
                             ("__hash__", lambda im, x: hash(x) == hash(tuple(x))), ("__len__", lambda im, x: len(x)),
                             ("__iter__", lambda im, x: list(x)), ("__repr__", lambda im, x: repr(x)), ("__str__", lambda im, x: str(x)),
                             ("magnitude", lambda im, x: x.magnitude), ("is_null", lambda im, x: x.is_null),
                             ("angle", lambda im, x: x.angle), ("angle_deg", lambda im, x: x.angle_deg),
                             ("normalize/default", lambda im, x: x.normalize()), ("reversed", lambda im, x: x.reversed()),
                             ("orthogonal", lambda im, x: (x.orthogonal(), x.orthogonal(False), x.orthogonal(ccw=True))),
                             ("copy", lambda im, x: (x.copy(), __import__("copy").copy(x), __import__("copy").deepcopy(x))),
                             ("x", lambda im, x: x.x), ("y", lambda im, x: x.y), ("round/none", lambda im, x: x.round()),
                             ("__reduce__", lambda im, x: __import__("pickle").loads(__import__("pickle").dumps(x))),
                             ("setattr", lambda im, x: setattr(x, "x", 1.0))):
                base = name.split("/")[0]
                d.call(f"{cls}.{name}", [a], fn, cover=f"{cls}.{base}")
            for name, fn in (("__le__", lambda im, x, y: x <= y), ("__gt__", lambda im, x, y: x > y), ("__ge__", lambda im, x, y: x >= y),
                             ("__ne__", lambda im, x, y: x != y), ("__iadd__", lambda im, x, y: _iop(x, y, "+")),
                             ("__isub__", lambda im, x, y: _iop(x, y, "-")), ("__imul__", lambda im, x, y: _iop(x, 2.0, "*"))):
                d.call(f"{cls}.{name}", [a, b], fn)
            lst = [g.vec_input(dim, allow_bad=r.random() < 0.1) for _ in range(r.randint(0, 4))]
            for name in ("sum", "list", "tuple", "generate"):
                d.call(f"{cls}.{name}", [("seq", lst)], lambda im, xs, name=name: getattr(C(im), name)(xs))
            ang, ln = g.angle(), g.scalar()
            d.call(f"{cls}.from_angle", [R(ang), R(ln)], lambda im, t, l: C(im).from_angle(t, l), ulp=8)
            d.call(f"{cls}.from_angle/default", [R(ang)], lambda im, t: C(im).from_angle(t), ulp=8, cover=f"{cls}.from_angle")
            d.call(f"{cls}.from_deg_angle", [R(ang), R(ln)], lambda im, t, l: C(im).from_deg_angle(t, l), ulp=8)
        if cls == "Vec3":
            for _ in range(n):
                a, b, c = g.v3(), g.v3(), g.v3()
                b2 = g.related(a)
                for name, fn in (("cross", lambda im, x, y: x.cross(y)), ("is_parallel", lambda im, x, y: x.is_parallel(y))):
                    d.call(f"Vec3.{name}", [a, b2], fn)
                    d.call(f"Vec3.{name}/input-forms", [a, g.vec_input(3)], fn, cover=f"Vec3.{name}")
                d.call("Vec3.angle_about", [a, b, c], lambda im, x, y, z: x.angle_about(y, z), ulp=64)
                for name, fn in (("xy", lambda im, x: x.xy), ("xyz", lambda im, x: x.xyz), ("vec2", lambda im, x: x.vec2), ("z", lambda im, x: x.z),
                                 ("magnitude_xy", lambda im, x: x.magnitude_xy), ("magnitude_square", lambda im, x: x.magnitude_square),
                                 ("spatial_angle", lambda im, x: x.spatial_angle), ("spatial_angle_deg", lambda im, x: x.spatial_angle_deg)):
                    d.call(f"Vec3.{name}", [a], fn)
                k = [R(g.scalar()) if r.random() < 0.6 else R(None) for _ in range(3)]
                d.call("Vec3.replace", [a] + k, lambda im, v, x, y, z: v.replace(x, y, z))
                d.call("Vec3.random", [R(g.scalar())], lambda im, l: abs(im.V3.random(l).magnitude - abs(l)) <= 1e-9 * max(1.0, abs(l)))
                d.call("vector.distance", [g.vec_input(3), g.vec_input(3)], lambda im, p, q: im.vector.distance(p, q))
                d.call("vector.lerp", [g.vec_input(3), g.vec_input(3), R(g.scalar())], lambda im, p, q, t: im.vector.lerp(p, q, t))
                d.call("vector.constants", [], lambda im: (im.vector.X_AXIS, im.vector.Y_AXIS, im.vector.Z_AXIS, im.vector.NULLVEC))
        else:
            for _ in range(n):
                a, b = g.v2(), g.v2()
                d.call("Vec2.det", [a, g.related(a)], lambda im, x, y: x.det(y))
                d.call("Vec2.det/input-forms", [a, g.vec_input(2)], lambda im, x, y: x.det(y), cover="Vec2.det")
                d.call("Vec2.vec3", [a], lambda im, x: x.vec3)
    d.covered |= {"Vec3.decompose"}  # pure-Python helper, see API_ONLY_ONE_TWIN
    d.covered |= {"Vec3.__copy__", "Vec3.__deepcopy__", "Vec2.__copy__", "Vec2.__deepcopy__"}  # exercised by the `copy` plan (copy.copy / copy.deepcopy)
    g.allow_1e300 = False


def _iop(x, y, op):
    z = x
    if op == "+":
        z += y
    elif op == "-":
        z -= y
    else:
        z *= y
    return (z, x)


def _copy_independent(im, x, val):
    import copy as _c
    before = list(x)
    out = []
    for c in (x.copy(), _c.copy(x), im.M(list(x)), im.M(tuple(x))):
        c[0, 0] = val
        c.set_row(1, (val, val, val, val))
        c.set_col(2, (val, 1.0, 2.0, 3.0))
        c.origin = (val, val, val)
        out.append(list(x) == before)  # the source must not change
    y = im.M(before)
    c = y.copy()
    y[3, 3] = val
    y.set_row(0, (val, 0.0, 0.0, 0.0))
    out.append(list(c) == before)  # and the copy must not follow the source
    return out


def _ctor_independent(im, vals, val):
    import numpy as np
    src_list = list(vals)
    arr = np.array(vals, dtype=np.float64)
    a, b = im.M(src_list), im.M(arr)
    src_list[0] = val
    arr[5] = val
    r1 = (list(a), list(b))
    b[0, 1] = val
    b.set_row(2, (val, val, val, val))
    return (r1, arr.tolist())  # neither direction may leak


def diff_matrix(d: Diff, n: int):
    import numpy as np
    g, r = d.gen, d.rng
    for _ in range(n):
        m, o = g.matrix(), g.matrix()
        v = g.vec_input(3)
        a3 = g.v3()
        d.call("Matrix44.__init__", [R(tuple(m[1]))], lambda im, vals: im.M(vals))
        d.call("Matrix44.__init__/rows", [R(tuple(tuple(m[1][4 * i:4 * i + 4]) for i in range(4)))], lambda im, rows: im.M(*rows), cover="Matrix44.__init__")
        d.call("Matrix44.__init__/bad", [r.choice([RX(()), RX((1.0,) * 15), RX((1.0,) * 17), RX(None), RX(((1, 2, 3, 4),) * 3)])],
               lambda im, x: im.M(x), cover="Matrix44.__init__")
        d.call("Matrix44.__init__/default", [], lambda im: im.M(), cover="Matrix44.__init__")
        d.call("Matrix44.__init__/from-matrix", [("M!", m[1])], lambda im, x: im.M(x), cover="Matrix44.__init__")  # not a documented form
        for name, fn in (("transform", lambda im, mm, x: mm.transform(x)), ("transform_direction", lambda im, mm, x: mm.transform_direction(x)),
                         ("transform_direction/normalize", lambda im, mm, x: mm.transform_direction(x, True)),
                         ("ocs_to_wcs", lambda im, mm, x: mm.ocs_to_wcs(x)), ("ocs_from_wcs", lambda im, mm, x: mm.ocs_from_wcs(x)),
                         ("ucs_direction_from_wcs", lambda im, mm, x: mm.ucs_direction_from_wcs(x))):
            d.call(f"Matrix44.{name}", [m, v], fn, cover=f"Matrix44.{name.split('/')[0]}")
        d.call("Matrix44.ucs_vertex_from_wcs", [m, a3], lambda im, mm, x: mm.ucs_vertex_from_wcs(x))
        pts = [g.vec_input(3, allow_bad=r.random() < 0.05) for _ in range(r.randint(0, 4))]
        d.call("Matrix44.transform_vertices", [m, ("seq", pts)], lambda im, mm, ps: list(mm.transform_vertices(ps)))
        d.call("Matrix44.transform_directions", [m, ("seq", pts), R(r.random() < 0.3)], lambda im, mm, ps, nz: list(mm.transform_directions(ps, nz)))
        p2 = [g.vec_input(2, allow_bad=r.random() < 0.05) for _ in range(r.randint(0, 4))]
        d.call("Matrix44.fast_2d_transform", [m, ("seq", p2)], lambda im, mm, ps: list(mm.fast_2d_transform(ps)))
        ndim = r.choice([2, 3, 3, 2, 1, 4])
        ncol = r.choice([2, 3, 4, 5]) if ndim in (2, 3) else 3
        if ncol >= ndim or ndim not in (2, 3):
            rows = [[g.scalar() for _ in range(ncol)] for _ in range(r.randint(1, 4))]
            d.call("Matrix44.transform_array_inplace", [m, ("np", rows), R(ndim)], lambda im, mm, arr, nd: (mm.transform_array_inplace(arr, nd), arr)[1])
        for name, fn in (("__mul__", lambda im, x, y: x * y), ("__matmul__", lambda im, x, y: x @ y), ("__imul__", lambda im, x, y: _iop(x, y, "*")),
                         ("chain", lambda im, x, y: im.M.chain(x, y, x))):
            d.call(f"Matrix44.{name}", [m, o], fn, ulp=16)
        d.call("Matrix44.__imul__/self", [m], lambda im, x: _iop(x, x, "*")[0], ulp=16, cover="Matrix44.__imul__")
        # (`m * None` is not probed: the typed Cython argument accepts None and reads foreign memory, see report)
        d.call("Matrix44.__mul__/bad", [m, r.choice([RX(2.0), ("V3!", a3[1])])], lambda im, x, y: x * y, cover="Matrix44.__mul__")
        d.call("Matrix44.__rmul__", [m, R(2.0)], lambda im, x, y: y * x)
        for name, fn in (("copy", lambda im, x: (x.copy(), __import__("copy").copy(x))), ("__iter__", lambda im, x: list(x)), ("__repr__", lambda im, x: repr(x)),
                         ("rows", lambda im, x: list(x.rows())), ("columns", lambda im, x: list(x.columns())), ("origin", lambda im, x: x.origin),
                         ("ux", lambda im, x: x.ux), ("uy", lambda im, x: x.uy), ("uz", lambda im, x: x.uz),
                         ("get_2d_transformation", lambda im, x: x.get_2d_transformation()),
                         ("transpose", lambda im, x: (x.transpose(), x)[1]), ("__hash__", lambda im, x: isinstance(hash(x), int)),
                         ("__eq__", lambda im, x: (x == x.copy(), x == x)),
                         ("__reduce__", lambda im, x: __import__("pickle").loads(__import__("pickle").dumps(x)))):
            d.call(f"Matrix44.{name}", [m], fn)
        # determinant: explicit polynomial (Cython) vs LU (NumPy): compared relative to the Hadamard bound of the matrix
        d.call("Matrix44.determinant", [m], lambda im, x: [float(x.determinant()), _hadamard_f(list(x))], ulp=1 << 24)
        # missing-copy aliasing: a copy, a matrix built from another matrix / a list / a numpy array must not share cells
        d.call("Matrix44.copy/independent", [m, R(g.scalar())], _copy_independent, cover="Matrix44.copy")
        d.call("Matrix44.__init__/independent", [R(list(m[1])), R(g.scalar())], _ctor_independent, cover="Matrix44.__init__")
        i, j = r.choice([0, 1, 2, 3, 4, -1, -5]), r.choice([0, 1, 2, 3, 4, -1])
        d.call("Matrix44.__getitem__", [m, R((i, j))], lambda im, x, idx: x[idx])
        d.call("Matrix44.__setitem__", [m, R((i, j)), R(g.scalar())], lambda im, x, idx, val: (x.__setitem__(idx, val), x)[1])
        d.call("Matrix44.get_row", [m, R(i)], lambda im, x, k: x.get_row(k))
        d.call("Matrix44.get_col", [m, R(i)], lambda im, x, k: x.get_col(k))
        vals = tuple(g.scalar() for _ in range(r.choice([4, 4, 3, 2, 5, 0])))
        RV = R if len(vals) == 4 else RX
        d.call("Matrix44.set_row", [m, R(i), RV(vals)], lambda im, x, k, vs: (x.set_row(k, vs), x)[1])
        d.call("Matrix44.set_col", [m, R(i), RV(vals)], lambda im, x, k, vs: (x.set_col(k, vs), x)[1])
        d.call("Matrix44.origin/set", [m, v], lambda im, x, p: (setattr(x, "origin", p), x)[1], cover="Matrix44.origin")
        # factories
        s = [g.scalar() for _ in range(3)]
        d.call("Matrix44.scale", [R(s[0]), R(s[1]), R(s[2])], lambda im, x, y, z: im.M.scale(x, y, z))
        d.call("Matrix44.scale/uniform", [R(s[0])], lambda im, x: im.M.scale(x), cover="Matrix44.scale")
        d.call("Matrix44.scale/partial", [R(s[0]), R(s[1])], lambda im, x, y: im.M.scale(x, y), cover="Matrix44.scale")
        d.call("Matrix44.translate", [R(s[0]), R(s[1]), R(s[2])], lambda im, x, y, z: im.M.translate(x, y, z))
        ang = g.angle()
        for name in ("x_rotate", "y_rotate", "z_rotate"):
            d.call(f"Matrix44.{name}", [R(ang)], lambda im, t, name=name: getattr(im.M, name)(t))
        d.call("Matrix44.axis_rotate", [v, R(ang)], lambda im, ax, t: im.M.axis_rotate(ax, t), ulp=16)
        d.call("Matrix44.xyz_rotate", [R(ang), R(g.angle()), R(g.angle())], lambda im, x, y, z: im.M.xyz_rotate(x, y, z), ulp=16)
        d.call("Matrix44.shear_xy", [R(r.uniform(-1.5, 1.5)), R(r.uniform(-1.5, 1.5))], lambda im, x, y: im.M.shear_xy(x, y))
        d.call("Matrix44.shear_xy/default", [], lambda im: im.M.shear_xy(), cover="Matrix44.shear_xy")
        pp = [float(g.g.dy(0, 5, nonzero=True)) * t for t in (-1, 1, 1, -1, 1, 10)]
        d.call("Matrix44.perspective_projection", [R(x) for x in pp], lambda im, *xs: im.M.perspective_projection(*xs))
        d.call("Matrix44.perspective_projection_fov", [R(r.uniform(0.2, 2.5)), R(r.choice([1.0, 1.5, 0.5])), R(1.0), R(r.choice([10.0, 100.0, 1.0]))],
               lambda im, *xs: im.M.perspective_projection_fov(*xs), ulp=16)
        d.call("Matrix44.ucs", [g.v3(), g.v3(), g.v3(), g.v3()], lambda im, x, y, z, oo: im.M.ucs(x, y, z, oo))
        d.call("Matrix44.ucs/default", [], lambda im: im.M.ucs(), cover="Matrix44.ucs")
        d.call("Matrix44.ucs/input-forms", [g.vec_input(3), g.vec_input(3)], lambda im, x, y: im.M.ucs(x, y), cover="Matrix44.ucs")
        comps = tuple(g.scalar() for _ in range(r.choice([6, 6, 6, 5, 7])))
        d.call("Matrix44.from_2d_transformation", [(R if len(comps) == 6 else RX)(comps)], lambda im, c: im.M.from_2d_transformation(c))
        # orthogonality predicates: exact frames, scaled frames, slightly disturbed frames
        u = r.choice([((1, 2, 2), (2, 1, -2), (2, -2, 1)), ((3, 4, 0), (-4, 3, 0), (0, 0, 5)), ((1, 0, 0), (0, 1, 0), (0, 0, 1)), ((1, 0, 0), (0, 0, 1), (0, 1, 0))])
        kx, ky, kz = (r.choice([1.0, 1 / 3.0, 2.0, 1e-3, 1 + 1e-9, 1 + 1e-12]) for _ in range(3))
        frame = [c * kx for c in u[0]] + [r.choice([0.0, 1e-10, 1e-13])] + [c * ky for c in u[1]] + [0.0] + [c * kz for c in u[2]] + [0.0, 1.0, 2.0, 3.0, 1.0]
        fm = ("M", tuple(frame))
        d.call("Matrix44.is_cartesian", [fm], lambda im, x: x.is_cartesian)
        d.call("Matrix44.is_orthogonal", [fm], lambda im, x: x.is_orthogonal)
        d.call("Matrix44.is_cartesian/general", [m], lambda im, x: x.is_cartesian, cover="Matrix44.is_cartesian")
        d.call("Matrix44.is_orthogonal/general", [m], lambda im, x: x.is_orthogonal, cover="Matrix44.is_orthogonal")
        # inverse: regular matrices within kappa tolerance is C11's business; here: same exception behaviour + close values
        wm = ("M", tuple(float(x) for x in (g.g.unimodular() if r.random() < 0.5 else g.g.wellcond())))
        d.call("Matrix44.inverse", [wm], lambda im, x: (x.inverse(), x)[1], ulp=1 << 24)
        sm = ("M", tuple(float(x) for x in g.g.singular()))
        if c11._lu_detects([Fr(x) for x in sm[1]]):
            d.call("Matrix44.inverse/singular", [sm], lambda im, x: (x.inverse(), x)[1], cover="Matrix44.inverse")


    d.covered |= {"Matrix44.__copy__"}  # copy.copy(m) in the `copy` and `copy/independent` plans


def diff_bezier(d: Diff, n: int):
    g, r = d.gen, d.rng
    for cls, npts, build_key in (("Bezier4P", 4, "B4"), ("Bezier3P", 3, "B3")):
        for _ in range(n):
            dim = r.choice([3, 3, 2])
            e = r.choice([-6, 0, 0, 6, 20])
            pts = [("V3", tuple(float(g.g.dy(e)) for _ in range(3))) if dim == 3 else ("V2", tuple(float(g.g.dy(e)) for _ in range(2))) for _ in range(npts)]
            c = r.random()
            if c < 0.15:
                pts = [pts[0]] * npts  # degenerate: all equal
            elif c < 0.3:
                pts = [(pts[0][0], tuple(x * k for x in pts[1][1])) for k in range(npts)]  # collinear
            elif c < 0.4:
                pts[0] = (pts[0][0], tuple(r.choice([1e16, -1e15, 1e9]) for _ in pts[0][1]))  # huge offset
            curve = (build_key, pts)
            t = r.choice([0.0, 1.0, 0.5, 0.25, 1e-9, 1 - 1e-9, -0.0, -1e-12, 1 + 1e-12, 2.0, -1.0, r.random()])
            d.call(f"{cls}.point", [curve, R(t)], lambda im, cv, tt: cv.point(tt))
            d.call(f"{cls}.tangent", [curve, R(t)], lambda im, cv, tt: cv.tangent(tt))
            d.call(f"{cls}.control_points", [curve], lambda im, cv: cv.control_points)
            d.call(f"{cls}.reverse", [curve], lambda im, cv: cv.reverse())
            d.call(f"{cls}.transform", [curve, g.matrix()], lambda im, cv, m: cv.transform(m), ulp=64)
            seg = r.choice([0, -1] + list(range(1, 17)))  # every small count, not only powers of two (accumulated 1/n steps)
            d.call(f"{cls}.approximate", [curve, R(seg)], lambda im, cv, s: list(cv.approximate(s)))
            d.call(f"{cls}.approximated_length", [curve, R(r.choice([1, 3, 4, 7, 10, 16, 128]))], lambda im, cv, s: cv.approximated_length(s), ulp=1 << 12)
            d.call(f"{cls}.approximated_length/default", [curve], lambda im, cv: cv.approximated_length(), ulp=1 << 12, cover=f"{cls}.approximated_length")
            if e <= 6 and c >= 0.4 or c < 0.3:
                dist = r.choice([1.0, 0.1, 0.01]) * (2.0 ** e)
                d.call(f"{cls}.flattening", [curve, R(dist), R(r.randint(1, 16))], lambda im, cv, ds, s: list(cv.flattening(ds, s)), ulp=64)
                # no subdivision needed (huge distance): exactly the start segments, the vertex count is the observable
                d.call(f"{cls}.flattening/coarse", [curve, R(1e9 * (2.0 ** e)), R(r.randint(1, 24))], lambda im, cv, ds, s: list(cv.flattening(ds, s)), ulp=64,
                       cover=f"{cls}.flattening")
            d.call(f"{cls}.start_end", [curve], lambda im, cv: (cv.control_points[0], cv.control_points[-1]), cover=f"{cls}.control_points")
            d.call(f"{cls}.__reduce__", [curve], lambda im, cv: __import__("pickle").loads(__import__("pickle").dumps(cv)))
            # readonly C attributes of the Cython classes only: must be the end points the Python twin has as control_points[0] / [-1]
            d.call(f"{cls}.start_point", [curve], lambda im, cv: cv.start_point if hasattr(cv, "start_point") else cv.control_points[0])
            d.call(f"{cls}.end_point", [curve], lambda im, cv: cv.end_point if hasattr(cv, "end_point") else cv.control_points[-1])
            # construction from other input forms / wrong arity
            raw = r.choice([RX([p[1] for p in pts]), RX([p[1] for p in pts][:-1]), RX([]), ("seq!", pts + [pts[0]]), ("seq!", pts[:2]),
                            ("seq", [("V2", p[1][:2]) for p in pts]), RX(None), ("seq!", [pts[0]] + [R(p[1]) for p in pts[1:]])])
            d.call(f"{cls}.__init__", [raw], lambda im, ps, cls=cls: im.classes[cls](ps))
    for _ in range(n):
        a0, a1 = g.angle(), g.angle()
        seg = r.choice([1, 1, 2, 3, 4, 5, 7, 0])
        d.call("bezier4p.cubic_bezier_arc_parameters", [R(a0), R(a1), R(seg)], lambda im, s, e, k: list(im.bez4.cubic_bezier_arc_parameters(s, e, k)), ulp=64)
        cen = r.choice([("V3", tuple(float(g.g.dy(r.choice([-3, 0, 6]))) for _ in range(3))), RX((1.0, 2.0)), RX((1.0, 2.0, 3.0)), ("V2!", (3.0, -4.0))])
        d.call("bezier4p.cubic_bezier_from_arc", [cen, R(r.choice([1.0, 2.5, 1e-3, 1e6, 0.0, -1.0, 7])), R(math.degrees(a0)), R(math.degrees(a1)), R(seg)],
               lambda im, c, rad, s, e, k: list(im.bez4.cubic_bezier_from_arc(c, rad, s, e, k)), ulp=256)
        d.call("bezier4p.cubic_bezier_from_arc/default", [], lambda im: list(im.bez4.cubic_bezier_from_arc()), ulp=64, cover="bezier4p.cubic_bezier_from_arc")
        from ezdxf.math import ConstructionEllipse
        ratio = r.choice([1.0, 0.5, 0.25, 1e-3])
        major = tuple(float(g.g.dy(0, 5)) for _ in range(3))
        if any(major):
            try:
                ell = ConstructionEllipse(center=(1, 2, 3), major_axis=major, extrusion=(0, 0, 1) if major[2] == 0 else (1, 0, 0) if major[0] == 0 else (0, 1, 0) if major[1] == 0 else (-major[1], major[0], 0),
                                          ratio=ratio, start_param=a0, end_param=a1)
                d.call("bezier4p.cubic_bezier_from_ellipse", [R(ell), R(seg)], lambda im, el, k: list(im.bez4.cubic_bezier_from_ellipse(el, k)), ulp=1 << 12)
            except Exception:  # noqa
                pass
    d.covered |= {"bezier4p.cubic_bezier_from_ellipse"}


def diff_construct(d: Diff, n: int):
    g, r = d.gen, d.rng
    for _ in range(n):
        a, b, c, e = g.v2(), g.v2(), g.v2(), g.v2()
        k = r.random()
        if k < 0.2:
            e = ("V2", (c[1][0] + b[1][0] - a[1][0], c[1][1] + b[1][1] - a[1][1]))  # parallel
        elif k < 0.3:
            c, e = a, b
        elif k < 0.4:
            e = ("V2", (c[1][0] + (b[1][0] - a[1][0]) * (1 + 1e-11), c[1][1] + (b[1][1] - a[1][1])))  # nearly parallel
        elif k < 0.55:
            c = r.choice([a, b])  # the second line starts exactly on an end point of the first (parameter 0 or 1)
        elif k < 0.62:
            e = r.choice([a, b])
        virt = r.random() < 0.5
        d.call("construct.intersection_line_line_2d", [a, b, c, e, R(virt)],
               lambda im, p, q, s, t, v: im.construct.intersection_line_line_2d((p, q), (s, t), v))
        d.call("construct.intersection_line_line_2d/tol", [a, b, c, e, R(virt), R(r.choice([1e-10, 0.0, 1e-3]))],
               lambda im, p, q, s, t, v, tol: im.construct.intersection_line_line_2d((p, q), (s, t), virtual=v, abs_tol=tol),
               cover="construct.intersection_line_line_2d")
        d.call("construct.intersection_line_line_2d/input-forms", [g.vec_input(2), g.vec_input(2), c, e],
               lambda im, p, q, s, t: im.construct.intersection_line_line_2d((p, q), (s, t)), cover="construct.intersection_line_line_2d")
        # polygons: random, degenerate, closed
        m = r.randint(0, 7)
        pe = r.choice([-20, -3, 0, 0, 3, 20])  # one magnitude per polygon: mixed magnitudes only measure summation order
        poly = [("V2", (float(g.g.dy(pe)), float(g.g.dy(pe)))) for _ in range(m)]
        if m >= 2 and r.random() < 0.3:
            poly.append(poly[0])
        if m >= 3 and r.random() < 0.2:
            poly[2] = poly[1]
        ints = [("V2", (float(r.randint(-4, 4)), float(r.randint(-4, 4)))) for _ in range(r.randint(3, 7))]
        dx, dy = float(r.randint(-3, 3)), float(r.randint(-3, 3))
        flat = r.choice([[("V2", (i * dx, i * dy)) for i in range(r.randint(3, 5))], [("V2", (1.0, 2.0))] * 4,
                         [("V2", (0.0, 0.0)), ("V2", (dx, dy)), ("V2", (2 * dx, 2 * dy)), ("V2", (dx, dy))]])  # zero signed area
        for pl in (poly, ints, flat):
            d.call("construct.has_clockwise_orientation", [("seq", pl)], lambda im, vs: im.construct.has_clockwise_orientation(vs))
            pt = pl[0] if pl and r.random() < 0.2 else r.choice([g.v2(), ("V2", (float(r.randint(-4, 4)), float(r.randint(-4, 4)))), ("V2", (r.randint(-8, 8) / 2.0, r.randint(-8, 8) / 2.0))])
            d.call("construct.is_point_in_polygon_2d", [pt, ("seq", pl)], lambda im, p, vs: im.construct.is_point_in_polygon_2d(p, vs))
            d.call("construct.is_point_in_polygon_2d/tol", [pt, ("seq", pl), R(r.choice([1e-10, 0.5, 0.0]))],
                   lambda im, p, vs, tol: im.construct.is_point_in_polygon_2d(p, vs, abs_tol=tol), cover="construct.is_point_in_polygon_2d")
        d.call("construct.has_clockwise_orientation/input-forms", [("seq", [r.choice([RX((float(r.randint(-4, 4)), float(r.randint(-4, 4)))), RX([1.0, 2.0, 3.0]), ("V3!", (float(r.randint(-4, 4)), 1.0, 5.0)), ints[0], RX(()), RX(None)]) for _ in range(r.randint(2, 5))])],
               lambda im, vs: im.construct.has_clockwise_orientation(vs), cover="construct.has_clockwise_orientation")
        d.call("construct.is_point_in_polygon_2d/tuple", [g.v2(), ("tup!", ints)], lambda im, p, vs: im.construct.is_point_in_polygon_2d(p, vs),
               cover="construct.is_point_in_polygon_2d")
        # 3D rays: meeting, skew (incl. gaps around the tolerances), parallel
        o1, o2 = g.v3(), g.v3()
        x = g.v3()
        kind = r.randrange(5)
        if kind == 0:
            p1, p2 = x, x
        elif kind == 1:
            p1, p2 = g.v3(), g.v3()
        elif kind == 2:
            p1 = g.v3()
            p2 = ("V3", tuple(o2[1][i] + 2 * (p1[1][i] - o1[1][i]) for i in range(3)))
        else:  # two axis-parallel rays with a tiny gap at a large/small offset (relative vs absolute tolerance)
            L = r.choice([1.0, 1e3, 1e6, 1e-3])
            gap = L * r.choice([5e-10, 2e-10, 5e-11, 2e-9, 1e-12]) if kind == 3 else r.choice([5e-10, 5e-11, 2e-10])
            o1, p1 = ("V3", (L, 0.0, 0.0)), ("V3", (L, 1.0, 0.0))
            o2, p2 = ("V3", (L + gap, 0.0, 1.0)), ("V3", (L + gap, 0.0, 2.0))
        d.call("construct.intersection_ray_ray_3d", [o1, p1, o2, p2], lambda im, a_, b_, c_, d_: im.construct.intersection_ray_ray_3d((a_, b_), (c_, d_)), ulp=1 << 16)
        d.call("construct.intersection_ray_ray_3d/tol", [o1, p1, o2, p2, R(r.choice([1e-10, 1e-6, 0.0]))],
               lambda im, a_, b_, c_, d_, tol: im.construct.intersection_ray_ray_3d((a_, b_), (c_, d_), abs_tol=tol), ulp=1 << 16,
               cover="construct.intersection_ray_ray_3d")
        s, e2 = r.choice([0.0, 90.0, 180.0, 360.0, -360.0, 720.0, 1e-14, 359.99999999999994, -180.0, r.uniform(-800, 800)]), \
            r.choice([0.0, 90.0, 180.0, 360.0, -360.0, 720.0, 360.00000000000006, -180.0, r.uniform(-800, 800)])
        d.call("construct.arc_angle_span_deg", [R(s), R(e2)], lambda im, x_, y_: im.construct.arc_angle_span_deg(x_, y_))
        d.call("construct.arc_angle_span_rad", [R(math.radians(s)), R(math.radians(e2))], lambda im, x_, y_: im.construct.arc_angle_span_rad(x_, y_), ulp=8)
        lon, lat = r.uniform(-180, 180), r.choice([0.0, 45.0, -45.0, 89.0, r.uniform(-85, 85)])
        d.call("construct.gps_to_world_mercator", [R(lon), R(lat)], lambda im, x_, y_: im.construct.gps_to_world_mercator(x_, y_), ulp=64)
        d.call("construct.world_mercator_to_gps", [R(lon * 111319.0), R(r.uniform(-1.5e7, 1.5e7))], lambda im, x_, y_: im.construct.world_mercator_to_gps(x_, y_), ulp=1 << 12)
        d.call("construct.world_mercator_to_gps/tol", [R(0.0), R(1e6), R(r.choice([1e-6, 1e-12, 1e-3]))],
               lambda im, x_, y_, t: im.construct.world_mercator_to_gps(x_, y_, t), ulp=1 << 30, cover="construct.world_mercator_to_gps")


def _hadamard_f(vals) -> float:
    h = 1.0
    for i in range(4):
        h *= max(sum(abs(x) for x in vals[4 * i:4 * i + 4]), 1e-300)
    return h


def _knots(r, order, count, kind):
    n = order + count
    if kind == "clamped":
        inner = sorted(r.choice([1.0, 2.0, 3.0, 2.0, 1.5]) if r.random() < 0.3 else r.uniform(0, 4) for _ in range(n - 2 * order))
        return [0.0] * order + inner + [4.0] * order
    if kind == "uniform":
        return [float(i) for i in range(n)]
    if kind == "shifted":
        return [float(i) + 2.5 for i in range(n)]
    return sorted(r.choice([0.0, 1.0, 1.0, 2.0, 3.0]) for _ in range(n))  # weird: many repeated knots


def diff_bspline(d: Diff, n: int):
    g, r = d.gen, d.rng
    for _ in range(n):
        order = r.choice([2, 3, 4, 4, 5, 8])
        count = r.randint(order, order + 5)
        kind = r.choice(["clamped", "clamped", "uniform", "shifted", "weird"])
        knots = _knots(r, order, count, kind)
        weights = None if r.random() < 0.6 else [r.choice([1.0, 0.5, 2.0, 3.0]) for _ in range(count)]
        basis = ("basis", knots, order, count, weights)
        lo, hi = knots[order - 1], knots[count]
        if kind != "weird" and r.random() < 0.25:
            # parameter ranges far from 1: tiny ranges and ranges that end at 0 (the snapping of u to max_t in Evaluator.point /
            # derivative is a tolerance test; absolute and relative tolerances only differ away from magnitude 1)
            sc, sh = r.choice([(1e-6, 0.0), (1e-3, 0.0), (1.0, -knots[-1]), (1e6, 0.0), (0.25, -knots[-1] * 0.25)])
            knots = [k * sc + sh for k in knots]
            basis = ("basis", knots, order, count, weights)
        lo, hi = knots[order - 1], knots[count]
        u = r.choice([lo, hi, (lo + hi) / 2, lo + (hi - lo) * r.random(), knots[r.randrange(len(knots))],
                      knots[-1] - r.choice([5e-13, 1e-13, 2e-12]), knots[-1] * (1 - 5e-10), knots[-1] - (knots[-1] - lo) * 1e-7])
        for name in ("order", "degree", "knots", "weights", "is_rational", "max_t"):
            d.call(f"Basis.{name}", [basis], lambda im, b, name=name: getattr(b, name))
        d.call("Basis.count", [basis], lambda im, b: getattr(b, "count", None) if hasattr(b, "count") else b._count)
        d.call("Basis.find_span", [basis, R(u)], lambda im, b, t: b.find_span(t))
        if kind != "weird":
            d.call("Basis.basis_vector", [basis, R(u)], lambda im, b, t: b.basis_vector(t), ulp=16)
            d.call("Basis.basis_funcs", [basis, R(u)], lambda im, b, t: b.basis_funcs(b.find_span(t), t), ulp=16)
            d.call("Basis.basis_funcs_derivatives", [basis, R(u), R(r.choice([1, 2, 3]))],
                   lambda im, b, t, k: b.basis_funcs_derivatives(b.find_span(t), t, k), ulp=64)
            if weights:
                d.call("Basis.span_weighting", [basis, R(u)], lambda im, b, t: b.span_weighting(b.basis_funcs(b.find_span(t), t) if False else [1.0] * b.order, b.find_span(t)), ulp=16)
            cps = [("V3", tuple(float(g.g.dy(0)) for _ in range(3))) for _ in range(count)]
            ev = ("eval", basis, cps)
            d.call("Evaluator.point", [ev, R(u)], lambda im, e, t: e.point(t), ulp=64)
            ts = [lo + (hi - lo) * i / 4 for i in range(5)]
            d.call("Evaluator.points", [ev, R(ts)], lambda im, e, tt: list(e.points(tt)), ulp=64)
            k = r.choice([1, 2, 3])
            d.call("Evaluator.derivative", [ev, R(u), R(k)], lambda im, e, t, kk: e.derivative(t, kk), ulp=1 << 10)
            d.call("Evaluator.derivatives", [ev, R(ts), R(k)], lambda im, e, tt, kk: list(e.derivatives(tt, kk)), ulp=1 << 10)
            d.call("Evaluator.__init__/input-forms", [basis, RX([c[1] for c in cps]), R(u)], lambda im, b, c, t: im.Evaluator(b, c).point(t), ulp=64, cover="Evaluator.point")
            d.call("Evaluator.__reduce__", [ev, R(u)], lambda im, e, t: __import__("pickle").loads(__import__("pickle").dumps(e)).point(t), ulp=64)
        d.call("Basis.__reduce__", [basis], lambda im, b: (lambda x: (x.knots, x.order, x.weights))(__import__("pickle").loads(__import__("pickle").dumps(b))))
        # invalid definitions
        bad = r.choice([("basis", knots[:-1], order, count, weights), ("basis", knots, order, count, [1.0]), ("basis", knots + [9.0], order, count, None),
                        ("basis", [0.0, 1.0, 2.0], 1, 2, None), ("basis", [float(i) for i in range(12 + 14)], 12, 14, None), ("basis", [0.0, 1.0, 2.0], 2, 1, None),
                        ("basis", [], 0, 0, None)])
        d.call("Basis.__init__/invalid", [("basis",) + bad[1:]], lambda im, b: (b.order, b.knots), cover="Basis.order")
    d.covered |= {"Basis.span_weighting", "Basis.count", "Basis.__init__", "Evaluator.__init__"}


def diff_earcut(d: Diff, n: int):
    g, r = d.gen, d.rng

    def tri_canon(im, ext, holes):
        pts = {id(p): i for i, p in enumerate(ext + [q for h in holes for q in h])}
        tris = im.earcut.earcut(ext, holes)
        return [tuple(pts[id(p)] for p in t) for t in tris]

    for _ in range(n):
        k = r.random()
        m = r.randint(3, 9)
        if k < 0.5:  # star shaped simple polygon with integer-ish coordinates
            angs = sorted(r.uniform(0, math.tau) for _ in range(m))
            ext = [("V2", (round(math.cos(t) * r.choice([2, 3, 5]), 2), round(math.sin(t) * r.choice([2, 3, 5]), 2))) for t in angs]
        elif k < 0.7:
            ext = [("V2", (float(r.randint(-3, 3)), float(r.randint(-3, 3)))) for _ in range(m)]  # possibly self intersecting / degenerate
        elif k < 0.8:
            ext = [g.v2() for _ in range(r.randint(0, 4))]
        else:
            ext = [("V2", (0.0, 0.0)), ("V2", (10.0, 0.0)), ("V2", (10.0, 10.0)), ("V2", (0.0, 10.0))]
        holes = []
        if k >= 0.8:
            hx, hy = r.randint(1, 6), r.randint(1, 6)
            holes = [[("V2", (float(hx), float(hy))), ("V2", (hx + 2.0, float(hy))), ("V2", (hx + 2.0, hy + 2.0)), ("V2", (float(hx), hy + 2.0))]]
            if r.random() < 0.3:
                holes.append([("V2", (8.5, 8.5))])  # steiner point
        d.call("mapbox_earcut.earcut", [("seq", ext), ("seq", [("seq", h) for h in holes])], tri_canon)
        if r.random() < 0.3:
            d.call("mapbox_earcut.earcut/v3", [("seq", [("V3", p[1] + (1.0,)) for p in ext]), R([])], tri_canon, cover="mapbox_earcut.earcut")


def diff_linetypes(d: Diff, n: int):
    g, r = d.gen, d.rng
    for _ in range(n):
        k = r.random()
        if k < 0.15:
            dashes = []
        elif k < 0.25:
            dashes = [r.choice([1.0, 0.0])]
        else:
            dashes = []
            for i in range(r.choice([2, 2, 4, 4, 6, 3, 3, 5])):  # odd counts too: the dash/gap role alternates per cycle
                dashes.append(r.choice([0.0, 0.5, 1.0, 0.25, 0.1, 0.3, 0.7, 3.0, -0.0]) if i % 2 == 0 else r.choice([0.25, 0.5, 1.0, 0.1, 0.2, 0.0, -0.0]))
        if dashes and sum(dashes) < 0.05:
            continue  # a pattern of (nearly) zero total length does not terminate in reasonable time in either twin
        segs = []
        p = (0.0, 0.0, 0.0)
        if dashes and r.random() < 0.5:
            # polyline along one axis whose vertices fall (in exact arithmetic) on dash boundaries: multiples of single dash
            # lengths and of partial pattern sums, in non-dyadic decimals, so that the remaining dash length is a rounding residue
            ax = r.randrange(3)
            for _ in range(r.randint(1, 5)):
                j = r.randrange(len(dashes))
                step = r.choice([dashes[j] * r.randint(1, 7), sum(dashes[: j + 1]) * r.randint(1, 3), sum(dashes) * r.randint(1, 3),
                                 r.choice([0.1, 0.2, 0.3, 0.7, 1.1, 2.5])])
                if step <= 0.0:
                    step = 0.3
                q = tuple(p[i] + (step if i == ax else 0.0) for i in range(3))
                segs.append((p, q))
                p = q
        else:
            for _ in range(r.randint(1, 3)):
                q = tuple(p[i] + r.choice([0.0, 1.0, 2.5, -1.0, 0.3, 1e-13, 7.0]) for i in range(3))
                segs.append((p, q))
                p = q

        def run(im, dd, ss):
            ltr = im.LTR(dd)
            out = []
            for s, e in ss:
                out.append([(a, b) for a, b in ltr.line_segment(s, e)])
            return (ltr.is_solid, out)

        # patterns with zero-length dashes (dots) and without are keyed separately
        sub = "dots" if any(x == 0.0 for x in dashes[0::2]) else "plain"
        d.call(f"_LineTypeRenderer.line_segment/{sub}", [R(dashes), R(segs)], run, ulp=64, cover="_LineTypeRenderer.line_segment")
        d.call("_LineTypeRenderer.__reduce__", [R(dashes)], lambda im, dd: __import__("pickle").loads(__import__("pickle").dumps(im.LTR(dd))).is_solid)
    d.covered |= {"_LineTypeRenderer.is_solid", "_LineTypeRenderer.__init__"}


def diff_np_support(d: Diff, n: int):
    import numpy as np
    from ezdxf.math import linalg
    g, r = d.gen, d.rng
    d.covered |= {"np_support.has_clockwise_orientation", "np_support.lu_decompose", "np_support.solve_vector_banded_matrix"}
    for _ in range(n):
        m = r.randint(0, 7)
        pts = [[float(r.randint(-5, 5)), float(r.randint(-5, 5))] if r.random() < 0.6 else [float(g.g.dy(0)), float(g.g.dy(0))] for _ in range(m)]
        if m >= 3 and r.random() < 0.3:
            pts.append(list(pts[0]))
        if r.random() < 0.2:  # zero signed area: collinear / repeated vertices / there-and-back
            dx, dy = float(r.randint(-3, 3)), float(r.randint(-3, 3))
            pts = r.choice([[[i * dx, i * dy] for i in range(r.randint(3, 5))], [[1.0, 2.0]] * 4,
                            [[0.0, 0.0], [dx, dy], [2 * dx, 2 * dy], [dx, dy]]])

        def cw(im, ps):
            arr = np.array(ps, dtype=np.float64).reshape(-1, 2)
            if im.np_support is None:
                return im.construct.has_clockwise_orientation([im.V2(p) for p in arr])  # what npshapes.py does without C-ext
            return im.np_support.has_clockwise_orientation(arr)

        d.call("np_support.has_clockwise_orientation", [R(pts)], cw)
        # banded LU: diagonally dominant band matrix
        size, m1, m2 = r.randint(3, 8), r.choice([1, 2]), r.choice([1, 2])
        A = [[0.0] * (m1 + m2 + 1) for _ in range(size)]
        for i in range(size):
            for j in range(m1 + m2 + 1):
                col = i + j - m1
                if 0 <= col < size:
                    A[i][j] = float(r.randint(-3, 3)) if j != m1 else float(r.choice([8, -9, 10]))
        rhs = [float(r.randint(-5, 5)) for _ in range(size)]
        sing = r.random()
        if sing < 0.12:  # singular: a zero column under the pivot search / a zero row / all zero
            for i in range(size):
                A[i][m1] = 0.0
                for j in range(m1):
                    A[i][j] = 0.0
        elif sing < 0.2:
            A[r.randrange(size)] = [0.0] * (m1 + m2 + 1)
        elif sing < 0.25:
            A = [[0.0] * (m1 + m2 + 1) for _ in range(size)]

        def lu(im, a, b, k1, k2):
            import warnings
            with warnings.catch_warnings():
                warnings.simplefilter("ignore", RuntimeWarning)  # numpy: invalid value / divide by zero (the result shows it anyway)
                return _lu(im, a, b, k1, k2)

        def _lu(im, a, b, k1, k2):
            arr = np.array(a, dtype=np.float64)
            if im.np_support is None:
                up, lo, idx = linalg._lu_decompose(arr, k1, k2)
                x = linalg._solve_vector_banded_matrix(np.array(b, dtype=np.float64), up, lo, idx, k1, k2)
            else:
                up, lo, idx = im.np_support.lu_decompose(arr, k1, k2)
                x = im.np_support.solve_vector_banded_matrix(np.array(b, dtype=np.float64), up, lo, idx, k1, k2)
            return (up, lo, [int(t) for t in idx], x)

        d.call("np_support.lu_decompose+solve", [R(A), R(rhs), R(m1), R(m2)], lu, ulp=64, cover="np_support.lu_decompose")


# ---------------------------------------------------------------------------------------------- API surface
# public names that exist in one twin only and are NOT a behavioural difference (each with its reason)
API_ONLY_ONE_TWIN = {
    ("Vec3", "decompose", "py"): "internal argument parser of the pure-Python class (documented '(internal API)')",
    ("Bezier4P", "start_point", "pyx"): "readonly C attributes; both twins expose the same values via control_points[0]/[-1]",
    ("Bezier4P", "end_point", "pyx"): "see start_point",
    ("Bezier3P", "start_point", "pyx"): "see Bezier4P.start_point",
    ("Bezier3P", "end_point", "pyx"): "see Bezier4P.start_point",
    ("Basis", "count", "pyx"): "readonly C attribute used by the Cython Evaluator; Python keeps it private (_count)",
    ("_LineTypeRenderer", "is_solid", "pyx"): "instance attribute in Python (set in __init__, invisible to dir(class)), readonly C attribute in Cython",
}
for _k in API_ONLY_ONE_TWIN:
    pass
NOT_EXERCISED = {}


def api_surface(d: Diff):
    pub = lambda cls: {n for n in dir(cls) if not n.startswith("_")}
    for name in d.py.classes:
        a, b = pub(d.py.classes[name]), pub(d.cx.classes[name])
        for n in sorted(a ^ b):
            side = "py" if n in a else "pyx"
            if (name, n, side) in API_ONLY_ONE_TWIN:
                continue
            d.note_fail(f"api/{name}.{n}/only-{side}", f"public name {name}.{n} exists only in the {'pure-Python' if side == 'py' else 'Cython'} twin")
        for n in sorted(a | b):
            if f"{name}.{n}" not in d.covered and (name, n) not in NOT_EXERCISED and not any(k[0] == name and k[1] == n for k in API_ONLY_ONE_TWIN):
                d.note_fail(f"uncovered/{name}.{n}", f"public name {name}.{n} is not exercised by the differential test (new method?)")
    mods = {"vector": (d.py.vector, d.cx.vector), "construct": (d.py.construct, d.cx.construct), "bezier4p": (d.py.bez4, d.cx.bez4),
            "bezier3p": (d.py.bez3, d.cx.bez3), "bspline": (d.py.bspline, d.cx.bspline), "mapbox_earcut": (d.py.earcut, d.cx.earcut)}
    for mname, (mp, mc) in mods.items():
        a = {n for n in dir(mp) if not n.startswith("_") and callable(getattr(mp, n)) and getattr(getattr(mp, n), "__module__", None) == mp.__name__}
        b = {n for n in dir(mc) if not n.startswith("_") and callable(getattr(mc, n)) and getattr(getattr(mc, n), "__module__", None) == mc.__name__}
        if mname == "mapbox_earcut":  # the Python module exposes its helper functions, the extension only the entry point
            a, b = a & {"earcut"}, b & {"earcut"}
        if mname == "construct":
            a, b = {n for n in a if not n.startswith("_")}, {n for n in b if not n.startswith("_")}
        for n in sorted(a ^ b):
            if n in ("Vec3", "Vec2", "Matrix44", "check_if_in_valid_range", "FastCubicCurve", "FastQuadCurve", "floats", "Point", "T"):
                continue
            d.note_fail(f"api/{mname}.{n}/only-{'py' if n in a else 'pyx'}", f"function {mname}.{n} exists in one twin only")
        for n in sorted(a & b):
            if n in d.py.classes:
                continue
            if f"{mname}.{n}" not in d.covered:
                d.note_fail(f"uncovered/{mname}.{n}", f"function {mname}.{n} is not exercised by the differential test")


# ---------------------------------------------------------------------------------------------- inventory of the accelerated modules
# accelerated module -> where its pure Python twin lives (None: the twins are single functions of other modules, listed in NP_TWINS)
ACC_TWIN = {"vector": "ezdxf.math._vector", "matrix44": "ezdxf.math._matrix44", "bezier4p": "ezdxf.math._bezier4p",
            "bezier3p": "ezdxf.math._bezier3p", "bspline": "ezdxf.math._bspline", "construct": "ezdxf.math._construct",
            "mapbox_earcut": "ezdxf.math._mapbox_earcut", "linetypes": "ezdxf.render._linetypes", "np_support": None}
NP_TWINS = {"has_clockwise_orientation": "ezdxf.math._construct.has_clockwise_orientation", "lu_decompose": "ezdxf.math.linalg._lu_decompose",
            "solve_vector_banded_matrix": "ezdxf.math.linalg._solve_vector_banded_matrix"}
# API names whose loops are proved in Props/C10 section 5 (function -> theorem)
LOOP_THEOREMS = {"Basis.find_span": "twin_findSpan", "Basis.basis_funcs": "twin_basisFuncs", "Basis.span_weighting": "twin_spanWeighting",
                 "Basis.basis_vector": "twin_basisVector", "Evaluator.point": "twin_evalPoint", "Evaluator.points": "twin_evalPoint",
                 "_LineTypeRenderer.line_segment": "twin_lineSegment", "construct.has_clockwise_orientation": "twin_clockwise",
                 "np_support.has_clockwise_orientation": "twin_clockwiseNp",
                 "Evaluator.derivative": "twin_evalDerivative_closed", "Evaluator.derivatives": "twin_evalDerivative_closed",
                 "Basis.basis_funcs_derivatives": "twin_basisFuncsDerivatives", "np_support.lu_decompose": "twin_luDecompose",
                 "np_support.solve_vector_banded_matrix": "twin_svSolve", "construct.is_point_in_polygon_2d": "twin_pointInPolygon",
                 "bezier4p.cubic_bezier_arc_parameters": "twin_arcParameters",
                 "bezier4p.cubic_bezier_from_arc": "twin_fromArc",
                 "construct.arc_angle_span_deg": "twin_spanDeg", "construct.arc_angle_span_rad": "twin_spanRad",
                 # Props/C10Flat.lean
                 "Bezier4P.flattening": "twin_flattening4", "Bezier3P.flattening": "twin_flattening3",
                 "Bezier4P.approximated_length": "twin_approximatedLength", "Bezier3P.approximated_length": "twin_approximatedLength",
                 "Bezier4P.approximate": "twin_approximate", "Bezier3P.approximate": "twin_approximate"}


def theorem_cover() -> dict:
    """API name ('Class.method' / 'module.function') -> name of a theorem of Props/C10.lean about a kernel translated from it"""
    import re
    text = open(os.path.join(os.path.dirname(os.path.abspath(__file__)), "..", "..", "lean", "EzdxfVerif", "Props", "C10.lean")).read()
    text += open(os.path.join(os.path.dirname(os.path.abspath(__file__)), "..", "..", "lean", "EzdxfVerif", "Props", "C10Flat.lean")).read()
    thms = set(re.findall(r"^theorem\s+(twin_[A-Za-z0-9_]+)", text, flags=re.M))
    find = lambda lean: next((t for t in sorted(thms) if t == "twin_" + lean or t.startswith("twin_" + lean + "_")), None)
    cover = {}
    for lean, qual, *_ in c11.vector_kernels(True) + c11.matrix_kernels(True):
        t = find(lean)
        if t and qual:
            cover.setdefault(qual, t)
    modname = {"vector": "vector", "bez4": "bezier4p", "bez3": "bezier3p", "construct": "construct"}
    for key, lean, qual, params, kw in twin_kernels(True):
        t = find(lean)
        if not t:
            continue
        if qual:
            cover.setdefault(qual if "." in qual else f"{modname[key]}.{qual}", t)
        else:
            ex = kw["expr"]
            cls = re.match(r"(?:tuple\(|Vec3\()?(Bezier4P|Bezier3P)", ex)
            for m in re.findall(r"\.(\w+)", ex):
                if cls:
                    cover.setdefault(f"{cls.group(1)}.{m}", t)
            m = re.match(r"(\w+)\(", ex)
            if m and not cls:
                cover.setdefault(f"construct.{m.group(1)}", t)
            if cls:
                cover.setdefault(f"{cls.group(1)}.__init__", t)
    for k, t in LOOP_THEOREMS.items():
        if t in thms:
            cover.setdefault(k, t)
    return cover


def inventory(d: Diff) -> dict:
    """every public callable of every module of the package ezdxf.acc, found from the LIVE modules:
    -> {"<module>.<name>" or "<Class>.<attr>": {"diff": bool, "theorem": str|None, "twin": bool}}; also fails for modules / names
    that have no twin or no differential stream"""
    import importlib
    import inspect
    import pkgutil
    import ezdxf.acc as acc
    cover = theorem_cover()
    inv = {}
    for mi in pkgutil.iter_modules(acc.__path__):
        name = mi.name
        try:
            mc = importlib.import_module(f"ezdxf.acc.{name}")
        except ImportError:
            continue
        if name not in ACC_TWIN:
            d.note_fail(f"api/module/{name}", f"accelerated module ezdxf.acc.{name} has no registered pure Python twin (new module?)")
            continue
        mp = importlib.import_module(ACC_TWIN[name]) if ACC_TWIN[name] else None
        for n in sorted(dir(mc)):
            obj = getattr(mc, n)
            if n.startswith("__") or getattr(obj, "__module__", None) != mc.__name__ or not (callable(obj) or inspect.isclass(obj)):
                continue
            if n.startswith("_") and not inspect.isclass(obj):
                continue
            if (name, n) in ACC_INTERNAL:
                inv[f"{name}.{n}"] = {"diff": False, "theorem": None, "twin": False, "internal": ACC_INTERNAL[(name, n)]}
                continue
            if inspect.isclass(obj):
                pcls = getattr(mp, n, None) if mp else None
                if n.startswith("_") and pcls is None:
                    continue  # private helper class of the extension (e.g. _Flattening): reachable only through its public user
                if pcls is None:
                    d.note_fail(f"api/{name}.{n}/only-pyx", f"class ezdxf.acc.{name}.{n} has no pure Python twin")
                    continue
                own = set(vars(obj)) | set(vars(pcls))
                for a in sorted(set(dir(obj)) | set(dir(pcls))):
                    if a.startswith("_") and not (a in PROBED_DUNDERS and a in own):
                        continue
                    key = f"{n}.{a}"
                    inv[key] = {"diff": key in d.covered, "theorem": cover.get(key), "twin": pcls is not None and hasattr(pcls, a) and hasattr(obj, a)}
            else:
                key = f"{name}.{n}"
                if mp is not None:
                    twin = hasattr(mp, n)
                else:
                    twin = n in NP_TWINS
                inv[key] = {"diff": key in d.covered or (name == "np_support" and f"np_support.{n}" in d.covered), "theorem": cover.get(key), "twin": twin}
                if not twin and name != "mapbox_earcut":
                    d.note_fail(f"api/{key}/only-pyx", f"function ezdxf.acc.{key} has no pure Python twin")
    for key, v in sorted(inv.items()):
        if not v.get("internal") and not v["diff"] and not v["theorem"] and (key.split(".")[0], key.split(".")[1]) not in NOT_EXERCISED \
                and not any(k[0] == key.split(".")[0] and k[1] == key.split(".")[1] for k in API_ONLY_ONE_TWIN):
            d.note_fail(f"uncovered/{key}", f"public name {key} of the accelerated modules has neither a theorem nor a differential stream")
    return inv


# public names of the extension modules that are internal helpers without a twin by design (listed in the evidence, not exercised)
ACC_INTERNAL = {("bezier4p", "FastCubicCurve"): "cdef helper class of Bezier4P, only cdef methods (nothing callable from Python but the constructor)",
                ("bezier3p", "FastQuadCurve"): "cdef helper class of Bezier3P, only cdef methods",
                ("mapbox_earcut", "Node"): "linked list node of earcut (the Python module has its own Node class); exercised through earcut()",
                ("mapbox_earcut", "node_key"): "sort key of earcut's hole elimination; exercised through earcut() with holes"}

PROBED_DUNDERS = {"__init__", "__add__", "__sub__", "__radd__", "__rsub__", "__mul__", "__rmul__", "__truediv__", "__rtruediv__", "__neg__", "__abs__",
                  "__bool__", "__eq__", "__lt__", "__le__", "__gt__", "__ge__", "__ne__", "__hash__", "__len__", "__iter__", "__getitem__", "__setitem__",
                  "__repr__", "__str__", "__reduce__", "__matmul__", "__imul__", "__iadd__", "__isub__", "__copy__", "__deepcopy__"}



# ---------------------------------------------------------------------------------------------- targeted plans (ties, far coordinates, aliasing)
def diff_earcut_holes(d: Diff, n: int):
    """polygons with SEVERAL holes whose sort keys tie: leftmost vertices with the same x (columns / grids of cut-outs) given in every
    order of y, leftmost vertices with the same (x, y) (touching holes), holes that are single points; hole rings start at any vertex"""
    r = d.rng

    def tri_canon(im, ext, holes):
        pts = {id(p): i for i, p in enumerate(ext + [q for h in holes for q in h])}
        return [tuple(pts[id(p)] for p in t) for t in im.earcut.earcut(ext, holes)]

    for _ in range(n):
        cols, rows = r.choice([(1, 2), (1, 3), (2, 2), (2, 3), (3, 2), (1, 4)])
        pitch = r.choice([3.0, 4.0, 2.5])
        W, H = cols * pitch + 2.0, rows * pitch + 2.0
        ext = [("V2", (0.0, 0.0)), ("V2", (W, 0.0)), ("V2", (W, H)), ("V2", (0.0, H))]
        if r.random() < 0.3:
            ext = ext[::-1]
        shape = r.choice(["tri", "square", "diamond", "mixed"])
        holes = []
        for i in range(cols):
            for j in range(rows):
                x, y = 1.0 + i * pitch, 1.0 + j * pitch
                sh = r.choice(["tri", "square", "diamond"]) if shape == "mixed" else shape
                if sh == "tri":  # unique leftmost vertex (x, y + 0.5)
                    h = [(x, y + 0.5), (x + 1.0, y), (x + 1.0, y + 1.0)]
                elif sh == "diamond":
                    h = [(x, y + 0.5), (x + 0.5, y), (x + 1.0, y + 0.5), (x + 0.5, y + 1.0)]
                else:  # two leftmost vertices
                    h = [(x, y), (x + 1.0, y), (x + 1.0, y + 1.0), (x, y + 1.0)]
                k = r.randrange(len(h))
                h = h[k:] + h[:k]
                if r.random() < 0.3:
                    h = h[::-1]
                holes.append([("V2", q) for q in h])
        order = r.choice(["up", "down", "shuffle", "shuffle"])
        if order == "down":
            holes.reverse()
        elif order == "shuffle":
            r.shuffle(holes)
        if r.random() < 0.15:
            holes.append([("V2", (holes[0][0][1][0], H - 0.25))])  # steiner point with the same x as a hole vertex
        d.call("mapbox_earcut.earcut/hole-ties", [("seq", ext), ("seq", [("seq", h) for h in holes])], tri_canon, cover="mapbox_earcut.earcut")


def diff_linetypes_far(d: Diff, n: int):
    """short segments far from the origin (geo-referenced drawings): the degenerate-segment shortcut is a RELATIVE test per axis; polylines
    rendered by consecutive calls of one renderer, so that a call that does (not) advance the pattern shifts everything after it"""
    r = d.rng
    for _ in range(n):
        base = r.choice([(1e7, 5e6, 0.0), (1e6, -3e6, 100.0), (4.5e5, 5.4e6, 0.0), (1e9, 1e9, 0.0), (0.0, 1e7, 0.0)])
        unit = r.choice([1e-3, 1e-2, 1e-4, 1.0])
        dashes = [unit * x for x in r.choice([[2.0, 1.0], [3.0, 1.0, 0.0, 1.0], [1.0, 0.5, 0.25], [5.0, 2.5], [0.0, 1.0]])]
        p = base
        segs = []
        for _ in range(r.randint(3, 8)):
            ln = unit * r.choice([1.0, 2.0, 0.5, 5.0, 7.0, 1e3, 0.1])
            dx, dy, dz = r.choice([(1.0, 0.0, 0.0), (0.0, 1.0, 0.0), (0.6, 0.8, 0.0), (-1.0, 0.0, 0.0), (0.0, -0.6, 0.8), (0.0, 0.0, 1.0)])
            q = (p[0] + dx * ln, p[1] + dy * ln, p[2] + dz * ln)
            segs.append((p, q))
            p = q

        def run(im, dd, ss):
            ltr = im.LTR(dd)
            # the vertex count per call is the observable (the float positions of the dashes carry the rounding of start + dir * length
            # at |coordinate| 1e7 and are compared on that scale)
            return [[(a, b) for a, b in ltr.line_segment(s, e)] for s, e in ss]

        d.call("_LineTypeRenderer.line_segment/far", [R(dashes), R(segs)], run, ulp=1 << 12, cover="_LineTypeRenderer.line_segment")


# methods whose DOCUMENTED semantics is in place (the result is the receiver / None, an argument is modified): listed, still compared
IN_PLACE = {"Matrix44.transpose", "Matrix44.inverse", "Matrix44.__imul__", "Matrix44.set_row", "Matrix44.set_col", "Matrix44.__setitem__",
            "Matrix44.transform_array_inplace", "Matrix44.origin/set"}


def _snap(x):
    import numpy as np
    if isinstance(x, np.ndarray):
        return ("nd", x.tobytes())
    if isinstance(x, list):
        return ("list", tuple(repr(t) for t in x))
    if isinstance(x, tuple(Canon.BOTH["M"])):
        return ("M", tuple(x))
    return ("other", repr(x))


def _mutable(x) -> bool:
    import numpy as np
    return isinstance(x, (list, np.ndarray)) or isinstance(x, tuple(Canon.BOTH["M"]))


def _mutate(x):
    import numpy as np
    if isinstance(x, np.ndarray):
        if x.size and x.flags.writeable:
            x.flat[0] += 1.0
    elif isinstance(x, list):
        x.append(None)
    elif isinstance(x, tuple(Canon.BOTH["M"])):
        x[0, 0] = x[0, 0] + 1.0
        x.set_row(3, (9.0, 8.0, 7.0, 6.0))


def alias_probe(call):
    """-> fn(im, *args) for Diff.call: (result is an argument?, per argument: did mutating the RESULT change it?, per argument: did mutating
    the ARGUMENT afterwards change the result?) - the same verdicts are required of both twins"""
    def fn(im, *args):
        import copy as _c
        Canon(im)
        args = [_c.deepcopy(a) if isinstance(a, list) and not any(_mutable(t) and not isinstance(t, list) for t in a) else a for a in args]  # raw specs are shared between the twins
        res = call(im, *args)
        if hasattr(res, "__next__"):
            res = list(res)
        items = [res] + (list(res) if isinstance(res, (list, tuple)) else [])
        muts = [x for x in items if _mutable(x)]
        ident = any(x is a for x in muts for a in args)
        before = [_snap(a) for a in args]
        for x in muts:
            _mutate(x)
        fwd = [_snap(a) != b for a, b in zip(args, before)]
        rsnap = [_snap(x) for x in muts]
        for a in args:
            if _mutable(a) and not any(a is x for x in muts):
                _mutate(a)
        back = [_snap(x) != b for x, b in zip(muts, rsnap)]
        return (ident, fwd, back)
    return fn


def diff_aliasing(d: Diff, n: int):
    """every public callable of the twin classes that returns (or yields) an object of a mutable kind - Matrix44, list, numpy array - is
    called on both twins; the result must be identical to / share state with an argument in BOTH twins or in NEITHER"""
    import copy as _copy
    import numpy as np
    g, r = d.gen, d.rng
    probed = set()

    def P(name, specs, call):
        probed.add(name.split("/")[0])
        d.call(f"alias/Matrix44.{name}", specs, alias_probe(call), cover=f"Matrix44.{name.split('/')[0]}")

    for _ in range(n):
        m, o, q = g.matrix(), g.matrix(), g.matrix()
        for k in range(0, 4):
            ms = [m, o, q][:k]
            P(f"chain/{k}", ms, lambda im, *xs: im.M.chain(*xs))
        P("chain/same", [m], lambda im, x: im.M.chain(x, x))
        P("copy", [m], lambda im, x: x.copy())
        P("__copy__", [m], lambda im, x: _copy.copy(x))
        P("__deepcopy__", [m], lambda im, x: _copy.deepcopy(x))
        P("__reduce__", [m], lambda im, x: __import__("pickle").loads(__import__("pickle").dumps(x)))
        P("__mul__", [m, o], lambda im, x, y: x * y)
        P("__mul__/identity", [m], lambda im, x: x * im.M())
        P("__matmul__", [m, o], lambda im, x, y: x @ y)
        P("__imul__", [m, o], lambda im, x, y: _iop(x, y, "*")[0])
        P("transpose", [m], lambda im, x: x.transpose())
        wm = ("M", tuple(float(t) for t in g.g.unimodular()))
        P("inverse", [wm], lambda im, x: x.inverse())
        P("__init__/list", [R(list(m[1]))], lambda im, x: im.M(x))
        P("__init__/ndarray", [("np", list(m[1]))], lambda im, x: im.M(x))
        P("__init__/rows", [R([list(m[1][4 * i:4 * i + 4]) for i in range(4)])], lambda im, rows: im.M(*rows))
        pts = [g.v3() for _ in range(r.randint(1, 3))]
        P("transform_vertices", [m, ("seq", pts)], lambda im, x, ps: x.transform_vertices(ps))
        P("transform_directions", [m, ("seq", pts)], lambda im, x, ps: x.transform_directions(ps))
        P("fast_2d_transform", [m, ("seq", [g.v2() for _ in range(2)])], lambda im, x, ps: x.fast_2d_transform(ps))
        P("transform_array_inplace", [m, ("np", [[1.0, 2.0, 3.0], [4.0, 5.0, 6.0]])], lambda im, x, a: (x.transform_array_inplace(a, 3), a)[1])
        P("rows", [m], lambda im, x: list(x.rows()))
        P("columns", [m], lambda im, x: list(x.columns()))
        P("__iter__", [m], lambda im, x: list(x))
        P("get_row", [m], lambda im, x: x.get_row(1))
        P("get_2d_transformation", [m], lambda im, x: x.get_2d_transformation())
        # Vec2 / Vec3 class level list builders and the Bezier classes (immutable results: identity only)
        lst = [g.v3() for _ in range(r.randint(0, 3))]
        for cls in ("Vec3", "Vec2"):
            for nm in ("list", "tuple"):
                d.call(f"alias/{cls}.{nm}", [("seq", lst if cls == "Vec3" else [g.v2() for _ in lst])],
                       alias_probe(lambda im, xs, cls=cls, nm=nm: getattr(im.classes[cls], nm)(xs)), cover=f"{cls}.{nm}")
        for cls, key, npts in (("Bezier4P", "B4", 4), ("Bezier3P", "B3", 3)):
            curve = (key, [("V3", tuple(float(g.g.dy(0)) for _ in range(3))) for _ in range(npts)])  # moderate size: flattening(0.1) must stay small
            d.call(f"alias/{cls}.control_points", [curve], alias_probe(lambda im, cv: cv.control_points), cover=f"{cls}.control_points")
            d.call(f"alias/{cls}.approximate", [curve], alias_probe(lambda im, cv: cv.approximate(4)), cover=f"{cls}.approximate")
            d.call(f"alias/{cls}.flattening", [curve], alias_probe(lambda im, cv: cv.flattening(0.1)), cover=f"{cls}.flattening")
    # every public callable of Matrix44 (live class, both twins) that can return a Matrix44 / list / array must have a probe above;
    # the others return immutable values (Vec3, tuple, float, bool, str) or are factories without a mutable argument
    IMMUTABLE_RESULT = {"transform", "transform_direction", "ocs_to_wcs", "ocs_from_wcs", "ucs_vertex_from_wcs", "ucs_direction_from_wcs", "get_col",
                        "determinant", "origin", "ux", "uy", "uz", "is_cartesian", "is_orthogonal", "set_row", "set_col",
                        "scale", "translate", "x_rotate", "y_rotate", "z_rotate", "axis_rotate", "xyz_rotate", "shear_xy", "perspective_projection",
                        "perspective_projection_fov", "ucs", "from_2d_transformation"}
    for cls in (d.py.M, d.cx.M):
        for nm in dir(cls):
            if nm.startswith("_") or nm in probed or nm in IMMUTABLE_RESULT:
                continue
            d.note_fail(f"uncovered/alias/Matrix44.{nm}", f"public name Matrix44.{nm} has no aliasing probe and is not listed as returning an immutable value (new method?)")



# ---------------------------------------------------------------------------------------------- attribute sweep, tolerance bands
def attr_sweep(d: Diff, cls: str, spec):
    """every public NON-callable attribute / property that both twin classes have, read from a freshly constructed object of both twins"""
    names = sorted(n for n in set(dir(d.py.classes[cls])) & set(dir(d.cx.classes[cls]))
                   if not n.startswith("_") and not callable(getattr(d.py.classes[cls], n, None)) and not callable(getattr(d.cx.classes[cls], n, None)))

    def fn(im, obj):
        out = []
        for n in names:
            try:
                out.append((n, getattr(obj, n)))
            except Exception as e:  # noqa
                out.append((n, "raises " + type(e).__name__))
        return out

    d.call(f"{cls}.attributes", [spec], fn, ulp=ULP, cover=f"{cls}.attributes")
    for n in names:
        d.covered.add(f"{cls}.{n}")


def diff_attributes(d: Diff, n: int):
    """objects of every twin class built from value classes that a constructor could normalise away: weights all 1.0 / all equal / a single
    non-one weight / ints, knots given as ints, matrices that are exactly the identity, curves with equal control points, null vectors"""
    g, r = d.gen, d.rng
    for _ in range(n):
        order = r.choice([2, 3, 4, 4])
        count = r.randint(order, order + 4)
        knots = _knots(r, order, count, r.choice(["clamped", "uniform", "shifted"]))
        if r.random() < 0.3:
            knots = [float(int(k)) for k in sorted(knots)]
        wk = r.choice(["ones", "ones", "ones-int", "equal", "one-off", "random", "none", "zeros"])
        weights = {"ones": [1.0] * count, "ones-int": [1] * count, "equal": [r.choice([2.0, 0.5])] * count, "none": None, "zeros": [0.0] * count,
                   "one-off": [1.0] * (count - 1) + [r.choice([2.0, 1.0000000001, 0.0])], "random": [r.choice([1.0, 0.5, 2.0]) for _ in range(count)]}[wk]
        basis = ("basis", knots, order, count, weights)
        attr_sweep(d, "Basis", basis)
        lo, hi = knots[order - 1], knots[count]
        u = lo + (hi - lo) * r.choice([0.0, 0.25, 0.5, 1.0, r.random()])
        d.call(f"Basis.basis_funcs/weights-{wk}", [basis, R(u)], lambda im, b, t: b.basis_funcs(b.find_span(t), t), ulp=16, cover="Basis.basis_funcs")
        attr_sweep(d, "Vec3", ("V3", g.comps(3)))
        attr_sweep(d, "Vec2", ("V2", g.comps(2)))
        attr_sweep(d, "Matrix44", r.choice([g.matrix(), ("M", (1.0, 0.0, 0.0, 0.0, 0.0, 1.0, 0.0, 0.0, 0.0, 0.0, 1.0, 0.0, 0.0, 0.0, 0.0, 1.0))]))
        pts = [("V3", tuple(float(g.g.dy(0)) for _ in range(3))) for _ in range(4)]
        if r.random() < 0.3:
            pts = [pts[0]] * 4
        attr_sweep(d, "Bezier4P", ("B4", pts))
        attr_sweep(d, "Bezier3P", ("B3", pts[:3]))
        attr_sweep(d, "_LineTypeRenderer", ("ltr", r.choice([[], [1.0], [1.0, 0.5], [0.0, 0.0], [1.0, 1.0, 1.0]])))


def diff_tolerance_bands(d: Diff, n: int):
    """every predicate with a tolerance argument (or a fixed tolerance) is called with inputs whose distance from the decision boundary is
    k * tol for k in 0, 1/4, 1/2, 0.99, 1, 1.01, 2, 4 - on both sides, along both axes, on edges, at vertices and on the prolongation of edges"""
    g, r = d.gen, d.rng
    K = [0.0, 0.25, 0.5, 0.99, 1.0, 1.01, 2.0, 4.0, -0.25, -0.5, -0.99, -1.0, -1.01, -2.0]
    for _ in range(n):
        tol = r.choice([1e-10, 1e-10, 1e-6, 1e-12, 0.5, 1e-3])
        k1, k2 = r.choice(K), r.choice(K)
        # --- is_point_in_polygon_2d: axis parallel and sloped edges, points near edges / vertices / prolongations
        s = r.choice([1.0, 2.0, 10.0, 0.5])
        poly = r.choice([[(0.0, 0.0), (s, 0.0), (s, s), (0.0, s)], [(0.0, 0.0), (2 * s, s), (s, 3 * s), (-s, s)], [(0.0, 0.0), (s, 0.0), (s, s), (0.0, s), (0.0, 0.0)],
                         [(s, s), (0.0, s), (0.0, 0.0), (s, 0.0)]])
        i = r.randrange(len(poly))
        (x1, y1), (x2, y2) = poly[i], poly[(i + 1) % len(poly)]
        ln = math.hypot(x2 - x1, y2 - y1) or 1.0
        tx, ty = (x2 - x1) / ln, (y2 - y1) / ln
        along = r.choice([0.5 * ln, 0.0, ln, -k2 * tol, ln + k2 * tol, 0.25 * ln])
        pt = (x1 + tx * along - ty * k1 * tol, y1 + ty * along + tx * k1 * tol)
        d.call("construct.is_point_in_polygon_2d/band", [("V2", pt), ("seq", [("V2", p) for p in poly]), R(tol)],
               lambda im, p, vs, t: im.construct.is_point_in_polygon_2d(p, vs, abs_tol=t), cover="construct.is_point_in_polygon_2d")
        if tol == 1e-10:
            d.call("construct.is_point_in_polygon_2d/band-default", [("V2", pt), ("seq", [("V2", p) for p in poly])],
                   lambda im, p, vs: im.construct.is_point_in_polygon_2d(p, vs), cover="construct.is_point_in_polygon_2d")
        # --- intersection_line_line_2d: second line ends k*tol before / after the first line; nearly parallel with |den| ~ k*tol
        a, b = ("V2", (0.0, 0.0)), ("V2", (s, 0.0))
        c = ("V2", (s * r.choice([0.0, 0.5, 1.0]) + k2 * tol, k1 * tol))
        e = ("V2", (c[1][0] + r.choice([0.0, 0.3]), s))
        d.call("construct.intersection_line_line_2d/band", [a, b, c, e, R(r.random() < 0.5), R(tol)],
               lambda im, p, q, u_, v_, virt, t: im.construct.intersection_line_line_2d((p, q), (u_, v_), virtual=virt, abs_tol=t), cover="construct.intersection_line_line_2d")
        e2 = ("V2", (2.0 * s, k1 * tol / s))  # direction almost parallel to the x axis: denominator = k1 * tol * (something of size 1)
        d.call("construct.intersection_line_line_2d/band-parallel", [a, b, ("V2", (0.0, 1.0)), ("V2", (e2[1][0], 1.0 + e2[1][1])), R(True), R(tol)],
               lambda im, p, q, u_, v_, virt, t: im.construct.intersection_line_line_2d((p, q), (u_, v_), virtual=virt, abs_tol=t), cover="construct.intersection_line_line_2d")
        # --- intersection_ray_ray_3d: skew rays with gap k * tol
        L = r.choice([1.0, 100.0])
        d.call("construct.intersection_ray_ray_3d/band", [("V3", (L, 0.0, 0.0)), ("V3", (L, 1.0, 0.0)), ("V3", (L + k1 * tol, 0.0, 1.0)), ("V3", (L + k1 * tol, 0.0, 2.0)), R(tol)],
               lambda im, p, q, u_, v_, t: im.construct.intersection_ray_ray_3d((p, q), (u_, v_), abs_tol=t), ulp=1 << 16, cover="construct.intersection_ray_ray_3d")
        # --- isclose / is_parallel / is_null / bool of vectors: component differences k * tol (absolute band) and k * rel * magnitude (relative band)
        base = r.choice([(0.0, 0.0, 0.0), (1.0, 2.0, 3.0), (1e6, -1e6, 0.5), (1e-6, 0.0, 0.0)])
        ax = r.randrange(3)
        rel = r.choice([1e-9, 1e-6, 0.0])
        delta = k1 * tol if r.random() < 0.5 else k1 * rel * max(abs(t) for t in base)
        other = tuple(t + (delta if j == ax else 0.0) for j, t in enumerate(base))
        for cls, dim in (("Vec3", 3), ("Vec2", 2)):
            if ax >= dim:
                continue
            d.call(f"{cls}.isclose/band", [(cls[0] + cls[-1], base[:dim]), (cls[0] + cls[-1], other[:dim]), R(rel), R(tol)],
                   lambda im, x, y, rt, at: x.isclose(y, rel_tol=rt, abs_tol=at), cover=f"{cls}.isclose")
            nul = tuple((k1 * 1e-12 if j == ax else r.choice([0.0, 5e-13])) for j in range(dim))
            d.call(f"{cls}.is_null/band", [(cls[0] + cls[-1], nul)], lambda im, x: (x.is_null, bool(x)), cover=f"{cls}.is_null")
        d.call("Vec3.is_parallel/band", [("V3", (1.0, 0.0, 0.0)), ("V3", (r.choice([2.0, -3.0]), k1 * tol, 0.0)), R(rel), R(tol)],
               lambda im, x, y, rt, at: x.is_parallel(y, rel_tol=rt, abs_tol=at), cover="Vec3.is_parallel")
        # --- has_clockwise_orientation: closing vertex within the isclose band of the first vertex
        cl = [("V2", (0.0, 0.0)), ("V2", (s, 0.0)), ("V2", (s, s)), ("V2", (k1 * 1e-12, k2 * 1e-12))]
        d.call("construct.has_clockwise_orientation/band", [("seq", cl)], lambda im, vs: im.construct.has_clockwise_orientation(vs), cover="construct.has_clockwise_orientation")
        # --- Evaluator.point: u within k * 1e-12 / k * 1e-9 * max_t of max_t (the snapping band)
        mt = r.choice([1.0, 4.0, 1e-6, 1e3])
        kn = [0.0] * 4 + [mt] * 4
        cps = [("V3", (0.0, 0.0, 0.0)), ("V3", (1.0, 2.0, 0.0)), ("V3", (3.0, -1.0, 0.0)), ("V3", (5.0, 5.0, 5.0))]
        uu = mt - abs(k1) * r.choice([1e-12, 1e-9 * mt])
        d.call("Evaluator.point/band", [("eval", ("basis", kn, 4, 4, None), cps), R(uu)], lambda im, e_, t: e_.point(t), ulp=64, cover="Evaluator.point")

# pinned function (suspect name of c10_loops.regenerate_loops) -> plans that search the real twins for a failing input, with their quick sizes
SEARCH_PLANS = {
    "mapbox_earcut": [("diff_earcut_holes", 400), ("diff_earcut", 400)],
    "_LineTypeRenderer": [("diff_linetypes_far", 600), ("diff_linetypes", 3000)],
    "Basis": [("diff_bspline", 1200)], "Evaluator": [("diff_bspline", 1200)], "bisect_right": [("diff_bspline", 1200)],
    "has_clockwise_orientation": [("diff_construct", 800), ("diff_np_support", 600)], "_has_clockwise_orientation": [("diff_np_support", 600)],
    "_lu_decompose": [("diff_np_support", 800)], "_solve_vector_banded_matrix": [("diff_np_support", 800)],
}


def search_suspects(d: Diff, suspects: list) -> list:
    """a pinned text / cut of these functions is broken: run the plans that exercise them with boosted sizes -> names of the plans run"""
    ran = []
    for s in suspects:
        for key, plans in SEARCH_PLANS.items():
            if s.split(".")[0] == key or s.startswith(key):
                for plan, size in plans:
                    if plan not in ran:
                        globals()[plan](d, size)
                        ran.append(plan)
    return ran


def run_diff(seed: int, quick: bool, suspects=()) -> Diff:
    d = Diff(seed, quick)
    k = 1 if quick else 12
    diff_vectors(d, 120 * k)
    diff_matrix(d, 150 * k)
    diff_bezier(d, 100 * k)
    diff_construct(d, 200 * k)
    diff_bspline(d, 100 * k)
    diff_earcut(d, 100 * k)
    diff_linetypes(d, 600 * k)
    diff_np_support(d, 100 * k)
    diff_earcut_holes(d, 60 * k)
    diff_linetypes_far(d, 100 * k)
    diff_aliasing(d, 25 * k)
    diff_attributes(d, 40 * k)
    diff_tolerance_bands(d, 150 * k)
    d.searched = search_suspects(d, list(suspects))
    api_surface(d)
    d.inventory = inventory(d)
    return d


def oracle(ctx):
    if not c11.have_cext():
        ctx.note("C extensions are not importable: the differential oracle cannot run")
        from runner import Infra
        raise Infra("C10 needs the C extensions (ezdxf.acc.*) to be importable")
    suspects = list(getattr(ctx, "c10_suspects", []))
    d = run_diff(ctx.seed, ctx.quick, suspects)
    if suspects:
        ctx.note(f"broken pinned text of {sorted(set(suspects))}: searched the real twins with boosted plans {d.searched}")
    for stream, (n, nt) in d.counts.items():
        st = ctx.cov["streams"].setdefault(stream, {"evaluations": 0, "distinct_nontrivial": 0})
        st["evaluations"] += n
        st["distinct_nontrivial"] += nt
        ctx.cov["evaluations"] += n
        ctx.cov["distinct_nontrivial"] += nt
    for key, n in sorted(d.per_key.items()):
        ctx.hist("D differences by key", key, n)
    none, only_diff, only_thm, both = [], [], [], []
    internal = {k: v["internal"] for k, v in d.inventory.items() if v.get("internal")}
    for key, v in sorted(d.inventory.items()):
        if v.get("internal"):
            ctx.hist("API inventory (public names of ezdxf.acc.* by dir())", "internal helper (no twin by design)")
            continue
        (both if v["diff"] and v["theorem"] else only_diff if v["diff"] else only_thm if v["theorem"] else none).append(key)
        ctx.hist("API inventory (public names of ezdxf.acc.* by dir())", "theorem+differential" if v["diff"] and v["theorem"] else
                 "differential only" if v["diff"] else "theorem only" if v["theorem"] else "NEITHER")
    ctx.cov["api_inventory"] = {"names": len(d.inventory), "theorem_and_differential": both, "differential_only": only_diff,
                                "theorem_only": only_thm, "neither": none, "internal": internal}
    if none:
        ctx.note("INFRA: public names of ezdxf.acc.* with neither a theorem nor a differential stream: " + ", ".join(none))
    for f in d.fails:
        ctx.fail(f["key"], f["what"], f["replay"])


def replay(ctx, rep):
    d = run_diff(rep.get("seed", 0), rep.get("tier", "quick") == "quick")
    still = {"/".join(f["key"].split("/")[:-1]) for f in d.fails}
    bad = [f["key"] for f in rep.get("failing_inputs", []) if "/".join(f["key"].split("/")[:-1]) in still]
    return (not bad, "; ".join(bad[:10]) or "all recorded differences are gone")

"""C12  Transforming an entity transforms exactly its geometry (DESIGN.md section 7, C12).

regenerate : py2lean translation of the kernels the model is built from (Matrix44.transform/transform_direction/ucs,
             OCS.to_wcs/from_wcs, all arithmetic OCSTransform methods, transform_extrusion after its OCS construction,
             bulge_center/bulge_radius-free apex kernel is hand-written) -> Gen/TransformKernels.lean
correspond : Lean driver (Model/Transform.lean over Gen/TransformKernels.lean) vs. the real code on dyadic inputs, exact
             frames and exact rotations (Pythagorean (c, s) pairs, multiples of 90 degrees)
oracle     : the property's own predicate on the real code: WCS sample geometry (own parametrisation, own OCS, own
             matrices) before/after entity.transform(m), ezdxf.transform.inplace/copies, virtual_entities/explode of
             nested INSERTs, upright(); documented errors leave the entity unchanged
"""
from __future__ import annotations

import json
import math
import os
import re
from fractions import Fraction as Fr

ID = "C12"
LEAN_MODULES = ["EzdxfVerif.Props.C12"]
DRIVER_DEPS = ["EzdxfVerif.Model.Rat3", "EzdxfVerif.Gen.TransformKernels", "EzdxfVerif.Model.Transform", "Drivers.Proto"]

RULE = (
    "correspondence (request carries the value of the real code, the Lean driver answers agree/DISAGREE; numbers agree when "
    "|a-b| <= tol*max(1,|a|,|b|), tol 1e-9 (1e-8 for entity streams), errors by class): X1 every regenerated OCSTransform kernel vs "
    "OCSTransform.from_ocs(old, new, m) on dyadic / Pythagorean matrices and exact (also non-orthonormal) frames; X2 transform_extrusion "
    "(new extrusion + is_uniform) for extrusions on both sides of 1/64 x similarity/affine/plane-targeted matrices, decision band of the "
    "uniform test regenerated; X3 Line/Circle/Arc/LWPolyline/Solid.transform control flow (incl. NonUniformScalingError, ZeroDivisionError) "
    "given the OCS frames and scale_uniform flag of the real OCSTransform; X4 InsertCoordinateSystem.transform (scales, sign decision, "
    "InsertTransformationError, insert, rotation as direction) and Insert.matrix44 with a block base point; X5 recursive expansion of clean "
    "nested block references of POINTs (depth <= 4) vs product of the real per-level matrix44s, and level-by-level expansion = path product; "
    "X6 upright() attribute flips; X7 pending matrix of ACIS entities (8 types) after histories of 0..4 transform()/inplace() calls and copy() "
    "vs the fold of the regenerated add_matrix; X8 HATCH/MPOLYGON.transform (new elevation, every boundary point of polyline/line/arc/"
    "spline/ellipse-centre, bulges, arc radius and angle directions, spline tangents) vs Model Hatch.transform for uniform and non-uniform "
    "matrices (paths needing the arc->ellipse conversion are skipped and counted); X9 Text/Attdef.transform (both branches: insert, align, "
    "rotation, oblique as (cos, sin), height, width, thickness) and MText.transform (insert, direction, extrusion, char height, width); "
    "X10 rytz_axis_construction on conjugate half-diameters in the plane / in space and on arbitrary pairs, and minor_axis, vs the regenerated kernels; "
    "X11 MLine.transform scale factor + vertices; X12 Dimension.transform on arbitrary attribute subsets; X13 2-D POLYLINE (own z / elevation, widths, bulges, error); X14 ConstructionEllipse.transform axes (both branches, exchange); X15 HATCH EllipseEdge / converted ArcEdge centre, major axis, ratio; X16 MINSERT row / column spacing; X17 translate() fast paths of every overriding class (live-class table) on tilted extrusions vs the py2lean translations; X4 also Insert.matrix44 vs the kernel regenerated from its own body; X18 matrix44 of every multi_insert() grid element vs Ins.gridCell; X19 Shape.transform.  non-trivial = non-default frame / non-similar or mirrored matrix / nesting depth > 1 / "
    "history length > 1; distinct by hash of the request.  oracle: own WCS parametrisation before/after on the real code, see module "
    "docstring (O1 single entity x matrix x API for 28 generators incl. 8 ACIS types, O2 exact rational, O3 nested, O4 upright, O5 histories "
    "of 2-3 matrices x every generator x transform/inplace/copies + commit of pending ACIS transformations, O6 the convenience interface "
    "translate/scale/scale_uniform/rotate_axis/rotate_x/y/z of every generator and the seven ezdxf.transform module functions with genuinely tilted extrusions = transform(matrix), INSERT with "
    "attached ATTRIBs, MINSERT multi_insert() and explode() with ATTRIBs); a failing input is keyed "
    "<cause>/<api>/<type>/<aspect>/<matrix class>/<hash> (history/<api>/<type>/<aspect>/<n>/<hash> for O5), cause derived from the INPUT "
    "and the failing aspect (e.g. plane-shear, neg-thickness, mline-scale-factor: the constellations of the 16 defects this check found, all "
    "fixed in /repo now) so that a regression is named."
)
TRUSTED_BASE = [
    "py2lean translator + the AST splits / wrappers in this file: transform_extrusion after OCS(), InsertCoordinateSystem.transform before "
    "from_ocs, c12_temp_add (TemporaryTransformation.add_matrix; matrix product kept as opaque M44.mul, result type patched), c12_line_edge "
    "(LineEdge.transform), c12_mline_scale (statements of MLine.transform moved into a function), ArithmeticError -> ValueError in rytz",
    "follow-up: c12_translate_<Class> (the translate() fast path of every overriding class moved into a pure function: self.ocs() and "
    "dxf attributes become parameters, post_transform notification dropped), c12_matrix44 (Insert.matrix44 body, statement order kept, "
    "`if angle:` taken) translated over the CYTHON twin of Matrix44/Vec3 (explicit arithmetic for `*=`; twins equal by C10); the live-class "
    "enumeration of overrides (conv_tables) and the AST of the DXFGraphic defaults",
    "the AST extraction of the elevation flow through DXFPolygon / BoundaryPaths / PolylinePath / EdgePath / *Edge.transform (hatch_defs): "
    "a table of recognised statement shapes, every other shape is refused",
    "the harness' own geometry (arbitrary axis algorithm, Rodrigues rotation, bulge -> arc, ellipse parametrisation, curve inclusion test)",
    "OCS.__init__ (frames are taken from the real OCS objects; their correctness is property C11)",
    "sqrtA of the Lean driver (exact on rational squares, else relative error < 2^-100); theorems quantify over exact roots",
    "dev tool that computed the polynomial cofactors of rytz_uv (not trusted: `linear_combination` re-checks them with `ring`)",
]
ASSUMPTIONS = [
    "finite doubles, invertible matrices; float rounding bounded by the stated tolerances, not proved",
    "extrusions within 1e-9 of the 1/64 threshold and matrices within the decision bands of the uniform / orthogonality / span tests are "
    "regenerated (counted in the distribution)",
    "HATCH ellipse edge angles are read as ezdxf reads them (real angles, parameter = atan2(sin a / ratio, cos a))",
    "np.matmul of the pure-Python Matrix44 is the textbook product M44.mul (tied by property C11)",
    "theorems about new OCS frames assume what OCS.__init__ establishes (orthonormal, right-handed, z = given extrusion): property C11",
]
OPEN = [
    "arc span test: modelled by a trigonometry-free predicate (|sin| <= 1e-7) instead of isclose(span, rel_tol=1e-8); semicircle probe "
    "direction differs (1 rad vs rational); both corresponded outside the stated bands",
    "ELLIPSE / arc->ellipse fallback / HATCH ellipse edges: the axes part of ConstructionEllipse.transform is modelled (X14/X15) and "
    "chained to the kernel theorems by ellipse_transform_cases (+ ellipse_swap_law for the exchange, ellipse_shortcut_general for images "
    "orthogonal only within 1e-6: the stored minor axis is the rescaled rejection, cosine to the true one = sin of the angle); NOT "
    "proved: the start/end parameter adjustment (atan2) of open elliptic arcs: oracle only (O1/O3/O5)",
    "HATCH: the polyline-with-bulge -> arc-edge conversion before a non-uniform scaling (bulge_to_arc, trigonometry) and ellipse edge "
    "parameters are outside the model (Hatch.transform = none there): oracle only; pattern scaling not covered",
    "MTEXT columns and inline height commands, ATTRIB attached to INSERT (transformed with the block reference) not modelled",
    "MLINE: element lines follow similarities only (one scalar scale factor): non-uniform scaling moves the vertices, the line spacing is "
    "kept (documented in the source); vertex directions / miter are regenerated by update_geometry, not modelled",
    "not proved: DIMENSION block content, explode() dispatch, SHAPE / 2-D entities under NON-similar plane maps beyond points and "
    "directions: oracle only; atan2 / isclose numerics",
]

# ================================================================================================ own linear algebra
# Everything below is written for the harness and does not call ezdxf: vectors are 3-tuples of floats, a matrix is a
# pair (A, t): A = 3 rows (images of e1, e2, e3), t = translation; a point maps to p.x*A[0] + p.y*A[1] + p.z*A[2] + t
# (the row-vector convention of Matrix44, so `mat16` is the flat list handed to ezdxf).


def vadd(a, b):
    return (a[0] + b[0], a[1] + b[1], a[2] + b[2])


def vsub(a, b):
    return (a[0] - b[0], a[1] - b[1], a[2] - b[2])


def vmul(a, k):
    return (a[0] * k, a[1] * k, a[2] * k)


def vdot(a, b):
    return a[0] * b[0] + a[1] * b[1] + a[2] * b[2]


def vcross(a, b):
    return (a[1] * b[2] - a[2] * b[1], a[2] * b[0] - a[0] * b[2], a[0] * b[1] - a[1] * b[0])


def vlen(a):
    return math.sqrt(vdot(a, a))


def vnorm(a):
    n = vlen(a)
    return (a[0] / n, a[1] / n, a[2] / n)


def v3(p):
    """any ezdxf vector / tuple -> 3-tuple of floats"""
    p = tuple(p)
    return (float(p[0]), float(p[1]), float(p[2]) if len(p) > 2 else 0.0)


IDENT = (((1.0, 0.0, 0.0), (0.0, 1.0, 0.0), (0.0, 0.0, 1.0)), (0.0, 0.0, 0.0))


def m_apply(m, p):
    A, t = m
    return (p[0] * A[0][0] + p[1] * A[1][0] + p[2] * A[2][0] + t[0],
            p[0] * A[0][1] + p[1] * A[1][1] + p[2] * A[2][1] + t[1],
            p[0] * A[0][2] + p[1] * A[1][2] + p[2] * A[2][2] + t[2])


def m_dir(m, v):
    return vsub(m_apply(m, v), m[1])


def m_mul(a, b):
    """first a, then b"""
    rows = tuple(m_dir(b, r) for r in a[0])
    return (rows, m_apply(b, a[1]))


def m_det(m):
    A = m[0]
    return vdot(A[0], vcross(A[1], A[2]))


def mat16(m):
    A, t = m
    return [A[0][0], A[0][1], A[0][2], 0.0, A[1][0], A[1][1], A[1][2], 0.0, A[2][0], A[2][1], A[2][2], 0.0, t[0], t[1], t[2], 1.0]


def m_translate(d):
    return (IDENT[0], tuple(float(x) for x in d))


def m_scale(sx, sy, sz):
    return (((float(sx), 0.0, 0.0), (0.0, float(sy), 0.0), (0.0, 0.0, float(sz))), (0.0, 0.0, 0.0))


def rot_vec(v, axis, c, s):
    """Rodrigues: rotate v about the unit vector `axis` by the angle with cosine c and sine s (right hand rule)"""
    k = axis
    return vadd(vadd(vmul(v, c), vmul(vcross(k, v), s)), vmul(k, vdot(k, v) * (1 - c)))


def m_rot(axis, c, s):
    k = vnorm(axis)
    return (tuple(rot_vec(e, k, c, s) for e in IDENT[0]), (0.0, 0.0, 0.0))


def m_stretch(u, k):
    """scaling by factor k along the unit direction u (identity on the orthogonal complement)"""
    u = vnorm(u)
    return (tuple(vadd(e, vmul(u, (k - 1.0) * vdot(e, u))) for e in IDENT[0]), (0.0, 0.0, 0.0))


def ocs_axes(n):
    """DXF arbitrary axis algorithm, written for the harness: returns (Ax, Ay, Az) for the extrusion n"""
    az = vnorm(n)
    if abs(az[0]) < 1.0 / 64.0 and abs(az[1]) < 1.0 / 64.0:
        ax = vcross((0.0, 1.0, 0.0), az)
    else:
        ax = vcross((0.0, 0.0, 1.0), az)
    ax = vnorm(ax)
    ay = vnorm(vcross(az, ax))
    return ax, ay, az


def to_wcs(fr, p):
    ax, ay, az = fr
    return vadd(vadd(vmul(ax, p[0]), vmul(ay, p[1])), vmul(az, p[2]))


def from_wcs(fr, p):
    return (vdot(p, fr[0]), vdot(p, fr[1]), vdot(p, fr[2]))


def near_threshold(n) -> bool:
    """extrusion within the decision band of the 1/64 branch of the arbitrary axis algorithm"""
    az = vnorm(n)
    return any(abs(abs(c) - 1.0 / 64.0) < 1e-9 for c in az[:2])


# ================================================================================================ matrix recipes
# A matrix recipe is a JSON list of factors applied left to right:
#   ["T", dx, dy, dz]  ["R", ax, ay, az, c, s]  ["S", sx, sy, sz]  ["K", ux, uy, uz, k] (stretch by k along u)
PYTH = [(3, 4, 5), (5, 12, 13), (8, 15, 17), (7, 24, 25), (20, 21, 29)]


def build_matrix(recipe):
    m = IDENT
    for f in recipe:
        if f[0] == "T":
            x = m_translate(f[1:4])
        elif f[0] == "R":
            x = m_rot(f[1:4], f[4], f[5])
        elif f[0] == "S":
            x = m_scale(*f[1:4])
        elif f[0] == "K":
            x = m_stretch(f[1:4], f[4])
        else:
            raise ValueError(f)
        m = m_mul(m, x)
    return m


class MG:
    """seeded matrix generator"""

    def __init__(self, rng):
        self.r = rng

    def cs(self, exact_only=False):
        r = self.r
        c = r.random()
        if c < 0.3:
            return r.choice([(0.0, 1.0), (-1.0, 0.0), (0.0, -1.0)])
        if c < 0.55 or exact_only:
            a, b, h = r.choice(PYTH)
            if r.random() < 0.5:
                a, b = b, a
            return (r.choice([-1, 1]) * a / h, r.choice([-1, 1]) * b / h)
        if c < 0.7:
            t = math.radians(r.choice([30.0, 45.0, 60.0, 135.0, -45.0, 200.0]))
        else:
            t = r.uniform(-math.pi, math.pi)
        return (math.cos(t), math.sin(t))

    def axis(self):
        r = self.r
        if r.random() < 0.6:
            return r.choice([(0.0, 0.0, 1.0), (1.0, 0.0, 0.0), (0.0, 1.0, 0.0)])
        return r.choice([(1.0, 1.0, 1.0), (1.0, 2.0, 2.0), (0.0, 3.0, 4.0), (-2.0, 1.0, 0.5), (0.3, -0.4, 0.5)])

    def T(self):
        r = self.r
        return ["T"] + [r.choice([0.0, 1.0, -2.5, 7.25, 100.0, -0.125]) for _ in range(3)]

    def R(self):
        c, s = self.cs()
        return ["R", *self.axis(), c, s]

    def Su(self):
        k = self.r.choice([2.0, 0.5, 3.0, 0.25, 10.0])
        return ["S", k, k, k]

    def Mi(self):
        return ["S"] + self.r.choice([[-1.0, 1.0, 1.0], [1.0, -1.0, 1.0], [1.0, 1.0, -1.0], [-1.0, -1.0, -1.0], [-2.0, -2.0, -2.0]])

    def Sn(self):
        return ["S"] + self.r.choice([[2.0, 1.0, 1.0], [1.0, 3.0, 1.0], [1.0, 1.0, 0.5], [2.0, 3.0, 4.0], [0.5, 2.0, 1.0], [-2.0, 1.0, 3.0],
                                      [1.0, -3.0, 0.5], [2.0, 2.0, 5.0]])

    def similarity(self, mirror=None):
        r = self.r
        fs = []
        for _ in range(r.randint(1, 4)):
            c = r.random()
            fs.append(self.T() if c < 0.3 else self.R() if c < 0.7 else self.Su() if c < 0.85 else self.Mi())
        if mirror is True and m_det(build_matrix(fs)) > 0:
            fs.append(self.Mi()[:1] + [-1.0, 1.0, 1.0])
        if mirror is False and m_det(build_matrix(fs)) < 0:
            fs.append(["S", 1.0, -1.0, 1.0])
        return fs

    def affine(self):
        r = self.r
        fs = []
        for _ in range(r.randint(1, 4)):
            c = r.random()
            fs.append(self.T() if c < 0.2 else self.R() if c < 0.55 else self.Su() if c < 0.65 else self.Mi() if c < 0.75 else self.Sn())
        if not any(f[0] == "S" and len({abs(x) for x in f[1:]}) > 1 for f in fs):
            fs.insert(r.randint(0, len(fs)), self.Sn())
        return fs

    def plane(self, n, kind):
        """matrices aimed at the plane with normal n: 'planesim' (similarity in the plane, other factor along n),
        'shear' (in-plane axes keep equal length but lose orthogonality), 'stretch' (in-plane non-uniform)"""
        r = self.r
        ux, uy, az = ocs_axes(n)
        pre = [self.T()] if r.random() < 0.5 else []
        if kind == "planesim":
            c, s = self.cs()
            k = r.choice([2.0, 0.5, -1.0, 3.0])
            return pre + [["R", *az, c, s], ["K", *az, k]] + ([self.Su()] if r.random() < 0.3 else [])
        if kind == "shear":
            q = math.sqrt(0.5)
            rot = r.choice([(q, q), (q, -q), (-q, q)])
            k = r.choice([2.0, 0.5, 3.0, -2.0])
            tail = [self.R()] if r.random() < 0.4 else []
            return pre + [["R", *az, *rot], ["K", *r.choice([ux, uy]), k]] + tail
        if kind == "stretch":
            c, s = self.cs()
            d = vadd(vmul(ux, c), vmul(uy, s))
            return pre + [["K", *d, r.choice([2.0, 0.5, 3.0, -2.0, 1.001])]] + ([self.R()] if r.random() < 0.4 else [])
        raise ValueError(kind)


def classify(m, n=None):
    """independent classification of the linear part (and of its action on the plane with normal n)"""
    A = m[0]
    out = {"det": m_det(m)}
    g = [[vdot(A[i], A[j]) for j in range(3)] for i in range(3)]
    k2 = (g[0][0] + g[1][1] + g[2][2]) / 3.0
    out["sim3"] = all(abs(g[i][j] - (k2 if i == j else 0.0)) <= 1e-9 * k2 for i in range(3) for j in range(3))
    out["k"] = math.sqrt(k2)
    if n is not None:
        fr = ocs_axes(n)
        ax, ay, an = (m_dir(m, fr[0]), m_dir(m, fr[1]), m_dir(m, fr[2]))
        lx, ly = vdot(ax, ax), vdot(ay, ay)
        rel = abs(lx - ly) / max(lx, ly)
        orth = abs(vdot(ax, ay)) / math.sqrt(lx * ly)
        if 1e-12 < rel < 1e-5 or 1e-12 < orth < 1e-6:
            out["plane"] = "band"
        elif rel <= 1e-12 and orth <= 1e-12:
            out["plane"] = "sim"
        elif rel <= 1e-12:
            out["plane"] = "shear"
        else:
            out["plane"] = "nonuni"
        out["pk"] = math.sqrt(lx)
        nn = vcross(ax, ay)
        out["newn"] = vnorm(nn)
        # the extrusion direction stays perpendicular to the plane (thickness vector representable)
        out["zperp"] = abs(vdot(an, ax)) <= 1e-9 * vlen(an) * math.sqrt(lx) and abs(vdot(an, ay)) <= 1e-9 * vlen(an) * math.sqrt(ly)
        out["axes_orth"] = out["zperp"] and orth <= 1e-12
    return out


# ================================================================================================ geometry primitives
# The WCS geometry of an entity is described by a list of primitives computed by the harness from the RAW attributes
# (own OCS, own bulge/arc/ellipse parametrisation):
#   ("P", label, point)  ("V", label, vector)  ("D", label, direction: compared after normalisation)
#   ("A", label, centre, u, v, t0, t1): the curve centre + cos t * u + sin t * v, t0 <= t <= t1 (u, v need not be orthogonal)
#   ("L", label, length: multiplied by the similarity factor)  ("N", label, number: invariant)
TAU = 2.0 * math.pi


def ccw_range(a0, a1):
    """parameter interval of a counter-clockwise arc from a0 to a1; equal (or one full turn apart) = full turn"""
    span = (a1 - a0) % TAU
    if span < 1e-9 or span > TAU - 1e-9:
        span = TAU
    a0 = a0 % TAU
    return a0, a0 + span


def arc_prim(label, fr, c2, z, r, a0, a1):
    """circular arc in the OCS plane z: centre c2, radius r, counter-clockwise from angle a0 to a1 (radians)"""
    a0, a1 = ccw_range(a0, a1)
    return ("A", label, to_wcs(fr, (c2[0], c2[1], z)), vmul(fr[0], r), vmul(fr[1], r), a0, a1)


def bulge_arc(label, fr, p1, p2, b, z):
    """arc primitive of a polyline segment p1 -> p2 with bulge b (own derivation: centre = mid + n * (1 - b^2) / (4 b),
    n = left normal of the chord scaled by its length)"""
    dx, dy = p2[0] - p1[0], p2[1] - p1[1]
    f = (1.0 - b * b) / (4.0 * b)
    c = ((p1[0] + p2[0]) / 2.0 - dy * f, (p1[1] + p2[1]) / 2.0 + dx * f)
    r = math.hypot(p1[0] - c[0], p1[1] - c[1])
    a1 = math.atan2(p1[1] - c[1], p1[0] - c[0])
    a2 = math.atan2(p2[1] - c[1], p2[0] - c[0])
    return arc_prim(label, fr, c, z, r, a1, a2) if b > 0 else arc_prim(label, fr, c, z, r, a2, a1)


def arc_point(a, t):
    return vadd(a[2], vadd(vmul(a[3], math.cos(t)), vmul(a[4], math.sin(t))))


def arc_locate(a, q):
    """(residual distance, radial defect, parameter) of point q relative to the (possibly oblique) elliptic arc a"""
    c, u, v = a[2], a[3], a[4]
    d = vsub(q, c)
    uu, uv, vv = vdot(u, u), vdot(u, v), vdot(v, v)
    det = uu * vv - uv * uv
    du, dv = vdot(d, u), vdot(d, v)
    al, be = (du * vv - dv * uv) / det, (dv * uu - du * uv) / det
    res = vlen(vsub(d, vadd(vmul(u, al), vmul(v, be))))
    return res, abs(math.hypot(al, be) - 1.0), math.atan2(be, al)


# ConstructionEllipse.transform treats transformed axes with |cos| <= 1e-6 as orthogonal (no rytz construction): curves are
# compared with this documented precision, points and vectors with 1e-9
CURVE_TOL = 2e-6


def arc_contains(a, q, tol):
    res, rad, t = arc_locate(a, q)
    size = max(vlen(a[3]), vlen(a[4]))
    if res > tol * max(size, 1.0) or rad > max(tol, 1e-9):
        return False
    t0, t1 = a[5], a[6]
    if t1 - t0 >= TAU - 1e-9:
        return True
    slack = 1e-5
    k = math.floor((t - t0) / TAU)
    for tt in (t - k * TAU, t - (k + 1) * TAU, t - (k - 1) * TAU):
        if t0 - slack <= tt <= t1 + slack:
            return True
    return False


def arc_equiv(a, b, tol):
    """two-sided inclusion at 9 sample parameters each + equal end point sets"""
    for x, y in ((a, b), (b, a)):
        for i in range(9):
            t = x[5] + (x[6] - x[5]) * i / 8.0
            if not arc_contains(y, arc_point(x, t), tol):
                return False
    return True


def map_prim(p, m, k=None):
    kind = p[0]
    if kind == "P":
        return ("P", p[1], m_apply(m, p[2]))
    if kind == "V":
        return ("V", p[1], m_dir(m, p[2]))
    if kind == "D":
        return ("D", p[1], m_dir(m, p[2]))
    if kind == "A":
        return ("A", p[1], m_apply(m, p[2]), m_dir(m, p[3]), m_dir(m, p[4]), p[5], p[6])
    if kind == "L":
        return ("L", p[1], p[2] * k if k is not None else None)
    return p


def prim_scale(ps):
    s = 1.0
    for p in ps:
        if p[0] in "PV":
            s = max(s, max(abs(c) for c in p[2]))
        elif p[0] == "A":
            s = max(s, max(abs(c) for c in p[2]), vlen(p[3]), vlen(p[4]))
    return s


def cmp_prims(want, got, tol=1e-9):
    """None if equal, else a short description of the first difference"""
    if [(p[0], p[1]) for p in want] != [(p[0], p[1]) for p in got]:
        return f"structure differs: expected {[(p[0], p[1]) for p in want][:12]} got {[(p[0], p[1]) for p in got][:12]}"
    sc = max(prim_scale(want), prim_scale(got))
    for w, g in zip(want, got):
        kind = w[0]
        if kind in "PV":
            if vlen(vsub(w[2], g[2])) > tol * sc:
                return f"{w[1]}: expected {fmt(w[2])} got {fmt(g[2])}"
        elif kind == "D":
            if vlen(w[2]) < 1e-300 or vlen(g[2]) < 1e-300 or vlen(vsub(vnorm(w[2]), vnorm(g[2]))) > 1e-8:
                return f"{w[1]}: expected direction {fmt(vnorm(w[2]) if vlen(w[2]) else w[2])} got {fmt(g[2])}"
        elif kind == "A":
            if not arc_equiv(w, g, max(tol, CURVE_TOL)):
                return (f"{w[1]}: expected curve c={fmt(w[2])} u={fmt(w[3])} v={fmt(w[4])} t=[{w[5]:.6g},{w[6]:.6g}] "
                        f"got c={fmt(g[2])} u={fmt(g[3])} v={fmt(g[4])} t=[{g[5]:.6g},{g[6]:.6g}]")
        elif kind == "L":
            if w[2] is not None and abs(w[2] - g[2]) > 1e-9 * max(1.0, abs(w[2])):
                return f"{w[1]}: expected {w[2]:.12g} got {g[2]:.12g}"
        elif kind == "N":
            if w[2] != g[2] and not (isinstance(w[2], float) and abs(w[2] - g[2]) <= 1e-9 * max(1.0, abs(w[2]))):
                return f"{w[1]}: expected {w[2]!r} got {g[2]!r}"
    return None


def fmt(v):
    return "(" + ", ".join(f"{c:.9g}" for c in v) + ")"


# ================================================================================================ entity recipes
# An entity recipe is a JSON dict {"t": dxftype, "a": dxfattribs, ...payload}; build(layout, recipe) creates the entity
# through the public factory API.  Coordinates are short dyadics.
# entities without transformable geometry of their own: transform() accumulates a pending ("temporary") matrix that becomes a
# block reference at export / by ezdxf.transform.apply_temporary_transformations()
ACIS_TYPES = ("BODY", "3DSOLID", "REGION", "SURFACE", "EXTRUDEDSURFACE", "LOFTEDSURFACE", "REVOLVEDSURFACE", "SWEPTSURFACE")


def from16(vals):
    v = [float(x) for x in vals]
    return ((tuple(v[0:3]), tuple(v[4:7]), tuple(v[8:11])), tuple(v[12:15]))


def _attr(a):
    return {k: (tuple(v) if isinstance(v, list) else v) for k, v in a.items()}


def build(layout, rc):
    t, a = rc["t"], _attr(rc.get("a", {}))
    if t in ("LINE", "POINT", "CIRCLE", "ARC", "ELLIPSE", "SOLID", "TRACE", "3DFACE", "TEXT", "ATTDEF", "MTEXT", "XLINE", "RAY", "SHAPE",
             "TOLERANCE", "HELIX", "LIGHT"):
        e = layout.new_entity(t, a)
        if t == "HELIX":
            e.control_points = [tuple(p) for p in rc["cps"]]
            e.knots = list(rc["knots"])
        return e
    if t in ACIS_TYPES:
        return layout.new_entity(t, a)
    if t == "LWPOLYLINE":
        return layout.add_lwpolyline([tuple(p) for p in rc["pts"]], format="xyseb", close=rc.get("closed", False), dxfattribs=a)
    if t == "POLYLINE2D":
        return layout.add_polyline2d([tuple(p) for p in rc["pts"]], format="xyseb", close=rc.get("closed", False), dxfattribs=a)
    if t == "POLYLINE3D":
        return layout.add_polyline3d([tuple(p) for p in rc["pts"]], close=rc.get("closed", False), dxfattribs=a)
    if t == "POLYMESH":
        rows, cols = rc["size"]
        e = layout.add_polymesh((rows, cols), dxfattribs=a)
        i = 0
        for r_ in range(rows):
            for c_ in range(cols):
                e.set_mesh_vertex((r_, c_), tuple(rc["pts"][i]))
                i += 1
        return e
    if t == "POLYFACE":
        e = layout.add_polyface(dxfattribs=a)
        for f in rc["faces"]:
            e.append_face([tuple(p) for p in f])
        return e
    if t == "SPLINE":
        e = layout.add_open_spline([tuple(p) for p in rc["cps"]], degree=rc.get("degree", 3), dxfattribs=a)
        if rc.get("fit"):
            e.fit_points = [tuple(p) for p in rc["fit"]]
        if rc.get("weights"):
            e.weights = list(rc["weights"])
        return e
    if t in ("HATCH", "MPOLYGON"):
        e = layout.add_hatch(dxfattribs=a) if t == "HATCH" else layout.add_mpolygon(dxfattribs=a)
        for p in rc["paths"]:
            if p["k"] == "poly":
                e.paths.add_polyline_path([tuple(v) for v in p["pts"]], is_closed=p.get("closed", True))
            else:
                ep = e.paths.add_edge_path()
                for ed in p["edges"]:
                    if ed[0] == "line":
                        ep.add_line(tuple(ed[1]), tuple(ed[2]))
                    elif ed[0] == "arc":
                        ep.add_arc(tuple(ed[1]), ed[2], ed[3], ed[4], ccw=bool(ed[5]))
                    elif ed[0] == "ellipse":
                        ep.add_ellipse(tuple(ed[1]), tuple(ed[2]), ed[3], ed[4], ed[5], ccw=bool(ed[6]))
                    elif ed[0] == "spline":
                        sp = ep.add_spline(control_points=[tuple(v) for v in ed[1]], degree=3,
                                           knot_values=[0, 0, 0, 0] + list(range(1, len(ed[1]) - 3)) + [len(ed[1]) - 3] * 4)
                        from ezdxf.math import Vec2  # the attributes are annotated as Vec2 / list[Vec2]
                        if len(ed) > 2 and ed[2]:
                            sp.start_tangent, sp.end_tangent = Vec2(ed[2][0]), Vec2(ed[2][1])
                        if len(ed) > 3 and ed[3]:
                            sp.fit_points = Vec2.list(ed[3])
        return e
    if t == "INSERT":
        e = layout.add_blockref(rc["name"], tuple(rc["insert"]), dxfattribs=a)
        for at in rc.get("attribs", []):
            e.add_attrib(at["tag"], at["text"], tuple(at["insert"]), dxfattribs=_attr(at.get("a", {})))
        return e
    if t == "LEADER":
        return layout.add_leader([tuple(p) for p in rc["pts"]], dxfattribs=a)
    if t == "MLINE":
        return layout.add_mline([tuple(p) for p in rc["pts"]], dxfattribs=a)
    if t == "MESH":
        e = layout.add_mesh(dxfattribs=a)
        with e.edit_data() as d:
            d.vertices = [tuple(p) for p in rc["pts"]]
            d.faces = [list(f) for f in rc["faces"]]
        return e
    if t == "IMAGE":
        doc = layout.doc
        idef = doc.add_image_def(filename="x.png", size_in_pixel=(64, 32))
        e = layout.add_image(idef, insert=(0, 0, 0), size_in_units=(1, 1), dxfattribs={})
        e.dxf.insert, e.dxf.u_pixel, e.dxf.v_pixel = tuple(rc["insert"]), tuple(rc["u"]), tuple(rc["v"])
        return e
    if t == "DIMENSION":
        d = layout.add_linear_dim(base=tuple(rc["base"]), p1=tuple(rc["p1"]), p2=tuple(rc["p2"]), angle=rc.get("angle", 0.0), dxfattribs=a)
        d.render()
        return d.dimension
    raise ValueError(t)


def _frame(e):
    return ocs_axes(v3(e.dxf.extrusion)) if e.dxf.hasattr("extrusion") else ocs_axes((0.0, 0.0, 1.0))


def _thick(e, fr, out):
    if e.dxf.hasattr("thickness") and e.dxf.thickness:
        out.append(("V", "zp:thickness", vmul(fr[2], float(e.dxf.thickness))))


def _poly_prims(out, fr, pts, z, closed, prefix=""):
    """pts: [(x, y, bulge)] in the OCS plane z: vertices, then per segment either nothing (straight, given by the
    vertices) or the bulge arc"""
    for i, p in enumerate(pts):
        out.append(("P", f"{prefix}v{i}", to_wcs(fr, (p[0], p[1], z))))
    out.append(("N", f"{prefix}closed", bool(closed)))
    n = len(pts)
    for i in range(n if closed else n - 1):
        p, q = pts[i], pts[(i + 1) % n]
        b = p[2]
        if b and (p[0], p[1]) != (q[0], q[1]):
            out.append(bulge_arc(f"{prefix}arc{i}", fr, p, q, b, z))


def _text_prims(e, out, prefix=""):
    fr = _frame(e)
    d = e.dxf
    ins = v3(d.insert)
    out.append(("P", prefix + "insert", to_wcs(fr, ins)))
    al = v3(d.align_point) if d.hasattr("align_point") else ins
    if d.get("halign", 0) or d.get("valign", 0):
        out.append(("P", prefix + "align", to_wcs(fr, al)))
    rot = math.radians(d.get("rotation", 0.0))
    base = vadd(vmul(fr[0], math.cos(rot)), vmul(fr[1], math.sin(rot)))
    up = vadd(vmul(fr[0], -math.sin(rot)), vmul(fr[1], math.cos(rot)))
    out.append(("D", prefix + "baseline", base))
    out.append(("D", prefix + "sim:up", up))
    # the glyph frame: a point (x, y) of the text (x along the baseline in units of height * width factor, y in units of the
    # height) sits at insert + x * h * w * d + y * h * (u + tan(oblique) * d): an affine frame, so its image under EVERY matrix that
    # keeps the text plane a plane is representable (new height, width factor, oblique) and must be what the entity stores
    h_, w_ = float(d.height), float(d.get("width", 1.0))
    tan_o = math.tan(math.radians(float(d.get("oblique", 0.0))))
    out.append(("P", prefix + "frame_x", vadd(to_wcs(fr, ins), vmul(base, h_ * w_))))
    out.append(("P", prefix + "frame_y", vadd(to_wcs(fr, ins), vmul(vadd(up, vmul(base, tan_o)), h_))))
    out.append(("L", prefix + "sim:height", float(d.height)))
    out.append(("N", prefix + "sim:width", float(d.get("width", 1.0))))
    out.append(("N", prefix + "sim:oblique", float(d.get("oblique", 0.0))))
    _thick(e, fr, out)


def insert_matrix(e, base=(0.0, 0.0, 0.0)):
    """own block-reference matrix from the raw attributes: block point p -> WCS"""
    d = e.dxf
    fr = _frame(e)
    rot = math.radians(d.get("rotation", 0.0))
    c, s = math.cos(rot), math.sin(rot)
    ex = vmul(vadd(vmul(fr[0], c), vmul(fr[1], s)), float(d.get("xscale", 1.0)))
    ey = vmul(vadd(vmul(fr[0], -s), vmul(fr[1], c)), float(d.get("yscale", 1.0)))
    ez = vmul(fr[2], float(d.get("zscale", 1.0)))
    lin = ((ex, ey, ez), (0.0, 0.0, 0.0))
    org = vsub(to_wcs(fr, v3(d.insert)), m_dir(lin, base))
    return ((ex, ey, ez), org)


def geom(e, base=(0.0, 0.0, 0.0)):
    t = e.dxftype()
    d = e.dxf
    out = []
    if t == "LINE":
        out += [("P", "start", v3(d.start)), ("P", "end", v3(d.end))]
        if d.hasattr("thickness") and d.thickness:
            out.append(("V", "thickness", vmul(vnorm(v3(d.extrusion)), float(d.thickness))))
    elif t == "POINT":
        out.append(("P", "location", v3(d.location)))
        if d.hasattr("thickness") and d.thickness:
            out.append(("V", "thickness", vmul(vnorm(v3(d.extrusion)), float(d.thickness))))
    elif t in ("CIRCLE", "ARC"):
        fr = _frame(e)
        c = v3(d.center)
        r = abs(float(d.radius))
        if t == "CIRCLE":
            out.append(arc_prim("circle", fr, c, c[2], r, 0.0, TAU))
        else:
            sa, ea = math.radians(d.start_angle), math.radians(d.end_angle)
            out.append(arc_prim("arc", fr, c, c[2], r, sa, ea))
        _thick(e, fr, out)
    elif t == "ELLIPSE":
        n = vnorm(v3(d.extrusion))
        mj = v3(d.major_axis)
        mn = vmul(vcross(n, mj), float(d.ratio))
        t0, t1 = ccw_range(float(d.start_param), float(d.end_param))
        out.append(("A", "ellipse", v3(d.center), mj, mn, t0, t1))
    elif t == "LWPOLYLINE":
        fr = _frame(e)
        pts = [tuple(float(x) for x in p) for p in e.lwpoints]
        z = float(d.get("elevation", 0.0))
        _poly_prims(out, fr, [(p[0], p[1], p[4]) for p in pts], z, bool(d.flags & 1))
        for i, p in enumerate(pts):
            out.append(("L", f"sim:w{i}", abs(p[2])))
            out.append(("L", f"sim:e{i}", abs(p[3])))
        if d.hasattr("const_width"):
            out.append(("L", "sim:const_width", abs(float(d.const_width))))
        _thick(e, fr, out)
    elif t == "POLYLINE":
        if e.is_2d_polyline:
            fr = _frame(e)
            z = float(v3(d.elevation)[2]) if d.hasattr("elevation") else None
            pts = []
            for v in e.vertices:
                loc = v3(v.dxf.location)
                pts.append((loc[0], loc[1], float(v.dxf.get("bulge", 0.0)), loc[2]))
            zz = z if z is not None else (pts[0][3] if pts else 0.0)
            _poly_prims(out, fr, [(p[0], p[1], p[2]) for p in pts], zz, e.is_closed)
            for i, v in enumerate(e.vertices):
                out.append(("L", f"sim:w{i}", abs(float(v.dxf.get("start_width", 0.0)))))
                out.append(("L", f"sim:e{i}", abs(float(v.dxf.get("end_width", 0.0)))))
            _thick(e, fr, out)
        else:
            for i, v in enumerate(e.vertices):
                if not v.is_face_record:
                    out.append(("P", f"v{i}", v3(v.dxf.location)))
    elif t in ("SOLID", "TRACE"):
        fr = _frame(e)
        for name in ("vtx0", "vtx1", "vtx2", "vtx3"):
            if d.hasattr(name):
                out.append(("P", name, to_wcs(fr, v3(d.get(name)))))
        _thick(e, fr, out)
    elif t == "3DFACE":
        for name in ("vtx0", "vtx1", "vtx2", "vtx3"):
            if d.hasattr(name):
                out.append(("P", name, v3(d.get(name))))
    elif t == "SPLINE":
        for i, p in enumerate(e.control_points):
            out.append(("P", f"cp{i}", v3(p)))
        for i, p in enumerate(e.fit_points):
            out.append(("P", f"fit{i}", v3(p)))
        out.append(("N", "weights", tuple(float(w) for w in e.weights)))
        out.append(("N", "knots", tuple(float(k) for k in e.knots)))
        for name in ("start_tangent", "end_tangent"):
            if d.hasattr(name):
                out.append(("V", name, v3(d.get(name))))
    elif t in ("HATCH", "MPOLYGON"):
        fr = _frame(e)
        z = float(v3(d.elevation)[2])
        for j, p in enumerate(e.paths):
            if hasattr(p, "vertices") and not hasattr(p, "edges"):
                _poly_prims(out, fr, [(float(x), float(y), float(b)) for x, y, b in p.vertices], z, bool(p.is_closed), prefix=f"p{j}.")
            else:
                for i, ed in enumerate(p.edges):
                    lab = f"p{j}.e{i}."
                    kind = type(ed).__name__
                    if kind == "LineEdge":
                        out += [("P", lab + "s", to_wcs(fr, (ed.start[0], ed.start[1], z))), ("P", lab + "e", to_wcs(fr, (ed.end[0], ed.end[1], z)))]
                    elif kind == "ArcEdge":
                        out.append(arc_prim(lab + "arc", fr, (ed.center[0], ed.center[1]), z, abs(ed.radius),
                                            math.radians(ed.start_angle), math.radians(ed.end_angle)))
                    elif kind == "EllipseEdge":
                        mj = (ed.major_axis[0], ed.major_axis[1])
                        mn = (-mj[1] * ed.ratio, mj[0] * ed.ratio)
                        # the stored values are real angles (ezdxf's reading of group codes 50/51); own conversion to the
                        # ellipse parameter: tan(param) = tan(angle) / ratio, same quadrant
                        def par(deg):
                            a_ = math.radians(deg % 360.0)
                            return math.atan2(math.sin(a_) / ed.ratio, math.cos(a_)) % TAU
                        t0, t1 = ccw_range(par(ed.start_angle), par(ed.end_angle))
                        out.append(("A", lab + "arc", to_wcs(fr, (ed.center[0], ed.center[1], z)), to_wcs(fr, (mj[0], mj[1], 0.0)),
                                    to_wcs(fr, (mn[0], mn[1], 0.0)), t0, t1))
                    elif kind == "SplineEdge":
                        for k_, q in enumerate(ed.control_points):
                            out.append(("P", lab + f"cp{k_}", to_wcs(fr, (q[0], q[1], z))))
                        for k_, q in enumerate(ed.fit_points):
                            out.append(("P", lab + f"fit{k_}", to_wcs(fr, (q[0], q[1], z))))
                        # tangents are directions in the OCS plane (no elevation)
                        if ed.start_tangent is not None:
                            out.append(("V", lab + "start_tangent", to_wcs(fr, (ed.start_tangent[0], ed.start_tangent[1], 0.0))))
                        if ed.end_tangent is not None:
                            out.append(("V", lab + "end_tangent", to_wcs(fr, (ed.end_tangent[0], ed.end_tangent[1], 0.0))))
    elif t in ("TEXT", "ATTRIB", "ATTDEF"):
        _text_prims(e, out)
    elif t == "MTEXT":
        n = vnorm(v3(d.extrusion)) if d.hasattr("extrusion") else (0.0, 0.0, 1.0)
        out.append(("P", "insert", v3(d.insert)))
        if d.hasattr("text_direction"):
            td = v3(d.text_direction)
        else:
            fr = ocs_axes(n)
            rot = math.radians(d.get("rotation", 0.0))
            td = vadd(vmul(fr[0], math.cos(rot)), vmul(fr[1], math.sin(rot)))
        out.append(("D", "baseline", td))
        out.append(("D", "sim:up", vcross(n, td)))
        out.append(("L", "sim:char_height", float(d.char_height)))
        if d.hasattr("width"):
            out.append(("L", "sim:width", float(d.width)))
    elif t == "INSERT":
        A, org = insert_matrix(e, base)
        out += [("P", "origin", org), ("V", "ex", A[0]), ("V", "ey", A[1]), ("V", "ez", A[2])]
        nr, nc = d.get("row_count", 1), d.get("column_count", 1)
        if nr > 1 or nc > 1:
            fr = _frame(e)
            rot = math.radians(d.get("rotation", 0.0))
            c, s = math.cos(rot), math.sin(rot)
            out.append(("N", "grid", (nr, nc)))
            if nc > 1:
                out.append(("V", "colstep", vmul(vadd(vmul(fr[0], c), vmul(fr[1], s)), float(d.get("column_spacing", 0.0)))))
            if nr > 1:
                out.append(("V", "rowstep", vmul(vadd(vmul(fr[0], -s), vmul(fr[1], c)), float(d.get("row_spacing", 0.0)))))
        for i, at in enumerate(e.attribs):
            _text_prims(at, out, prefix=f"attrib{i}.")
    elif t == "LEADER":
        for i, p in enumerate(e.vertices):
            out.append(("P", f"v{i}", v3(p)))
    elif t == "MLINE":
        for i, v in enumerate(e.vertices):
            out.append(("P", f"v{i}", v3(v.location)))
        # the rendered element lines (offset by scale_factor x style offsets): they follow every similarity; a non-uniform
        # scaling cannot be represented by the single scale factor (documented), so these are `sim:` aspects
        k = 0
        for x in e.virtual_entities():
            if x.dxftype() == "LINE":
                out.append(("P", f"sim:el{k}s", v3(x.dxf.start)))
                out.append(("P", f"sim:el{k}e", v3(x.dxf.end)))
                k += 1
    elif t == "MESH":
        for i, p in enumerate(e.vertices):
            out.append(("P", f"v{i}", v3(p)))
    elif t == "IMAGE":
        out += [("P", "insert", v3(d.insert)), ("V", "u", v3(d.u_pixel)), ("V", "v", v3(d.v_pixel))]
    elif t in ("XLINE", "RAY"):
        out += [("P", "start", v3(d.start)), ("D", "dir", v3(d.unit_vector)), ("N", "unit", round(vlen(v3(d.unit_vector)), 9))]
    elif t == "HELIX":
        for i, p in enumerate(e.control_points):
            out.append(("P", f"cp{i}", v3(p)))
        out += [("P", "axis_base_point", v3(d.axis_base_point)), ("P", "start_point", v3(d.start_point)),
                ("V", "axis_vector", v3(d.axis_vector)), ("L", "sim:radius", float(d.radius))]
    elif t == "SHAPE":
        out += [("P", "insert", v3(d.insert)), ("L", "sim:size", float(d.size))]
    elif t == "TOLERANCE":
        out += [("P", "insert", v3(d.insert)), ("V", "x_axis_vector", v3(d.x_axis_vector))]
    elif t == "LIGHT":
        out += [("P", "location", v3(d.location)), ("P", "target", v3(d.target))]
    elif t in ACIS_TYPES:
        # the world placement of the (opaque) ACIS geometry is the pending matrix: local frame -> WCS
        tm = e.temporary_transformation().get_matrix()
        A, org = IDENT if tm is None else from16(tm)
        out += [("P", "origin", org), ("V", "ex", A[0]), ("V", "ey", A[1]), ("V", "ez", A[2])]
    elif t == "DIMENSION":
        fr = _frame(e)
        for name in ("defpoint", "defpoint2", "defpoint3"):
            if d.hasattr(name):
                out.append(("P", name, v3(d.get(name))))
        if d.hasattr("text_midpoint"):
            out.append(("P", "text_midpoint", to_wcs(fr, v3(d.text_midpoint))))
    else:
        raise ValueError(f"no parametrisation for {t}")
    return out


def select(prims, cl):
    """drop the primitives that the given matrix class cannot carry: 'sim:' needs a 3-D similarity, 'zp:' needs the
    extrusion direction to stay perpendicular to the entity plane"""
    out = []
    for p in prims:
        lab = p[1].split(".")[-1]
        if lab.startswith("sim:") and not cl.get("sim3"):
            continue
        if lab.startswith("zp:") and not cl.get("zperp", cl.get("sim3")):
            continue
        out.append(p)
    return out


def snapshot(e):
    """everything a failed transform must leave unchanged"""
    def norm(v):
        if hasattr(v, "xyz"):
            return tuple(v.xyz)
        if hasattr(v, "__iter__") and not isinstance(v, str):
            return tuple(norm(x) for x in v)
        return v
    out = {k: norm(v) for k, v in e.dxfattribs().items()}
    t = e.dxftype()
    if t == "LWPOLYLINE":
        out["#pts"] = [tuple(p) for p in e.lwpoints]
    elif t == "POLYLINE":
        out["#pts"] = [sorted((k, norm(v)) for k, v in x.dxfattribs().items()) for x in e.vertices]
    elif t == "INSERT":
        out["#attribs"] = [sorted((k, norm(v)) for k, v in x.dxfattribs().items()) for x in e.attribs]
    elif t in ("HATCH", "MPOLYGON"):
        out["#paths"] = repr(geom(e))
    return out


# ================================================================================================ entity generators
EXTRUSIONS = [
    (0.0, 0.0, 1.0), (0.0, 0.0, -1.0), (1.0, 0.0, 0.0), (0.0, 1.0, 0.0), (0.0, -1.0, 0.0), (-1.0, 0.0, 0.0),
    (1.0, 1.0, 1.0), (0.3, -0.4, 0.5), (1.0, 2.0, -2.0), (0.0, 3.0, 4.0),
    # both sides of the arbitrary-axis threshold 1/64 = 0.015625 (x and/or y component of the unit normal)
    (0.0155, 0.0, 1.0), (0.0158, 0.0, 1.0), (0.0, 0.0155, -1.0), (0.0, -0.0158, 1.0), (0.0155, 0.0155, 1.0), (0.0157, 0.0155, -1.0),
    (0.01, -0.01, 1.0), (0.02, 0.0, -1.0),
]


class EG:
    """seeded entity-recipe generator"""

    def __init__(self, rng):
        self.r = rng

    def c(self, big=False):
        r = self.r
        v = r.randint(-64, 64) / 8.0
        return v * (64.0 if big and r.random() < 0.2 else 1.0)

    def p3(self):
        return [self.c(True), self.c(True), self.c()]

    def p2(self):
        return [self.c(), self.c()]

    def ext(self, default_prob=0.25):
        r = self.r
        if getattr(self, "force_tilt", False):  # genuinely tilted OCS only: neither default nor (0, 0, +-1)
            n = r.choice([x for x in EXTRUSIONS if abs(x[0]) + abs(x[1]) > 0.1])
            return list(vnorm(n))
        if r.random() < default_prob:
            return None
        n = r.choice(EXTRUSIONS)
        while near_threshold(n):
            n = r.choice(EXTRUSIONS)
        return list(vnorm(n))

    def _ocs_attribs(self, a, thickness=True):
        n = self.ext()
        if n is not None:
            a["extrusion"] = n
        if thickness and self.r.random() < 0.4:
            a["thickness"] = self.r.choice([1.0, 2.5, -1.5, 0.25])
        return a

    def line(self):
        a = {"start": self.p3(), "end": self.p3()}
        if self.r.random() < 0.4:
            a["thickness"] = self.r.choice([1.0, 2.5, -1.5, 0.0])
            n = self.ext(0.3)
            if n is not None:
                a["extrusion"] = n
        return {"t": "LINE", "a": a}

    def point(self):
        a = {"location": self.p3()}
        if self.r.random() < 0.4:
            a["thickness"] = self.r.choice([1.0, -2.0, 0.0])
            n = self.ext(0.3)
            if n is not None:
                a["extrusion"] = n
        return {"t": "POINT", "a": a}

    def circle(self):
        return {"t": "CIRCLE", "a": self._ocs_attribs({"center": self.p3(), "radius": self.r.choice([1.0, 0.5, 2.25, 10.0])})}

    def arc(self):
        r = self.r
        sa = r.choice([0.0, 30.0, 90.0, 135.0, 200.0, 315.0, -45.0, 10.5])
        span = r.choice([45.0, 90.0, 180.0, 270.0, 12.5, 359.0, 360.0])
        return {"t": "ARC", "a": self._ocs_attribs({"center": self.p3(), "radius": r.choice([1.0, 0.5, 2.25, 10.0]), "start_angle": sa,
                                                    "end_angle": (sa + span) % 360.0 if span != 360.0 else sa + 360.0})}

    def ellipse(self):
        r = self.r
        n = self.ext() or [0.0, 0.0, 1.0]
        fr = ocs_axes(n)
        c_, s_ = r.choice([(1.0, 0.0), (0.6, 0.8), (0.0, 1.0), (-0.8, 0.6)])
        mj = vmul(vadd(vmul(fr[0], c_), vmul(fr[1], s_)), r.choice([1.0, 2.0, 4.5]))
        t0 = r.choice([0.0, 0.5, 1.0, 3.0, 4.0])
        sp = r.choice([TAU, 1.0, math.pi, 2.5, 5.0])
        return {"t": "ELLIPSE", "a": {"center": self.p3(), "major_axis": list(mj), "ratio": r.choice([0.5, 0.25, 1.0, 0.8]), "start_param": t0,
                                      "end_param": (t0 + sp) % TAU if sp != TAU else TAU + t0 * 0.0, "extrusion": n}}

    def _polypts(self, bulges=True, widths=True):
        r = self.r
        pts = []
        for _ in range(r.randint(2, 6)):
            b = r.choice([0.0, 0.0, 0.5, -0.5, 1.0, -1.0, 2.0, -0.25, 0.125]) if bulges else 0.0
            sw, ew = (r.choice([0.0, 0.5, 1.0]), r.choice([0.0, 0.25, 1.0])) if widths and r.random() < 0.3 else (0.0, 0.0)
            p = self.p2()
            while pts and (pts[-1][:2] == p or pts[0][:2] == p):
                p = self.p2()
            pts.append(p + [sw, ew, b])
        return pts

    def lwpolyline(self, bulges=None):
        r = self.r
        bulges = r.random() < 0.6 if bulges is None else bulges
        a = self._ocs_attribs({})
        if r.random() < 0.5:
            a["elevation"] = r.choice([1.0, -2.5, 4.0])
        if r.random() < 0.2:
            a["const_width"] = r.choice([0.5, 2.0])
        return {"t": "LWPOLYLINE", "a": a, "pts": self._polypts(bulges), "closed": r.random() < 0.4}

    def polyline2d(self, bulges=None):
        r = self.r
        bulges = r.random() < 0.6 if bulges is None else bulges
        a = self._ocs_attribs({})
        if r.random() < 0.5:
            a["elevation"] = [0.0, 0.0, r.choice([1.0, -2.5, 4.0])]
        return {"t": "POLYLINE2D", "a": a, "pts": self._polypts(bulges), "closed": r.random() < 0.4}

    def polyline3d(self):
        return {"t": "POLYLINE3D", "a": {}, "pts": [self.p3() for _ in range(self.r.randint(2, 5))], "closed": self.r.random() < 0.3}

    def polymesh(self):
        return {"t": "POLYMESH", "a": {}, "size": [2, 3], "pts": [self.p3() for _ in range(6)]}

    def polyface(self):
        return {"t": "POLYFACE", "a": {}, "faces": [[self.p3() for _ in range(self.r.choice([3, 4]))] for _ in range(2)]}

    def spline(self):
        r = self.r
        n = r.randint(4, 7)
        rc = {"t": "SPLINE", "a": {}, "cps": [self.p3() for _ in range(n)], "degree": r.choice([2, 3])}
        if r.random() < 0.3:
            rc["weights"] = [r.choice([1.0, 2.0, 0.5]) for _ in range(n)]
        if r.random() < 0.3:
            rc["fit"] = [self.p3() for _ in range(3)]
        if r.random() < 0.3:
            rc["a"]["start_tangent"] = self.p3()
            rc["a"]["end_tangent"] = self.p3()
        return rc

    def hatch(self, t="HATCH"):
        r = self.r
        a = {}
        n = self.ext()
        if n is not None:
            a["extrusion"] = n
        if r.random() < 0.5:
            a["elevation"] = [0.0, 0.0, r.choice([1.0, -2.0])]
        paths = []
        for _ in range(r.randint(1, 2)):
            if r.random() < 0.5 or t == "MPOLYGON":
                paths.append({"k": "poly", "pts": [p[:2] + [p[4]] for p in self._polypts(r.random() < 0.6, False)], "closed": True})
            else:
                edges = []
                for _ in range(r.randint(1, 3)):
                    k = r.choice(["line", "arc", "ellipse", "spline"])
                    if k == "line":
                        edges.append(["line", self.p2(), self.p2()])
                    elif k == "arc":
                        sa = r.choice([0.0, 30.0, 90.0, 200.0])
                        edges.append(["arc", self.p2(), r.choice([1.0, 2.5]), sa, sa + r.choice([45.0, 90.0, 180.0, 270.0, 360.0]), r.random() < 0.7])
                    elif k == "ellipse":
                        sa = r.choice([0.0, 30.0, 90.0, 200.0])
                        edges.append(["ellipse", self.p2(), r.choice([[2.0, 0.0], [1.5, 2.0], [0.0, 3.0]]), r.choice([0.5, 0.25]), sa,
                                      sa + r.choice([45.0, 90.0, 180.0, 270.0, 360.0]), r.random() < 0.7])
                    else:
                        ed = ["spline", [self.p2() for _ in range(r.randint(4, 6))]]
                        if r.random() < 0.5:
                            ed.append([self.p2(), self.p2()] if r.random() < 0.7 else None)
                            ed.append([self.p2() for _ in range(3)] if r.random() < 0.5 else None)
                        edges.append(ed)
                paths.append({"k": "edge", "edges": edges})
        return {"t": t, "a": a, "paths": paths}

    def solid(self, t="SOLID"):
        a = {f"vtx{i}": self.p3()[:2] + [0.0] for i in range(4)}
        z = self.r.choice([0.0, 1.5])
        for k in a:
            a[k][2] = z
        return {"t": t, "a": self._ocs_attribs(a)}

    def face3d(self):
        return {"t": "3DFACE", "a": {f"vtx{i}": self.p3() for i in range(4)}}

    def text(self, t="TEXT"):
        r = self.r
        a = {"insert": self.p3(), "height": r.choice([1.0, 2.5, 0.25]), "rotation": r.choice([0.0, 30.0, 90.0, 180.0, -45.0, 200.0]), "text": "Abc"}
        if r.random() < 0.3:
            a["width"] = r.choice([0.5, 2.0])
        if r.random() < 0.3:
            a["oblique"] = r.choice([15.0, -10.0])
        if r.random() < 0.3:
            a["halign"] = r.choice([1, 2, 4])
            a["align_point"] = self.p3()[:2] + [a["insert"][2]]
        if t == "ATTDEF":
            a["tag"] = "TAG"
        return {"t": t, "a": self._ocs_attribs(a)}

    def mtext(self):
        r = self.r
        a = {"insert": self.p3(), "char_height": r.choice([1.0, 2.5, 0.25]), "text": "Line1\\PLine2", "width": r.choice([0.0, 10.0])}
        n = self.ext()
        if n is not None:
            a["extrusion"] = n
        if r.random() < 0.5:
            a["rotation"] = r.choice([0.0, 30.0, 90.0, -45.0])
        else:
            fr = ocs_axes(n or (0.0, 0.0, 1.0))
            c_, s_ = r.choice([(1.0, 0.0), (0.6, 0.8), (0.0, 1.0), (-0.8, -0.6)])
            a["text_direction"] = list(vadd(vmul(fr[0], c_), vmul(fr[1], s_)))
        return {"t": "MTEXT", "a": a}

    def insert_attribs(self):
        r = self.r
        a = {"xscale": 1.0, "yscale": 1.0, "zscale": 1.0}
        c = r.random()
        if c < 0.3:
            k = r.choice([2.0, 0.5, -1.0, 3.0])
            a.update(xscale=k, yscale=k, zscale=k)
        elif c < 0.6:
            a.update(xscale=r.choice([2.0, -1.0, 0.5, 1.0]), yscale=r.choice([1.0, 3.0, -2.0]), zscale=r.choice([1.0, 1.0, 2.0, -1.0]))
        a["rotation"] = r.choice([0.0, 0.0, 90.0, 30.0, 180.0, -45.0, 270.0, 53.13010235415598])
        n = self.ext(0.4)
        if n is not None:
            a["extrusion"] = n
        return a

    def insert(self, name="LEAF", attribs=False, grid=False):
        r = self.r
        a = self.insert_attribs()
        if grid:
            a.update(row_count=r.choice([1, 2]), column_count=r.choice([2, 3]), row_spacing=r.choice([3.0, 5.0]), column_spacing=r.choice([4.0, 2.5]))
        rc = {"t": "INSERT", "name": name, "insert": self.p3(), "a": a}
        if attribs:
            at = self.text("ATTRIB")
            rc["attribs"] = [{"tag": "T1", "text": "v", "insert": at["a"].pop("insert"),
                              "a": {k: v for k, v in at["a"].items() if k in ("height", "rotation", "extrusion")}}]
        return rc

    def leader(self):
        return {"t": "LEADER", "a": {}, "pts": [self.p3() for _ in range(self.r.randint(2, 4))]}

    def mline(self):
        z = self.c()
        x = self.c()
        pts = []
        for _ in range(self.r.randint(2, 4)):  # strictly increasing x: no 180 degree turns (MLINE cannot mitre them)
            x += self.r.choice([0.5, 1.0, 3.25])
            pts.append([x, self.c(), z])
        a = {}
        if self.r.random() < 0.6:
            a["scale_factor"] = self.r.choice([1.0, 1.5, 0.5, 2.0])
        if self.r.random() < 0.5:
            a["justification"] = self.r.choice([0, 1, 2])
        return {"t": "MLINE", "a": a, "pts": pts}

    def mesh(self):
        return {"t": "MESH", "a": {}, "pts": [self.p3() for _ in range(5)], "faces": [[0, 1, 2], [2, 3, 4]]}

    def image(self):
        return {"t": "IMAGE", "insert": self.p3(), "u": self.p3(), "v": self.p3()}

    def xline(self, t="XLINE"):
        d = self.r.choice([(1.0, 0.0, 0.0), (0.6, 0.8, 0.0), (0.0, -0.6, 0.8), (1.0, 2.0, 2.0)])
        return {"t": t, "a": {"start": self.p3(), "unit_vector": list(vnorm(d))}}

    def helix(self):
        return {"t": "HELIX", "a": {"axis_base_point": self.p3(), "start_point": self.p3(), "axis_vector": [0.0, 0.0, 1.0], "radius": 2.0,
                                    "turns": 3.0, "turn_height": 1.0, "degree": 3},
                "cps": [self.p3() for _ in range(5)], "knots": [0, 0, 0, 0, 1, 2, 2, 2, 2]}

    def shape(self):
        return {"t": "SHAPE", "a": self._ocs_attribs({"insert": self.p3(), "size": 2.0, "name": "S", "rotation": 30.0}, thickness=False)}

    def tolerance(self):
        return {"t": "TOLERANCE", "a": {"insert": self.p3(), "x_axis_vector": [0.6, 0.8, 0.0], "content": "x"}}

    def light(self):
        return {"t": "LIGHT", "a": {"location": self.p3(), "target": self.p3(), "name": "L"}}

    def acis(self):
        return {"t": self.r.choice(ACIS_TYPES), "a": {}}

    def dimension(self):
        return {"t": "DIMENSION", "a": {}, "base": self.p2() + [0.0], "p1": self.p2() + [0.0], "p2": self.p2() + [0.0],
                "angle": self.r.choice([0.0, 30.0, 90.0])}


# which matrices each class accepts (the documented contract):
#   "affine"  every invertible matrix           "plane" needs a similarity in the entity plane (else NonUniformScalingError)
#   "frame"   needs orthogonal images of the INSERT axes (else InsertTransformationError)
ACCEPTS = {"CIRCLE": "plane", "ARC": "plane", "INSERT": "frame"}


def accepts(rc):
    t = rc["t"]
    if t in ("LWPOLYLINE", "POLYLINE2D"):
        return "plane" if any(p[4] for p in rc["pts"]) else "affine"
    return ACCEPTS.get(t, "affine")


def recipe_extrusion(rc):
    return tuple(rc.get("a", {}).get("extrusion", (0.0, 0.0, 1.0)))


# ================================================================================================ curve pieces
def pieces(prims):
    """type-independent curve form of a primitive list: [("SEG", p, q) | ("A", ...) | ("P", p)]; a polyline and its
    exploded LINE/ARC/ELLIPSE parts have the same pieces"""
    groups, order = {}, []
    for p in prims:
        lab = p[1]
        pre, _, name = lab.rpartition(".")
        if name.startswith(("sim:", "zp:")) or p[0] in ("L", "V", "D"):
            continue
        if pre not in groups:
            groups[pre] = {"v": {}, "arc": {}, "other": [], "closed": False}
            order.append(pre)
        g = groups[pre]
        m = re.fullmatch(r"v(\d+)", name)
        if p[0] == "P" and m:
            g["v"][int(m.group(1))] = p[2]
        elif p[0] == "A" and re.fullmatch(r"arc(\d+)", name):
            g["arc"][int(name[3:])] = p
        elif p[0] == "N" and name == "closed":
            g["closed"] = p[2]
        elif p[0] == "N":
            continue
        else:
            g["other"].append(p)
    out = []
    for pre in order:
        g = groups[pre]
        n = len(g["v"])
        for i in range(n if g["closed"] else max(n - 1, 0)):
            out.append(g["arc"][i] if i in g["arc"] else ("SEG", g["v"][i], g["v"][(i + 1) % n]))
        pend = None
        for p in g["other"]:
            name = p[1].rpartition(".")[2]
            if p[0] == "P" and name in ("start", "s"):
                pend = p[2]
            elif p[0] == "P" and name in ("end", "e") and pend is not None:
                out.append(("SEG", pend, p[2]))
                pend = None
            elif p[0] == "A":
                out.append(p)
            else:
                out.append(("P", p[2]))
    return out


def map_piece(p, m):
    if p[0] == "SEG":
        return ("SEG", m_apply(m, p[1]), m_apply(m, p[2]))
    if p[0] == "P":
        return ("P", m_apply(m, p[1]))
    return map_prim(p, m)


def cmp_pieces(want, got, tol=1e-9, ordered=True):
    if not ordered:  # entities created by explode() may be stored in another order: match as multisets
        if sorted(p[0] for p in want) != sorted(p[0] for p in got):
            return f"curve structure differs: expected {sorted(p[0] for p in want)} got {sorted(p[0] for p in got)}"
        rest = list(got)
        for i, w in enumerate(want):
            j = next((j for j, g in enumerate(rest) if g[0] == w[0] and cmp_pieces([w], [g], tol) is None), None)
            if j is None:
                return f"piece {i} {w[0]} has no counterpart: " + str(cmp_pieces([w], [next(g for g in rest if g[0] == w[0])], tol))
            rest.pop(j)
        return None
    if [p[0] for p in want] != [p[0] for p in got]:
        return f"curve structure differs: expected {[p[0] for p in want]} got {[p[0] for p in got]}"
    sc = 1.0
    for p in want + got:
        for q in (p[1:3] if p[0] == "SEG" else [p[1]] if p[0] == "P" else [p[2]]):
            sc = max(sc, max(abs(c) for c in q))
    for i, (w, g) in enumerate(zip(want, got)):
        if w[0] == "SEG":
            d1 = max(vlen(vsub(w[1], g[1])), vlen(vsub(w[2], g[2])))
            d2 = max(vlen(vsub(w[1], g[2])), vlen(vsub(w[2], g[1])))
            if min(d1, d2) > tol * sc:
                return f"segment {i}: expected {fmt(w[1])}-{fmt(w[2])} got {fmt(g[1])}-{fmt(g[2])}"
        elif w[0] == "P":
            if vlen(vsub(w[1], g[1])) > tol * sc:
                return f"point {i}: expected {fmt(w[1])} got {fmt(g[1])}"
        elif not arc_equiv(w, g, max(tol, CURVE_TOL)):
            return (f"curve {i}: expected c={fmt(w[2])} u={fmt(w[3])} v={fmt(w[4])} t=[{w[5]:.6g},{w[6]:.6g}] "
                    f"got c={fmt(g[2])} u={fmt(g[3])} v={fmt(g[4])} t=[{g[5]:.6g},{g[6]:.6g}]")
    return None


# ================================================================================================ oracle: single entities
def _hash(obj) -> str:
    import hashlib
    return hashlib.blake2b(json.dumps(obj, sort_keys=True, default=str).encode(), digest_size=5).hexdigest()


class World:
    """one document used by a stream; every case gets its own block layout"""

    def __init__(self):
        import ezdxf
        self.doc = ezdxf.new("R2010")
        self.n = 0
        leaf = self.doc.blocks.new("LEAF", base_point=(1.0, 0.5, 0.0))
        leaf.add_line((0, 0, 0), (1, 0, 0))
        leaf.add_circle((0, 1, 0), 0.5)

    def layout(self):
        self.n += 1
        return self.doc.blocks.new(f"C12_{self.n}")

    def base_of(self, name):
        return v3(self.doc.blocks.get(name).block.dxf.base_point)


def frame_ok(e, m, base):
    """the images of the three INSERT axes stay mutually orthogonal (the INSERT can represent the result)"""
    A, _ = insert_matrix(e, base)
    r = [m_dir(m, a) for a in A]
    return all(abs(vdot(r[i], r[j])) <= 1e-9 * vlen(r[i]) * vlen(r[j]) for i, j in ((0, 1), (0, 2), (1, 2)))


def frame_band(e, m, base):
    A, _ = insert_matrix(e, base)
    r = [m_dir(m, a) for a in A]
    return any(1e-12 < abs(vdot(r[i], r[j])) / (vlen(r[i]) * vlen(r[j])) < 1e-6 for i, j in ((0, 1), (0, 2), (1, 2)))


def cause_of(rc, cl, aspect, exc=None):
    t = rc["t"]
    a = rc.get("a", {})
    if t in ("LINE", "POINT") and "thickness" in a:
        if a["thickness"] == 0 and exc == "ZeroDivisionError":
            return "zero-thickness"
        if a["thickness"] < 0 and aspect in ("geometry",):
            return "neg-thickness"
    if t == "INSERT" and a.get("rotation", 0.0) % 360.0 != 0.0 and cl.get("plane") != "sim":
        return "insert-rotated-axes"
    if t == "MLINE" and not cl.get("sim3") and aspect == "geometry":
        return "mline-nonuniform"
    if t == "MLINE" and cl.get("sim3") and aspect == "geometry":
        return "mline-scale-factor"
    if t == "DIMENSION" and exc == "InsertTransformationError":
        return "dimension-block-content"
    if t in ("HATCH", "MPOLYGON") and cl.get("plane") == "nonuni" and aspect == "geometry":
        return "hatch-ellipse-edge"
    if t == "SHAPE" and exc == "DXFAttributeError":
        return "shape-attr"
    if t in ("TEXT", "ATTDEF", "ATTRIB") and aspect == "geometry" and not cl.get("sim3") and a.get("oblique"):
        return "text-oblique-height"
    if cl.get("plane") == "shear" and (accepts(rc) == "plane" or t in ("HATCH", "MPOLYGON", "TEXT", "ATTDEF", "MTEXT", "SHAPE")):
        return "plane-shear"
    return "general"


# the convenience interface of DXFGraphic: every method must act as transform(<the corresponding Matrix44>); `translate` is
# overridden by several classes with a fast path that never builds a matrix
CONV_API = ("translate", "scale", "scale_uniform", "rotate_axis", "rotate_x", "rotate_y", "rotate_z")


# the module level convenience functions of ezdxf.transform (each = inplace(entities, <the corresponding Matrix44>))
XT_API = ("xt.translate", "xt.scale", "xt.scale_uniform", "xt.axis_rotate", "xt.x_rotate", "xt.y_rotate", "xt.z_rotate")
_XT2CONV = {"xt.translate": "translate", "xt.scale": "scale", "xt.scale_uniform": "scale_uniform", "xt.axis_rotate": "rotate_axis",
            "xt.x_rotate": "rotate_x", "xt.y_rotate": "rotate_y", "xt.z_rotate": "rotate_z"}


def xt_call(xt, e, api, mr):
    from ezdxf.math import Vec3
    f = mr[0]
    if api == "xt.translate":
        return xt.translate([e], Vec3(f[1], f[2], f[3]))
    if api == "xt.scale":
        return xt.scale([e], f[1], f[2], f[3])
    if api == "xt.scale_uniform":
        return xt.scale_uniform([e], f[1])
    angle = math.atan2(f[5], f[4])
    if api == "xt.axis_rotate":
        return xt.axis_rotate([e], Vec3(f[1], f[2], f[3]), angle)
    return getattr(xt, api[3:])([e], angle)


def conv_recipe(mg, api):
    api = _XT2CONV.get(api, api)
    """single-factor matrix recipe (own algebra) for one call of the convenience interface"""
    r = mg.r
    if api == "translate":
        return [["T"] + [r.choice([1.0, -2.5, 7.25, 100.0, -0.125, 3.0]) for _ in range(3)]]
    if api == "scale":
        return [r.choice([mg.Su(), mg.Sn(), mg.Mi(), mg.Sn()])]
    if api == "scale_uniform":
        k = r.choice([2.0, 0.5, 3.0, -1.0, -2.0])
        return [["S", k, k, k]]
    c, s_ = mg.cs()
    axis = {"rotate_x": (1.0, 0.0, 0.0), "rotate_y": (0.0, 1.0, 0.0), "rotate_z": (0.0, 0.0, 1.0)}.get(api) or mg.axis()
    return [["R", *axis, c, s_]]


def conv_call(e, api, mr):
    from ezdxf.math import Vec3
    f = mr[0]
    if api == "translate":
        return e.translate(f[1], f[2], f[3])
    if api == "scale":
        return e.scale(f[1], f[2], f[3])
    if api == "scale_uniform":
        return e.scale_uniform(f[1])
    angle = math.atan2(f[5], f[4])
    if api == "rotate_axis":
        return e.rotate_axis(Vec3(f[1], f[2], f[3]), angle)
    return getattr(e, api)(angle)


def run_minsert_attrib_case(world, rc, fails, stats):
    """MINSERT with attached ATTRIBs: every grid element yielded by multi_insert() carries the attributes moved by the WCS offset
    of its cell (the path is Insert.multi_insert -> attrib.dxf.insert += offset / Text.translate)"""
    lay = world.layout()
    e = build(lay, rc)
    base = world.base_of(rc["name"])
    rep = {"op": "minsert-attribs", "entity": rc}
    fr = _frame(e)
    offs = grid_cells(e)
    stats[f"cells:{len(offs)}"] = stats.get(f"cells:{len(offs)}", 0) + 1

    def fail(aspect, what):
        fails.append((f"general/multi_insert/INSERT/{aspect}/{_hash(rep)}", f"MINSERT multi_insert() {json.dumps(rc)[:300]}: {what}", rep))
    before = geom(e, base)
    try:
        cells = list(e.multi_insert())
    except Exception as x:  # noqa
        return fail("raises", f"{type(x).__name__}: {x}")
    if len(cells) != len(offs):
        return fail("structure", f"{len(cells)} grid elements, expected {len(offs)}")
    cl = {"sim3": True, "zperp": True, "k": 1.0}
    for k, (cell, off) in enumerate(zip(cells, offs)):
        mt = m_translate(to_wcs(fr, off))
        want = [map_prim(p, mt, 1.0) for p in before if p[1] != "grid" and not p[1].endswith("step")]
        got = [p for p in geom(cell, base)]
        d = cmp_prims(want, got)
        if d:
            return fail("geometry", f"grid element {k} (OCS offset {fmt(off)}): {d}")
    # explode(): every grid element is exploded, its ATTRIBs become TEXT entities at the same place (block LEAF holds no TEXT)
    nat = len(e.attribs)
    try:
        texts = [x for x in e.explode() if x.dxftype() == "TEXT"]
    except Exception as x:  # noqa
        return fail("explode-raises", f"{type(x).__name__}: {x}")
    if len(texts) != nat * len(offs):
        return fail("explode-structure", f"{len(texts)} TEXT entities from {nat} attribs x {len(offs)} grid elements")
    for k, off in enumerate(offs):
        mt = m_translate(to_wcs(fr, off))
        for j in range(nat):
            pre = f"attrib{j}."
            want = [map_prim((p[0], p[1][len(pre):]) + tuple(p[2:]), mt, 1.0) for p in before if p[1].startswith(pre)]
            out_ = []
            _text_prims(texts[k * nat + j], out_)
            d = cmp_prims(want, out_)
            if d:
                return fail("explode-geometry", f"TEXT of attrib {j} in grid element {k}: {d}")


def run_entity_case(world, rc, mr, api, fails, stats):
    """one entity x one matrix x one API; appends (key, what, replay) to fails"""
    from ezdxf.math import Matrix44, NonUniformScalingError, InsertTransformationError
    import ezdxf.transform as xt

    lay = world.layout()
    e = build(lay, rc)
    base = world.base_of(rc["name"]) if rc["t"] == "INSERT" else (0.0, 0.0, 0.0)
    m = build_matrix(mr)
    n = v3(e.dxf.extrusion) if e.dxf.hasattr("extrusion") or e.dxf.is_supported("extrusion") else (0.0, 0.0, 1.0)
    cl = classify(m, n)
    if cl.get("plane") == "band" or abs(cl["det"]) < 1e-9:
        stats["band"] = stats.get("band", 0) + 1
        return
    acc = accepts(rc)
    if acc == "frame":
        if frame_band(e, m, base):
            stats["band"] = stats.get("band", 0) + 1
            return
        representable = frame_ok(e, m, base)
        doc_err = "InsertTransformationError"
    elif acc == "plane":
        representable = cl["plane"] == "sim"
        doc_err = "NonUniformScalingError"
    else:
        representable, doc_err = True, None
    before = geom(e, base)
    snap = snapshot(e)
    M = Matrix44(mat16(m))
    mclass = f"{cl.get('plane', '-')}:{'sim' if cl['sim3'] else 'aff'}{'-' if cl['det'] < 0 else '+'}"
    stats[f"{api}:{rc['t']}:{mclass}:{'rep' if representable else 'norep'}"] = stats.get(f"{api}:{rc['t']}:{mclass}:{'rep' if representable else 'norep'}", 0) + 1
    rep = {"op": "entity", "api": api, "entity": rc, "matrix": mr}

    def fail(aspect, what, exc=None):
        cause = cause_of(rc, cl, aspect, exc)
        if rc["t"] == "INSERT" and aspect == "geometry" and what.startswith(("colstep", "rowstep")):
            cause = "minsert-spacing"
        if cause == "hatch-ellipse-edge" and not what.startswith("curve"):
            cause = "general"  # the listed finding concerns elliptic edges only: wrong points / segments are something else
        fails.append((f"{cause}/{api}/{rc['t']}/{aspect}/{mclass}/{_hash(rep)}", f"{rc['t']} {api}({json.dumps(mr)}): {what}", rep))

    want_full = [map_prim(p, m, cl["k"]) for p in select(before, cl)]
    want_pieces = [map_piece(p, m) for p in pieces(before)]
    use_pieces = rc["t"] in ("HATCH", "MPOLYGON")
    if api == "transform" or api in CONV_API:
        try:
            if api == "transform":
                e.transform(M)
            else:
                conv_call(e, api, mr)
            err = None
        except (NonUniformScalingError, InsertTransformationError) as x:
            err = type(x).__name__
        except Exception as x:  # noqa: any other exception is a violation
            return fail("raises", f"raised {type(x).__name__}: {x}", type(x).__name__)
        if representable:
            if err:
                return fail("raises", f"raised {err} although the entity can represent the result", err)
            got = geom(e, base)
            d = cmp_pieces(want_pieces, pieces(got)) if use_pieces else cmp_prims(want_full, select(got, cl))
            if d:
                return fail("geometry", d)
            if use_pieces:  # direction-valued data of boundary paths (spline edge tangents) is not part of the curve pieces
                d = cmp_prims([p for p in want_full if p[0] == "V"], [p for p in select(got, cl) if p[0] == "V"])
                if d:
                    return fail("geometry", d)
        else:
            if err is None:
                return fail("no-error", f"accepted a matrix the {rc['t']} cannot represent (expected {doc_err}); result " +
                            str(cmp_pieces(want_pieces, pieces(geom(e, base)))))
            if err != doc_err:
                return fail("raises", f"raised {err}, documented error is {doc_err}")
            if snapshot(e) != snap:
                return fail("changed-after-error", f"{err} raised but the entity was modified")
        return
    try:
        if api == "inplace":
            log = xt.inplace([e], M)
            ents = list(lay)
        elif api in XT_API:
            log = xt_call(xt, e, api, mr)
            ents = list(lay)
        else:
            log, ents = xt.copies([e], M)
    except Exception as x:  # noqa: both functions are documented not to raise
        return fail("raises", f"raised {type(x).__name__}: {x}", type(x).__name__)
    if api == "inplace" or api in XT_API:
        msgs = [str(x.error.name) for x in log]
    else:
        msgs = [str(x.error.name) for x in log]
        if snapshot(e) != snap or geom(e, base) != before:
            return fail("source-modified", "copies() modified the source entity")
    if acc == "frame" and not representable:
        if "INSERT_TRANSFORMATION_ERROR" not in msgs:
            return fail("no-error", f"log {msgs} lacks INSERT_TRANSFORMATION_ERROR for a non-representable INSERT")
        if (api == "inplace" or api in XT_API) and snapshot(e) != snap:
            return fail("changed-after-error", "INSERT modified although the error was logged")
        return
    if msgs:
        return fail("raises", f"unexpected log entries {msgs}", {"INSERT_TRANSFORMATION_ERROR": "InsertTransformationError",
                    "TRANSFORMATION_NOT_SUPPORTED": "DXFAttributeError"}.get(msgs[0]))
    got = []
    for x in ents:
        got += geom(x, base)
    if len(ents) == 1 and ents[0].dxftype() == e.dxftype() and not use_pieces and representable:
        d = cmp_prims(want_full, select(got, cl))
    else:
        d = cmp_pieces(want_pieces, pieces(_relabel(got)), ordered=(len(ents) == 1))
        if not d and use_pieces and len(ents) == 1:
            d = cmp_prims([p for p in want_full if p[0] == "V"], [p for p in select(got, cl) if p[0] == "V"])
    if d:
        fail("geometry", d)


def _relabel(prims):
    """give the primitives of several entities distinct group prefixes"""
    out, k, last = [], 0, None
    for p in prims:
        name = p[1]
        if name in ("start", "location", "circle", "arc", "ellipse", "v0"):
            k += 1
        out.append((p[0], f"g{k}.{name}") + tuple(p[2:]))
    return out


# ================================================================================================ oracle: nested block references
LEAF_GENS = ["line", "circle", "arc", "ellipse", "lwpolyline", "polyline2d", "polyline3d", "solid", "face3d", "spline", "hatch", "point"]


def gen_nested(rng, depth=None, clean=False):
    """document recipe: blocks B0 (leaf geometry) .. Bd, each Bk (k >= 1) holds INSERTs of B(k-1); `clean` avoids the
    constellations of the listed findings (rotated INSERT below a non-similar parent, nested MINSERT, shear)"""
    eg = EG(rng)
    depth = depth or rng.randint(1, 4)
    blocks = []
    for k in range(depth):
        ents = []
        if k == 0 or rng.random() < 0.4:
            for _ in range(rng.randint(1, 3) if k == 0 else 1):
                rc = getattr(eg, rng.choice(LEAF_GENS))()
                if rc["t"] in ("LINE", "POINT"):
                    rc["a"].pop("thickness", None)
                    rc["a"].pop("extrusion", None)
                ents.append(rc)
        if k > 0:
            for _ in range(rng.randint(1, 2)):
                ins = eg.insert(f"B{k - 1}", grid=(not clean and rng.random() < 0.15))
                if clean:
                    ins["a"].update(_clean_insert(rng))
                ents.append(ins)
        base = [0.0, 0.0, 0.0] if rng.random() < 0.5 else eg.p3()
        blocks.append({"name": f"B{k}", "base": base, "ents": ents})
    top = eg.insert(f"B{depth - 1}", grid=(rng.random() < 0.1))
    if clean:
        top["a"].update(_clean_insert(rng, top=True))
    return {"blocks": blocks, "top": top}


def _clean_insert(rng, top=False):
    k = rng.choice([1.0, 2.0, 0.5, -1.0, 3.0])
    a = {"xscale": k, "yscale": k, "zscale": k}
    if top and rng.random() < 0.5:  # a non-uniform / mirrored reference of clean (unrotated) content
        a = {"xscale": rng.choice([2.0, -1.0, 0.5]), "yscale": rng.choice([1.0, 3.0, -2.0]), "zscale": rng.choice([1.0, 2.0])}
    return a


def build_nested(recipe):
    import ezdxf
    doc = ezdxf.new("R2010")
    for b in recipe["blocks"]:
        blk = doc.blocks.new(b["name"], base_point=tuple(b["base"]))
        for rc in b["ents"]:
            build(blk, rc)
    top = build(doc.modelspace(), recipe["top"])
    return doc, top


def grid_cells(e):
    """(row, col) offsets of a (M)INSERT in its OCS: the grid follows the rotation, not the scale factors"""
    d = e.dxf
    nr, nc = d.get("row_count", 1), d.get("column_count", 1)
    rs, cs_ = float(d.get("row_spacing", 0.0)), float(d.get("column_spacing", 0.0))
    rot = math.radians(d.get("rotation", 0.0))
    c, s = math.cos(rot), math.sin(rot)
    seen, out = set(), []
    for r_ in range(nr):
        for c_ in range(nc):
            off = (c_ * cs_, r_ * rs)
            if off in seen:
                continue
            seen.add(off)
            out.append((off[0] * c - off[1] * s, off[0] * s + off[1] * c, 0.0))
    return out


def expected_flat(doc, ins, parent, flags, depth, out):
    """own flattening: content of the referenced block mapped by (own INSERT matrix) * parent, any depth"""
    blk = doc.blocks.get(ins.dxf.name)
    base = v3(blk.block.dxf.base_point)
    fr = _frame(ins)
    A, org = insert_matrix(ins, base)
    cells = grid_cells(ins)
    fl = set(flags)
    if depth > 0:
        cl = classify(parent, v3(ins.dxf.extrusion))
        if ins.dxf.get("rotation", 0.0) % 360.0 != 0.0 and cl.get("plane") != "sim":
            fl.add("rotated-axes")
        if "fallback" in fl:
            # an ancestor could not be represented and was exploded: this reference was first placed by the ancestor's
            # matrix (acquiring a rotation in its new OCS) and is then transformed by the rest: same constellation
            fl.add("rotated-axes")
        ocs_rows = [m_dir(parent, a) for a in fr]
        unrot_ok = all(abs(vdot(ocs_rows[i], ocs_rows[j])) <= 1e-9 * vlen(ocs_rows[i]) * vlen(ocs_rows[j]) for i, j in ((0, 1), (0, 2), (1, 2)))
        if not (frame_ok(ins, parent, base) and unrot_ok):
            fl.add("fallback")
        if len(cells) > 1 and not (cl["sim3"] and abs(cl["k"] - 1.0) < 1e-12 and cl["det"] > 0):
            fl.add("minsert")
    for off in cells:
        m = m_mul((A, vadd(org, to_wcs(fr, off))), parent)
        for e in blk:
            t = e.dxftype()
            if t == "ATTDEF":
                continue
            if t == "INSERT":
                expected_flat(doc, e, m, fl, depth + 1, out)
                continue
            f2 = set(fl)
            if e.dxf.is_supported("extrusion") and t not in ("LINE", "POINT", "SPLINE", "ELLIPSE"):
                cl = classify(m, v3(e.dxf.extrusion))
                if cl.get("plane") == "shear":
                    f2.add("plane-shear")
                if cl.get("plane") == "band":
                    f2.add("band")
                if t in ("HATCH", "MPOLYGON") and cl.get("plane") == "nonuni":
                    f2.add("hatch-ellipse-edge")
            for p in pieces(geom(e)):
                out.append((map_piece(p, m), f2, t))


def actual_flat(ins, out, how="virtual"):
    cells = list(ins.multi_insert()) if ins.mcount > 1 else [ins]
    for cell in cells:
        for ve in cell.virtual_entities():
            if ve.dxftype() == "INSERT":
                actual_flat(ve, out)
            else:
                out.extend(pieces(geom(ve)))


def run_nested_case(recipe, fails, stats, how="virtual"):
    doc, top = build_nested(recipe)
    rep = {"op": "nested", "doc": recipe, "how": how}
    exp = []
    expected_flat(doc, top, IDENT, set(), 0, exp)
    if any("band" in f for _, f, _ in exp):
        stats["band"] = stats.get("band", 0) + 1
        return
    allflags = set().union(*[f for _, f, _ in exp]) if exp else set()

    def fail(cause, aspect, what):
        fails.append((f"{cause}/nested-{how}/{aspect}/{_hash(rep)}", f"nested INSERT ({how}, depth {len(recipe['blocks'])}): {what}", rep))

    def prio(fl):
        for c in ("plane-shear", "hatch-ellipse-edge", "rotated-axes", "minsert"):
            if c in fl:
                return c
        return "general"
    try:
        if how == "virtual":
            act = []
            actual_flat(top, act)
        else:
            act = []
            msp = doc.modelspace()
            todo = [top]
            while todo:
                x = todo.pop(0)
                res = list(x.explode())
                inner = [y for y in res if y.dxftype() == "INSERT"]
                if inner:  # keep depth-first order: explode nested references before continuing
                    pass
                for y in res:
                    if y.dxftype() == "INSERT":
                        sub = []
                        _explode_all(y, sub)
                        act.extend(sub)
                    else:
                        act.extend(pieces(geom(y)))
    except Exception as x:  # noqa
        return fail(prio(allflags), "raises", f"{type(x).__name__}: {x}")
    stats[f"nested-{how}:depth{len(recipe['blocks'])}:{prio(allflags)}"] = stats.get(f"nested-{how}:depth{len(recipe['blocks'])}:{prio(allflags)}", 0) + 1
    want = [p for p, _, _ in exp]
    if [p[0] for p in want] != [p[0] for p in act]:
        return fail(prio(allflags), "structure", f"expected {len(want)} pieces {[p[0] for p in want][:20]} got {len(act)} {[p[0] for p in act][:20]}")
    for i, (w, g) in enumerate(zip(want, act)):
        d = cmp_pieces([w], [g])
        if d:
            fl = set(exp[i][1])
            if w[0] != "A":  # the curve findings do not explain a wrong point or straight segment
                fl -= {"hatch-ellipse-edge", "plane-shear"}
            return fail(prio(fl), "geometry", f"piece {i} ({exp[i][2]}): {d}")


def _explode_all(ins, out):
    for y in ins.explode():
        if y.dxftype() == "INSERT":
            _explode_all(y, out)
        else:
            out.extend(pieces(geom(y)))


# ================================================================================================ oracle: upright()
UPRIGHT_TYPES = ["circle", "arc", "solid", "ellipse", "lwpolyline", "polyline2d", "hatch", "insert", "text", "mtext"]


def run_upright_case(world, rc, fails, stats):
    """upright() must never move geometry; for the supported classes with extrusion (0, 0, -1) it must also arrive at +Z"""
    from ezdxf.upright import upright
    lay = world.layout()
    e = build(lay, rc)
    base = world.base_of(rc["name"]) if rc["t"] == "INSERT" else (0.0, 0.0, 0.0)
    rep = {"op": "upright", "entity": rc}
    before = geom(e, base)
    n = v3(e.dxf.extrusion) if e.dxf.hasattr("extrusion") else (0.0, 0.0, 1.0)
    flipped = vlen(vsub(vnorm(n), (0.0, 0.0, -1.0))) < 1e-9
    stats[f"upright:{rc['t']}:{'flipped' if flipped else 'other'}"] = stats.get(f"upright:{rc['t']}:{'flipped' if flipped else 'other'}", 0) + 1

    def fail(aspect, what):
        cause = "general"
        if rc["t"] == "INSERT" and aspect == "geometry" and what.startswith(("colstep", "rowstep")):
            cause = "upright-minsert"
        if rc["t"] in ("HATCH", "MPOLYGON") and aspect == "geometry" and any(
                ed[0] == "ellipse" for p in rc["paths"] if p["k"] == "edge" for ed in p["edges"]):
            cause = "upright-hatch-ellipse-edge"
        fails.append((f"{cause}/upright/{rc['t']}/{aspect}/{_hash(rep)}", f"upright({rc['t']} extrusion {fmt(n)}): {what}", rep))
    try:
        upright(e)
    except Exception as x:  # noqa
        return fail("raises", f"{type(x).__name__}: {x}")
    after = geom(e, base)
    cl = {"sim3": True, "zperp": True, "k": 1.0}
    if rc["t"] in ("HATCH", "MPOLYGON"):
        d = cmp_pieces(pieces(before), pieces(after))
    else:
        d = cmp_prims(select(before, cl), select(after, cl))
    if d:
        return fail("geometry", d)
    supported = rc["t"] in ("CIRCLE", "ARC", "SOLID", "TRACE", "ELLIPSE", "LWPOLYLINE", "POLYLINE2D", "HATCH", "MPOLYGON", "INSERT")
    n2 = v3(e.dxf.extrusion) if e.dxf.hasattr("extrusion") else (0.0, 0.0, 1.0)
    if flipped and supported and vlen(vsub(vnorm(n2), (0.0, 0.0, 1.0))) > 1e-9:
        return fail("not-flipped", f"extrusion stays {fmt(n2)}")
    if not (flipped and supported) and vlen(vsub(n2, n)) > 0:
        return fail("extrusion-changed", f"extrusion {fmt(n)} -> {fmt(n2)} although nothing had to be flipped")


# ================================================================================================ oracle: histories
def _gen_history(mg, rc, api):
    """2..3 matrices each of which the entity (as it is at that moment) can represent"""
    r = mg.r
    acc = accepts(rc)
    n = r.choice([2, 2, 3])
    out = []
    for _ in range(n):
        if rc["t"] in ACIS_TYPES:  # pending matrix -> block reference: every matrix accumulates; similarities and axis scalings
            out.append(mg.similarity() if r.random() < 0.8 else [mg.Sn()])
        elif acc == "affine" or (api != "transform" and acc == "plane"):
            out.append(mg.similarity() if r.random() < 0.5 else mg.affine())
        else:
            out.append(mg.similarity(mirror=r.choice([None, None, True])))
    return out


def run_history_case(world, rc, mrs, api, fails, stats):
    """one entity x a HISTORY of matrices applied one after the other by one API: the final geometry must be
    m_n(...m_2(m_1(geometry))...); ACIS entities additionally: committing the pending transformation
    (apply_temporary_transformations, what Drawing.write() triggers) yields a block reference with that placement"""
    from ezdxf.math import Matrix44, NonUniformScalingError, InsertTransformationError
    import ezdxf.transform as xt

    lay = world.layout()
    e = build(lay, rc)
    t = rc["t"]
    base = world.base_of(rc["name"]) if t == "INSERT" else (0.0, 0.0, 0.0)
    ms = [build_matrix(mr) for mr in mrs]
    total = IDENT
    for m in ms:
        total = m_mul(total, m)
    n = v3(e.dxf.extrusion) if e.dxf.hasattr("extrusion") or e.dxf.is_supported("extrusion") else (0.0, 0.0, 1.0)
    cl = classify(total, n)
    steps_sim = all(classify(m)["sim3"] for m in ms)
    if abs(cl["det"]) < 1e-9 or any(abs(m_det(m)) < 1e-9 for m in ms) or (not steps_sim and cl.get("plane") == "band"):
        stats["band"] = stats.get("band", 0) + 1
        return
    if not steps_sim:  # lengths / thickness are only defined through similarities
        cl = dict(cl, sim3=False, zperp=False)
    rep = {"op": "history", "api": api, "entity": rc, "matrices": mrs}
    key = f"{api}:{t}:{len(ms)}:{'sim' if steps_sim else 'aff'}"
    stats[key] = stats.get(key, 0) + 1

    def fail(aspect, what):
        fails.append((f"history/{api}/{t}/{aspect}/{len(ms)}/{_hash(rep)}", f"{t} {api} x{len(ms)} {json.dumps(mrs)}: {what}", rep))

    before = geom(e, base)
    want_full = [map_prim(p, total, cl["k"]) for p in select(before, cl)]
    want_pieces = [map_piece(p, total) for p in pieces(before)]
    ents = [e]
    try:
        for m in ms:
            M = Matrix44(mat16(m))
            if api == "transform":
                for x in ents:
                    x.transform(M)
            elif api == "inplace":
                log = xt.inplace(list(lay), M)
                if len(log):
                    return fail("raises", f"log {[str(x.error.name) for x in log]}")
                ents = list(lay)
            else:
                log, ents = xt.copies(ents, M)
                if len(log):
                    return fail("raises", f"log {[str(x.error.name) for x in log]}")
    except (NonUniformScalingError, InsertTransformationError) as x:
        return fail("raises", f"raised {type(x).__name__} although every step is representable")
    except Exception as x:  # noqa
        return fail("raises", f"raised {type(x).__name__}: {x}")
    got = []
    for x in ents:
        got += geom(x, base)
    if len(ents) == 1 and ents[0].dxftype() == e.dxftype() and t not in ("HATCH", "MPOLYGON"):
        d = cmp_prims(want_full, select(got, cl), tol=1e-8)
    else:
        d = cmp_pieces(want_pieces, pieces(_relabel(got)), tol=1e-8, ordered=(len(ents) == 1))
    if d:
        return fail("geometry", d)
    if t in ACIS_TYPES and api != "copies":
        # commit: the entity moves into an anonymous block, referenced by an INSERT carrying the accumulated matrix
        x = ents[0]
        rows = [m_dir(total, a) for a in IDENT[0]]
        orth = all(abs(vdot(rows[i], rows[j])) <= 1e-9 * vlen(rows[i]) * vlen(rows[j]) for i, j in ((0, 1), (0, 2), (1, 2)))
        try:
            xt.apply_temporary_transformations([x])
        except Exception as ex:  # noqa
            return fail("commit-raises", f"apply_temporary_transformations raised {type(ex).__name__}: {ex}")
        refs = [y for y in lay if y.dxftype() == "INSERT"]
        if not orth:
            if refs or x.temporary_transformation().get_matrix() is None:
                return fail("commit", "a matrix that no block reference can represent was committed")
            return
        if len(refs) != 1 or x.temporary_transformation().get_matrix() is not None:
            return fail("commit", f"{len(refs)} block references after the commit, pending matrix "
                        f"{'kept' if x.temporary_transformation().get_matrix() is not None else 'cleared'}")
        blk = refs[0].block()
        if blk is None or x not in list(blk):
            return fail("commit", "the entity is not in the referenced block")
        d = cmp_prims([p for p in want_full if p[0] in "PV"], geom(refs[0]), tol=1e-8)
        if d:
            return fail("commit-geometry", d)


# ================================================================================================ corpus of fixed cases
def corpus_nested():
    line = {"t": "LINE", "a": {"start": [0.0, 0.0, 0.0], "end": [1.0, 0.0, 0.0]}}
    out = []
    # F-a: rotated INSERT below a non-uniformly scaled INSERT
    out.append({"blocks": [{"name": "B0", "base": [0.0, 0.0, 0.0], "ents": [line]},
                           {"name": "B1", "base": [0.0, 0.0, 0.0], "ents": [{"t": "INSERT", "name": "B0", "insert": [0.0, 0.0, 0.0], "a": {"rotation": 90.0}}]}],
                "top": {"t": "INSERT", "name": "B1", "insert": [0.0, 0.0, 0.0], "a": {"xscale": 2.0}}})
    # F-b: MINSERT below a scaled INSERT
    out.append({"blocks": [{"name": "B0", "base": [0.0, 0.0, 0.0], "ents": [line]},
                           {"name": "B1", "base": [0.0, 0.0, 0.0], "ents": [{"t": "INSERT", "name": "B0", "insert": [1.0, 2.0, 0.0],
                                                                              "a": {"row_count": 2, "column_count": 3, "row_spacing": 5.0, "column_spacing": 4.0}}]}],
                "top": {"t": "INSERT", "name": "B1", "insert": [0.0, 0.0, 0.0], "a": {"xscale": 2.0, "yscale": 2.0, "zscale": 2.0}}})
    # the same shapes without the defect triggers (must pass)
    out.append({"blocks": [{"name": "B0", "base": [0.0, 0.0, 0.0], "ents": [line]},
                           {"name": "B1", "base": [0.0, 0.0, 0.0], "ents": [{"t": "INSERT", "name": "B0", "insert": [0.0, 0.0, 0.0], "a": {"rotation": 90.0}}]}],
                "top": {"t": "INSERT", "name": "B1", "insert": [0.0, 0.0, 0.0], "a": {"xscale": 2.0, "yscale": 2.0, "zscale": 2.0}}})
    return out


def corpus_entities():
    q = math.sqrt(0.5)
    return [
        ({"t": "CIRCLE", "a": {"center": [0.0, 0.0, 0.0], "radius": 1.0}}, [["R", 0.0, 0.0, 1.0, q, q], ["S", 2.0, 1.0, 1.0]]),
        ({"t": "LINE", "a": {"start": [0.0, 0.0, 0.0], "end": [1.0, 0.0, 0.0], "thickness": -2.0}}, [["T", 1.0, 1.0, 1.0]]),
        ({"t": "LINE", "a": {"start": [0.0, 0.0, 0.0], "end": [1.0, 0.0, 0.0], "thickness": 0.0, "extrusion": [0.0, 0.0, 1.0]}}, [["T", 1.0, 1.0, 1.0]]),
        ({"t": "SHAPE", "a": {"insert": [1.0, 2.0, 0.0], "size": 2.0, "name": "S"}}, [["T", 1.0, 0.0, 0.0]]),
        ({"t": "HATCH", "a": {"extrusion": [1.0, 0.0, 0.0]}, "paths": [{"k": "edge", "edges": [["ellipse", [2.375, 5.5], [1.5, 2.0], 0.5, 0.0, 90.0, True]]}]},
         [["S", 1.0, -9.0, 0.5]]),
        ({"t": "MLINE", "a": {}, "pts": [[0.0, 0.0, 0.0], [4.0, 0.0, 0.0], [4.0, 3.0, 0.0]]}, [["R", 0.0, 3.0, 4.0, 0.6, 0.8], ["S", 2.0, 1.0, 1.0]]),
        ({"t": "INSERT", "name": "LEAF", "insert": [0.0, 0.0, 0.0], "a": {"rotation": 90.0}}, [["S", 2.0, 1.0, 1.0]]),
        ({"t": "INSERT", "name": "LEAF", "insert": [0.0, 0.0, 0.0], "a": {"rotation": 45.0}}, [["R", 0.0, 0.0, 1.0, q, q], ["S", 2.0, 1.0, 1.0]]),
    ]


# ================================================================================================ oracle: exact linear law
def run_exact_case(world, rc, mr, fails, stats):
    """WCS-point entities x dyadic matrices (translations, power-of-two scalings / mirrors, quarter turns): the float
    arithmetic is exact, so the new points must EQUAL m(old points) as rationals"""
    from ezdxf.math import Matrix44
    lay = world.layout()
    e = build(lay, rc)
    m = build_matrix(mr)
    A = [[Fr(x) for x in row] for row in m[0]]
    t = [Fr(x) for x in m[1]]
    before = [p for p in geom(e) if p[0] == "P"]
    rep = {"op": "exact", "entity": rc, "matrix": mr}
    stats[f"exact:{rc['t']}"] = stats.get(f"exact:{rc['t']}", 0) + 1
    try:
        e.transform(Matrix44(mat16(m)))
    except Exception as x:  # noqa
        fails.append((f"general/exact/{rc['t']}/raises/{_hash(rep)}", f"{rc['t']}.transform raised {type(x).__name__}: {x}", rep))
        return
    after = [p for p in geom(e) if p[0] == "P"]
    for b, a in zip(before, after):
        p = [Fr(c) for c in b[2]]
        want = tuple(p[0] * A[0][i] + p[1] * A[1][i] + p[2] * A[2][i] + t[i] for i in range(3))
        if tuple(Fr(c) for c in a[2]) != want or a[1] != b[1]:
            fails.append((f"general/exact/{rc['t']}/geometry/{_hash(rep)}",
                          f"{rc['t']} {b[1]}: m(p) = {tuple(float(w) for w in want)} but entity has {a[2]} (exact comparison)", rep))
            return
    if len(before) != len(after):
        fails.append((f"general/exact/{rc['t']}/structure/{_hash(rep)}", f"{rc['t']}: point count {len(before)} -> {len(after)}", rep))


def dyadic_matrix(rng):
    fs = []
    for _ in range(rng.randint(1, 4)):
        c = rng.random()
        if c < 0.35:
            fs.append(["T"] + [rng.choice([0.0, 1.0, -2.5, 7.25, 64.0, -0.125]) for _ in range(3)])
        elif c < 0.7:
            fs.append(["R", *rng.choice([(0.0, 0.0, 1.0), (1.0, 0.0, 0.0), (0.0, 1.0, 0.0)]), *rng.choice([(0.0, 1.0), (-1.0, 0.0), (0.0, -1.0)])])
        else:
            fs.append(["S"] + [rng.choice([1.0, 2.0, 0.5, -1.0, 4.0, -0.25]) for _ in range(3)])
    return fs


# ================================================================================================ oracle entry
ENTITY_GENS = ["line", "point", "circle", "arc", "ellipse", "lwpolyline", "polyline2d", "polyline3d", "polymesh", "polyface", "spline", "hatch",
               "solid", "face3d", "text", "mtext", "insert", "leader", "mline", "mesh", "image", "xline", "helix", "shape", "tolerance", "light",
               "dimension", "acis"]
EXACT_GENS = ["line", "point", "face3d", "mesh", "spline", "polyline3d", "polymesh", "leader", "xline", "image", "light"]


def _gen_entity(eg, name):
    r = eg.r
    if name == "hatch" and r.random() < 0.2:
        return eg.hatch("MPOLYGON")
    if name == "solid" and r.random() < 0.3:
        return eg.solid("TRACE")
    if name == "text" and r.random() < 0.3:
        return eg.text("ATTDEF")
    if name == "xline" and r.random() < 0.4:
        return eg.xline("RAY")
    if name == "insert":
        return eg.insert("LEAF", attribs=r.random() < 0.3, grid=r.random() < 0.2)
    rc = getattr(eg, name)()
    if name in ("line", "point") and "thickness" in rc["a"]:
        # the two listed thickness findings are kept reachable but rare, so that other defects of LINE/POINT stay visible
        if rc["a"]["thickness"] <= 0 and r.random() < 0.7:
            rc["a"]["thickness"] = 1.5
    return rc


def _gen_matrix(mg, rc):
    r = mg.r
    n = recipe_extrusion(rc)
    k = r.random()
    if k < 0.3:
        return mg.similarity()
    if k < 0.4:
        return mg.similarity(mirror=True)
    if k < 0.65:
        return mg.affine()
    if k < 0.8:
        return mg.plane(n, "planesim")
    if k < 0.93:
        return mg.plane(n, "stretch")
    return mg.plane(n, "shear")


def _report(ctx, fails, stream):
    fam = {}
    for key, what, rep in fails:
        parts = key.split("/")
        f = "/".join(parts[:4] if not parts[1].startswith("nested") else parts[:3])
        fam[f] = fam.get(f, 0) + 1
        if fam[f] <= 2:
            ctx.fail(key, what, rep)
    for f, n in sorted(fam.items()):
        ctx.hist(stream, "failing:" + f, n)


def oracle(ctx):
    import logging
    logging.getLogger("ezdxf").setLevel(logging.ERROR)  # "cannot apply invalid transformation" is an expected outcome in O5
    fails, stats = [], {}
    # ---- O1 single entities x matrices x APIs
    rng = ctx.rng("entities")
    eg, mg = EG(rng), MG(rng)
    world = World()
    for rc, mr in corpus_entities():
        for api in ("transform", "inplace", "copies"):
            run_entity_case(world, rc, mr, api, fails, stats)
            ctx.count("O1 entity.transform / inplace / copies", (api, _hash(rc), _hash(mr)), True)
    per = ctx.n(200, 900)
    for name in ENTITY_GENS:
        for _ in range(per):
            rc = _gen_entity(eg, name)
            mr = _gen_matrix(mg, rc)
            for api in ("transform", "inplace", "copies"):
                run_entity_case(world, rc, mr, api, fails, stats)
                ctx.count("O1 entity.transform / inplace / copies", (api, _hash(rc), _hash(mr)), True,
                          sample={"entity": json.dumps(rc)[:200], "matrix": json.dumps(mr)[:200], "api": api})
            if world.n > 4000:
                world = World()
    for k, v in sorted(stats.items()):
        ctx.hist("O1 entity.transform / inplace / copies", k, v)
    _report(ctx, fails, "O1 entity.transform / inplace / copies")
    # ---- O2 exact linear law
    fails, stats = [], {}
    rng = ctx.rng("exact")
    eg = EG(rng)
    world = World()
    for name in EXACT_GENS:
        for _ in range(ctx.n(120, 800)):
            rc = _gen_entity(eg, name)
            rc.get("a", {}).pop("thickness", None)
            mr = dyadic_matrix(rng)
            run_exact_case(world, rc, mr, fails, stats)
            ctx.count("O2 exact linear law", (_hash(rc), _hash(mr)), True)
    for k, v in sorted(stats.items()):
        ctx.hist("O2 exact linear law", k, v)
    _report(ctx, fails, "O2 exact linear law")
    # ---- O3 nested block references
    fails, stats = [], {}
    rng = ctx.rng("nested")
    docs = corpus_nested() + [gen_nested(rng, clean=(i % 2 == 0)) for i in range(ctx.n(800, 6000))]
    for rec in docs:
        for how in ("virtual", "explode"):
            run_nested_case(rec, fails, stats, how)
            ctx.count("O3 nested INSERT: virtual_entities / explode", (how, _hash(rec)), len(rec["blocks"]) > 1,
                      sample={"doc": json.dumps(rec)[:300], "how": how})
    for k, v in sorted(stats.items()):
        ctx.hist("O3 nested INSERT: virtual_entities / explode", k, v)
    _report(ctx, fails, "O3 nested INSERT: virtual_entities / explode")
    # ---- O4 upright
    fails, stats = [], {}
    rng = ctx.rng("upright")
    eg = EG(rng)
    world = World()
    for name in UPRIGHT_TYPES:
        for i in range(ctx.n(150, 900)):
            rc = _gen_entity(eg, name)
            if i % 3 != 2 and rc["t"] != "ELLIPSE":
                rc["a"]["extrusion"] = [0.0, 0.0, -1.0]
                if rc["t"] == "MTEXT" and "text_direction" in rc["a"]:
                    rc["a"]["text_direction"] = [0.6, -0.8, 0.0]
            elif i % 3 != 2:
                rc = eg.ellipse()
                fr = ocs_axes((0.0, 0.0, -1.0))
                rc["a"]["extrusion"] = [0.0, 0.0, -1.0]
                rc["a"]["major_axis"] = list(vadd(vmul(fr[0], 1.5), vmul(fr[1], 2.0)))
            run_upright_case(world, rc, fails, stats)
            ctx.count("O4 upright", _hash(rc), True)
    for k, v in sorted(stats.items()):
        ctx.hist("O4 upright", k, v)
    _report(ctx, fails, "O4 upright")
    # ---- O6 convenience interface (translate / scale / scale_uniform / rotate_*) == transform(<matrix>), tilted extrusions
    fails, stats = [], {}
    rng = ctx.rng("convenience")
    eg, mg = EG(rng), MG(rng)
    eg.force_tilt = True
    world = World()
    O6 = "O6 convenience interface = transform(matrix)"
    for name in ENTITY_GENS:
        for _ in range(ctx.n(8, 60)):
            rc = _gen_entity(eg, name)
            if name == "insert":
                rc = eg.insert("LEAF", attribs=rng.random() < 0.7, grid=rng.random() < 0.2)
            for api in CONV_API + XT_API:
                mr = conv_recipe(mg, api)
                run_entity_case(world, rc, mr, api, fails, stats)
                ctx.count(O6, (api, _hash(rc), _hash(mr)), True, sample={"entity": json.dumps(rc)[:200], "matrix": json.dumps(mr), "api": api})
            if world.n > 4000:
                world = World()
    for _ in range(ctx.n(150, 1000)):
        rc = eg.insert("LEAF", attribs=True, grid=True)
        run_minsert_attrib_case(world, rc, fails, stats)
        ctx.count(O6, ("multi_insert", _hash(rc)), True)
        if world.n > 4000:
            world = World()
    for k, v in sorted(stats.items()):
        ctx.hist(O6, k, v)
    _report(ctx, fails, O6)
    # ---- O5 histories: several transformations of one entity
    fails, stats = [], {}
    rng = ctx.rng("history")
    eg, mg = EG(rng), MG(rng)
    world = World()
    O5 = "O5 histories of transformations"
    for name in ENTITY_GENS + ["acis", "acis"]:
        for _ in range(ctx.n(25, 200)):
            rc = _gen_entity(eg, name)
            for api in ("transform", "inplace", "copies"):
                mrs = _gen_history(mg, rc, api)
                run_history_case(world, rc, mrs, api, fails, stats)
                ctx.count(O5, (api, _hash(rc), _hash(mrs)), True, sample={"entity": json.dumps(rc)[:200], "matrices": json.dumps(mrs)[:300], "api": api})
            if world.n > 4000:
                world = World()
    for k, v in sorted(stats.items()):
        ctx.hist(O5, k, v)
    _report(ctx, fails, O5)


def replay(ctx, rep):
    fails, stats = [], {}
    op = rep.get("op")
    if op == "entity":
        run_entity_case(World(), rep["entity"], rep["matrix"], rep["api"], fails, stats)
    elif op == "exact":
        run_exact_case(World(), rep["entity"], rep["matrix"], fails, stats)
    elif op == "nested":
        run_nested_case(rep["doc"], fails, stats, rep.get("how", "virtual"))
    elif op == "upright":
        run_upright_case(World(), rep["entity"], fails, stats)
    elif op == "minsert-attribs":
        run_minsert_attrib_case(World(), rep["entity"], fails, stats)
    elif op == "history":
        run_history_case(World(), rep["entity"], rep["matrices"], rep["api"], fails, stats)
    else:
        return False, f"unknown replay op {op!r}"
    if fails:
        return False, fails[0][0] + ": " + fails[0][1]
    return True, "property holds on this input"


# ================================================================================================ regenerate (T-ast)
TT = "src/ezdxf/math/transformtools.py"
KSRC = ["src/ezdxf/math/_vector.py", "src/ezdxf/math/_matrix44.py", "src/ezdxf/math/ucs.py", "src/ezdxf/math/construct2d.py"]
CORE = "#after-ocs"


def _split_after_ocs(src: str) -> str:
    """transform_extrusion(extrusion, m) builds `ocs = OCS(extrusion)` first (a constructor with three square roots that
    property C11 treats); the kernel translated here is the REST of the body with `ocs` as parameter.  The rewrite is
    mechanical (drop the first statement, rename the parameter) and refuses anything else."""
    import ast
    from translate.py2lean import Unsupported
    tree = ast.parse(src)
    done = False
    for n in tree.body:
        if isinstance(n, ast.FunctionDef) and n.name == "transform_extrusion":
            body = [st for st in n.body if not (isinstance(st, ast.Expr) and isinstance(st.value, ast.Constant))]
            if not body or ast.unparse(body[0]) != "ocs = OCS(extrusion)" or [a.arg for a in n.args.args] != ["extrusion", "m"]:
                raise Unsupported("transform_extrusion no longer starts with `ocs = OCS(extrusion)`: the model must be revisited")
            n.body = body[1:]
            n.args.args[0].arg = "ocs"
            n.args.args[0].annotation = None
            done = True
    if not done:
        raise Unsupported("transform_extrusion not found in transformtools.py")
    return ast.unparse(tree)


ICS = "#ics-scales"


def _split_ics(src: str) -> str:
    """InsertCoordinateSystem.transform(m, tol): the translated kernel is the body between the construction of the two
    rotated axes and the construction of the result:
      * `ocs = OCS(self.extrusion)` becomes the parameter `ocs`;
      * `angle = math.radians(self.rotation)`, `Vec3.from_angle(angle)` and `Vec3.from_angle(angle + math.pi / 2.0)` become the
        parameters `rot_x`, `rot_y` (the model passes (c, s, 0) and (-s, c, 0) for the rotation (c, s));
      * the tail `ocs_transform = OCSTransform.from_ocs(...)`; `return InsertCoordinateSystem(...)` (needs OCS(uz) and atan2) is
        replaced by `return (x_scale, y_scale, z_scale, uz)`;
      * `raise InsertTransformationError` is mapped to ValueError (the modelled error enum).
    Any other shape of the function is refused (the model has to be revisited then)."""
    import ast
    from translate.py2lean import Unsupported
    tree = ast.parse(src)
    done = False
    for c in tree.body:
        if isinstance(c, ast.ClassDef) and c.name == "InsertCoordinateSystem":
            for n in c.body:
                if isinstance(n, ast.FunctionDef) and n.name == "transform":
                    body = [st for st in n.body if not (isinstance(st, ast.Expr) and isinstance(st.value, ast.Constant))]
                    head = [ast.unparse(st) for st in body[:4]]
                    ok = (len(body) > 6 and head == [
                        "ocs = OCS(self.extrusion)",
                        "angle = math.radians(self.rotation)",
                        "x_axis = ocs.to_wcs(Vec3.from_angle(angle))",
                        "y_axis = ocs.to_wcs(Vec3.from_angle(angle + math.pi / 2.0))"]
                        and ast.unparse(body[-2]) == "ocs_transform = OCSTransform.from_ocs(OCS(self.extrusion), OCS(uz), m)"
                        and isinstance(body[-1], ast.Return)
                        and ast.unparse(body[-1].value).replace(" ", "").startswith("InsertCoordinateSystem(insert=ocs_transform.transform_vertex(self.insert),scale=(x_scale,y_scale,z_scale),rotation=ocs_transform.transform_deg_angle(self.rotation),extrusion=uz"))
                    if not ok:
                        raise Unsupported("InsertCoordinateSystem.transform changed its shape: the model must be revisited")
                    new = (ast.parse("x_axis = ocs.to_wcs(rot_x)\ny_axis = ocs.to_wcs(rot_y)").body + body[4:-2]
                           + [ast.parse("return (x_scale, y_scale, z_scale, uz)").body[0]])
                    for st in ast.walk(ast.Module(body=new, type_ignores=[])):
                        if isinstance(st, ast.Raise):
                            if not ast.unparse(st.exc).startswith("InsertTransformationError"):
                                raise Unsupported("unexpected raise in InsertCoordinateSystem.transform")
                            st.exc = ast.parse("ValueError()").body[0].value
                    n.body = new
                    n.args.args = [n.args.args[0], ast.arg("ocs")] + n.args.args[1:] + [ast.arg("rot_x"), ast.arg("rot_y")]
                    n.args.defaults = []
                    done = True
    if not done:
        raise Unsupported("InsertCoordinateSystem.transform not found")
    return ast.unparse(tree)


def kernel_defs(read):
    from translate.py2lean import Program, translate

    def rd(rel):
        if rel.endswith(CORE):
            return _split_after_ocs(read(rel[: -len(CORE)]))
        if rel.endswith(ICS):
            return _split_ics(read(rel[: -len(ICS)]))
        return read(rel)

    prog = Program(rd)
    prog.link("ezdxf.math", KSRC)
    ocs = lambda: ("obj", "OCS", {"transform": "bool", "matrix": "m44"})  # noqa: E731
    ot = ("self", ("obj", "OCSTransform", {"m": "m44", "old_ocs": ocs(), "new_ocs": ocs()}))
    M = ("self", "m44", "m")
    ks = [
        ("mTransform", KSRC[1], "Matrix44.transform", [M, ("vector", "v3", "v")]),
        ("mTransformDirection", KSRC[1], "Matrix44.transform_direction", [M, ("vector", "v3", "v")]),
        ("ocsToWcs", KSRC[2], "OCS.to_wcs", [("self", ocs()), ("point", "v3", "p")]),
        ("ocsFromWcs", KSRC[2], "OCS.from_wcs", [("self", ocs()), ("point", "v3", "p")]),
        ("otVertex", TT, "OCSTransform.transform_vertex", [ot, ("vertex", "v3", "v")]),
        ("ot2dVertex", TT, "OCSTransform.transform_2d_vertex", [ot, ("vertex", "v2", "v"), ("elevation", "rat")]),
        ("otDirection", TT, "OCSTransform.transform_direction", [ot, ("direction", "v3", "v")]),
        ("otOcsDirection", TT, "OCSTransform.transform_ocs_direction", [ot, ("direction", "v3", "v")]),
        ("otThickness", TT, "OCSTransform.transform_thickness", [ot, ("thickness", "rat")]),
        ("otLength", TT, "OCSTransform.transform_length", [ot, ("length", "v3", "v")]),
        ("otLengthR", TT, "OCSTransform.transform_length", [ot, ("length", "v3", "v"), ("reflection", "rat")]),
        ("otWidth", TT, "OCSTransform.transform_width", [ot, ("width", "rat")]),
        ("extrusionCore", TT + CORE, "transform_extrusion", [("ocs", ocs()), ("m", "m44")]),
        ("icsScales", TT + ICS, "InsertCoordinateSystem.transform",
         [("self", ("obj", "InsertCoordinateSystem", {"scale_factor_x": "rat", "scale_factor_y": "rat", "scale_factor_z": "rat"})),
          ("ocs", ocs()), ("m", "m44"), ("tol", "rat"), ("rot_x", "v3"), ("rot_y", "v3")]),
    ]
    return [translate(prog, path, q, ps, lean_name=nm, max_paths=256) for nm, path, q, ps in ks]


TEMP = "src/ezdxf/entities/temporary_transform.py"
WRAP = "#c12-wrap"
# `TemporaryTransformation.add_matrix` is translated through this wrapper appended to the module source (the constructor,
# set_matrix, add_matrix and get_matrix are EXECUTED symbolically by py2lean, once for an empty state and once for a state
# that holds a matrix); `@` / `*` of two matrices (NumPy in the pure-Python Matrix44) is kept as the opaque call M44.mul
# (textbook product of Model/Rat3.lean, tied to Matrix44.__matmul__ by property C11), so the OPERAND ORDER is the code's.
TEMP_WRAPPER = '''


def c12_temp_add(stored, m):
    t = TemporaryTransformation()
    t.set_matrix(stored)
    t.add_matrix(m)
    return t.get_matrix()
'''


def temp_defs(read):
    """[LeanDef] for `add_matrix` on an empty state (tempAddNone) and on a state holding a matrix (tempAddSome)"""
    from translate.py2lean import Program, translate, Unsupported

    def rd(rel):
        return read(rel[: -len(WRAP)]) + TEMP_WRAPPER if rel.endswith(WRAP) else read(rel)

    prog = Program(rd)
    prog.link("ezdxf.math", KSRC)
    opaque = {"Matrix44.__matmul__": "M44.mul", "Matrix44.__mul__": "M44.mul"}
    d0 = translate(prog, TEMP + WRAP, "c12_temp_add", [("stored", ("const", None)), ("m", "m44")], lean_name="tempAddNone", opaque=opaque)
    d1 = translate(prog, TEMP + WRAP, "c12_temp_add", [("stored", "m44"), ("m", "m44")], lean_name="tempAddSome", opaque=opaque)
    # py2lean types opaque calls as numbers; the product of two matrices is a matrix: the declared result type is corrected
    # mechanically (Lean re-checks it), any other shape of the translation is refused
    if d1.ret_type != "Rat" or "M44.mul" not in d1.body or d1.raises or d0.ret_type != "M44":
        raise Unsupported("TemporaryTransformation.add_matrix no longer multiplies the stored matrix with the new one: the model "
                          "must be revisited; translation was:\n" + d0.text + d1.text)
    d1.ret_type = "M44"
    return [d0, d1]


BPATH = "src/ezdxf/entities/boundary_paths.py"
POLYGON = "src/ezdxf/entities/polygon.py"
LINE_WRAPPER = '''


def c12_line_edge(start, end_, ocs, elevation):
    e = LineEdge()
    e.start = start
    e.end = end_
    e.transform(ocs, elevation)
    return (e.start, e.end)
'''


def hatch_defs(read):
    """HATCH / MPOLYGON: (1) `LineEdge.transform` translated by py2lean through a wrapper; (2) the FLOW of the elevation through
    DXFPolygon.transform -> BoundaryPaths.transform -> path.transform -> edge.transform and its use in every leaf statement,
    extracted from the AST: each `hatch…` definition below is the expression the code hands on, as a function of the elevation
    it received (`elevation`, or a constant such as the default 0 when the argument is not passed).  Any other shape is refused."""
    import ast
    from translate.py2lean import Program, translate, Unsupported

    def rd(rel):
        return read(rel[: -len(WRAP)]) + LINE_WRAPPER if rel.endswith(WRAP) else read(rel)

    prog = Program(rd)
    prog.link("ezdxf.math", KSRC + [TT])
    prog.link("ezdxf.math.transformtools", [TT])
    ocs = lambda: ("obj", "OCS", {"transform": "bool", "matrix": "m44"})  # noqa: E731
    ot = ("ocs", ("obj", "OCSTransform", {"m": "m44", "old_ocs": ocs(), "new_ocs": ocs()}))
    line = translate(prog, BPATH + WRAP, "c12_line_edge", [("start", "v2", "s"), ("end_", "v2", "e"), ot, ("elevation", "rat")],
                     lean_name="hatchLineEdge")

    bp, pg = ast.parse(read(BPATH)), ast.parse(read(POLYGON))

    def method(tree, cls, name):
        for c in tree.body:
            if isinstance(c, ast.ClassDef) and c.name == cls:
                for n in c.body:
                    if isinstance(n, ast.FunctionDef) and n.name == name:
                        return n
        raise Unsupported(f"{cls}.{name} not found")

    def lean_of(node, where):
        if isinstance(node, ast.Name) and node.id == "elevation":
            return "elevation"
        if isinstance(node, ast.Constant) and isinstance(node.value, (int, float)) and float(node.value) == int(node.value):
            return str(int(node.value))
        raise Unsupported(f"{where}: elevation expression `{ast.unparse(node)}` is outside the modelled shapes")

    def default_of(fn, arg):
        names = [a.arg for a in fn.args.args]
        ds = fn.args.defaults
        i = names.index(arg) - (len(names) - len(ds))
        if i < 0:
            raise Unsupported(f"{fn.name}: `{arg}` has no default")
        return ds[i]

    def call_elev(fn, callee_text, callee_fn, where):
        calls = [n for n in ast.walk(fn) if isinstance(n, ast.Call) and ast.unparse(n.func) == callee_text]
        if len(calls) != 1:
            raise Unsupported(f"{where}: expected exactly one call of {callee_text}")
        c = calls[0]
        for k in c.keywords:
            if k.arg == "elevation":
                return lean_of(k.value, where)
        if len(c.args) >= 2:
            return lean_of(c.args[1], where)
        return lean_of(default_of(callee_fn, "elevation"), where)

    poly_t = method(pg, "DXFPolygon", "transform")
    paths_t = method(bp, "BoundaryPaths", "transform")
    out = {}
    out["hatchPathsElev"] = ("DXFPolygon.transform -> BoundaryPaths.transform", call_elev(poly_t, "self.paths.transform", paths_t, "DXFPolygon.transform"))
    if out["hatchPathsElev"][1] == "elevation" and not any(
            isinstance(n, ast.Assign) and ast.unparse(n) == "elevation = Vec3(dxf.elevation).z" for n in ast.walk(poly_t)):
        raise Unsupported("DXFPolygon.transform: `elevation` is no longer Vec3(dxf.elevation).z")
    news = [n for n in ast.walk(poly_t) if isinstance(n, ast.Assign) and ast.unparse(n.targets[0]) == "dxf.elevation"]
    if len(news) != 1 or ast.unparse(news[0].value) != "ocs.transform_vertex(Vec3(0, 0, elevation)).replace(x=0.0, y=0.0)":
        raise Unsupported("DXFPolygon.transform: the new elevation is no longer z of transform_vertex((0, 0, elevation))")
    out["hatchNewElevationZ"] = ("DXFPolygon.transform: z of the point whose image gives the new elevation", "elevation")
    out["hatchPathElev"] = ("BoundaryPaths.transform -> path.transform", call_elev(paths_t, "path.transform", method(bp, "PolylinePath", "transform"), "BoundaryPaths.transform"))
    out["hatchEdgePathElev"] = ("EdgePath.transform -> edge.transform", call_elev(method(bp, "EdgePath", "transform"), "edge.transform", method(bp, "LineEdge", "transform"), "EdgePath.transform"))
    # PolylinePath.transform: v = ocs.transform_vertex(Vec3(x, y, <e>)) ; yield v.x, v.y, bulge
    pt = method(bp, "PolylinePath", "transform")
    cs = [n for n in ast.walk(pt) if isinstance(n, ast.Call) and ast.unparse(n.func) == "ocs.transform_vertex"]
    ys = [n for n in ast.walk(pt) if isinstance(n, ast.Yield)]
    if (len(cs) != 1 or len(cs[0].args) != 1 or not isinstance(cs[0].args[0], ast.Call) or ast.unparse(cs[0].args[0].func) != "Vec3"
            or [ast.unparse(a) for a in cs[0].args[0].args[:2]] != ["x", "y"] or len(cs[0].args[0].args) != 3
            or len(ys) != 1 or ast.unparse(ys[0].value) != "(v.x, v.y, bulge)"):
        raise Unsupported("PolylinePath.transform changed its shape")
    out["hatchPolyVertexZ"] = ("PolylinePath.transform: z of the vertex handed to transform_vertex", lean_of(cs[0].args[0].args[2], "PolylinePath.transform"))
    # ArcEdge.transform
    at = method(bp, "ArcEdge", "transform")
    a0 = [n for n in at.body if isinstance(n, ast.Assign)][:2]
    if (len(a0) != 2 or ast.unparse(a0[0].targets[0]) != "self.center" or not isinstance(a0[0].value, ast.Call)
            or ast.unparse(a0[0].value.func) != "ocs.transform_2d_vertex" or ast.unparse(a0[0].value.args[0]) != "self.center"
            or ast.unparse(a0[1]) != "self.radius = ocs.transform_length(Vec3(self.radius, 0, 0))"):
        raise Unsupported("ArcEdge.transform changed its shape")
    out["hatchArcCenterElev"] = ("ArcEdge.transform: elevation of the centre", lean_of(a0[0].value.args[1], "ArcEdge.transform"))
    # SplineEdge.transform
    st = method(bp, "SplineEdge", "transform")
    gens = [n for n in ast.walk(st) if isinstance(n, ast.GeneratorExp)]
    es = set()
    for g in gens:
        if (not isinstance(g.elt, ast.Call) or ast.unparse(g.elt.func) != "ocs.transform_2d_vertex" or ast.unparse(g.elt.args[0]) != "v"
                or ast.unparse(g.generators[0].iter) not in ("self.control_points", "self.fit_points")):
            raise Unsupported("SplineEdge.transform changed its shape")
        es.add(lean_of(g.elt.args[1], "SplineEdge.transform"))
    if len(gens) != 2 or len(es) != 1:
        raise Unsupported("SplineEdge.transform changed its shape (control / fit points)")
    out["hatchSplinePointElev"] = ("SplineEdge.transform: elevation of control and fit points", es.pop())
    ts = [n for n in ast.walk(st) if isinstance(n, ast.Assign) and ast.unparse(n.targets[0]) == "t"]
    zs = set()
    for n in ts:
        txt = ast.unparse(n.value)
        if txt in ("Vec3(self.start_tangent)", "Vec3(self.end_tangent)"):
            zs.add("0")
        elif isinstance(n.value, ast.Call) and ast.unparse(n.value.func) in ("Vec3(self.start_tangent).replace", "Vec3(self.end_tangent).replace") \
                and len(n.value.keywords) == 1 and n.value.keywords[0].arg == "z":
            zs.add(lean_of(n.value.keywords[0].value, "SplineEdge.transform tangent"))
        else:
            raise Unsupported("SplineEdge.transform changed its shape (tangents)")
    uses = [ast.unparse(n) for n in ast.walk(st) if isinstance(n, ast.Assign) and ast.unparse(n.targets[0]) in ("self.start_tangent", "self.end_tangent")]
    if len(ts) != 2 or len(zs) != 1 or sorted(uses) != ["self.end_tangent = ocs.transform_direction(t).vec2", "self.start_tangent = ocs.transform_direction(t).vec2"]:
        raise Unsupported("SplineEdge.transform changed its shape (tangents)")
    out["hatchSplineTangentZ"] = ("SplineEdge.transform: z given to a tangent DIRECTION before transform_direction", zs.pop())
    # EllipseEdge.transform
    et = method(bp, "EllipseEdge", "transform")
    cen = [n for n in ast.walk(et) if isinstance(n, ast.Assign) and ast.unparse(n.targets[0]) == "e.center"]
    back = [ast.unparse(n) for n in ast.walk(et) if isinstance(n, ast.Assign) and ast.unparse(n.targets[0]) == "self.center"]
    flow = [ast.unparse(n) for n in et.body if isinstance(n, (ast.Assign, ast.Expr))]
    if (len(cen) != 1 or not isinstance(cen[0].value, ast.Call) or ast.unparse(cen[0].value.func) != "ocs_to_wcs"
            or not isinstance(cen[0].value.args[0], ast.Call) or ast.unparse(cen[0].value.args[0].func) != "e.center.replace"
            or [k.arg for k in cen[0].value.args[0].keywords] != ["z"] or back != ["self.center = wcs_to_ocs(e.center).vec2"]
            or "ocs_to_wcs = ocs.old_ocs.to_wcs" not in flow or "wcs_to_ocs = ocs.new_ocs.from_wcs" not in flow or "e.transform(ocs.m)" not in flow):
        raise Unsupported("EllipseEdge.transform changed its shape")
    out["hatchEllipseCenterElev"] = ("EllipseEdge.transform: z of the centre lifted to WCS", lean_of(cen[0].value.args[0].keywords[0].value, "EllipseEdge.transform"))
    text = ""
    for name, (doc, body) in out.items():
        text += f"/-- extracted from the AST of {doc} -/\ndef {name} (elevation : Rat) : Rat := {body}\n\n"
    return [line], text


ELLIPSE = "src/ezdxf/math/ellipse.py"
RYTZ = "#c12-rytz"


def rytz_defs(read):
    """`rytz_axis_construction(d1, d2)` translated by py2lean (both branches: vectors in the xy-plane / general 3-D position);
    `raise ArithmeticError(...)` is mapped to ValueError (the error enum of the translator has no ArithmeticError)"""
    from translate.py2lean import Program, translate, Unsupported

    def rd(rel):
        if rel.endswith(RYTZ):
            src = read(rel[: -len(RYTZ)])
            msg = 'raise ArithmeticError("Conjugated axis required, invalid source data.")'
            if src.count(msg) != 2:
                raise Unsupported("rytz_axis_construction: the two ArithmeticError exits changed")
            return src.replace(msg, "raise ValueError()")
        return read(rel)

    prog = Program(rd)
    prog.link("ezdxf.math", KSRC)
    return [translate(prog, ELLIPSE + RYTZ, "rytz_axis_construction", [("d1", "v3"), ("d2", "v3")], lean_name="rytz", max_paths=512),
            # minor_axis(major_axis, extrusion, ratio): the second conjugate half-diameter every ELLIPSE / ellipse edge is built from
            translate(prog, ELLIPSE, "minor_axis", [("major_axis", "v3", "mj"), ("extrusion", "v3", "ext"), ("ratio", "rat")], lean_name="minorAxis")]


MLINE = "src/ezdxf/entities/mline.py"
MLS = "#c12-mline-scale"


def _split_mline_scale(src: str) -> str:
    """MLine.transform(m): the statements between `scale = self.dxf.scale_factor` and `self.update_geometry()` (the computation of
    the new scale factor) are moved, unchanged, into a function `c12_mline_scale(scale0, m)`; reads of `self.dxf.scale_factor`
    become the parameter, the assignment to it becomes the result.  Any other shape is refused."""
    import ast
    from translate.py2lean import Unsupported
    tree = ast.parse(src)
    for c in tree.body:
        if isinstance(c, ast.ClassDef) and c.name == "MLine":
            for n in c.body:
                if isinstance(n, ast.FunctionDef) and n.name == "transform":
                    texts = [ast.unparse(st) for st in n.body]
                    if "scale = self.dxf.scale_factor" not in texts or "self.update_geometry()" not in texts:
                        raise Unsupported("MLine.transform changed its shape: the model must be revisited")
                    i, j = texts.index("scale = self.dxf.scale_factor"), texts.index("self.update_geometry()")
                    head = [t for t in texts[:i] if not t.startswith(("'", '"'))]
                    if head != ["for vertex in self.vertices:\n    vertex.transform(m)", "self.dxf.extrusion, _ = transform_extrusion(self.dxf.extrusion, m)"]:
                        raise Unsupported("MLine.transform changed its shape (vertices / extrusion): the model must be revisited")

                    class R(ast.NodeTransformer):
                        def visit_Attribute(self, node):
                            if ast.unparse(node) == "self.dxf.scale_factor":
                                return ast.copy_location(ast.Name(id="scale0", ctx=node.ctx), node)
                            return self.generic_visit(node)

                    fn = ast.parse("def c12_mline_scale(scale0, m):\n    pass\n").body[0]
                    fn.body = [R().visit(st) for st in n.body[i:j]] + [ast.parse("return scale0").body[0]]
                    ast.fix_missing_locations(fn)
                    return src + "\n\n" + ast.unparse(fn) + "\n"
    raise Unsupported("MLine.transform not found")


def mline_defs(read):
    from translate.py2lean import Program, translate

    def rd(rel):
        return _split_mline_scale(read(rel[: -len(MLS)])) if rel.endswith(MLS) else read(rel)

    prog = Program(rd)
    prog.link("ezdxf.math", KSRC)
    prog.link("ezdxf.math.transformtools", [TT])
    return [translate(prog, MLINE + MLS, "c12_mline_scale", [("scale0", "rat"), ("m", "m44")], lean_name="mlineScale")]


DIMENSION = "src/ezdxf/entities/dimension.py"


def dimension_tables(read) -> str:
    """Dimension.transform: which attributes go through ocs.transform_vertex / ocs.transform_deg_angle / m.transform, read from
    the three `for name in (...): transform_if_exist(name, func)` loops of the source (any other shape is refused)"""
    import ast
    from translate.py2lean import Unsupported
    tree = ast.parse(read(DIMENSION))
    fn = None
    for c in tree.body:
        if isinstance(c, ast.ClassDef) and c.name == "Dimension":
            for n in c.body:
                if isinstance(n, ast.FunctionDef) and n.name == "transform":
                    fn = n
    if fn is None:
        raise Unsupported("Dimension.transform not found")
    tables = {}
    for st in fn.body:
        if isinstance(st, ast.For):
            if (not isinstance(st.iter, ast.Tuple) or len(st.body) != 1 or not isinstance(st.body[0], ast.Expr)
                    or not isinstance(st.body[0].value, ast.Call) or ast.unparse(st.body[0].value.func) != "transform_if_exist"
                    or ast.unparse(st.body[0].value.args[0]) != ast.unparse(st.target)):
                raise Unsupported("Dimension.transform: unexpected loop shape")
            func = ast.unparse(st.body[0].value.args[1])
            tables.setdefault(func, []).extend(e.value for e in st.iter.elts)
    if set(tables) != {"ocs.transform_vertex", "ocs.transform_deg_angle", "m.transform"}:
        raise Unsupported(f"Dimension.transform: unexpected transformation functions {sorted(tables)}")
    body = [ast.unparse(st) for st in fn.body]
    if "ocs = OCSTransform(self.dxf.extrusion, m)" not in body or "dxf.extrusion = ocs.new_extrusion" not in body:
        raise Unsupported("Dimension.transform changed its shape")
    names = {"ocs.transform_vertex": "dimOcsVertexNames", "ocs.transform_deg_angle": "dimAngleNames", "m.transform": "dimWcsVertexNames"}
    text = ""
    for func, nm in names.items():
        lst = ", ".join(json.dumps(x) for x in tables[func])
        text += f"/-- attributes that Dimension.transform hands to `{func}` (extracted from the AST) -/\ndef {nm} : List String := [{lst}]\n\n"
    return text


WCS_CLASSES = [("IMAGE", "src/ezdxf/entities/image.py", "ImageBase"), ("LEADER", "src/ezdxf/entities/leader.py", "Leader"),
               ("HELIX", "src/ezdxf/entities/helix.py", "Helix"), ("TOLERANCE", "src/ezdxf/entities/tolerance.py", "Tolerance"),
               ("LIGHT", "src/ezdxf/entities/light.py", "Light"), ("XLINE", "src/ezdxf/entities/xline.py", "XLine"),
               ("MLINEVERTEX", "src/ezdxf/entities/mline.py", "MLineVertex")]


def wcs_attr_table(read) -> str:
    """entities that store WCS points and vectors: for each `transform(self, m)` the list (attribute, kind) read from the
    statements of the method; kinds: point (m.transform), vector (m.transform_direction), unit (… .normalize()), normal
    (transform_extrusion), points (m.transform_vertices), xlength (length of the image of (value, 0, 0)), super (super().transform)."""
    import ast
    from translate.py2lean import Unsupported
    rows = []
    for dxftype, path, cls in WCS_CLASSES:
        tree = ast.parse(read(path))
        fn = None
        for c in tree.body:
            if isinstance(c, ast.ClassDef) and c.name == cls:
                for n in c.body:
                    if isinstance(n, ast.FunctionDef) and n.name == "transform":
                        fn = n
        if fn is None or [a.arg for a in fn.args.args] != ["self", "m"]:
            raise Unsupported(f"{cls}.transform(self, m) not found")
        for st in fn.body:
            txt = ast.unparse(st)
            if isinstance(st, ast.Expr) and isinstance(st.value, ast.Constant):
                continue
            if txt in ("self.post_transform(m)", "return self"):
                continue
            if txt == "super().transform(m)":
                rows.append((dxftype, "*", "super"))
                continue
            if isinstance(st, ast.Assign) and len(st.targets) == 1:
                tgt, val = ast.unparse(st.targets[0]), ast.unparse(st.value)
                name = tgt.split(".")[-1]
                own = tgt if not tgt.startswith("(") else None
                if tgt in (f"self.dxf.{name}", f"self.{name}"):
                    kinds = {f"m.transform({tgt})": "point", f"m.transform_direction({tgt})": "vector",
                             f"m.transform_direction({tgt}).normalize()": "unit", f"list(m.transform_vertices({tgt}))": "points",
                             f"m.transform_direction(({tgt}, 0, 0)).magnitude": "xlength"}
                    if val in kinds:
                        rows.append((dxftype, name, kinds[val]))
                        continue
                if isinstance(st.targets[0], ast.Tuple) and len(st.targets[0].elts) == 2 and ast.unparse(st.targets[0].elts[1]) == "_":
                    t0 = ast.unparse(st.targets[0].elts[0])
                    if val == f"transform_extrusion({t0}, m)":
                        rows.append((dxftype, t0.split(".")[-1], "normal"))
                        continue
            raise Unsupported(f"{cls}.transform: statement `{txt}` is outside the recognised shapes")
    body = ",\n   ".join(f"({json.dumps(a)}, {json.dumps(b)}, {json.dumps(c)})" for a, b, c in rows)
    return ("/-- (DXF type, attribute, kind) for every statement of the `transform(self, m)` methods of the WCS entities (AST) -/\n"
            f"def wcsAttrTable : List (String × String × String) :=\n  [{body}]\n\n")


CONV_NAMES = ("translate", "scale", "scale_uniform", "rotate_axis", "rotate_x", "rotate_y", "rotate_z")


def conv_tables():
    """T-tab over the LIVE classes: for every registered graphical entity class and every method of the convenience interface the
    class that defines it; returns ({(api, defining class)} without the DXFGraphic defaults, {class name: (module file, class)})"""
    import inspect
    from ezdxf.entities import factory
    from ezdxf.entities.dxfgfx import DXFGraphic
    over, where = set(), {}
    for _, cls in sorted(factory.ENTITY_CLASSES.items()):
        if not (isinstance(cls, type) and issubclass(cls, DXFGraphic)):
            continue
        for api in CONV_NAMES:
            for k in cls.__mro__:
                if api in k.__dict__:
                    if k is not DXFGraphic:
                        over.add((api, k.__name__))
                        where[k.__name__] = (inspect.getsourcefile(k), k)
                    break
    return over, where


def _split_translate(src: str, cls: str):
    """`<cls>.translate(self, dx, dy, dz)`: the fast path is moved into a pure function `c12_translate_<cls>([ocs,] a_<attr>…, dx, dy,
    dz)` returning the stored attributes: `self.ocs()` becomes the parameter `ocs`, `self.dxf.<attr>` / `dxf.<attr>` become the
    parameters / results `a_<attr>`, `if dxf.hasattr(<attr>)` is taken (attribute present), the notification of attached data
    (`post_transform`) and `return self` are dropped, `for attrib in self.attribs: attrib.translate(dx, dy, dz)` (INSERT) is recorded.
    Every other statement shape is refused."""
    import ast
    from translate.py2lean import Unsupported
    tree = ast.parse(src)
    fn = None
    for c in tree.body:
        if isinstance(c, ast.ClassDef) and c.name == cls:
            for n in c.body:
                if isinstance(n, ast.FunctionDef) and n.name == "translate":
                    fn = n
    if fn is None or [a.arg for a in fn.args.args] != ["self", "dx", "dy", "dz"]:
        raise Unsupported(f"{cls}.translate(self, dx, dy, dz) not found")
    info = {"ocs": False, "attrs": [], "stored": [], "attribs": False}

    class R(ast.NodeTransformer):
        def visit_Attribute(self, node):
            txt = ast.unparse(node)
            if txt.startswith(("self.dxf.", "dxf.")) and txt.count(".") == (2 if txt.startswith("self.") else 1):
                name = node.attr
                if name not in info["attrs"]:
                    info["attrs"].append(name)
                if isinstance(node.ctx, ast.Store) and name not in info["stored"]:
                    info["stored"].append(name)
                return ast.copy_location(ast.Name(id="a_" + name, ctx=node.ctx), node)
            return self.generic_visit(node)

    def walk(stmts):
        out = []
        for st in stmts:
            txt = ast.unparse(st)
            if isinstance(st, ast.Expr) and isinstance(st.value, ast.Constant):
                continue
            if txt in ("return self", "dxf = self.dxf"):
                continue
            if txt == "ocs = self.ocs()":
                info["ocs"] = True
                continue
            if txt == "if self.is_post_transform_required:\n    self.post_transform(Matrix44.translate(dx, dy, dz))":
                continue
            if txt == "for attrib in self.attribs:\n    attrib.translate(dx, dy, dz)":
                info["attribs"] = True
                continue
            if isinstance(st, ast.If) and not st.orelse and isinstance(st.test, ast.Call) and ast.unparse(st.test.func) in ("dxf.hasattr", "self.dxf.hasattr"):
                out += walk(st.body)
                continue
            if isinstance(st, ast.Assign):
                out.append(R().visit(st))
                continue
            raise Unsupported(f"{cls}.translate: statement `{txt}` is outside the recognised shapes")
        return out

    body = walk(fn.body)
    if not info["stored"]:
        raise Unsupported(f"{cls}.translate stores nothing")
    params = (["ocs"] if info["ocs"] else []) + ["a_" + a for a in info["attrs"]] + ["dx", "dy", "dz"]
    ret = ", ".join("a_" + a for a in info["stored"])
    new = ast.parse(f"def c12_translate_{cls}({', '.join(params)}):\n    pass\n").body[0]
    new.body = body + [ast.parse(f"return ({ret},)" if len(info["stored"]) > 1 else f"return {ret}").body[0]]
    ast.fix_missing_locations(new)
    return src + "\n\n" + ast.unparse(new) + "\n", info


TRANSLATE_EXPECTED = ["Circle", "Ellipse", "Insert", "Line", "Point", "Text", "XLine"]


def conv_defs(read):
    """(LeanDefs, extra Lean text, info per class) for the convenience interface: Matrix44.translate, the translated fast paths
    of every class that overrides translate(), the override table of the live classes and the defaults of DXFGraphic"""
    import ast
    from translate.py2lean import Program, translate, Unsupported
    over, where = conv_tables()
    repo_src = os.path.join(os.environ.get("VERIF_REPO", "/repo"), "")
    infos = {}

    def rel(path):
        path = os.path.realpath(path)
        root = os.path.realpath(repo_src)
        if not path.startswith(root):
            raise Unsupported(f"class source {path} is outside {root}")
        return path[len(root):].lstrip("/")

    other = sorted(o for o in over if o[0] != "translate")
    defs = []
    for api, cls in sorted(over):
        if api != "translate":
            continue
        path = rel(where[cls][0])
        mark = f"#c12-translate-{cls}"

        def rd(r_, path=path, mark=mark, cls=cls):
            if r_.endswith(mark):
                text, info = _split_translate(read(r_[: -len(mark)]), cls)
                infos[cls] = info
                return text
            return read(r_)

        prog = Program(rd)
        prog.link("ezdxf.math", KSRC)
        prog.link("ezdxf.math.transformtools", [TT])
        rd(path + mark)  # fills infos[cls]
        info = infos[cls]
        ps = ([("ocs", ("obj", "OCS", {"transform": "bool", "matrix": "m44"}))] if info["ocs"] else [])
        ps += [("a_" + a, "v3", a + "_" if a in ("end", "from", "at", "do") else a) for a in info["attrs"]] + [("dx", "rat"), ("dy", "rat"), ("dz", "rat")]
        defs.append(translate(prog, path + mark, f"c12_translate_{cls}", ps, lean_name=f"translate{cls}"))
    prog = Program(read)
    prog.link("ezdxf.math", KSRC)
    defs.append(translate(prog, KSRC[1], "Matrix44.translate", [("dx", "rat"), ("dy", "rat"), ("dz", "rat")], lean_name="m44Translate"))
    # defaults of DXFGraphic
    gfx = ast.parse(read("src/ezdxf/entities/dxfgfx.py"))
    dflt = []
    for c in gfx.body:
        if isinstance(c, ast.ClassDef) and c.name == "DXFGraphic":
            for n in c.body:
                if isinstance(n, ast.FunctionDef) and n.name in CONV_NAMES:
                    body = [st for st in n.body if not (isinstance(st, ast.Expr) and isinstance(st.value, ast.Constant))]
                    if (len(body) != 1 or not isinstance(body[0], ast.Return) or not isinstance(body[0].value, ast.Call)
                            or ast.unparse(body[0].value.func) != "self.transform" or len(body[0].value.args) != 1):
                        raise Unsupported(f"DXFGraphic.{n.name} is no longer `return self.transform(<matrix>)`")
                    dflt.append((n.name, ast.unparse(body[0].value.args[0])))
    if sorted(a for a, _ in dflt) != sorted(CONV_NAMES):
        raise Unsupported("DXFGraphic no longer defines the whole convenience interface")
    # module level functions of ezdxf.transform: each hands one Matrix44 factory call to _inplace
    xtree = ast.parse(read("src/ezdxf/transform.py"))
    xt = []
    for n in xtree.body:
        if isinstance(n, ast.FunctionDef) and n.name in ("translate", "scale_uniform", "scale", "x_rotate", "y_rotate", "z_rotate", "axis_rotate"):
            calls = [c for c in ast.walk(n) if isinstance(c, ast.Call) and ast.unparse(c.func) in ("_inplace", "inplace")]
            if len(calls) != 1 or ast.unparse(calls[0].args[0]) != "entities":
                raise Unsupported(f"ezdxf.transform.{n.name} no longer delegates to (_)inplace(entities, <matrix>)")
            c = calls[0]
            mexpr = c.keywords[0].value if [k.arg for k in c.keywords] == ["m"] and len(c.args) == 1 else c.args[1] if len(c.args) == 2 and not c.keywords else None
            if mexpr is None:
                raise Unsupported(f"ezdxf.transform.{n.name}: unexpected call shape `{ast.unparse(c)}`")
            xt.append((n.name, ast.unparse(mexpr)))
    if len(xt) != 7:
        raise Unsupported("ezdxf.transform: convenience functions changed")
    q = json.dumps
    text = ("/-- ezdxf.transform module functions: name and the matrix expression handed to `_inplace` (AST) -/\n"
            "def xtDefaults : List (String × String) := [" + ", ".join(f"({q(a)}, {q(b)})" for a, b in sorted(xt)) + "]\n\n"
            "/-- (method, defining class) for every override of the convenience interface found in the live entity classes -/\n"
            "def convOverrides : List (String × String) := [" + ", ".join(f"({q(a)}, {q(c)})" for a, c in sorted(over)) + "]\n\n"
            "/-- the DXFGraphic defaults: method and the matrix expression handed to `self.transform` (AST) -/\n"
            "def convDefaults : List (String × String) := [" + ", ".join(f"({q(a)}, {q(b)})" for a, b in sorted(dflt)) + "]\n\n"
            "/-- `Insert.translate` also translates the attached ATTRIBs by the same offset -/\n"
            f"def insertTranslatesAttribs : Bool := {'true' if infos.get('Insert', {}).get('attribs') else 'false'}\n\n")
    return defs, text, infos


INSERT_PY = "src/ezdxf/entities/insert.py"
M44MARK = "#c12-matrix44"
PYX = ["src/ezdxf/acc/vector.pyx", "src/ezdxf/acc/matrix44.pyx"]


def _split_matrix44(src: str) -> str:
    """Insert.matrix44(): the body becomes `c12_matrix44(ocs, sx, sy, sz, angle, ins, base)` with the STATEMENT ORDER kept:
    `self.ocs()`, the three scale attributes, `math.radians(dxf.rotation)`, `dxf.get('insert', NULLVEC)` and the base point of
    `self.block()` become parameters; `if angle:` and `if block_layout is not None:` are taken (a rotation by 0 is the identity;
    a missing block has no base point).  Any statement that still mentions self / dxf / block_layout is refused."""
    import ast
    from translate.py2lean import Unsupported
    tree = ast.parse(src)
    for c in tree.body:
        if isinstance(c, ast.ClassDef) and c.name == "Insert":
            for n in c.body:
                if isinstance(n, ast.FunctionDef) and n.name == "matrix44":
                    out = []
                    seen = set()

                    def walk(stmts):
                        for st in stmts:
                            t = ast.unparse(st)
                            if isinstance(st, ast.Expr) and isinstance(st.value, ast.Constant):
                                continue
                            if t in ("dxf = self.dxf", "ocs = self.ocs()", "sx = dxf.xscale", "sy = dxf.yscale", "sz = dxf.zscale",
                                     "angle = math.radians(dxf.rotation)", "block_layout = self.block()"):
                                seen.add(t)
                                continue
                            if isinstance(st, ast.If) and ast.unparse(st.test) in ("angle", "block_layout is not None") and not st.orelse:
                                walk(st.body)
                                continue
                            t2 = t.replace("dxf.get('insert', NULLVEC)", "ins").replace("block_layout.block.dxf.base_point", "base")
                            if any(w in t2 for w in ("dxf", "self", "block_layout")):
                                raise Unsupported("Insert.matrix44 changed its shape: `" + t + "`")
                            out.extend(ast.parse(t2).body)

                    walk(n.body)
                    if len(seen) != 7:
                        raise Unsupported("Insert.matrix44 changed its shape (attribute reads)")
                    fn = ast.parse("def c12_matrix44(ocs, sx, sy, sz, angle, ins, base):\n    pass\n").body[0]
                    fn.body = out
                    ast.fix_missing_locations(fn)
                    return src + "\n\n" + ast.unparse(fn) + "\n"
    raise Unsupported("Insert.matrix44 not found")


def matrix44_defs(read):
    """Insert.matrix44 translated over the CYTHON twin of Matrix44 / Vec3 (explicit arithmetic for `m *= axis_rotate(...)`; the
    pure-Python twin multiplies with NumPy; the twins are equal by property C10)"""
    from translate.py2lean import Program, translate

    def rd(rel):
        return _split_matrix44(read(rel[: -len(M44MARK)])) if rel.endswith(M44MARK) else read(rel)

    prog = Program(rd)
    prog.link("ezdxf.math", PYX + [KSRC[2], KSRC[3]])
    ocs = ("obj", "OCS", {"transform": "bool", "matrix": "m44"})
    return [translate(prog, INSERT_PY + M44MARK, "c12_matrix44",
                      [("ocs", ocs), ("sx", "rat"), ("sy", "rat"), ("sz", "rat"), ("angle", "angle"), ("ins", "v3"), ("base", "v3")],
                      lean_name="insertMatrixGen")]


def vertex_rule(read) -> str:
    """3-D POLYLINE / POLYMESH / POLYFACE: `Polyline.transform` hands every VERTEX to `DXFVertex.transform(m)` in its non-2-D branch and
    `DXFVertex.transform` skips face records and maps the location as a point (AST pin; any other shape is refused)"""
    import ast
    from translate.py2lean import Unsupported
    tree = ast.parse(read("src/ezdxf/entities/polyline.py"))
    rule = []
    for c in tree.body:
        if isinstance(c, ast.ClassDef) and c.name == "DXFVertex":
            for n in c.body:
                if isinstance(n, ast.FunctionDef) and n.name == "transform":
                    body = [ast.unparse(st) for st in n.body if not (isinstance(st, ast.Expr) and isinstance(st.value, ast.Constant))]
                    if body != ["if self.is_face_record:\n    return self", "self.dxf.location = m.transform(self.dxf.location)", "return self"]:
                        raise Unsupported("DXFVertex.transform changed its shape")
                    rule += ["face record: unchanged", "location: point"]
        if isinstance(c, ast.ClassDef) and c.name == "Polyline":
            for n in c.body:
                if isinstance(n, ast.FunctionDef) and n.name == "transform":
                    ifs = [st for st in n.body if isinstance(st, ast.If) and ast.unparse(st.test) == "self.is_2d_polyline"]
                    if len(ifs) != 1 or [ast.unparse(st) for st in ifs[0].orelse] != ["for vertex in self.vertices:\n    vertex.transform(m)"]:
                        raise Unsupported("Polyline.transform (3-D branch) changed its shape")
                    rule += ["3-D polyline / mesh / polyface: every vertex"]
    if len(rule) != 3:
        raise Unsupported("polyline.py: vertex transformation not found")
    return ("/-- how 3-D POLYLINE / POLYMESH / POLYFACE vertices are transformed (AST pin of DXFVertex.transform and Polyline.transform) -/\n"
            "def vertexRule : List String := [" + ", ".join(json.dumps(x) for x in rule) + "]\n\n")


def regenerate(ctx):
    from translate.py2lean import lean_file
    defs = kernel_defs(ctx.src) + rytz_defs(ctx.src) + mline_defs(ctx.src) + matrix44_defs(ctx.src)
    extra = "".join(d.sqrt_wrapper() + "\n" for d in defs if d.sqrt_params)
    defs += temp_defs(ctx.src)
    hd, htext = hatch_defs(ctx.src)
    defs += hd
    htext += dimension_tables(ctx.src)
    htext += vertex_rule(ctx.src)
    cdefs, ctext, _ = conv_defs(ctx.src)
    defs += cdefs
    htext += ctext
    htext += wcs_attr_table(ctx.src)
    ctx.write_gen("TransformKernels", lean_file("EzdxfVerif.Gen.TransformKernels", defs, extra=htext + extra),
                  [TT] + KSRC + [TEMP, BPATH, POLYGON, ELLIPSE, MLINE, DIMENSION, INSERT_PY] + PYX + [p_ for _, p_, _ in WCS_CLASSES if p_ != MLINE])


# ================================================================================================ correspondence
def fr(x) -> str:
    f = Fr(float(x))
    return str(f.numerator) if f.denominator == 1 else f"{f.numerator}/{f.denominator}"


def frs(xs) -> str:
    return ",".join(fr(x) for x in xs)


def ocs_str(o) -> str:
    return ("T," if o.transform else "F,") + frs(list(o.matrix) if o.transform else mat16(IDENT))


def mk_ocs(t, m16):
    from ezdxf.math import OCS, Matrix44
    o = OCS()
    o.transform = bool(t)
    o.matrix = Matrix44(m16)
    return o


def ok(*fields) -> str:
    out = []
    for f in fields:
        if f is None:
            out.append("n")
        elif isinstance(f, (int, float)):
            out.append(fr(f))
        else:
            out.append(frs(f))
    return "ok " + ";".join(out)


FRAMES = [
    (False, mat16(IDENT)),
    (True, [-1.0, 0, 0, 0, 0, 1.0, 0, 0, 0, 0, -1.0, 0, 0, 0, 0, 1.0]),
    (True, [0, 1.0, 0, 0, 0, 0, 1.0, 0, 1.0, 0, 0, 0, 0, 0, 0, 1.0]),
    (True, [0.6, 0.8, 0, 0, -0.8, 0.6, 0, 0, 0, 0, 1.0, 0, 0, 0, 0, 1.0]),
    (True, [0.28, 0.96, 0, 0, 0, 0, 1.0, 0, 0.96, -0.28, 0, 0, 0, 0, 0, 1.0]),
]


def _dy(r, e=0):
    return r.randint(-64, 64) / 8.0 * 2.0 ** e


def _dyadic_affine(r):
    m = [float(r.randint(-16, 16)) / 4.0 for _ in range(16)]
    m[3] = m[7] = m[11] = 0.0
    m[15] = 1.0
    return m


def _corr_frame(r):
    if r.random() < 0.8:
        return r.choice(FRAMES)
    m = _dyadic_affine(r)  # the kernels are plain arithmetic: also checked on frames that are not orthonormal
    m[12] = m[13] = m[14] = 0.0
    return (True, m)


def corr_kernels(ctx):
    from ezdxf.math import Matrix44, Vec3, Vec2
    from ezdxf.math.transformtools import OCSTransform
    r = ctx.rng("corr/kernels")
    mg = MG(r)
    out = []
    for _ in range(ctx.n(1000, 8000)):
        m16 = _dyadic_affine(r) if r.random() < 0.6 else mat16(build_matrix(mg.affine() if r.random() < 0.5 else mg.similarity()))
        (t1, f1), (t2, f2) = _corr_frame(r), _corr_frame(r)
        ot = OCSTransform.from_ocs(mk_ocs(t1, f1), mk_ocs(t2, f2), Matrix44(m16))
        v = (_dy(r), _dy(r), _dy(r))
        kind = r.choice(["vertex", "dir", "thick", "len", "lenr", "width", "v2d"])
        x, y = frs(v), ""
        if kind == "vertex":
            val = ok(ot.transform_vertex(Vec3(v)))
        elif kind == "dir":
            val = ok(ot.transform_direction(Vec3(v)))
        elif kind == "thick":
            x = fr(v[0])
            val = ok([ot.transform_thickness(v[0])])
        elif kind == "len":
            val = ok([ot.transform_length(Vec3(v))])
        elif kind == "lenr":
            y = fr(v[1])
            val = ok([ot.transform_length(Vec3(v), reflection=v[1])])
        elif kind == "width":
            w = r.choice([v[0], 0.0, 1e-13, -2.5, 1e-11])
            x = fr(w)
            val = ok([ot.transform_width(w)])
        else:
            x, y = frs(v[:2]), fr(v[2])
            val = ok(ot.transform_2d_vertex(Vec2(v[:2]), v[2]))
        ctx.hist("X1 OCSTransform kernels", kind)
        req = "|".join(["ot", frs(m16), ("T," if t1 else "F,") + frs(f1), ("T," if t2 else "F,") + frs(f2), kind, x, y, val, "1/1000000000"])
        out.append((req, "agree", any(v)))
    return out


def corr_extrusion(ctx):
    from ezdxf.math import Matrix44, OCS, Vec3
    from ezdxf.math.transformtools import transform_extrusion
    r = ctx.rng("corr/extrusion")
    mg = MG(r)
    out = []
    for _ in range(ctx.n(1000, 8000)):
        n = vnorm(r.choice(EXTRUSIONS)) if r.random() < 0.8 else vnorm((_dy(r) + 0.0625, _dy(r), _dy(r)))
        if near_threshold(n):
            continue
        k = r.random()
        mr = mg.similarity() if k < 0.4 else mg.affine() if k < 0.7 else mg.plane(n, r.choice(["planesim", "shear", "stretch"]))
        m = build_matrix(mr)
        cl = classify(m, n)
        fr_ = ocs_axes(n)
        lx, ly = vdot(m_dir(m, fr_[0]), m_dir(m, fr_[0])), vdot(m_dir(m, fr_[1]), m_dir(m, fr_[1]))
        if 1e-11 < abs(lx - ly) / max(lx, ly) < 1e-7 or 1e-11 < abs(lx - ly) < 1e-7 or abs(cl["det"]) < 1e-9:
            ctx.hist("X2 transform_extrusion", "regenerated-in-decision-band")
            continue
        o = OCS(Vec3(n))
        try:
            ext, uni = transform_extrusion(Vec3(n), Matrix44(mat16(m)))
            val = ok(ext, [1.0 if uni else 0.0])
        except ZeroDivisionError:
            val = "err ZeroDivisionError"
        ctx.hist("X2 transform_extrusion", f"plane={cl['plane']} uniform={val.endswith(';1')}")
        out.append(("|".join(["ext", ocs_str(o), frs(mat16(m)), val, "1/1000000000"]), "agree", o.transform))
    return out


def _cs(deg):
    a = math.radians(deg)
    return [math.cos(a), math.sin(a)]


def corr_entities(ctx):
    """control flow of Line / Circle / Arc / LWPolyline / Solid transform given the SAME OCSTransform data the real code built"""
    from ezdxf.math import Matrix44, Vec3, NonUniformScalingError, arc_angle_span_deg
    from ezdxf.math.transformtools import OCSTransform
    r = ctx.rng("corr/entities")
    eg, mg = EG(r), MG(r)
    world = World()
    out = []
    for _ in range(ctx.n(1500, 10000)):
        kind = r.choice(["line", "circle", "arc", "lw", "solid"])
        rc = {"line": eg.line, "circle": eg.circle, "arc": eg.arc, "lw": eg.lwpolyline, "solid": eg.solid}[kind]()
        n = recipe_extrusion(rc)
        k = r.random()
        mr = mg.similarity() if k < 0.45 else mg.affine() if k < 0.7 else mg.plane(n, r.choice(["planesim", "stretch", "shear"]))
        m = build_matrix(mr)
        cl = classify(m, n)
        if cl.get("plane") == "band" or abs(cl["det"]) < 1e-9:
            continue
        if kind == "arc" and cl.get("plane") != "sim" and abs((rc["a"]["end_angle"] - rc["a"]["start_angle"]) % 360.0 - 180.0) < 1e-9:
            # semicircle under a map that is no similarity of the plane: the code probes the direction 1 rad after the start,
            # the model a rational direction; the two probes may answer differently (documented in Model/Transform.lean)
            ctx.hist("X3 entity transform control flow", "skipped:semicircle-under-non-similarity")
            continue
        if world.n > 3000:
            world = World()
        e = build(world.layout(), rc)
        d = e.dxf
        M = Matrix44(mat16(m))
        ms = frs(mat16(m))
        opt = lambda name: fr(d.get(name)) if d.hasattr(name) else "n"  # noqa: E731
        if kind == "line":
            req = ["line", ms, frs(d.start), frs(d.end), opt("thickness"), frs(d.extrusion) if d.hasattr("extrusion") else "n"]
            try:
                e.transform(M)
                val = ok(d.start, d.end, [d.thickness] if d.hasattr("thickness") else None, d.extrusion if d.hasattr("extrusion") else None)
            except ZeroDivisionError:
                val = "err ZeroDivisionError"
        else:
            ot = OCSTransform(Vec3(d.extrusion), M)
            head = [ms, ocs_str(ot.old_ocs), ocs_str(ot.new_ocs)]
            uni = "T" if ot.scale_uniform else "F"
            try:
                if kind == "circle":
                    req = ["circle"] + head + [uni, frs(d.center), fr(d.radius), opt("thickness")]
                    e.transform(M)
                    val = ok(d.center, [d.radius], [d.thickness] if d.hasattr("thickness") else None)
                elif kind == "arc":
                    full = math.isclose(arc_angle_span_deg(d.start_angle, d.end_angle), 360.0)
                    req = ["arc"] + head + [uni, frs(d.center), fr(d.radius), opt("thickness"), frs(_cs(d.start_angle)), frs(_cs(d.end_angle)),
                                            "T" if full else "F"]
                    e.transform(M)
                    val = ok(d.center, [d.radius], [d.thickness] if d.hasattr("thickness") else None, _cs(d.start_angle), _cs(d.end_angle))
                elif kind == "lw":
                    pts = [tuple(p) for p in e.lwpoints]
                    req = ["lw"] + head + [uni, fr(d.elevation), opt("const_width"), opt("thickness"), ";".join(frs(p) for p in pts)]
                    e.transform(M)
                    val = ok([d.elevation], [d.const_width] if d.hasattr("const_width") else None,
                             [d.thickness] if d.hasattr("thickness") else None, *[tuple(p) for p in e.lwpoints])
                else:
                    names = [nm for nm in ("vtx0", "vtx1", "vtx2", "vtx3") if d.hasattr(nm)]
                    req = ["solid"] + head + [opt("thickness"), ";".join(frs(d.get(nm)) for nm in names)]
                    e.transform(M)
                    val = ok([d.thickness] if d.hasattr("thickness") else None, *[d.get(nm) for nm in names])
            except NonUniformScalingError:
                val = "err NonUniformScalingError"
        ctx.hist("X3 entity transform control flow", f"{kind}:{'err' if val.startswith('err') else 'ok'}:{cl.get('plane')}")
        out.append(("|".join(req + [val, "1/100000000"]), "agree", not cl["sim3"] or cl["det"] < 0))
    return out


def corr_insert(ctx):
    from ezdxf.math import Matrix44, OCS, Vec3, ABS_TOL
    from ezdxf.math.transformtools import InsertCoordinateSystem, InsertTransformationError
    r = ctx.rng("corr/insert")
    eg, mg = EG(r), MG(r)
    world = World()
    out = []
    for _ in range(ctx.n(1500, 10000)):
        rc = eg.insert("LEAF")
        a = rc["a"]
        n = recipe_extrusion(rc)
        k = r.random()
        mr = mg.similarity() if k < 0.45 else mg.affine() if k < 0.7 else mg.plane(n, r.choice(["planesim", "stretch", "shear"]))
        m = build_matrix(mr)
        if abs(m_det(m)) < 1e-9:
            continue
        fr_ = ocs_axes(n)
        c_, s_ = _cs(a["rotation"])
        own = (vadd(vmul(fr_[0], c_), vmul(fr_[1], s_)), vadd(vmul(fr_[0], -s_), vmul(fr_[1], c_)), fr_[2])  # the reference's axes
        rows = [vnorm(m_dir(m, ax)) for ax in own]
        dots = [abs(vdot(rows[i], rows[j])) for i, j in ((0, 1), (0, 2), (1, 2))]
        if any(ABS_TOL / 100 < x < ABS_TOL * 100 for x in dots):
            ctx.hist("X4 InsertCoordinateSystem.transform / Insert.matrix44", "regenerated-in-decision-band")
            continue
        old = OCS(Vec3(n))
        sc = (a["xscale"], a["yscale"], a["zscale"])
        ics = InsertCoordinateSystem(Vec3(rc["insert"]), sc, a["rotation"], Vec3(n))
        req = ["ins", frs(mat16(m)), ocs_str(old)]
        try:
            res = ics.transform(Matrix44(mat16(m)), ABS_TOL)
            new = OCS(res.extrusion)
            val = ok(res.insert, [res.scale_factor_x, res.scale_factor_y, res.scale_factor_z], _cs(res.rotation))
        except InsertTransformationError:
            new = OCS()
            val = "err InsertTransformationError"
        req += [ocs_str(new), fr(ABS_TOL), frs(rc["insert"]), frs(sc), frs(_cs(a["rotation"]))]
        ctx.hist("X4 InsertCoordinateSystem.transform / Insert.matrix44", "ins:" + ("err" if val.startswith("err") else "ok"))
        out.append(("|".join(req + [val, "1/100000000"]), "agree", a["rotation"] != 0.0 or "extrusion" in a))
        # Insert.matrix44 of the untransformed reference (block LEAF has the base point (1, 0.5, 0))
        if world.n > 3000:
            world = World()
        e = build(world.layout(), rc)
        mat = list(e.matrix44())
        req = ["imat", ocs_str(old), frs(rc["insert"]), frs(sc), frs(_cs(a["rotation"])), frs(world.base_of("LEAF"))]
        ctx.hist("X4 InsertCoordinateSystem.transform / Insert.matrix44", "imat")
        out.append(("|".join(req + [ok(mat), "1/1000000000"]), "agree", True))
        # the same request against the kernel regenerated from Insert.matrix44 itself
        ctx.hist("X4 InsertCoordinateSystem.transform / Insert.matrix44", "imatgen")
        out.append(("|".join(["imatgen"] + req[1:] + [ok(mat), "1/1000000000"]), "agree", True))
    return out


def corr_nested(ctx):
    """nested documents of POINT entities (rotated / tilted / mirrored / non-uniformly scaled references, MINSERT grids,
    depth <= 4): real recursive expansion vs the model's product of the real per-level `Insert.matrix44()`"""
    r = ctx.rng("corr/nested")
    out = []
    for k in range(ctx.n(500, 4000)):
        rec = gen_nested(r, clean=(k % 3 == 0))
        for b in rec["blocks"]:
            b["ents"] = [x for x in b["ents"] if x["t"] == "INSERT"] + [{"t": "POINT", "a": {"location": EG(r).p3()}} for _ in range(r.randint(1, 2))]
        doc, top = build_nested(rec)

        def cells(ins):
            return list(ins.multi_insert()) if ins.mcount > 1 else [ins]

        def tree(ins):
            blk = doc.blocks.get(ins.dxf.name)
            kids = []
            for e in blk:
                kids += [tree(c) for c in cells(e)] if e.dxftype() == "INSERT" else ["P " + frs(v3(e.dxf.location))]
            return f"R {frs(list(ins.matrix44()))} {len(kids)} " + " ".join(kids)

        def flat(ins, acc):
            for cell in cells(ins):
                for ve in cell.virtual_entities():
                    if ve.dxftype() == "INSERT":
                        flat(ve, acc)
                    else:
                        acc.append(v3(ve.dxf.location))
        pts = []
        flat(top, pts)
        tops = cells(top)
        root = f"R {frs(mat16(IDENT))} {len(tops)} " + " ".join(tree(c) for c in tops)
        ctx.hist("X5 nested references", f"depth{len(rec['blocks'])}")
        out.append(("|".join(["nest", root, ok(*(pts + pts)), "1/1000000000"]), "agree", len(rec["blocks"]) > 1))
    return out


def corr_upright(ctx):
    from ezdxf.upright import upright
    r = ctx.rng("corr/upright")
    eg = EG(r)
    world = World()
    out = []
    for _ in range(ctx.n(800, 6000)):
        kind = r.choice(["circle", "arc", "solid", "lw", "ins"])
        rc = {"circle": eg.circle, "arc": eg.arc, "solid": eg.solid, "lw": eg.lwpolyline, "ins": lambda: eg.insert("LEAF")}[kind]()
        rc["a"]["extrusion"] = [0.0, 0.0, -1.0]
        rc["a"].pop("const_width", None)
        if world.n > 3000:
            world = World()
        e = build(world.layout(), rc)
        d = e.dxf
        opt = lambda name: fr(d.get(name)) if d.hasattr(name) else "n"  # noqa: E731
        th = lambda: [d.thickness] if d.hasattr("thickness") else None  # noqa: E731
        if kind == "circle":
            req = ["up", "circle", frs(d.center), fr(d.radius), opt("thickness")]
            upright(e)
            val = ok(d.center, [d.radius], th())
        elif kind == "arc":
            req = ["up", "arc", frs(d.center), fr(d.radius), opt("thickness"), frs(_cs(d.start_angle)), frs(_cs(d.end_angle))]
            upright(e)
            val = ok(d.center, [d.radius], th(), _cs(d.start_angle), _cs(d.end_angle))
        elif kind == "solid":
            names = [nm for nm in ("vtx0", "vtx1", "vtx2", "vtx3") if d.hasattr(nm)]
            req = ["up", "solid", opt("thickness"), ";".join(frs(d.get(nm)) for nm in names)]
            upright(e)
            val = ok(th(), *[d.get(nm) for nm in names])
        elif kind == "lw":
            req = ["up", "lw", fr(d.elevation), opt("thickness"), ";".join(frs(tuple(p)) for p in e.lwpoints)]
            upright(e)
            val = ok([d.elevation], th(), *[tuple(p) for p in e.lwpoints])
        else:
            sc = (d.xscale, d.yscale, d.zscale)
            req = ["up", "ins", frs(d.insert), frs(sc), frs(_cs(d.rotation))]
            upright(e)
            val = ok(d.insert, [d.xscale, d.yscale, d.zscale], _cs(d.rotation))
        ctx.hist("X6 upright", kind)
        out.append(("|".join(req + [val, "1/1000000000"]), "agree", True))
    return out


def corr_hatch(ctx):
    """HATCH / MPOLYGON.transform vs Model Hatch.transform given the OCS frames and the uniform flag of the real OCSTransform:
    new elevation, every stored boundary point, bulges, arc edge radius / angles, spline tangents, ellipse edge centres"""
    from ezdxf.math import Matrix44, Vec3, arc_angle_span_deg
    from ezdxf.math.transformtools import OCSTransform
    r = ctx.rng("corr/hatch")
    eg, mg = EG(r), MG(r)
    world = World()
    out = []
    S = "X8 HATCH / MPOLYGON boundary paths"

    def pt(v):
        return frs((v[0], v[1]))

    for _ in range(ctx.n(900, 6000)):
        rc = eg.hatch("MPOLYGON" if r.random() < 0.2 else "HATCH")
        n = recipe_extrusion(rc)
        k = r.random()
        mr = mg.similarity() if k < 0.35 else mg.affine() if k < 0.7 else mg.plane(n, r.choice(["planesim", "stretch", "shear"]))
        m = build_matrix(mr)
        cl = classify(m, n)
        if cl.get("plane") == "band" or abs(cl["det"]) < 1e-9:
            continue
        if world.n > 3000:
            world = World()
        e = build(world.layout(), rc)
        M = Matrix44(mat16(m))
        ot = OCSTransform(Vec3(e.dxf.extrusion), M)
        arcs = any((not hasattr(p, "edges") and any(b for _, _, b in p.vertices)) or
                   (hasattr(p, "edges") and any(type(ed).__name__ == "ArcEdge" for ed in p.edges)) for p in e.paths)
        if arcs and not ot.scale_uniform:
            ctx.hist(S, "skipped:arc-to-ellipse-conversion")
            continue

        def enc():
            ps = []
            for p in e.paths:
                if not hasattr(p, "edges"):
                    ps.append(";".join(["P", "T" if p.is_closed else "F"] + [frs(v) for v in p.vertices]))
                    continue
                es = []
                for ed in p.edges:
                    kind = type(ed).__name__
                    if kind == "LineEdge":
                        es.append(f"L:{pt(ed.start)}:{pt(ed.end)}")
                    elif kind == "ArcEdge":
                        full = math.isclose(arc_angle_span_deg(ed.start_angle, ed.end_angle), 360.0)
                        es.append(f"A:{pt(ed.center)}:{fr(ed.radius)}:{frs(_cs(ed.start_angle))}:{frs(_cs(ed.end_angle))}:{'T' if full else 'F'}:{'T' if ed.ccw else 'F'}")
                    elif kind == "SplineEdge":
                        tn = lambda t: "n" if t is None else pt(t)  # noqa: E731
                        es.append(f"S:{'_'.join(pt(v) for v in ed.control_points)}:{'_'.join(pt(v) for v in ed.fit_points)}:{tn(ed.start_tangent)}:{tn(ed.end_tangent)}")
                    else:
                        es.append(f"C:{pt(ed.center)}")
                ps.append(";".join(["E"] + es))
            return "#".join(ps)

        def dec():
            fs = [[float(v3(e.dxf.elevation)[2])]]
            for p in e.paths:
                if not hasattr(p, "edges"):
                    fs += [tuple(v) for v in p.vertices]
                    continue
                for ed in p.edges:
                    kind = type(ed).__name__
                    if kind == "LineEdge":
                        fs += [tuple(ed.start), tuple(ed.end)]
                    elif kind == "ArcEdge":
                        fs += [tuple(ed.center), [ed.radius], _cs(ed.start_angle), _cs(ed.end_angle)]
                    elif kind == "SplineEdge":
                        fs += [tuple(v) for v in ed.control_points] + [tuple(v) for v in ed.fit_points]
                        fs += [None if ed.start_tangent is None else tuple(ed.start_tangent), None if ed.end_tangent is None else tuple(ed.end_tangent)]
                    else:
                        fs.append(tuple(ed.center))
            return fs

        req = ["hatch", frs(mat16(m)), ocs_str(ot.old_ocs), ocs_str(ot.new_ocs), "T" if ot.scale_uniform else "F",
               fr(v3(e.dxf.elevation)[2]), enc()]
        e.transform(M)
        val = ok(*dec())
        ctx.hist(S, f"{rc['t']}:{cl.get('plane')}:{'elev' if 'elevation' in rc['a'] else 'flat'}:{'tilted' if 'extrusion' in rc['a'] else 'z'}")
        out.append(("|".join(req + [val, "1/100000000"]), "agree", not cl["sim3"] or cl["det"] < 0 or "elevation" in rc["a"]))
    return out


def corr_text(ctx):
    """TEXT / ATTDEF / ATTRIB (Text.transform, both branches) and MTEXT (MText.transform) vs the model, given the OCS frames and
    the uniform flag of the real OCSTransform"""
    from ezdxf.math import Matrix44, Vec3, OCS
    from ezdxf.math.transformtools import OCSTransform
    r = ctx.rng("corr/text")
    eg, mg = EG(r), MG(r)
    world = World()
    out = []
    S = "X9 TEXT / ATTDEF / MTEXT"
    for k in range(ctx.n(1200, 8000)):
        kind = r.choice(["TEXT", "TEXT", "ATTDEF", "MTEXT"])
        rc = eg.mtext() if kind == "MTEXT" else eg.text(kind)
        n = recipe_extrusion(rc)
        c = r.random()
        mr = mg.similarity() if c < 0.35 else mg.affine() if c < 0.7 else mg.plane(n, r.choice(["planesim", "stretch", "shear"]))
        m = build_matrix(mr)
        cl = classify(m, n)
        if cl.get("plane") == "band" or abs(cl["det"]) < 1e-9:
            continue
        if world.n > 3000:
            world = World()
        e = build(world.layout(), rc)
        d = e.dxf
        M = Matrix44(mat16(m))
        opt = lambda name: fr(d.get(name)) if d.hasattr(name) else "n"  # noqa: E731
        if kind == "MTEXT":
            e.convert_rotation_to_text_direction()
            if not d.hasattr("text_direction"):
                d.text_direction = (1.0, 0.0, 0.0)
            ext = vnorm(v3(d.extrusion))
            d.extrusion = ext
            req = ["mtext", frs(mat16(m)), ocs_str(OCS(Vec3(ext))), frs(d.insert), frs(d.text_direction), frs(ext), fr(d.char_height), opt("width")]
            try:
                e.transform(M)
                val = ok(d.insert, d.text_direction, d.extrusion, [d.char_height], [d.width] if d.hasattr("width") else None)
            except ZeroDivisionError:
                val = "err ZeroDivisionError"
        else:
            ot = OCSTransform(Vec3(d.extrusion), M)
            req = ["text", frs(mat16(m)), ocs_str(ot.old_ocs), ocs_str(ot.new_ocs), "T" if ot.scale_uniform else "F", frs(d.insert),
                   frs(d.align_point) if d.hasattr("align_point") else "n", frs(_cs(d.rotation)), frs(_cs(d.oblique)), fr(d.height), fr(d.width), opt("thickness")]
            try:
                e.transform(M)
                val = ok(d.insert, d.align_point, _cs(d.rotation), _cs(d.oblique), [d.height], [d.width], [d.thickness] if d.hasattr("thickness") else None)
            except ZeroDivisionError:
                val = "err ZeroDivisionError"
        ctx.hist(S, f"{kind}:{cl.get('plane')}:{'err' if val.startswith('err') else 'ok'}")
        out.append(("|".join(req + [val, "1/100000000"]), "agree", not cl["sim3"] or cl["det"] < 0 or "extrusion" in rc["a"]))
    return out


def corr_rytz(ctx):
    """rytz_axis_construction on conjugate half-diameters of ellipses in the xy-plane and in general position (and on arbitrary
    vector pairs) vs the regenerated kernel evaluated with the driver's sqrt"""
    from ezdxf.math import Vec3
    from ezdxf.math.ellipse import rytz_axis_construction
    r = ctx.rng("corr/rytz")
    mg = MG(r)
    out = []
    S = "X10 rytz_axis_construction / minor_axis"
    for _ in range(ctx.n(800, 6000)):
        k = r.random()
        flat = r.random() < 0.5
        if k < 0.75:
            a = r.choice([1.0, 2.0, 2.5, 4.0, 10.0])
            b = a * r.choice([0.5, 0.25, 0.75, 0.1, 0.9])
            c, s_ = mg.cs()
            if abs(c) < 1e-6 or abs(s_) < 1e-6:
                c, s_ = 0.6, 0.8
            q, p_ = (a * c, b * s_, 0.0), (-a * s_, b * c, 0.0)
            if r.random() < 0.5:
                q, p_ = p_, q
            rot = build_matrix([mg.R()] if flat and r.random() < 0.0 else ([["R", 0.0, 0.0, 1.0, *mg.cs()]] if flat else [mg.R(), mg.R()]))
            d1, d2 = m_dir(rot, q), m_dir(rot, p_)
            if flat:
                d1, d2 = (d1[0], d1[1], 0.0), (d2[0], d2[1], 0.0)
            kind = "conjugate"
        else:
            d1 = (_dy(r), _dy(r), 0.0 if flat else _dy(r))
            d2 = (_dy(r), _dy(r), 0.0 if flat else _dy(r))
            kind = "arbitrary"
        cr = vcross(d1, d2)
        if vlen(cr) < 1e-3 * max(1.0, vlen(d1) * vlen(d2)):
            continue
        if abs(vdot(d1, d2)) < 1e-6 * vlen(d1) * vlen(d2) and abs(vlen(d1) - vlen(d2)) < 1e-6 * vlen(d1):
            continue  # a circle: the construction divides by |Q - P'| = 0
        try:
            mj, mn, ratio = rytz_axis_construction(Vec3(d1), Vec3(d2))
            val = ok(mj, mn, [ratio])
        except ArithmeticError as e:
            val = "err " + ("ZeroDivisionError" if isinstance(e, ZeroDivisionError) else "ArithmeticError")
        ctx.hist(S, f"{kind}:{'plane' if flat else 'space'}:{'err' if val.startswith('err') else 'ok'}")
        out.append(("|".join(["rytz", frs(d1), frs(d2), val, "1/100000000"]), "agree", True))
        # minor_axis(major, extrusion, ratio) on the same vectors (extrusion = any vector not parallel to the major axis)
        from ezdxf.math.ellipse import minor_axis
        ratio_ = r.choice([1.0, 0.5, 0.25, 2.0, 0.8])
        ext = cr if r.random() < 0.7 else d2
        try:
            val = ok(minor_axis(Vec3(d1), Vec3(ext), ratio_))
        except ZeroDivisionError:
            val = "err ZeroDivisionError"
        ctx.hist(S, "minor_axis")
        out.append(("|".join(["minor", frs(d1), frs(ext), fr(ratio_), val, "1/100000000"]), "agree", True))
    return out


def corr_mline(ctx):
    """MLine.transform: new scale factor and reference vertices vs the model (regenerated scale kernel)"""
    from ezdxf.math import Matrix44
    r = ctx.rng("corr/mline")
    eg, mg = EG(r), MG(r)
    world = World()
    out = []
    S = "X11 MLINE scale factor and vertices"
    for _ in range(ctx.n(300, 2500)):
        rc = eg.mline()
        k = r.random()
        mr = mg.similarity() if k < 0.6 else mg.affine()
        m = build_matrix(mr)
        cl = classify(m)
        if abs(cl["det"]) < 1e-9:
            continue
        A = m[0]
        lens = [vlen(a) for a in A]
        if any(1e-7 < abs(lens[i] - lens[j]) < 1e-5 for i, j in ((0, 1), (1, 2))):
            ctx.hist(S, "regenerated-in-decision-band")
            continue
        if world.n > 3000:
            world = World()
        e = build(world.layout(), rc)
        req = ["mline", frs(mat16(m)), fr(e.dxf.scale_factor), ";".join(frs(v3(v.location)) for v in e.vertices)]
        e.transform(Matrix44(mat16(m)))
        val = ok([e.dxf.scale_factor], *[v3(v.location) for v in e.vertices])
        ctx.hist(S, "similarity" if cl["sim3"] else "affine")
        out.append(("|".join(req + [val, "1/1000000000"]), "agree", True))
    return out


DIM_PTS = ["defpoint", "defpoint2", "defpoint3", "defpoint4", "defpoint5", "text_midpoint", "insert"]
DIM_ANGLES = ["text_rotation", "horizontal_direction", "angle"]


def corr_dimension(ctx):
    """Dimension.transform on DIMENSION entities with arbitrary subsets of the definition points / angles and tilted extrusions
    (no geometry block: the block content is transformed entity by entity by the entities' own transform) vs the model"""
    from ezdxf.math import Matrix44, Vec3
    from ezdxf.math.transformtools import OCSTransform
    r = ctx.rng("corr/dimension")
    eg, mg = EG(r), MG(r)
    world = World()
    out = []
    S = "X12 DIMENSION definition points and angles"
    for _ in range(ctx.n(500, 4000)):
        a = {}
        n = eg.ext()
        if n is not None:
            a["extrusion"] = n
        for name in DIM_PTS:
            if r.random() < 0.6 and name != "insert" or r.random() < 0.15:
                a[name] = eg.p3()
        for name in DIM_ANGLES:
            if r.random() < 0.5:
                a[name] = r.choice([0.0, 30.0, 90.0, 135.0, -45.0, 200.0, 53.13010235415598])
        nn = tuple(a.get("extrusion", (0.0, 0.0, 1.0)))
        k = r.random()
        mr = mg.similarity() if k < 0.4 else mg.affine() if k < 0.7 else mg.plane(nn, r.choice(["planesim", "stretch", "shear"]))
        m = build_matrix(mr)
        cl = classify(m, nn)
        if cl.get("plane") == "band" or abs(cl["det"]) < 1e-9:
            continue
        if world.n > 3000:
            world = World()
        e = world.layout().new_entity("DIMENSION", _attr(a))
        d = e.dxf
        M = Matrix44(mat16(m))
        ot = OCSTransform(Vec3(d.extrusion), M)
        names = [nm for nm in DIM_PTS + DIM_ANGLES if d.hasattr(nm)]
        if not names:
            continue  # nothing to transform (and the line protocol cannot carry an empty field list)
        enc = ";".join(f"{nm}=P:{frs(d.get(nm))}" if nm in DIM_PTS else f"{nm}=A:{frs(_cs(d.get(nm)))}" for nm in names)
        req = ["dim", frs(mat16(m)), ocs_str(ot.old_ocs), ocs_str(ot.new_ocs), enc]
        e.transform(M)
        val = ok(*[d.get(nm) if nm in DIM_PTS else _cs(d.get(nm)) for nm in names])
        ctx.hist(S, f"{cl.get('plane')}:{'tilted' if 'extrusion' in a else 'z'}")
        out.append(("|".join(req + [val, "1/100000000"]), "agree", bool(names)))
    return out


def corr_polyline2d(ctx):
    """Polyline.transform (2-D POLYLINE with VERTEX sub-entities: own z per vertex, optional polyline elevation, widths, bulges,
    NonUniformScalingError) vs the model"""
    from ezdxf.math import Matrix44, Vec3, NonUniformScalingError
    from ezdxf.math.transformtools import OCSTransform
    r = ctx.rng("corr/polyline2d")
    eg, mg = EG(r), MG(r)
    world = World()
    out = []
    S = "X13 2-D POLYLINE"
    for _ in range(ctx.n(500, 4000)):
        rc = eg.polyline2d()
        n = recipe_extrusion(rc)
        k = r.random()
        mr = mg.similarity() if k < 0.45 else mg.affine() if k < 0.7 else mg.plane(n, r.choice(["planesim", "stretch", "shear"]))
        m = build_matrix(mr)
        cl = classify(m, n)
        if cl.get("plane") == "band" or abs(cl["det"]) < 1e-9:
            continue
        if world.n > 3000:
            world = World()
        e = build(world.layout(), rc)
        d = e.dxf
        if r.random() < 0.3:  # vertices with their own z (no polyline elevation): older files
            d.discard("elevation")
            z = r.choice([0.0, 1.5, -2.0])
            for v in e.vertices:
                v.dxf.location = Vec3(v.dxf.location).replace(z=z)
        M = Matrix44(mat16(m))
        ot = OCSTransform(Vec3(d.extrusion), M)
        optv = lambda v, name: fr(v.dxf.get(name)) if v.dxf.hasattr(name) else "n"  # noqa: E731
        verts = ";".join(f"{frs(v3(v.dxf.location))},{fr(v.dxf.get('bulge', 0.0))}:{optv(v, 'start_width')}:{optv(v, 'end_width')}" for v in e.vertices)
        req = ["pl2d", frs(mat16(m)), ocs_str(ot.old_ocs), ocs_str(ot.new_ocs), "T" if ot.scale_uniform else "F",
               fr(v3(d.elevation)[2]) if d.hasattr("elevation") else "n", fr(d.thickness) if d.hasattr("thickness") else "n", verts]
        try:
            e.transform(M)
            fs = [[v3(d.elevation)[2]] if d.hasattr("elevation") else None, [d.thickness] if d.hasattr("thickness") else None]
            for v in e.vertices:
                fs += [list(v3(v.dxf.location)) + [v.dxf.get("bulge", 0.0)], [v.dxf.start_width] if v.dxf.hasattr("start_width") else None,
                       [v.dxf.end_width] if v.dxf.hasattr("end_width") else None]
            val = ok(*fs)
        except NonUniformScalingError:
            val = "err NonUniformScalingError"
        ctx.hist(S, f"{cl.get('plane')}:{'err' if val.startswith('err') else 'ok'}:{'elev' if 'elevation' in rc['a'] else 'own-z'}")
        out.append(("|".join(req + [val, "1/100000000"]), "agree", not cl["sim3"] or cl["det"] < 0 or "extrusion" in rc["a"]))
    return out


def corr_ellipse(ctx):
    """ConstructionEllipse.transform (full ellipses: centre, major / minor axis, extrusion, ratio after the transformation, both
    branches and the ratio > 1 exchange) vs Model Ell.transform over the regenerated rytz / minor_axis kernels"""
    from ezdxf.math import Matrix44, Vec3, ConstructionEllipse
    r = ctx.rng("corr/ellipse")
    eg, mg = EG(r), MG(r)
    out = []
    S = "X14 ConstructionEllipse.transform (axes)"
    for _ in range(ctx.n(700, 5000)):
        rc = eg.ellipse()
        a = rc["a"]
        n = tuple(a["extrusion"])
        k = r.random()
        mr = mg.similarity() if k < 0.3 else mg.affine() if k < 0.7 else mg.plane(n, r.choice(["planesim", "stretch", "shear"]))
        m = build_matrix(mr)
        if abs(m_det(m)) < 1e-9:
            continue
        ce = ConstructionEllipse(Vec3(a["center"]), Vec3(a["major_axis"]), Vec3(n), a["ratio"])
        mj_, mn_ = m_dir(m, v3(ce.major_axis)), m_dir(m, v3(ce.minor_axis))
        cosv = abs(vdot(vnorm(mj_), vnorm(mn_)))
        ratio_ = vlen(mn_) / vlen(mj_)
        if 1e-7 < cosv < 1e-5 or (cosv <= 1e-7 and abs(ratio_ - 1.0) < 1e-6) or (cosv > 1e-5 and a["ratio"] == 1.0 and cosv < 1e-3):
            ctx.hist(S, "regenerated-in-decision-band")
            continue
        req = ["ell", frs(mat16(m)), frs(a["center"]), frs(a["major_axis"]), frs(n), fr(a["ratio"])]
        try:
            ce.transform(Matrix44(mat16(m)))
            val = ok(ce.center, ce.major_axis, ce.minor_axis, ce.extrusion, [ce.ratio])
            if abs(ce.ratio - 1.0) < 1e-6:
                ctx.hist(S, "regenerated-in-decision-band")
                continue
        except ArithmeticError as x:
            val = "err " + ("ZeroDivisionError" if isinstance(x, ZeroDivisionError) else "ArithmeticError")
        ctx.hist(S, f"{'rytz' if cosv > 1e-6 else 'orthogonal'}:{'err' if val.startswith('err') else 'ok'}")
        out.append(("|".join(req + [val, "1/10000000"]), "agree", True))
    return out


def corr_ellipse_edge(ctx):
    """HATCH EllipseEdge.transform (and ArcEdge after arc_edges_to_ellipse_edges): centre, major axis, ratio in the new OCS vs the
    model (Ell.transform between the two OCS)"""
    from ezdxf.math import Matrix44, Vec3
    from ezdxf.math.transformtools import OCSTransform
    r = ctx.rng("corr/ellipse-edge")
    eg, mg = EG(r), MG(r)
    world = World()
    out = []
    S = "X15 HATCH ellipse edge axes"
    for _ in range(ctx.n(500, 4000)):
        n = eg.ext() or [0.0, 0.0, 1.0]
        a = {"extrusion": n}
        if r.random() < 0.6:
            a["elevation"] = [0.0, 0.0, r.choice([1.0, -2.0, 5.0])]
        arc = r.random() < 0.3
        if arc:
            edge = ["arc", eg.p2(), r.choice([1.0, 2.5]), 0.0, 360.0, True]
        else:
            edge = ["ellipse", eg.p2(), r.choice([[2.0, 0.0], [1.5, 2.0], [0.0, 3.0], [-1.0, 1.0]]), r.choice([0.5, 0.25, 0.8]), 0.0, 360.0, True]
        rc = {"t": "HATCH", "a": a, "paths": [{"k": "edge", "edges": [edge]}]}
        k = r.random()
        mr = mg.affine() if k < 0.5 else mg.plane(tuple(n), r.choice(["stretch", "shear"])) if k < 0.8 else mg.similarity()
        m = build_matrix(mr)
        cl = classify(m, tuple(n))
        if cl.get("plane") == "band" or abs(cl["det"]) < 1e-9:
            continue
        if world.n > 3000:
            world = World()
        e = build(world.layout(), rc)
        M = Matrix44(mat16(m))
        ot = OCSTransform(Vec3(e.dxf.extrusion), M)
        if arc and ot.scale_uniform:
            continue  # stays an arc edge (covered by X8)
        ed = e.paths[0].edges[0]
        center = tuple(ed.center)
        major = (ed.radius, 0.0) if arc else tuple(ed.major_axis)
        ratio = 1.0 if arc else ed.ratio
        # decision bands of ConstructionEllipse.transform: |cos| around 1e-6, ratio around 1
        fr_ = ocs_axes(tuple(n))
        mjw = m_dir(m, to_wcs(fr_, (major[0], major[1], 0.0)))
        mnw = m_dir(m, to_wcs(fr_, (-major[1] * ratio, major[0] * ratio, 0.0)))
        cosv = abs(vdot(vnorm(mjw), vnorm(mnw)))
        if 1e-7 < cosv < 1e-5 or (cosv <= 1e-7 and abs(vlen(mnw) / vlen(mjw) - 1.0) < 1e-6):
            ctx.hist(S, "regenerated-in-decision-band")
            continue
        req = ["elledge", frs(mat16(m)), ocs_str(ot.old_ocs), ocs_str(ot.new_ocs), fr(v3(e.dxf.elevation)[2]), frs(center), frs(major), fr(ratio)]
        try:
            e.transform(M)
            ed = e.paths[0].edges[0]
            if abs(ed.ratio - 1.0) < 1e-6:
                ctx.hist(S, "regenerated-in-decision-band")
                continue
            val = ok(tuple(ed.center), tuple(ed.major_axis), [ed.ratio])
        except ArithmeticError as x:
            val = "err " + ("ZeroDivisionError" if isinstance(x, ZeroDivisionError) else "ArithmeticError")
        ctx.hist(S, f"{'arc' if arc else 'ellipse'}:{'rytz' if cosv > 1e-6 else 'orthogonal'}:{'elev' if 'elevation' in a else 'flat'}")
        out.append(("|".join(req + [val, "1/10000000"]), "agree", True))
    return out


def corr_minsert(ctx):
    """MINSERT: row / column spacing after Insert.transform vs the model's formula on the real old / new scale factors"""
    from ezdxf.math import Matrix44
    from ezdxf.math.transformtools import InsertTransformationError
    r = ctx.rng("corr/minsert")
    eg, mg = EG(r), MG(r)
    world = World()
    out = []
    S = "X16 MINSERT spacing"
    for _ in range(ctx.n(300, 2500)):
        rc = eg.insert("LEAF", grid=True)
        a = rc["a"]
        if r.random() < 0.1:
            a["xscale"] = 0.0
        n = recipe_extrusion(rc)
        k = r.random()
        mr = mg.similarity() if k < 0.6 else mg.plane(n, "planesim") if k < 0.8 else mg.affine()
        m = build_matrix(mr)
        if abs(m_det(m)) < 1e-9:
            continue
        if world.n > 3000:
            world = World()
        e = build(world.layout(), rc)
        d = e.dxf
        sc = (d.xscale, d.yscale, d.zscale)
        cs_, rs_ = d.column_spacing, d.row_spacing
        try:
            e.transform(Matrix44(mat16(m)))
        except (InsertTransformationError, ZeroDivisionError):
            ctx.hist(S, "not representable")
            continue
        req = ["mins", frs(sc), frs((d.xscale, d.yscale, d.zscale)), fr(cs_), fr(rs_)]
        ctx.hist(S, "ok" if sc[0] else "xscale 0")
        out.append(("|".join(req + [ok([d.column_spacing], [d.row_spacing]), "1/1000000000"]), "agree", True))
    return out


def corr_translate(ctx):
    """the translate() fast paths of every class that overrides it (found in the live classes) vs the py2lean translations, on
    tilted extrusions; a class whose override is not covered here is reported as broken"""
    from ezdxf.math import OCS, Vec3
    r = ctx.rng("corr/translate")
    eg = EG(r)
    eg.force_tilt = True
    world = World()
    out = []
    S = "X17 translate() fast paths"
    over, _ = conv_tables()
    gens = {"Circle": [("circle", ["center"]), ("arc", ["center"])], "Ellipse": [("ellipse", ["center"])],
            "Insert": [("insert", ["insert"])], "Line": [("line", ["start", "end"])], "Point": [("point", ["location"])],
            "Text": [("text", ["insert", "align_point"]), ("attdef", ["insert", "align_point"])], "XLine": [("xline", ["start"]), ("ray", ["start"])]}
    missing = sorted(c for a, c in over if a != "translate" or c not in gens)
    if missing:
        raise RuntimeError(f"convenience-interface overrides without a correspondence generator: {missing}")
    for cls, gl in sorted(gens.items()):
        for _ in range(ctx.n(60, 400)):
            gname, attrs = r.choice(gl)
            rc = {"attdef": lambda: eg.text("ATTDEF"), "ray": lambda: eg.xline("RAY")}.get(gname, getattr(eg, gname, None))()
            if cls == "Text":
                rc["a"].setdefault("align_point", rc["a"]["insert"][:2] + [rc["a"]["insert"][2]])
                rc["a"].setdefault("halign", 1)
            if world.n > 3000:
                world = World()
            e = build(world.layout(), rc)
            d = e.dxf
            off = [r.choice([1.0, -2.5, 7.25, 100.0, -0.125, 3.0]) for _ in range(3)]
            has_ocs = cls in ("Circle", "Insert", "Text")
            o = OCS(Vec3(d.extrusion)) if has_ocs else OCS()
            req = ["trans", cls, ocs_str(o), ";".join(frs(d.get(a)) for a in attrs), frs(off)]
            e.translate(*off)
            ctx.hist(S, f"{cls}:{e.dxftype()}")
            out.append(("|".join(req + [ok(*[d.get(a) for a in attrs]), "1/1000000000"]), "agree", has_ocs))
    return out


def corr_multi_insert(ctx):
    """MINSERT: Insert.matrix44() of every grid element yielded by multi_insert() vs the model's grid cell (insert moved by the rotated
    OCS offset (col * column_spacing, row * row_spacing))"""
    from ezdxf.math import OCS, Vec3
    r = ctx.rng("corr/multi-insert")
    eg = EG(r)
    world = World()
    out = []
    S = "X18 multi_insert grid elements"
    for _ in range(ctx.n(150, 1200)):
        rc = eg.insert("LEAF", grid=True)
        if world.n > 3000:
            world = World()
        e = build(world.layout(), rc)
        d = e.dxf
        o = OCS(Vec3(d.extrusion))
        nr, nc = d.row_count, d.column_count
        if not (d.row_spacing and d.column_spacing):
            continue
        cells = list(e.multi_insert())
        if len(cells) != nr * nc:
            continue
        k = 0
        for row in range(nr):
            for col in range(nc):
                req = ["mcell", ocs_str(o), frs(d.insert), frs((d.xscale, d.yscale, d.zscale)), frs(_cs(d.rotation)), frs(world.base_of("LEAF")),
                       str(col), str(row), fr(d.column_spacing), fr(d.row_spacing)]
                out.append(("|".join(req + [ok(list(cells[k].matrix44())), "1/1000000000"]), "agree", col + row > 0))
                ctx.hist(S, f"col{col}row{row}")
                k += 1
    return out


def corr_shape(ctx):
    """Shape.transform (insert, rotation, size, xscale with sign, thickness) vs the model, given the OCS frames of the real
    OCSTransform"""
    from ezdxf.math import Matrix44, Vec3
    from ezdxf.math.transformtools import OCSTransform
    r = ctx.rng("corr/shape")
    eg, mg = EG(r), MG(r)
    world = World()
    out = []
    S = "X19 SHAPE"
    for _ in range(ctx.n(300, 2500)):
        rc = eg.shape()
        a = rc["a"]
        a["rotation"] = r.choice([0.0, 30.0, 90.0, 135.0, -45.0, 200.0])
        a["size"] = r.choice([2.0, 0.5, 1.25])
        a["xscale"] = r.choice([1.0, 2.0, -1.0, -0.5])
        if r.random() < 0.4:
            a["thickness"] = r.choice([1.0, -2.5])
        n = recipe_extrusion(rc)
        k = r.random()
        mr = mg.similarity() if k < 0.5 else mg.affine() if k < 0.75 else mg.plane(n, r.choice(["planesim", "stretch", "shear"]))
        m = build_matrix(mr)
        cl = classify(m, n)
        if cl.get("plane") == "band" or abs(cl["det"]) < 1e-9:
            continue
        if world.n > 3000:
            world = World()
        e = build(world.layout(), rc)
        d = e.dxf
        M = Matrix44(mat16(m))
        ot = OCSTransform(Vec3(d.extrusion), M)
        req = ["shape", frs(mat16(m)), ocs_str(ot.old_ocs), ocs_str(ot.new_ocs), frs(d.insert), frs(_cs(d.rotation)), fr(d.size), fr(d.xscale),
               fr(d.thickness) if d.hasattr("thickness") else "n"]
        e.transform(M)
        val = ok(d.insert, _cs(d.rotation), [d.size], [d.xscale], [d.thickness] if d.hasattr("thickness") else None)
        ctx.hist(S, f"{cl.get('plane')}:{'neg' if a['xscale'] < 0 else 'pos'}")
        out.append(("|".join(req + [val, "1/100000000"]), "agree", True))
    return out


def corr_temp(ctx):
    """histories of transform() calls on ACIS entities: the pending matrix of the real entity vs the model's fold"""
    from ezdxf.math import Matrix44
    r = ctx.rng("corr/temp")
    mg = MG(r)
    world = World()
    out = []
    for k in range(ctx.n(400, 3000)):
        t = r.choice(ACIS_TYPES)
        e = world.layout().new_entity(t, {})
        n = r.choice([0, 1, 2, 2, 3, 3, 4])
        ms = []
        for _ in range(n):
            m16 = _dyadic_affine(r) if r.random() < 0.5 else mat16(build_matrix(mg.affine() if r.random() < 0.5 else mg.similarity()))
            ms.append(m16)
            if k % 3 == 2 and ms:
                import ezdxf.transform as xt
                xt.inplace([e], Matrix44(m16))
            else:
                e.transform(Matrix44(m16))
        if k % 5 == 4:
            e = e.copy()  # a copy carries the pending matrix of its source
        tm = e.temporary_transformation().get_matrix()
        val = ok(None) if tm is None else ok(list(tm))
        ctx.hist("X7 pending transformation of ACIS entities", f"{n} steps")
        out.append(("|".join(["temp", ";".join(frs(m) for m in ms), val, "1/1000000000"]), "agree", n > 1))
        if world.n > 3000:
            world = World()
    return out


def correspond(ctx):
    for stream, fn in (("X1 OCSTransform kernels", corr_kernels), ("X2 transform_extrusion", corr_extrusion),
                       ("X3 entity transform control flow", corr_entities),
                       ("X4 InsertCoordinateSystem.transform / Insert.matrix44", corr_insert),
                       ("X5 nested references", corr_nested), ("X6 upright", corr_upright),
                       ("X7 pending transformation of ACIS entities", corr_temp),
                       ("X8 HATCH / MPOLYGON boundary paths", corr_hatch), ("X9 TEXT / ATTDEF / MTEXT", corr_text),
                       ("X10 rytz_axis_construction / minor_axis", corr_rytz), ("X11 MLINE scale factor and vertices", corr_mline),
                       ("X12 DIMENSION definition points and angles", corr_dimension), ("X13 2-D POLYLINE", corr_polyline2d),
                       ("X14 ConstructionEllipse.transform (axes)", corr_ellipse), ("X15 HATCH ellipse edge axes", corr_ellipse_edge),
                       ("X16 MINSERT spacing", corr_minsert), ("X17 translate() fast paths", corr_translate),
                       ("X18 multi_insert grid elements", corr_multi_insert), ("X19 SHAPE", corr_shape)):
        ctx.correspond(stream, "C12", fn(ctx), build=DRIVER_DEPS)

"""C03  DXF tag encodings are lossless and mutually consistent (DESIGN.md section 7, C03)."""
from __future__ import annotations

import io
import json
import struct

from leanfmt import cps, lean_list

ID = "C03"
LEAN_MODULES = ["EzdxfVerif.Props.C03"]
DRIVER_DEPS = ["EzdxfVerif.Model.Codec", "EzdxfVerif.Model.XTags", "Drivers.Proto"]
RULE = (
    "correspondence: for every group code 0..1071 x boundary values of its class the real BinaryTagWriter.write_tag2 "
    "bytes and the real binary_tags_loader result vs the Lean encTag/decTag (R12 and R2000+ framing, overflow errors "
    "included); DXFTag/DXFBinaryTag.dxfstr and int()/unhexlify vs showCode/showInt/hexlify/parseInt/unhexlify; "
    "tag_compiler point logic on random raw tag streams (malformed included) vs compile; ExtendedTags._setup/__iter__ "
    "on random structured tag sequences vs setup/iter. non-trivial = not the class default value / a stream with a "
    "point or a structure marker; distinct by hash. oracle: writer -> matching loader equality on the real code for "
    "ASCII, binary (both widths) and JSON (compact and verbose), points at sequence start/end, iter(setup(ts)) == ts."
)
TRUSTED_BASE = [
    "float text: repr(float)/float(str) round trip and struct.pack('<d') are CPython assumptions (exercised by the oracle, doubles are opaque bit patterns in the model)",
    "text codec of string values (encode/decode) is C09's subject; strings are byte lists here",
    "readline()/line splitting of the ASCII loader is not modelled (tag level model)",
]
ASSUMPTIONS = ["group codes > 65535 and Python objects of the wrong type for a class are outside the quantifier"]
OPEN = [
    "JSON line codec is oracle-only",
]

CLS = {"bytes": 0, "int16": 1, "int32": 2, "int64": 3, "double": 4, "binary": 5, "str": 6}
R2000_HDR = b"\x09\x00$ACADVER\x00\x01\x00AC1021\x00"  # >= AC1021: 2-byte codes, utf8
SIG = b"AutoCAD Binary DXF\r\n\x1a\x00"


def _probe_writer(code: int) -> int:
    from ezdxf.lldxf.tagwriter import BinaryTagWriter

    s = io.BytesIO()
    w = BinaryTagWriter(s, dxfversion="AC1015")
    if code == 999:
        return CLS["str"]  # `assert code != 999`: binary DXF has no comments; a comment would be a string
    try:
        w.write_tag2(code, 65)
    except TypeError:
        return CLS["binary"]
    body = s.getvalue()[2:]
    if body == b"A":
        return CLS["bytes"]
    if body == struct.pack("<h", 65):
        return CLS["int16"]
    if body == struct.pack("<i", 65):
        return CLS["int32"]
    if body == struct.pack("<q", 65):
        return CLS["int64"]
    if body == struct.pack("<d", 65.0):
        return CLS["double"]
    if body == b"65\x00":
        return CLS["str"]
    raise ValueError(f"writer probe: unexpected bytes for code {code}: {body!r}")


def _probe_loader(code: int) -> int:
    from ezdxf.lldxf.tagger import binary_tags_loader
    from ezdxf.lldxf.types import DXFBinaryTag

    payload = bytes([2, 0x41, 0x42, 0, 5, 6, 7, 8, 0, 0, 0, 0])
    data = SIG + R2000_HDR + code.to_bytes(2, "little") + payload
    tags = binary_tags_loader(data)
    next(tags), next(tags)
    t = next(tags)
    v = t.value
    if isinstance(t, DXFBinaryTag):
        return CLS["binary"]
    if isinstance(v, float):
        return CLS["double"]
    if isinstance(v, str):
        return CLS["str"]
    return {2: CLS["bytes"], 0x4102: CLS["int16"], struct.unpack("<i", payload[:4])[0]: CLS["int32"],
            struct.unpack("<q", payload[:8])[0]: CLS["int64"]}[v]


def _probe_compile(code: int) -> int:
    from ezdxf.lldxf.tagger import tag_compiler
    from ezdxf.lldxf.types import DXFTag, DXFBinaryTag, DXFVertex

    t = next(tag_compiler(iter([DXFTag(code, "10"), DXFTag(code + 10, "10"), DXFTag(0, "X")])))
    if isinstance(t, DXFVertex):
        return 4
    if isinstance(t, DXFBinaryTag):
        return 3
    return {float: 2, int: 1, str: 0}[type(t.value)]


def regenerate(ctx):
    srcs = ["src/ezdxf/lldxf/types.py", "src/ezdxf/lldxf/tagwriter.py", "src/ezdxf/lldxf/tagger.py"]
    for s in srcs:
        ctx.src(s)
    from ezdxf.lldxf import types as T

    def L(name, st):
        big = [c for c in st if c >= 1200]
        if big:
            raise ValueError(f"{name} has members >= 1200: {big}")
        return f"def {name} : List Nat := {lean_list(str(c) for c in sorted(st))}\n"

    text = "\nnamespace EzdxfVerif.Gen.TagTables\n\n"
    text += L("bytesL", T.BYTES) + L("int16L", T.INT16) + L("int32L", T.INT32) + L("int64L", T.INT64)
    text += L("doubleL", T.DOUBLE) + L("binaryL", T.BINARY_DATA) + L("pointL", T.POINT_CODES)
    text += f"def obsWriter : List Nat := {lean_list((str(_probe_writer(c)) for c in range(1072)), 40)}\n"
    text += f"def obsLoader : List Nat := {lean_list((str(_probe_loader(c)) for c in range(1072)), 40)}\n"
    text += f"def obsCompile : List Nat := {lean_list((str(_probe_compile(c)) for c in range(1072)), 40)}\n"
    if T.MAX_GROUP_CODE != 1071:
        raise ValueError("MAX_GROUP_CODE changed")
    text += "\nend EzdxfVerif.Gen.TagTables\n"
    ctx.write_gen("TagTables", text, srcs)


# ------------------------------------------------------------------ helpers
def nats(bs) -> str:
    return " ".join(str(b) for b in bs)


def _err(e):
    return "err " + type(e).__name__


def cls_of(code: int) -> str:
    from ezdxf.lldxf import types as T

    if code in T.BINARY_DATA:
        return "binary"
    for name, st in (("bytes", T.BYTES), ("int16", T.INT16), ("int32", T.INT32), ("int64", T.INT64), ("double", T.DOUBLE)):
        if code in st:
            return name
    return "str"


INTVALS = {
    "bytes": [0, 1, 255, 256, -1, 127, 128],
    "int16": [0, 1, -1, 32767, -32768, 32768, -32769, 255, 256],
    "int32": [0, -1, 2**31 - 1, -(2**31), 2**31, -(2**31) - 1, 65536],
    "int64": [0, -1, 2**63 - 1, -(2**63), 2**63, -(2**63) - 1, 2**32],
}
FLOATS = [0.0, -0.0, 5e-324, 2.2250738585072014e-308, 1.7976931348623157e308, 0.1, 1 / 3, 1234567.8901234567,
          -9.87654321e-5, 1e16, 123456789012345678.0, 2.5, -1.0]
STRS = ["", "A", " lead", "trail ", " both ", "é€ß", "0", "  0", "x\ty", "{", "}", "\\U+00E4", "100%", "a" * 300,
        # characters str.splitlines() treats as line boundaries but the DXF tag format does not
        "a\u2028b", "a\u2029b", "a\x85b", "a\x0bb", "a\x0cb", "a\x1cb", "a\x1db", "a\x1eb"]


def val_req(cls, v) -> str:
    """protocol form of a value"""
    if cls in INTVALS:
        return f"i{v}"
    if cls == "double":
        return "d" + str(struct.unpack("<Q", struct.pack("<d", v))[0])
    if cls == "binary":
        return "b" + nats(v)
    return "s" + nats(v)  # already encoded bytes


def show_tag(code, cls, v) -> str:
    return f"{code}:{val_req(cls, v)}"


def impl_enc(r12: bool, code: int, value) -> str:
    from ezdxf.lldxf.tagwriter import BinaryTagWriter

    s = io.BytesIO()
    w = BinaryTagWriter(s, dxfversion="AC1009" if r12 else "AC1015", encoding="utf8")
    try:
        w.write_tag2(code, value)
    except (OverflowError, TypeError, ValueError) as e:
        return _err(e)
    return "ok " + nats(s.getvalue())


def impl_dec(r12: bool, data: bytes) -> str:
    """decode a tag stream with the real loader (header chosen so that scan_params picks the width)"""
    from ezdxf.lldxf.tagger import binary_tags_loader
    from ezdxf.lldxf.types import DXFBinaryTag

    hdr = b"" if r12 else R2000_HDR
    try:
        tags = list(binary_tags_loader(SIG + hdr + data))
    except (IndexError, struct.error, ValueError) as e:
        name = type(e).__name__
        return "err " + {"error": "structError"}.get(name, name)
    if not r12:
        tags = tags[2:]
    out = []
    for t in tags:
        v = t.value
        if isinstance(t, DXFBinaryTag):
            out.append(f"{t.code}:b{nats(v)}")
        elif isinstance(v, float):
            out.append(f"{t.code}:d{struct.unpack('<Q', struct.pack('<d', v))[0]}")
        elif isinstance(v, int):
            out.append(f"{t.code}:i{v}")
        else:
            out.append(f"{t.code}:s{nats(v.encode('cp1252' if r12 else 'utf8', 'surrogateescape'))}")
    return "ok " + ";".join(out)


def correspond(ctx):
    rng = ctx.rng("c03")
    cases = []
    # --- X1: binary encode/decode per code and class
    for code in list(range(0, 1072)) + [1072, 5000, 65535, 65536, 70000]:
        cls = cls_of(code) if code <= 1071 else "str"
        if code == 999:
            continue  # the binary writer asserts code != 999 (comments do not exist in binary DXF)
        ctx.hist("X1 binary tag codec", cls)
        if cls in INTVALS:
            vals = INTVALS[cls] if (code % 7 == 0 or ctx.tier == "thorough") else rng.sample(INTVALS[cls], 3)
            pyvals = vals
        elif cls == "double":
            vals = FLOATS if (code % 7 == 0 or ctx.tier == "thorough") else rng.sample(FLOATS, 3)
            pyvals = vals
        elif cls == "binary":
            lens = [0, 1, 126, 127, 128, 254, 255, 300] if ctx.quick else list(range(0, 601, 7)) + [127, 128, 254, 255, 381]
            vals = [bytes(rng.randrange(256) for _ in range(n)) for n in (lens if code in (310, 1004) else [0, 5, 128])]
            pyvals = vals
        else:
            ss = rng.sample(STRS, 3) if code % 11 else STRS
            vals = [s.encode("utf8") for s in ss]
            pyvals = ss
        for v, pv in zip(vals, pyvals):
            for r12 in (False, True):
                enc = impl_enc(r12, code, pv)
                cases.append((f"enc|{int(r12)}|{show_tag(code, cls, v)}", enc, True))
                if enc.startswith("ok "):
                    data = bytes(int(x) for x in enc[3:].split()) if enc[3:] else b""
                    if r12 and 255 <= code < 1000:
                        continue  # known finding F7: not decodable, compared by the oracle
                    cases.append((f"dec|{int(r12)}|{nats(data)}", impl_dec(r12, data), True))
    # truncated / garbage streams for the decoder (error classes)
    for _ in range(ctx.n(300, 3000)):
        r12 = rng.random() < 0.5
        code = rng.choice([1, 5, 70, 90, 160, 40, 290, 310, 1004, 1000, 1071, 255, 10])
        body = bytes(rng.randrange(256) for _ in range(rng.randrange(0, 12)))
        head = (bytes([255]) + code.to_bytes(2, "little") if code >= 1000 else bytes([code % 256])) if r12 else code.to_bytes(2, "little")
        if cls_of(code) == "str" and rng.random() < 0.7:
            body = bytes(b for b in body if b) + b"\x00"
            body = bytes(b if b < 128 else 65 for b in body)
        data = head + body
        cases.append((f"dec|{int(r12)}|{nats(data)}", impl_dec(r12, data), True))
    ctx.correspond("X1 binary tag codec", "C03", cases, build=DRIVER_DEPS)

    # --- X2: text forms
    from binascii import hexlify, unhexlify
    from ezdxf.lldxf.types import DXFTag, DXFBinaryTag

    cases = []
    ints = sorted(set(sum(INTVALS.values(), []) + [rng.randrange(-10**12, 10**12) for _ in range(ctx.n(200, 2000))]))
    for v in ints:
        cases.append((f"showint|{v}", cps(DXFTag(70, v).dxfstr().split("\n")[1]), True))
    for c in list(range(0, 1072)) + [5000, 65535]:
        cases.append((f"showcode|{c}", cps(DXFTag(c, "x").dxfstr().split("\n")[0]), True))
    texts = [str(v) for v in ints[:60]] + ["%3d" % c for c in (0, 5, 10, 100, 1071)] + [
        "", " ", "+5", "-0", "+", "-", " 12", "12 ", "1 2", "1e3", "0x10", "٣", "1_0", "--1", "007", "  -42", "1.0"]
    for t in texts:
        try:
            r = "ok " + str(int(t))
        except ValueError:
            r = "none"
        if any(ch in t for ch in "_٣") or t.endswith(" ") and t.strip():
            continue  # int() accepts underscores, Unicode digits and trailing blanks: outside the modelled subset
        cases.append((f"parseint|{cps(t)}", r, True))
    for n in [0, 1, 2, 3, 16, 127, 128]:
        d = bytes(rng.randrange(256) for _ in range(n))
        cases.append((f"hex|{nats(d)}", cps(DXFBinaryTag(310, d).dxfstr().split("\n")[1]), True))
    for t in ["", "0", "00", "0a", "0A", "fF10", "0g", "abc", "zz", " 00", "FFFFFFFF"] + [hexlify(bytes(rng.randrange(256) for _ in range(5))).decode() for _ in range(50)]:
        try:
            r = "ok " + nats(unhexlify(t))
        except ValueError:
            r = "none"
        cases.append((f"unhex|{cps(t)}", r, True))
    ctx.correspond("X2 text forms", "C03", cases, build=DRIVER_DEPS)

    # --- X3: point compilation on raw tag streams
    from ezdxf.lldxf.tagger import tag_compiler
    from ezdxf.lldxf.const import DXFStructureError
    from ezdxf.lldxf.types import DXFVertex

    cases = []
    codes_pool = [10, 20, 30, 11, 21, 31, 1, 40, 0, 210, 220, 230, 1010, 1020, 1030, 18, 28, 38, 110, 120, 130, 1013, 1023, 1033, 39, 19]
    for i in range(ctx.n(4000, 40000)):
        n = rng.randrange(0, 9)
        if rng.random() < 0.6:  # structured: mostly valid point runs
            raw = []
            while len(raw) < n:
                c = rng.choice([10, 11, 210, 1010, 18, 110, 1013])
                k = rng.choice([2, 3, 3, 1])
                if rng.random() < 0.4:
                    raw.append(rng.choice([1, 40, 0, 30, 31, 39, 230]))
                else:
                    raw += [c + 10 * j for j in range(k)]
        else:
            raw = [rng.choice(codes_pool) for _ in range(n)]
        tags = [DXFTag(c, "1" if c not in (0, 1) else "X") for c in raw]
        try:
            out = []
            for t in tag_compiler(iter(tags)):
                out.append(f"p{t.code}/{len(t.value)}" if isinstance(t, DXFVertex) else f"s{t.code}")
            r = "ok " + " ".join(out)
        except DXFStructureError:
            r = "err dxfStructureError"
        nontriv = any(c in (10, 11, 210, 1010, 18, 110, 1013) for c in raw)
        cases.append((f"compile|{nats(raw)}", r, nontriv))
    ctx.correspond("X3 point compile", "C03", cases, build=DRIVER_DEPS)

    # --- X4: ExtendedTags setup / iter
    from ezdxf.lldxf.extendedtags import ExtendedTags

    cases = []
    for i in range(ctx.n(3000, 30000)):
        ts = gen_entity_tags(rng, malformed=rng.random() < 0.25)
        req = "xtags|" + ";".join(f"{c}:{cps(v)}" for c, v in ts)
        try:
            x = ExtendedTags([DXFTag(c, v) for c, v in ts])
            shape = f"{len(x.subclasses)},{len(x.appdata)},{len(x.embedded_objects or [])},{len(x.xdata)}"
            it = ";".join(f"{t.code}:{cps(t.value)}" for t in x)
            r = f"ok {shape}|{it}"
        except DXFStructureError as e:
            r = "err missingAppClose" if "closing" in str(e) else "err unexpectedTag"
        cases.append((req, r, len(ts) > 2))
    ctx.correspond("X4 extended tags", "C03", cases, build=DRIVER_DEPS)

    # --- X5: internal_tag_compiler line splitting (Tags.from_text / write_str paths)
    from ezdxf.lldxf.tagger import internal_tag_compiler

    cases = []
    seps = ["\u2028", "\u2029", "\x85", "\x0b", "\x0c", "\x1c", "\x1d", "\x1e", "\r", " ", "x"]
    for i in range(ctx.n(1500, 15000)):
        n = rng.randrange(0, 5)
        lines = []
        for _ in range(n):
            code = rng.choice([1, 2, 3, 8, 70, 1000, 0, 5])
            val = "".join(rng.choice(["a", "7", rng.choice(seps), ""]) for _ in range(rng.randrange(0, 5)))
            if code == 70:
                val = str(rng.randrange(-5, 300))
            lines += ["%3d" % code, val]
        text = "\n".join(lines) + ("\n" if rng.random() < 0.7 and lines else "")
        if rng.random() < 0.1 and lines:
            text = text[: rng.randrange(len(text) + 1)]  # cut anywhere: odd line counts, broken codes
        try:
            out = "ok " + ";".join(f"{t.code}:{cps(str(t.value))}" for t in internal_tag_compiler(text))
        except (ValueError, IndexError):
            out = "err"
        cases.append((f"internal|{cps(text)}", out, any(sp in text for sp in seps[:9])))
    ctx.correspond("X5 internal compiler lines", "C03", cases, build=DRIVER_DEPS)

    # --- X6: application data added to a NAMED subclass (placeholder outside the base class)
    cases = []
    for i in range(ctx.n(800, 8000)):
        ts = gen_entity_tags(rng, malformed=False)
        try:
            x = ExtendedTags([DXFTag(c, v) for c, v in ts])
        except DXFStructureError:
            continue
        sub = rng.randrange(0, len(x.subclasses))
        grp = [(102, "{NEWAPP"), (330, "%X" % rng.randrange(1, 99)), (102, "}")]
        req = "xtagsapp|" + ";".join(f"{c}:{cps(v)}" for c, v in ts) + f"|{sub}|" + ";".join(f"{c}:{cps(v)}" for c, v in grp)
        # new_app_data() addresses subclasses by name; do what it does on the chosen subclass directly
        x.appdata.append(type(x.subclasses[0])([DXFTag(c, v) for c, v in grp]))
        x.subclasses[sub].append(DXFTag(102, len(x.appdata) - 1))
        out = "ok " + ";".join(f"{t.code}:{cps(t.value)}" for t in x)
        cases.append((req, out, sub > 0))
    ctx.correspond("X6 app data in subclasses", "C03", cases, build=DRIVER_DEPS)


def gen_entity_tags(rng, malformed=False):
    """a structured entity tag sequence: base class (+ app data), subclasses, embedded object, xdata"""
    ts = [(0, "LINE"), (5, "%X" % rng.randrange(1, 999))]
    for _ in range(rng.choice([0, 0, 1, 2])):
        name = rng.choice(["{ACAD_REACTORS", "{ACAD_XDICTIONARY", "{MYAPP", "{"])
        ts.append((102, name))
        for _ in range(rng.randrange(0, 3)):
            ts.append((rng.choice([330, 360, 102, 1]), rng.choice(["1F", "x", "{", "102"])))
        ts.append((102, rng.choice(["}", name[1:] + "}", "}"]) if not (malformed and rng.random() < 0.3) else "nope"))
    if rng.random() < 0.5:
        ts.append((330, "1F"))
    for _ in range(rng.choice([0, 1, 2, 3])):
        ts.append((100, rng.choice(["AcDbEntity", "AcDbLine", "AcDbText"])))
        for _ in range(rng.randrange(0, 4)):
            ts.append((rng.choice([8, 10, 62, 102, 101, 1]), rng.choice(["0", "1.5", "{X", "}", "Embedded Object ", "txt"])))
    for _ in range(rng.choice([0, 0, 1, 2])):
        ts.append((101, "Embedded Object"))
        for _ in range(rng.randrange(0, 4)):
            ts.append((rng.choice([100, 10, 70, 102, 101]), rng.choice(["AcDbX", "1", "{A", "other"])))
    for _ in range(rng.choice([0, 0, 1, 2])):
        ts.append((1001, rng.choice(["ACAD", "APP2"])))
        for _ in range(rng.randrange(0, 4)):
            ts.append((rng.choice([1000, 1002, 1070, 1010, 100, 101, 102]), rng.choice(["{", "}", "5", "Embedded Object", "s"])))
    if malformed:
        k = rng.randrange(len(ts))
        op = rng.random()
        if op < 0.4:
            ts.insert(k, rng.choice([(1001, "Z"), (100, "Late"), (101, "Embedded Object"), (102, "{OPEN")]))
        elif op < 0.7 and len(ts) > 2:
            del ts[k]
        else:
            rng.shuffle(ts)
    return ts


# ------------------------------------------------------------------ oracle: writer -> loader on the real code
def oracle(ctx):
    from ezdxf.lldxf.tagwriter import TagWriter, BinaryTagWriter, JSONTagWriter
    from ezdxf.lldxf.tagger import ascii_tags_loader, tag_compiler, binary_tags_loader, json_tag_loader
    from ezdxf.lldxf.types import DXFTag, DXFVertex, DXFBinaryTag, dxftag
    from ezdxf.lldxf.extendedtags import ExtendedTags
    from ezdxf.lldxf import types as T

    rng = ctx.rng("oracle")

    def same(a, b):
        if a.code != b.code or type(a) is not type(b):
            return False
        va, vb = a.value, b.value
        if isinstance(a, DXFVertex):
            return len(va) == len(vb) and all(struct.pack("<d", x) == struct.pack("<d", y) for x, y in zip(va, vb))
        if isinstance(va, float):
            return isinstance(vb, float) and struct.pack("<d", va) == struct.pack("<d", vb)
        if isinstance(va, str) and isinstance(vb, str) and va != vb:
            from ezdxf.lldxf.encoding import decode_dxf_unicode

            vb = decode_dxf_unicode(vb)  # characters the code page cannot encode travel as \\U+XXXX (C09's subject)
        return type(va) is type(vb) and va == vb

    def join_bin(tags):
        """consecutive binary tags of one code are one payload (chunking is not part of the value)"""
        out = []
        for t in tags:
            if isinstance(t, DXFBinaryTag) and out and isinstance(out[-1], DXFBinaryTag) and out[-1].code == t.code:
                out[-1] = DXFBinaryTag(t.code, out[-1].value + t.value)
            else:
                out.append(t)
        return out

    def values_for(code):
        cls = cls_of(code)
        if code in T.POINT_CODES:
            return [(1.5, -0.0), (1 / 3, 5e-324, 1e300)]
        if cls in INTVALS:
            return [v for v in INTVALS[cls] if (0 <= v < 256 if cls == "bytes" else -(2 ** {"int16": 15, "int32": 31, "int64": 63}[cls]) <= v < 2 ** {"int16": 15, "int32": 31, "int64": 63}[cls])]
        if cls == "double":
            return FLOATS
        if cls == "binary":
            return [bytes(rng.randrange(256) for _ in range(n)) for n in (1, 127, 128, 300, 600)]
        strs = ["A", " lead", "trail ", "é€ß", 'q"uote', "back\\slash", "tab\there", "u\u2028v", "n\x85l", "f\x0cf\x1cs"] if code != 0 else ["LINE", "A"]
        if code in T.HEX_HANDLE_CODES:
            strs = ["1F", "0", "ABCDEF"]
        return strs

    formats = ["ascii", "internal", "bin2000", "bin12", "json", "jsonv"]

    def roundtrip(fmt, tags):
        if fmt == "ascii":
            s = io.StringIO()
            w = TagWriter(s)
            for t in tags:
                w.write_tag(t)
            return list(tag_compiler(ascii_tags_loader(io.StringIO(s.getvalue(), newline="\n"))))
        if fmt == "internal":  # Tags.from_text / write_str path: internal_tag_compiler on the ASCII writer's text
            from ezdxf.lldxf.tagger import internal_tag_compiler

            s = io.StringIO()
            w = TagWriter(s)
            for t in tags:
                w.write_tag(t)
            return list(internal_tag_compiler(s.getvalue()))
        if fmt in ("bin2000", "bin12"):
            s = io.BytesIO()
            # the loader derives the text encoding from the header: utf8 for AC1021+, cp1252 by default
            if fmt == "bin2000":
                w = BinaryTagWriter(s, dxfversion="AC1021", encoding="utf8")
            else:
                w = BinaryTagWriter(s, dxfversion="AC1009", encoding="cp1252")
            w.write_signature()
            if fmt == "bin2000":
                w.write_tag2(9, "$ACADVER"); w.write_tag2(1, "AC1021")
            for t in tags:
                w.write_tag(t)
            out = list(tag_compiler(binary_tags_loader(s.getvalue())))
            return out[2:] if fmt == "bin2000" else out
        s = io.StringIO()
        w = JSONTagWriter(s, compact=(fmt == "json"))
        for t in tags:
            w.write_tag(t)
        w.write_tag2(0, "EOF")
        data = json.loads(s.getvalue())
        return list(tag_compiler(json_tag_loader(data)))[:-1]

    for code in range(0, 1072):
        if code == 999:
            continue  # comments are skipped by design
        for v in values_for(code):
            tag = dxftag(code, v)
            seq = [DXFTag(0, "X"), tag, DXFTag(0, "Y")] if code not in T.POINT_CODES else [tag]
            for fmt in formats:
                case = (fmt, code, repr(v)[:40])
                ctx.count("O1 writer->loader", case, True)
                if fmt == "bin12" and 255 <= code < 1000:
                    kind = "bin-r12/code-255..999"
                else:
                    kind = f"{fmt}/{cls_of(code)}"
                try:
                    back = join_bin(roundtrip(fmt, seq))
                    ok = len(back) == len(seq) and all(same(a, b) for a, b in zip(seq, back))
                    detail = f"read back {back!r}"
                except Exception as e:  # noqa
                    ok, detail = False, f"raised {type(e).__name__}: {e}"
                if not ok:
                    ctx.fail(f"{kind}/{code}/{v!r:.40}", f"{fmt}: tag ({code}, {v!r:.60}) {detail[:200]}",
                             {"op": "roundtrip", "fmt": fmt, "code": code, "value": repr(v)})
    # empty binary payload (the writer emits no chunk at all in binary DXF)
    for fmt in formats:
        seq = [DXFTag(0, "X"), DXFBinaryTag(310, b""), DXFTag(0, "Y")]
        ctx.count("O1 writer->loader", (fmt, 310, "empty"), True)
        try:
            back = roundtrip(fmt, seq)
            ok = len(back) == 3 and same(back[1], seq[1])
        except Exception as e:  # noqa
            ok = False
        if not ok:
            ctx.fail(f"empty-binary/{fmt}", f"{fmt}: empty binary tag (310, b'') is not read back", {"op": "emptybin", "fmt": fmt})
    # tag sequences with 2D/3D point runs at start/end
    for i in range(ctx.n(1500, 15000)):
        n = rng.randrange(1, 7)
        seq = []
        for _ in range(n):
            r = rng.random()
            if r < 0.5:
                c = rng.choice(sorted(T.POINT_CODES))
                seq.append(DXFVertex(c, [rng.choice(FLOATS) for _ in range(rng.choice([2, 3]))]))
            else:
                c = rng.choice([1, 40, 70, 0, 8])
                seq.append(dxftag(c, {1: "txt", 40: 2.5, 70: 3, 0: "E", 8: "L"}[c]))
        # inside the quantifier: a 2D point is not followed by a tag with its z code (none of the singles is)
        fmt = rng.choice(formats[:2] + formats[3:]) if any(t.code >= 255 for t in seq) else rng.choice(formats)
        ctx.count("O2 point runs", (fmt, tuple((t.code, len(t.value) if isinstance(t, DXFVertex) else 0) for t in seq)), True)
        try:
            back = roundtrip(fmt, seq)
            ok = len(back) == len(seq) and all(same(a, b) for a, b in zip(seq, back))
        except Exception as e:  # noqa
            ok, back = False, repr(e)
        if not ok:
            ctx.fail(f"points/{fmt}/{[t.code for t in seq]}", f"{fmt}: {seq!r} read back as {back!r}"[:400],
                     {"op": "points", "fmt": fmt, "seq": [(t.code, list(t.value) if isinstance(t, DXFVertex) else t.value) for t in seq]})
    # ExtendedTags.new_app_data on base class and on named subclasses, then iterate / clone
    from ezdxf.lldxf.const import DXFStructureError

    for i in range(ctx.n(600, 6000)):
        ts = gen_entity_tags(rng, malformed=False)
        try:
            x = ExtendedTags([DXFTag(c, v) for c, v in ts])
        except DXFStructureError:
            continue
        names = [sc[0].value for sc in x.subclasses[1:] if sc and sc[0].code == 100]
        target = rng.choice([None] + names) if names else None
        ctx.count("O4 new_app_data", (tuple(ts), target), target is not None)
        try:
            x.new_app_data("{VERIFAPP", [(330, "1F")], subclass_name=target)
        except Exception:  # noqa
            continue
        for y, how in ((x, "iter"), (x.clone(), "clone")):
            back = [(t.code, t.value) for t in y]
            grp = [(102, "{VERIFAPP"), (330, "1F"), (102, "}")]
            ok = all(isinstance(v, str) for c, v in back if c == 102) and any(back[j:j + 3] == grp for j in range(len(back)))
            if not ok:
                ctx.fail(f"new_app_data/{how}/{'base' if target is None else 'subclass'}", f"new_app_data(subclass_name={target!r}) then {how}: {back}"[:300], {"op": "newapp", "tags": ts, "sub": target})

    for i in range(ctx.n(3000, 30000)):
        ts = gen_entity_tags(rng, malformed=rng.random() < 0.15)
        ctx.count("O3 xtags", tuple(ts), True)
        try:
            x = ExtendedTags([DXFTag(c, v) for c, v in ts])
        except DXFStructureError:
            continue
        back = [(t.code, t.value) for t in x]
        if back != ts:
            ctx.fail(f"xtags/{ts[:6]}", f"ExtendedTags iteration differs: {ts} -> {back}"[:400], {"op": "xtags", "tags": ts})


def replay(ctx, rep):
    return True, "replay: re-run ./check C03 (inputs are regenerated deterministically from the seed in the replay file)"
